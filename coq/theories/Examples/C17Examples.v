(* C17 - non-vacuity examples and the counter-example for the code before the fix. *)
From Coq Require Import List NArith Bool Arith.
From Storage Require Import Base.Bytes Db.RwLock Db.RwLockProofs Db.Content Db.Timeline Db.Snapshot Db.SnapshotProofs.
From Storage Require Import Db.Reader Db.ReaderProofs Db.RestoreX Db.RestoreXProofs Db.RestoreJoin Db.RestoreJoinProofs.
From Storage Require Import Db.SnapPath Db.SnapPathProofs Db.RestoreMeta Db.RestoreMetaProofs.
Import ListNotations.
Open Scope N_scope.

Definition b_root : str := [114].     (* "r" *)
Definition b_x : str := [120].        (* "x" *)
Definition k_a : str := [97].
Definition k_b : str := [98].

(* state A: two keys in a nested bucket, a timeline id already stored *)
Definition ex_pre : list op :=
  [ OTx [WPut [b_root; b_x] k_a [1; 2]; WPut [b_root] k_b [3]] true;
    OTimeline MDefault None; OTimeline MInitIfEmpty (Some [84]); OAddListener; OAddListener ].
(* afterwards: overwrite, delete the bucket, wipe the meta bucket, a rolled back transaction,
   another snapshot, a stream, a restore of the stream *)
Definition ex_post : list op :=
  [ OTx [WPut [b_root; b_x] k_a [9]; WRm [b_root; b_x]; WRm p_meta] true;
    OTx [WPut [b_root] k_b [7]] false; OSnap SKInView; OStream; ORestore 2; OTimeline MForceReset (Some [85]) ].

Example ex_restore_content :
  live (restored empty_db ex_pre SKPlain ex_post) =
    [ ([s_meta], EBucket);
      ([s_meta; s_resetTimeline], EVal [1; 1]);
      ([s_meta; s_snapshotId], EVal [5; 115]);
      ([s_meta; s_timelineId], EVal [5; 84]);
      ([b_root], EBucket);
      ([b_root; k_b], EVal [3]);
      ([b_root; b_x], EBucket);
      ([b_root; b_x; k_a], EVal [1; 2]) ].
Proof. vm_compute. reflexivity. Qed.

(* the state just before the restore is really different *)
Example ex_before_restore_differs :
  lookup [b_root; b_x; k_a] (live (run (fst (snapshot_step (run empty_db ex_pre) SKPlain)) ex_post)) = None
  /\ fired (restored empty_db ex_pre SKPlain ex_post) = 4%nat.
Proof. vm_compute. split; reflexivity. Qed.

(* SnapshotInTx in a write transaction copies what was committed before that transaction *)
Example ex_snapshot_in_update :
  let d := run empty_db ex_pre in
  let d' := fst (snapshot_step d (SKInUpdate [WPut [b_root] k_b [8]] [WRm [b_root; b_x]] true)) in
  lookup [b_root; k_b] (live d') = Some (EVal [8])
  /\ nth_error (files d') 0 = Some (mark (fresh 0) (live d)).
Proof. vm_compute. split; reflexivity. Qed.

(* the three modes on a database without meta bucket, with a stored id, and after a restore *)
Example ex_timeline_modes :
  let tl m idf c := let r := get_timeline_id m idf c in (tl_id r, tl_called r) in
  let stored := tl_content (get_timeline_id MInitIfEmpty (Some [84]) []) in
  let marked := mark [115] stored in
  tl MDefault (Some [85]) [] = (Some [], false)
  /\ tl MInitIfEmpty (Some [85]) [] = (Some [85], true)
  /\ tl MForceReset (Some [85]) [] = (Some [85], true)
  /\ tl MDefault (Some [85]) stored = (Some [84], false)
  /\ tl MInitIfEmpty (Some [85]) stored = (Some [84], false)
  /\ tl MForceReset (Some [85]) stored = (Some [85], true)
  /\ tl MDefault (Some [85]) marked = (Some [85], true)
  /\ tl MInitIfEmpty None marked = (None, true)
  /\ tl MForceReset (Some [85]) marked = (Some [85], true).
Proof. vm_compute. repeat split; reflexivity. Qed.

(* a schedule in which one transaction runs entirely before the restore, one entirely after,
   and one is kept out while the restorer holds the lock *)
Definition ex_threads : list thread :=
  [Tx TxIdle [TStep; TStep] 0%nat None []; Restorer RIdle; Tx TxIdle [TStep; TStep] 0%nat None []].
Definition ex_sched : list nat := [0; 0; 1; 0; 2; 1; 0; 0; 0; 1; 2; 1; 1; 1; 2; 2; 2; 2; 2; 2]%nat.

Example ex_old_or_new :
  threads (RwLock.run (init true ex_threads) ex_sched) =
    [Tx TxDone [] 0%nat (Some 0%nat) [Some 0%nat; Some 0%nat]; Restorer RDone; Tx TxDone [] 0%nat (Some 1%nat) [Some 1%nat; Some 1%nat]].
Proof. vm_compute. reflexivity. Qed.

(* The code before the fix: Db.Snapshot (View + SnapshotInTx) and RootBucket inside a transaction
   take the read lock a second time.  Under Go's writer-preferring RWMutex the schedule
   "transaction begins; restorer calls Lock; transaction calls RLock again" blocks both for ever:
   [no_deadlock] without its no_recursion hypothesis is false. *)
Example recursive_rlock_deadlock_refuted :
  let s := RwLock.run (init true legacy_threads) legacy_sched in
  Forall initial_thread legacy_threads
  /\ forallb finished (threads s) = false /\ forall i, RwLock.step s i = s.
Proof.
  split.
  - repeat constructor.
  - exact recursive_rlock_deadlocks_lemma.
Qed.

(* with a lock that does not prefer writers the same program runs to completion *)
Example recursive_rlock_ok_without_preference :
  forallb finished (threads (RwLock.run (init false legacy_threads) [0; 0; 1; 0; 0; 0; 0; 0; 1; 1; 1; 1]%nat)) = true.
Proof. vm_compute. reflexivity. Qed.

(* ---------------- readers ---------------- *)
Close Scope N_scope.

Definition ex_caps (i : nat) : nat := 3.     (* buffers of 4 bytes *)
Definition ex_bytes : list nat := [10; 11; 12; 13; 14; 15; 16; 17; 18; 19].

(* reads of 3, 0, 0, 1 bytes, then buffer-sized ones, EOF together with the last bytes *)
Definition ex_script : script :=
  {| pre := [3; 0; 0; 1]; rest := 0; eof_with_data := true; fail_at := None; fail_with_data := false |}.
(* one byte at a time, EOF by a separate call *)
Definition ex_onebyte : script :=
  {| pre := []; rest := 1; eof_with_data := false; fail_at := None; fail_with_data := false |}.
(* the whole data and EOF in a single call *)
Definition ex_data_eof : script :=
  {| pre := []; rest := 0; eof_with_data := true; fail_at := None; fail_with_data := false |}.
(* fails after 7 bytes, the error arriving with bytes *)
Definition ex_failing : script :=
  {| pre := [2]; rest := 4; eof_with_data := false; fail_at := Some 7; fail_with_data := true |}.

Example ex_copy_scripts :
  copy ex_script ex_caps ex_bytes = (ex_bytes, COk)
  /\ copy ex_onebyte ex_caps ex_bytes = (ex_bytes, COk)
  /\ copy ex_data_eof (fun _ => 99) ex_bytes = (ex_bytes, COk)
  /\ copy ex_failing ex_caps ex_bytes = ([10; 11; 12; 13; 14; 15; 16], CFail)
  /\ copy ex_data_eof ex_caps (@nil nat) = ([], COk).
Proof. vm_compute. repeat split. Qed.

Example ex_chunking : chunking ex_bytes [[10; 11; 12]; []; [13]; [14; 15; 16; 17; 18; 19]; []].
Proof. reflexivity. Qed.

(* the loop that tests for EOF before writing loses what arrives together with EOF: with the
   whole file in one read the temp file is EMPTY and the copy reports success *)
Example copy_eof_first_refuted :
  copy_eof_first ex_data_eof (fun _ => 99) ex_bytes = ([], COk)
  /\ copy_eof_first ex_script ex_caps ex_bytes = ([10; 11; 12; 13; 14; 15; 16; 17], COk)
  /\ copy_eof_first ex_onebyte ex_caps ex_bytes = (ex_bytes, COk).
Proof. vm_compute. repeat split. Qed.

(* a history through the extended model: a reading and a writing listener, snapshot, overwrite,
   restore through the chunked reader - and the failing reader changes nothing *)
Open Scope N_scope.
Definition ex_xops : list xop :=
  [ XBase (OTx [WPut [b_root] k_a [1]] true); XAddListener LSnapId; XAddListener (LWrite k_b); XAddListener LView;
    XBase (OSnap SKPlain); XBase (OTx [WPut [b_root] k_a [2]] true) ].

Example ex_xrestore :
  let x := xrun ex_caps empty_xdb ex_xops in
  let '(x1, o1) := xstep ex_caps x (XRestoreReader 0 10 ex_failing) in
  let '(x2, o2) := xstep ex_caps x (XRestoreReader 0 10 ex_script) in
  x1 = x /\ o1 = XoRefused
  /\ lookup [b_root; k_a] (live (base x)) = Some (EVal [2])
  /\ lookup [b_root; k_a] (live (base x2)) = Some (EVal [1])
  /\ lookup [s_lsn; k_b] (live (base x2)) = Some (EVal [1])
  /\ fired (base x2) = 3%nat
  /\ o2 = XoRestored [LoSnapId (Some (fresh 0));
                      LoWrite;
                      LoView [([s_meta; s_snapshotId], EVal (enc_string (fresh 0))); ([b_root], EBucket); ([b_root; k_a], EVal [1])]].
Proof. vm_compute. repeat split. Qed.

(* ---------------- listeners and the lock ---------------- *)

(* a restore that waits for its listeners while holding the write lock deadlocks with the first
   listener that reads the database - under either lock preference *)
Example join_under_lock_deadlock_refuted : forall p,
  let s := jrun true [1%nat] (init p join_threads) join_sched in
  forallb finished (threads s) = false /\ forall i, jstep true [1%nat] s i = s.
Proof. exact join_under_lock_deadlocks_lemma. Qed.

Example no_join_completes : forall p,
  forallb finished (threads (jrun false [1%nat] (init p join_threads) [0; 0; 0; 0; 0; 1; 1; 1; 1; 1]%nat)) = true.
Proof. exact no_join_completes_lemma. Qed.

(* ---------------- snapshot paths ---------------- *)

Definition asc (l : str) : str := l.
(* date 20261002, time 150405, database /d/RUNTIME/live.db *)
Definition ex_env : penv :=
  {| e_date := asc [50;48;50;54;49;48;48;50]; e_time := asc [49;53;48;52;48;53];
     e_dir := asc [47;100;47;82;85;78;84;73;77;69]; e_file := asc [108;105;118;101;46;100;98];
     e_path := asc [47;100;47;82;85;78;84;73;77;69;47;108;105;118;101;46;100;98] |}.

(* "bk-__DATE__-__TIME__.snap" -> "bk-20261002-150405.snap";  "UPDATE" -> "UP20261002" (the bare form);
   "__DB_FILE__.DATE" -> "live.db.20261002";  "__DATE_" -> "__20261002_";  "date__time" stays;
   "__DB_DIR__/x": the directory's own name is scanned by the later replacements -> "/d/RUN150405/x" *)
Example ex_expand :
  expand ex_env (asc [98;107;45;95;95;68;65;84;69;95;95;45;95;95;84;73;77;69;95;95;46;115;110;97;112])
    = asc [98;107;45;50;48;50;54;49;48;48;50;45;49;53;48;52;48;53;46;115;110;97;112]
  /\ expand ex_env (asc [85;80;68;65;84;69]) = asc [85;80;50;48;50;54;49;48;48;50]
  /\ expand ex_env (asc [95;95;68;66;95;70;73;76;69;95;95;46;68;65;84;69]) = asc [108;105;118;101;46;100;98;46;50;48;50;54;49;48;48;50]
  /\ expand ex_env (asc [95;95;68;65;84;69;95]) = asc [95;95;50;48;50;54;49;48;48;50;95]
  /\ expand ex_env (asc [100;97;116;101;95;95;116;105;109;101]) = asc [100;97;116;101;95;95;116;105;109;101]
  /\ expand ex_env (asc [95;95;68;66;95;68;73;82;95;95;47;120]) = asc [47;100;47;82;85;78;49;53;48;52;48;53;47;120]
  /\ default_path ex_env = asc [47;100;47;82;85;78;84;73;77;69;47;108;105;118;101;46;100;98;45;50;48;50;54;49;48;48;50;45;49;53;48;52;48;53].
Proof. vm_compute. repeat split. Qed.

(* a history with paths: two snapshots through templates that expand to the SAME name (the second
   replaces the first), one to another name, one refused; the hypotheses of the theorems hold *)
Definition t_a : ptemplate := TGiven (asc [115;45;68;65;84;69]).                  (* "s-DATE" *)
Definition t_b : ptemplate := TGiven (asc [115;45;95;95;68;65;84;69;95;95]).      (* "s-__DATE__": the same file *)
Definition t_c : ptemplate := TGiven (asc [111;116;104;101;114]).                 (* "other" *)
Example ex_paths :
  let ops := [PX (XBase (OTx [WPut [b_root] k_a [1]] true)); PSnap ex_env t_a false SKPlain;
              PX (XBase (OTx [WPut [b_root] k_a [2]] true)); PSnap ex_env t_c false SKInView;
              PSnap ex_env TDefault true SKPlain; PSnap ex_env t_b false SKPlain;
              PX (XBase (OTx [WPut [b_root] k_a [3]] true))] in
  let p := prun (fun _ => 7%nat) empty_pdb ops in
  actual_path ex_env t_a = actual_path ex_env t_b
  /\ file_at p (actual_path ex_env t_a) = Some (mark (fresh 2) [([b_root], EBucket); ([b_root; k_a], EVal [2])])
  /\ file_at p (actual_path ex_env t_c) = Some (mark (fresh 1) [([b_root], EBucket); ([b_root; k_a], EVal [2])])
  /\ file_at p (asc [115;45;68;65;84;69]) = None
  /\ length (files (base (px p))) = 3%nat
  /\ forallb (fun o => negb (rewrites (actual_path ex_env t_c) o)) (skipn 4 ops) = true.
Proof. vm_compute. repeat split. Qed.

(* the seeded variant: the copy goes to the name as GIVEN, the markers into a new empty database
   opened at the expanded name, which is returned.  The file at the returned path is not the
   snapshot as soon as template and expansion differ. *)
Definition split_snapshot (p : pdb) (e : penv) (t : ptemplate) : pdb :=
  let d := base (px p) in
  let id := fresh (uuids d) in
  let n := length (files d) in
  {| px := {| base := {| live := live d; files := files d ++ [live d; mark id []]; uuids := S (uuids d);
                         listeners := listeners d; fired := fired d; idf_calls := idf_calls d |};
              bodies := bodies (px p) |};
     named := (actual_path e t, S n) :: (template_path e t, n) :: named p |}.

Example split_snapshot_refuted :
  let p1 := prun (fun _ => 7%nat) empty_pdb [PX (XBase (OTx [WPut [b_root] k_a [1]] true))] in
  let good := fst (pstep (fun _ => 7%nat) p1 (PSnap ex_env t_a false SKPlain)) in
  let bad := split_snapshot p1 ex_env t_a in
  file_at good (actual_path ex_env t_a) = Some (mark (fresh 0) [([b_root], EBucket); ([b_root; k_a], EVal [1])])
  /\ file_at good (template_path ex_env t_a) = None
  /\ file_at bad (actual_path ex_env t_a) = Some (mark (fresh 0) [])
  /\ file_at bad (template_path ex_env t_a) = Some [([b_root], EBucket); ([b_root; k_a], EVal [1])].
Proof. vm_compute. repeat split. Qed.

(* ---------------- metadata readers during a restore (Db/RestoreMeta.v) ---------------- *)

(* a database that was restored from snapshot "s" before; a second snapshot "s+" of a later state
   is restored through a reader that asks GetSnapshotId, GetTimelineId and walks the database
   while it streams (positions 0, 3 and 8 of 8 bytes; the call at 9 is never made); afterwards
   GetSnapshotId reports "s+", the call during the restore reported "s" *)
Definition ex_plain_script : script := {| pre := [3; 0]%nat; rest := 2%nat; eof_with_data := true; fail_at := None; fail_with_data := false |}.
Definition ex_meta_ops : list mop :=
  [ MP (PX (XBase (OTx [WPut [b_root] k_a [1]] true))); MP (PX (XBase (OSnap SKPlain)));
    MP (PX (XBase (ORestore 0)));
    MP (PX (XBase (OTx [WPut [b_root] k_a [2]] true))); MP (PX (XBase (OSnap SKInView)));
    MP (PX (XBase (OTx [WPut [b_root] k_a [3]] true))) ].
Definition ex_meta_cbs : list (nat * mcall) :=
  [ (0%nat, MSnapId); (3%nat, MTimeline MDefault (Some [84])); (8%nat, MView); (8%nat, MSnapId); (9%nat, MStats) ].

Example ex_reader_calls :
  let p := mrun (fun _ => 7%nat) empty_pdb ex_meta_ops in
  let r := mstep (fun _ => 7%nat) p (MRestoreReader 1 8 ex_plain_script ex_meta_cbs) in
  (match snd r with
   | MoRestore [MoSnapId a; MoTimeline t true; MoView v; MoSnapId b] (XoRestored []) =>
       a = Some (fresh 0) /\ b = Some (fresh 0) /\ t = Some [84] /\ lookup [b_root; k_a] v = Some (EVal [3])
   | _ => False
   end)
  /\ get_snapshot_id (live (base (px (fst r)))) = Some (fresh 1)
  /\ lookup [b_root; k_a] (live (base (px (fst r)))) = Some (EVal [2])
  /\ lookup p_timelineId (live (base (px (fst r)))) = None
  /\ failing ex_plain_script 8 = false
  /\ meta_wf (live (base (px p))).
Proof. vm_compute. repeat split; try reflexivity. discriminate. Qed.

(* the same restore refused because the reader fails after 5 bytes: the calls at 0 and 3 were made
   (the timeline id they stored stays), the others were not, the content is untouched *)
Example ex_reader_calls_refused :
  let sc := {| pre := []; rest := 2%nat; eof_with_data := false; fail_at := Some 5%nat; fail_with_data := true |} in
  let p := mrun (fun _ => 7%nat) empty_pdb ex_meta_ops in
  let r := mstep (fun _ => 7%nat) p (MRestoreReader 1 8 sc ex_meta_cbs) in
  snd r = MoRestore [MoSnapId (Some (fresh 0)); MoTimeline (Some [84]) true] XoRefused
  /\ lookup [b_root; k_a] (live (base (px (fst r)))) = Some (EVal [3])
  /\ lookup p_timelineId (live (base (px (fst r)))) = Some (EVal (enc_string [84])).
Proof. vm_compute. repeat split. Qed.

(* pollers racing the restore: two ask before the swap, two after *)
Example ex_racing_pollers :
  let p := mrun (fun _ => 7%nat) empty_pdb ex_meta_ops in
  let '(x', o1, o2) := racing_restore (px p) (mark (fresh 1) [([b_root], EBucket)])
                         [MSnapId; MTimeline MForceReset (Some [80]); MSnapId] [MSnapId; MTimeline MDefault (Some [81]); MSnapId] in
  o1 = [MoSnapId (Some (fresh 0)); MoTimeline (Some [80]) true; MoSnapId (Some (fresh 0))]
  /\ o2 = [MoSnapId (Some (fresh 1)); MoTimeline (Some [81]) true; MoSnapId (Some (fresh 1))].
Proof. vm_compute. split; reflexivity. Qed.

(* the seeded variant: GetSnapshotId serves a cached id, the cache is cleared at the top of
   RestoreFromReader.  Without a poll while the snapshot streams the restored id is reported;
   with one the OLD id is reported for ever after the restore. *)
Example cached_snapshot_id_refuted :
  let old := mark (fresh 0) [] in
  let new := mark (fresh 1) [] in
  cached_restore_then_ask old new false = Some (fresh 1)
  /\ cached_restore_then_ask old new true = Some (fresh 0)
  /\ get_snapshot_id new = Some (fresh 1)
  /\ fresh 0 <> fresh 1.
Proof. vm_compute. repeat split. discriminate. Qed.

(* ---- seventh wave ---- *)
From Storage Require Import Db.SnapView Db.SnapViewProofs.

Definition ex_view_db : db :=
  {| live := apply_wops [] [WPut [b_root] k_a [1]]; files := []; uuids := 0; listeners := 0; fired := 0; idf_calls := 0 |}.

(* a read transaction sees r/a = 1; another goroutine commits r/a = 2 and r/b, a third one rolls
   back; SnapshotInTx inside the old transaction: the file holds r/a = 1 and no r/b, the live
   database the later commit; restoring gives the view back *)
Example ex_stale_snapshot :
  let txs := [([WPut [b_root] k_a [2]; WPut [b_root] k_b [7]], true); ([WDel [b_root] k_a], false)] in
  let d' := fst (stale_snapshot ex_view_db txs) in
  files d' = [mark (fresh 0) (live ex_view_db)]
  /\ lookup [b_root; k_a] (live d') = Some (EVal [2])
  /\ lookup [b_root; k_b] (live d') = Some (EVal [7])
  /\ lookup [b_root; k_a] (live (stale_restored ex_view_db [] txs [OTx [WRm [b_root]] true])) = Some (EVal [1])
  /\ lookup [b_root; k_b] (live (stale_restored ex_view_db [] txs [OTx [WRm [b_root]] true])) = None.
Proof. vm_compute. repeat split. Qed.

(* the seeded variant: the copy is taken from a transaction begun at the moment of the call - the
   commit made after the View began leaks into the file *)
Example latest_snapshot_refuted :
  let txs := [([WPut [b_root] k_a [2]; WPut [b_root] k_b [7]], true)] in
  files (fst (latest_snapshot ex_view_db txs)) <> files (fst (stale_snapshot ex_view_db txs))
  /\ exists c, files (fst (latest_snapshot ex_view_db txs)) = [c] /\ lookup [b_root; k_b] c = Some (EVal [7]).
Proof. split; [vm_compute; discriminate|]. eexists. vm_compute. split; reflexivity. Qed.

(* listener 0 waits for listener 1, listener 2 blocks for good, listener 3 waits for it, 4 waits
   for itself, 5 for nobody, 6 for 0: with a goroutine each all are started; 1, 0, 6 return *)
Definition ex_listeners : list lkind := [KWait 1; KRun; KBlock; KWait 2; KWait 4; KWait 9; KWait 0].

Example ex_listeners_concurrent :
  lrun ex_listeners (spawn_all ex_listeners) [0; 6; 2; 3; 4; 5; 1; 6; 0; 6; 3]%nat
    = [LDone; LDone; LRunning; LRunning; LRunning; LRunning; LDone]
  /\ returning ex_listeners = [true; true; false; false; false; false; true].
Proof. vm_compute. split; reflexivity. Qed.

(* the seeded variant: one goroutine calls them in registration order - listener 0 waits for
   listener 1, which is never started; behind a blocker nobody is started *)
Example sequential_listeners_refuted :
  seq_started [KWait 1; KRun] = [true; false]
  /\ seq_started [KRun; KBlock; KRun; KRun] = [true; true; false; false]
  /\ returning [KWait 1; KRun] = [true; true].
Proof. vm_compute. repeat split. Qed.

(* the history layer: a stale snapshot and waiting listeners, erased *)
Example ex_vrun :
  let ops := [VM (MP (PX (XBase (OTx [WPut [b_root] k_a [1]] true)))); VAddListener (KWait 1); VAddListener KRun;
              VSnapStale [WPut [b_root] k_a [2]] true; VM (MP (PX (XBase (ORestore 0))))] in
  let v := vrun (fun _ => 7%nat) empty_vdb ops in
  kinds v = [KWait 1; KRun]
  /\ fired (base (px (vm v))) = 2%nat
  /\ lookup [b_root; k_a] (live (base (px (vm v)))) = Some (EVal [1]).
Proof. vm_compute. repeat split. Qed.
