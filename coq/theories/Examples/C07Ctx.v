(* Non-vacuity for Properties/C07Ctx.v, and the contract observed for contexts built AROUND the transaction. *)
From Coq Require Import List NArith Bool.
From Storage Require Import Base.Bytes Store.Model Store.XOps Store.TxCtx.
From Storage Require Import Examples.C07Examples.
Import ListNotations.
Open Scope N_scope.

Definition cr (i v : str) : citem := IOp (XBase (mk_create i v)).
Definition obs (p : cprog) := ctx_update sch1 8 st_empty false [] p.
Definition summary (o : cobs) := (co_results o, co_committed o, length (ents (co_state o) s_emp), length (co_events o), co_commit_runs o).

(* the seeded change C07-w3-1 in one line: Db.Update(nil, ..), one create, then
   ctx.GetSystemContext().AddPreCommitAction(failing) - the transaction must fail *)
Example derived_system_context_after_create :
  summary (obs (mkCprog true [] [] [cr [97] [120]; IReg [DWrap WGetSys] (APre 1 true)])) = ([None], false, 0, 0, [])%nat.
Proof. vm_compute. reflexivity. Qed.

(* wrapper of a wrapper of what UpdateContext returned, inside db.Batch joined inside db.Update joined, opened with
   a system context; a commit action registered on the way does not run *)
Example long_derivation_before_create :
  summary (obs (mkCprog false [WGetSys] [([WNewSys], ACommit 7)]
     [IReg [DWrap WGetSys; DJoin false; DWrap WUpdCtx; DJoin true; DWrap WGetSys; DWrap WNewSys] (APre 1 true);
      IReg [DWrap WGetSys] (ACommit 8); cr [97] [120]])) = ([None], false, 0, 0, [])%nat.
Proof. vm_compute. reflexivity. Qed.

(* actions that succeed do not fail anything; every commit action runs once, in registration order per object *)
Example succeeding_actions_commit :
  summary (obs (mkCprog false [] [([WGetSys], APre 0 false); ([], ACommit 7)]
     [cr [97] [120]; IReg [DWrap WGetSys] (APre 1 false); IReg [DJoin true] (ACommit 8); IReg [DNewTx] (ACommit 9); cr [98] [121]]))
  = ([None; None], true, 2, 2, [7; 8; 9])%nat.
Proof. vm_compute. reflexivity. Qed.

(* a failing operation after the registration: rollback, result of the operation reported *)
Example failing_op_after_registration :
  summary (obs (mkCprog true [] [] [cr [97] [120]; IReg [DWrap WGetSys] (APre 1 false); cr [98] [120]]))
  = ([None; Some EDuplicate], false, 0, 0, [])%nat.
Proof. vm_compute. reflexivity. Qed.

(* THE OBSERVED CONTRACT for boltz.NewTxMutateContext(ctx.Context(), ctx.Tx()) (also modelled in Store/TxShared.v for
   C08): the new object is bound to the same bbolt transaction - its commit actions run - but nobody calls its
   runPreCommitActions: a failing pre-commit action registered on it is never run and the transaction commits.
   design/C07.md section 9 discusses this as a candidate defect; the check does not assert either way. *)
Example newtx_failing_precommit_is_never_run :
  summary (obs (mkCprog true [] [] [cr [97] [120]; IReg [DNewTx] (APre 1 true); IReg [DNewTx; DJoin false] (ACommit 5)]))
  = ([None], true, 1, 1, [5])%nat.
Proof. vm_compute. reflexivity. Qed.
