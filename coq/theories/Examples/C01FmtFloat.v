(* C01 - the executable number -> string coercion of floats (Ast/FmtFloat.v, strconv.FormatFloat(v,'f',-1,64)):
   concrete values (vm_compute), agreement with the integral formatter on whole numbers, and an instance of the
   C01 theorems with this formatter: a number literal of small magnitude compared with a string field.
   These are Examples (tests by computation), not proofs about the formatter: the theorems of Properties/C01.v
   quantify over every formatter; `./check C01` compares fmt_float_go with strconv.FormatFloat on every run. *)
From Coq Require Import List ZArith NArith Bool.
From Storage Require Import Base.Bytes Ast.F64 Ast.Values Ast.FmtFloat Ast.Schema Ast.Untyped Ast.Typed Ast.Typer
  Ast.Eval Ast.Spec Ast.TyperProofs.
Import ListNotations.
Open Scope N_scope.

(* "0.00001" : 1e-5 is never written with an exponent *)
Example fmt_small : fmt_float_go 0x3EE4F8B588E368F1 = [48;46;48;48;48;48;49].
Proof. vm_compute. reflexivity. Qed.
(* 1e21 = "1" followed by 21 zeros *)
Example fmt_large : fmt_float_go 0x444B1AE4D6E2EF50 = 49 :: repeat 48 21.
Proof. vm_compute. reflexivity. Qed.
(* 2^63 (the integer literal 9223372036854775808 does not fit int64): shortest digits, zero padded *)
Example fmt_two63 : fmt_float_go 0x43E0000000000000 = [57;50;50;51;51;55;50;48;51;54;56;53;52;55;55;54;48;48;48].
Proof. vm_compute. reflexivity. Qed.
(* 0.1, 1.5, -0, 0.30000000000000004 *)
Example fmt_tenth : fmt_float_go 0x3FB999999999999A = [48;46;49].
Proof. vm_compute. reflexivity. Qed.
Example fmt_one_half : fmt_float_go 0x3FF8000000000000 = [49;46;53].
Proof. vm_compute. reflexivity. Qed.
Example fmt_neg_zero : fmt_float_go 0x8000000000000000 = [45;48].
Proof. vm_compute. reflexivity. Qed.
Example fmt_17_digits : fmt_float_go 0x3FD3333333333334 = [48;46;51] ++ repeat 48 15 ++ [52].
Proof. vm_compute. reflexivity. Qed.
(* the smallest subnormal: "0." + 323 zeros + "5" *)
Example fmt_min_subnormal : fmt_float_go 1 = [48;46] ++ repeat 48 323 ++ [53].
Proof. vm_compute. reflexivity. Qed.
Example fmt_nan_inf : fmt_float_go 0x7FF8000000000001 = [78;97;78] /\ fmt_float_go 0x7FF0000000000000 = [43;73;110;102] /\
                      fmt_float_go 0xFFF0000000000000 = [45;73;110;102].
Proof. vm_compute. repeat split. Qed.

(* on whole numbers below 2^53 the formatter agrees with the integral one used so far (bounded test) *)
Example fmt_agrees_on_whole_numbers :
  forallb (fun z => str_eqb (fmt_float_go (of_int64 z)) (fmt_float_int (of_int64 z)))
          [0; 1; -1; 3; 5; 10; 15; 17; 42; -3; 100; 1000000; 2147483647; -2147483648; 9007199254740991; -9007199254740991;
           4503599627370496; 123456789012345]%Z = true.
Proof. vm_compute. reflexivity. Qed.

(* an instance of the theorems: people with a string field; the filter  name = 1e-5  selects exactly the entity
   whose name is the text 0.00001, not the one whose name is 1e-05 *)
Definition ff_name : str := [110;97;109;101].
Definition ff_sch : schema :=
  [ {| st_syms := [ ([105;100], DId); (ff_name, DField TString [] ff_name None) ]; st_maps := [] |} ].
Definition ff_db : db := fun S =>
  match S with
  | O => [ ([97], {| e_fields := [ ([ff_name], VStr [48;46;48;48;48;48;49]) ]; e_sets := [] |});
           ([98], {| e_fields := [ ([ff_name], VStr [49;101;45;48;53]) ]; e_sets := [] |}) ]
  | _ => []
  end.
Definition ff_filter : untyped := UQuery (UBin (LSym ff_name) OpEQ (LFloat 0x3EE4F8B588E368F1)) None None.

Example sample_small_number_vs_string :
  (t <- typer ff_sch 0 ff_filter ;; query_ids fmt_float_go fmt_time_none ff_sch ff_db 0 t) = Ok [[97]] /\
  spec_ids fmt_float_go fmt_time_none ff_sch ff_db 0 ff_filter = [[97]].
Proof. vm_compute. split; reflexivity. Qed.
