(* The schema shapes of the deep-base-path wirings of the C03 stream (harness/cmd/storageharness/store_c03s.go,
   c03DeepWirings: c03acct2 c03acct2s c03acct3 c03acct4s use acct_schema ; c03item1s c03item3 c03item4 use item_schema ;
   c03idx3 / c03casc4 are the stock idx / casc shapes, checked in C03Examples.v / below), as derived by the wiring
   script, and the proof by computation that every unique and set index of a root store passes the well-formedness
   check of the C03 theorems (wf_unique_b / wf_setidx_b) and every unique index of a child store passes wf_cunique_b.
   Where a store's buckets live (BasePath) is not part of the store machine: the same schema stands for every depth. *)
From Coq Require Import List NArith Bool.
From Storage Require Import Base.Bytes Store.Model Store.WfSchema Store.WfSetIdx Store.ReachableConsistent.
From Storage Require Examples.C06Wirings.
Import ListNotations.
Open Scope N_scope.

Definition d_acct : name := [97;99;99;116].
Definition d_adm : name := [97;100;109].
Definition d_org : name := [111;114;103].
Definition d_name : name := [110;97;109;101].
Definition d_email : name := [101;109;97;105;108].
Definition d_note : name := [110;111;116;101].
Definition d_topics : name := [116;111;112;105;99;115].
Definition d_groups : name := [103;114;111;117;112;115].
Definition d_badge : name := [98;97;100;103;101].
Definition d_title : name := [116;105;116;108;101].
Definition d_alias : name := [97;108;105;97;115].
Definition d_labels : name := [108;97;98;101;108;115].
Definition d_item : name := [105;116;101;109].
Definition d_bin : name := [98;105;110].
Definition d_code : name := [99;111;100;101].
Definition d_cats : name := [99;97;116;115].
Definition d_marks : name := [109;97;114;107;115].
Definition d_kinds : name := [107;105;110;100;115].
Definition d_items : name := [105;116;101;109;115].
Definition d_label : name := [108;97;98;101;108].

Definition acct_schema : schema :=
  [ mkSdef d_acct None false [(d_name, false); (d_email, true); (d_note, true)] [d_topics; d_groups]
      [CUnique d_name false; CSetIdx d_topics; CUnique d_email true; CSetIdx d_groups] [];
    mkSdef d_adm (Some d_acct) false [(d_badge, true)] [] [CUnique d_badge true] [];
    mkSdef d_org None false [(d_title, false); (d_alias, true)] [d_labels]
      [CSetIdx d_labels; CUnique d_title false; CUnique d_alias true] [] ].

Definition item_schema : schema :=
  [ mkSdef d_item None false [(d_code, false); (d_alias, true); (d_bin, true)] [d_cats; d_marks]
      [CUnique d_code false; CUnique d_alias true; CFkIndex d_bin d_bin d_items true; CSetIdx d_marks; CSetIdx d_cats] [];
    mkSdef d_bin None false [(d_label, true)] [d_kinds]
      [CFkRestrict d_items; CUnique d_label true; CSetIdx d_kinds] [] ].

Example acct_wf_unique_acct_name : wf_unique_b acct_schema d_acct d_name = true.
Proof. vm_compute. reflexivity. Qed.
Example acct_wf_unique_acct_email : wf_unique_b acct_schema d_acct d_email = true.
Proof. vm_compute. reflexivity. Qed.
Example acct_wf_unique_org_title : wf_unique_b acct_schema d_org d_title = true.
Proof. vm_compute. reflexivity. Qed.
Example acct_wf_unique_org_alias : wf_unique_b acct_schema d_org d_alias = true.
Proof. vm_compute. reflexivity. Qed.
Example acct_wf_setidx_acct_topics : wf_setidx_b acct_schema d_acct d_topics = true.
Proof. vm_compute. reflexivity. Qed.
Example acct_wf_setidx_acct_groups : wf_setidx_b acct_schema d_acct d_groups = true.
Proof. vm_compute. reflexivity. Qed.
Example acct_wf_setidx_org_labels : wf_setidx_b acct_schema d_org d_labels = true.
Proof. vm_compute. reflexivity. Qed.
Example acct_wf_cunique_adm_badge : wf_cunique_b acct_schema d_adm d_badge = true.
Proof. vm_compute. reflexivity. Qed.
Example item_wf_unique_item_code : wf_unique_b item_schema d_item d_code = true.
Proof. vm_compute. reflexivity. Qed.
Example item_wf_unique_item_alias : wf_unique_b item_schema d_item d_alias = true.
Proof. vm_compute. reflexivity. Qed.
Example item_wf_unique_bin_label : wf_unique_b item_schema d_bin d_label = true.
Proof. vm_compute. reflexivity. Qed.
Example item_wf_setidx_item_marks : wf_setidx_b item_schema d_item d_marks = true.
Proof. vm_compute. reflexivity. Qed.
Example item_wf_setidx_item_cats : wf_setidx_b item_schema d_item d_cats = true.
Proof. vm_compute. reflexivity. Qed.
Example item_wf_setidx_bin_kinds : wf_setidx_b item_schema d_bin d_kinds = true.
Proof. vm_compute. reflexivity. Qed.

(* the checks are not vacuous: an index declared twice, or a set index on a back-reference set, is refused *)
Example acct_wf_unique_twice_refused :
  wf_unique_b (mkSdef d_acct None false [(d_name, false)] [] [CUnique d_name false; CUnique d_name true] [] :: nil) d_acct d_name = false.
Proof. vm_compute. reflexivity. Qed.
Example item_wf_setidx_backref_refused :
  wf_setidx_b (map (fun d => if str_eqb (sd_name d) d_bin then mkSdef (sd_name d) (sd_parent d) (sd_ext d) (sd_fields d) (sd_sets d)
                     (CSetIdx d_items :: sd_cons d) (sd_links d) else d) item_schema) d_bin d_items = false.
Proof. vm_compute. reflexivity. Qed.

(* the stock casc shape (used 4 levels deep as c03casc4; the idx shape of c03idx3 is checked in C03Examples.v) *)
Example casc_wf_unique_a_name : wf_unique_b C06Wirings.casc_schema C06Wirings.w_a C06Wirings.w_name = true.
Proof. vm_compute. reflexivity. Qed.
Example casc_wf_unique_c_name : wf_unique_b C06Wirings.casc_schema C06Wirings.w_c C06Wirings.w_name = true.
Proof. vm_compute. reflexivity. Qed.
Example casc_wf_setidx_a_roles : wf_setidx_b C06Wirings.casc_schema C06Wirings.w_a C06Wirings.w_roles = true.
Proof. vm_compute. reflexivity. Qed.
Example casc_wf_cunique_bx_code : wf_cunique_b C06Wirings.casc_schema C06Wirings.w_bx C06Wirings.w_code = true.
Proof. vm_compute. reflexivity. Qed.
Example idx_wf_cunique_mgr_level : wf_cunique_b C06Wirings.idx_schema C06Wirings.w_mgr C06Wirings.w_level = true.
Proof. vm_compute. reflexivity. Qed.

(* ---- typed fields (harness/cmd/storageharness/store_c03t.go: c03typL1 c03typL3s use typ_led_schema ; c03typS1 c03typS2 use
   typ_sen_schema).  The fields serial / slot / opened / rate / on and stamp / weight / port / code / live / rank are int64,
   int32, datetime, float64 and bool fields of the harness entity; the store machine is given (and prints) their values as
   the byte strings of their storage encoding, which are the index keys, so for the machine they are ordinary fields. *)
Definition t_acc : name := [97;99;99].
Definition t_sav : name := [115;97;118].
Definition t_flag : name := [102;108;97;103].
Definition t_serial : name := [115;101;114;105;97;108].
Definition t_slot : name := [115;108;111;116].
Definition t_opened : name := [111;112;101;110;101;100].
Definition t_memo : name := [109;101;109;111].
Definition t_rate : name := [114;97;116;101].
Definition t_on : name := [111;110].
Definition t_why : name := [119;104;121].
Definition t_dev : name := [100;101;118].
Definition t_hub : name := [104;117;98].
Definition t_devx : name := [100;101;118;120].
Definition t_stamp : name := [115;116;97;109;112].
Definition t_weight : name := [119;101;105;103;104;116].
Definition t_port : name := [112;111;114;116].
Definition t_code : name := [99;111;100;101].
Definition t_live : name := [108;105;118;101].
Definition t_rank : name := [114;97;110;107].
Definition t_devs : name := [100;101;118;115].

Definition typ_led_schema : schema :=
  [ mkSdef t_acc None false [(t_serial, false); (t_slot, true); (t_opened, true); (t_memo, true)] [d_topics]
      [CUnique t_serial false; CSetIdx d_topics; CUnique t_slot true; CUnique t_opened true] [];
    mkSdef t_sav (Some t_acc) false [(t_rate, true)] [] [CUnique t_rate true] [];
    mkSdef t_flag None false [(t_on, false); (t_why, true)] [] [CUnique t_on false] [] ].

Definition typ_sen_schema : schema :=
  [ mkSdef t_dev None false [(t_stamp, false); (t_weight, false); (t_port, false); (t_hub, true)] []
      [CUnique t_stamp false; CUnique t_weight false; CFkIndex t_hub t_hub t_devs true; CUnique t_port false] [];
    mkSdef t_hub None false [(t_code, true); (t_live, true); (d_title, false)] [d_kinds]
      [CFkRestrict t_devs; CUnique t_code true; CSetIdx d_kinds; CUnique t_live true; CUnique d_title false] [];
    mkSdef t_devx (Some t_dev) true [(t_rank, false)] [] [CUnique t_rank false] [] ].

Example typ_led_wf_unique_acc_serial : wf_unique_b typ_led_schema t_acc t_serial = true.
Proof. vm_compute. reflexivity. Qed.
Example typ_led_wf_unique_acc_slot : wf_unique_b typ_led_schema t_acc t_slot = true.
Proof. vm_compute. reflexivity. Qed.
Example typ_led_wf_unique_acc_opened : wf_unique_b typ_led_schema t_acc t_opened = true.
Proof. vm_compute. reflexivity. Qed.
Example typ_led_wf_unique_flag_on : wf_unique_b typ_led_schema t_flag t_on = true.
Proof. vm_compute. reflexivity. Qed.
Example typ_led_wf_setidx_acc_topics : wf_setidx_b typ_led_schema t_acc d_topics = true.
Proof. vm_compute. reflexivity. Qed.
Example typ_led_wf_cunique_sav_rate : wf_cunique_b typ_led_schema t_sav t_rate = true.
Proof. vm_compute. reflexivity. Qed.
Example typ_sen_wf_unique_dev_stamp : wf_unique_b typ_sen_schema t_dev t_stamp = true.
Proof. vm_compute. reflexivity. Qed.
Example typ_sen_wf_unique_dev_weight : wf_unique_b typ_sen_schema t_dev t_weight = true.
Proof. vm_compute. reflexivity. Qed.
Example typ_sen_wf_unique_dev_port : wf_unique_b typ_sen_schema t_dev t_port = true.
Proof. vm_compute. reflexivity. Qed.
Example typ_sen_wf_unique_hub_code : wf_unique_b typ_sen_schema t_hub t_code = true.
Proof. vm_compute. reflexivity. Qed.
Example typ_sen_wf_unique_hub_live : wf_unique_b typ_sen_schema t_hub t_live = true.
Proof. vm_compute. reflexivity. Qed.
Example typ_sen_wf_unique_hub_title : wf_unique_b typ_sen_schema t_hub d_title = true.
Proof. vm_compute. reflexivity. Qed.
Example typ_sen_wf_setidx_hub_kinds : wf_setidx_b typ_sen_schema t_hub d_kinds = true.
Proof. vm_compute. reflexivity. Qed.
Example typ_sen_wf_cunique_devx_rank : wf_cunique_b typ_sen_schema t_devx t_rank = true.
Proof. vm_compute. reflexivity. Qed.

(* ---- store families: one parent store with several child stores, plain and Extended(), in every registration order
   (harness/cmd/storageharness/store_c03f.go: c03famXP c03famPX c03famPP c03famXPP c03famPXP c03famPPX c03famXPs).
   BaseStore.DeleteById walks the child stores in registration order and runs the delete constraints of every child store
   that finds the entity (an extended one finds every entity of the parent); in the store machine this is children_delete
   over children_of, so the family shapes are ordinary schemas and every C03 theorem applies to the indexes checked below.
   The text between the two markers is printed by "storageharness store_c03f_coq" from the wirings the harness runs
   (schemas as derived by the wiring script) and compared with this file by checks/c03.py on every run. *)
(* BEGIN generated by storageharness store_c03f_coq *)
Definition fm_code : name := [99;111;100;101].
Definition fm_d : name := [100].
Definition fm_k : name := [107].
Definition fm_labels : name := [108;97;98;101;108;115].
Definition fm_memo : name := [109;101;109;111].
Definition fm_name : name := [110;97;109;101].
Definition fm_nick : name := [110;105;99;107].
Definition fm_o : name := [111].
Definition fm_owner : name := [111;119;110;101;114].
Definition fm_p : name := [112].
Definition fm_pc : name := [112;99].
Definition fm_pd : name := [112;100].
Definition fm_pds : name := [112;100;115].
Definition fm_ps : name := [112;115].
Definition fm_px : name := [112;120].
Definition fm_roles : name := [114;111;108;101;115].
Definition fm_skills : name := [115;107;105;108;108;115].
Definition fm_title : name := [116;105;116;108;101].
Definition fm_x : name := [120].

Definition c03famXP_schema : schema :=
  [ mkSdef fm_p None false [(fm_name, false); (fm_nick, true); (fm_memo, true)] [fm_roles; fm_skills]
      [CUnique fm_name false; CSetIdx fm_roles; CUnique fm_nick true] [];
    mkSdef fm_px (Some fm_p) true [(fm_x, true)] []
      [CUnique fm_x true] [];
    mkSdef fm_pc (Some fm_p) false [(fm_k, true); (fm_code, false)] []
      [CUnique fm_k true; CUnique fm_code false] [] ].
Example c03famXP_wf_unique_p_name : wf_unique_b c03famXP_schema fm_p fm_name = true.
Proof. vm_compute. reflexivity. Qed.
Example c03famXP_wf_setidx_p_roles : wf_setidx_b c03famXP_schema fm_p fm_roles = true.
Proof. vm_compute. reflexivity. Qed.
Example c03famXP_wf_unique_p_nick : wf_unique_b c03famXP_schema fm_p fm_nick = true.
Proof. vm_compute. reflexivity. Qed.
Example c03famXP_wf_cunique_px_x : wf_cunique_b c03famXP_schema fm_px fm_x = true.
Proof. vm_compute. reflexivity. Qed.
Example c03famXP_wf_cunique_pc_k : wf_cunique_b c03famXP_schema fm_pc fm_k = true.
Proof. vm_compute. reflexivity. Qed.
Example c03famXP_wf_cunique_pc_code : wf_cunique_b c03famXP_schema fm_pc fm_code = true.
Proof. vm_compute. reflexivity. Qed.

Definition c03famPX_schema : schema :=
  [ mkSdef fm_p None false [(fm_name, false); (fm_nick, true); (fm_memo, true)] [fm_roles; fm_skills]
      [CUnique fm_name false; CSetIdx fm_roles; CUnique fm_nick true] [];
    mkSdef fm_pc (Some fm_p) false [(fm_k, true); (fm_code, false)] []
      [CUnique fm_k true; CUnique fm_code false] [];
    mkSdef fm_px (Some fm_p) true [(fm_x, true)] []
      [CUnique fm_x true] [] ].
Example c03famPX_wf_unique_p_name : wf_unique_b c03famPX_schema fm_p fm_name = true.
Proof. vm_compute. reflexivity. Qed.
Example c03famPX_wf_setidx_p_roles : wf_setidx_b c03famPX_schema fm_p fm_roles = true.
Proof. vm_compute. reflexivity. Qed.
Example c03famPX_wf_unique_p_nick : wf_unique_b c03famPX_schema fm_p fm_nick = true.
Proof. vm_compute. reflexivity. Qed.
Example c03famPX_wf_cunique_pc_k : wf_cunique_b c03famPX_schema fm_pc fm_k = true.
Proof. vm_compute. reflexivity. Qed.
Example c03famPX_wf_cunique_pc_code : wf_cunique_b c03famPX_schema fm_pc fm_code = true.
Proof. vm_compute. reflexivity. Qed.
Example c03famPX_wf_cunique_px_x : wf_cunique_b c03famPX_schema fm_px fm_x = true.
Proof. vm_compute. reflexivity. Qed.

Definition c03famPP_schema : schema :=
  [ mkSdef fm_p None false [(fm_name, false); (fm_nick, true); (fm_memo, true)] [fm_roles; fm_skills]
      [CSetIdx fm_roles; CUnique fm_name false; CUnique fm_nick true] [];
    mkSdef fm_pd (Some fm_p) false [(fm_d, true)] []
      [CUnique fm_d true] [];
    mkSdef fm_pc (Some fm_p) false [(fm_k, true); (fm_code, false)] []
      [CUnique fm_code false; CUnique fm_k true] [] ].
Example c03famPP_wf_setidx_p_roles : wf_setidx_b c03famPP_schema fm_p fm_roles = true.
Proof. vm_compute. reflexivity. Qed.
Example c03famPP_wf_unique_p_name : wf_unique_b c03famPP_schema fm_p fm_name = true.
Proof. vm_compute. reflexivity. Qed.
Example c03famPP_wf_unique_p_nick : wf_unique_b c03famPP_schema fm_p fm_nick = true.
Proof. vm_compute. reflexivity. Qed.
Example c03famPP_wf_cunique_pd_d : wf_cunique_b c03famPP_schema fm_pd fm_d = true.
Proof. vm_compute. reflexivity. Qed.
Example c03famPP_wf_cunique_pc_code : wf_cunique_b c03famPP_schema fm_pc fm_code = true.
Proof. vm_compute. reflexivity. Qed.
Example c03famPP_wf_cunique_pc_k : wf_cunique_b c03famPP_schema fm_pc fm_k = true.
Proof. vm_compute. reflexivity. Qed.

Definition c03famXPP_schema : schema :=
  [ mkSdef fm_o None false [(fm_title, false)] [fm_labels]
      [CUnique fm_title false; CSetIdx fm_labels; CFkCascade fm_p fm_owner CascDelete] [];
    mkSdef fm_p None false [(fm_name, false); (fm_nick, true); (fm_memo, true); (fm_owner, false)] [fm_roles; fm_skills]
      [CUnique fm_name false; CFkIndex fm_owner fm_o fm_ps false; CSetIdx fm_roles; CUnique fm_nick true] [];
    mkSdef fm_px (Some fm_p) true [(fm_x, true)] []
      [CUnique fm_x true] [];
    mkSdef fm_pc (Some fm_p) false [(fm_k, true); (fm_code, false)] []
      [CUnique fm_k true; CUnique fm_code false] [];
    mkSdef fm_pd (Some fm_p) false [(fm_d, true)] []
      [CUnique fm_d true] [] ].
Example c03famXPP_wf_unique_o_title : wf_unique_b c03famXPP_schema fm_o fm_title = true.
Proof. vm_compute. reflexivity. Qed.
Example c03famXPP_wf_setidx_o_labels : wf_setidx_b c03famXPP_schema fm_o fm_labels = true.
Proof. vm_compute. reflexivity. Qed.
Example c03famXPP_wf_unique_p_name : wf_unique_b c03famXPP_schema fm_p fm_name = true.
Proof. vm_compute. reflexivity. Qed.
Example c03famXPP_wf_setidx_p_roles : wf_setidx_b c03famXPP_schema fm_p fm_roles = true.
Proof. vm_compute. reflexivity. Qed.
Example c03famXPP_wf_unique_p_nick : wf_unique_b c03famXPP_schema fm_p fm_nick = true.
Proof. vm_compute. reflexivity. Qed.
Example c03famXPP_wf_cunique_px_x : wf_cunique_b c03famXPP_schema fm_px fm_x = true.
Proof. vm_compute. reflexivity. Qed.
Example c03famXPP_wf_cunique_pc_k : wf_cunique_b c03famXPP_schema fm_pc fm_k = true.
Proof. vm_compute. reflexivity. Qed.
Example c03famXPP_wf_cunique_pc_code : wf_cunique_b c03famXPP_schema fm_pc fm_code = true.
Proof. vm_compute. reflexivity. Qed.
Example c03famXPP_wf_cunique_pd_d : wf_cunique_b c03famXPP_schema fm_pd fm_d = true.
Proof. vm_compute. reflexivity. Qed.

Definition c03famPXP_schema : schema :=
  [ mkSdef fm_p None false [(fm_name, false); (fm_nick, true); (fm_memo, true)] [fm_roles; fm_skills]
      [CUnique fm_nick true; CSetIdx fm_roles; CUnique fm_name false] [];
    mkSdef fm_pd (Some fm_p) false [(fm_d, true)] []
      [CUnique fm_d true] [];
    mkSdef fm_px (Some fm_p) true [(fm_x, true)] []
      [CUnique fm_x true] [];
    mkSdef fm_pc (Some fm_p) false [(fm_k, true); (fm_code, false)] []
      [CUnique fm_code false; CUnique fm_k true] [] ].
Example c03famPXP_wf_unique_p_nick : wf_unique_b c03famPXP_schema fm_p fm_nick = true.
Proof. vm_compute. reflexivity. Qed.
Example c03famPXP_wf_setidx_p_roles : wf_setidx_b c03famPXP_schema fm_p fm_roles = true.
Proof. vm_compute. reflexivity. Qed.
Example c03famPXP_wf_unique_p_name : wf_unique_b c03famPXP_schema fm_p fm_name = true.
Proof. vm_compute. reflexivity. Qed.
Example c03famPXP_wf_cunique_pd_d : wf_cunique_b c03famPXP_schema fm_pd fm_d = true.
Proof. vm_compute. reflexivity. Qed.
Example c03famPXP_wf_cunique_px_x : wf_cunique_b c03famPXP_schema fm_px fm_x = true.
Proof. vm_compute. reflexivity. Qed.
Example c03famPXP_wf_cunique_pc_code : wf_cunique_b c03famPXP_schema fm_pc fm_code = true.
Proof. vm_compute. reflexivity. Qed.
Example c03famPXP_wf_cunique_pc_k : wf_cunique_b c03famPXP_schema fm_pc fm_k = true.
Proof. vm_compute. reflexivity. Qed.

Definition c03famPPX_schema : schema :=
  [ mkSdef fm_p None false [(fm_name, false); (fm_nick, true); (fm_memo, true)] [fm_roles; fm_skills]
      [CUnique fm_name false; CSetIdx fm_roles; CUnique fm_nick true] [];
    mkSdef fm_o None false [(fm_title, false)] [fm_labels]
      [CFkCascade fm_pd fm_owner CascDelete; CSetIdx fm_labels; CUnique fm_title false] [];
    mkSdef fm_pc (Some fm_p) false [(fm_k, true); (fm_code, false)] []
      [CUnique fm_k true; CUnique fm_code false] [];
    mkSdef fm_pd (Some fm_p) false [(fm_d, true); (fm_owner, false)] []
      [CUnique fm_d true; CFkIndex fm_owner fm_o fm_pds false] [];
    mkSdef fm_px (Some fm_p) true [(fm_x, true)] []
      [CUnique fm_x true] [] ].
Example c03famPPX_wf_unique_p_name : wf_unique_b c03famPPX_schema fm_p fm_name = true.
Proof. vm_compute. reflexivity. Qed.
Example c03famPPX_wf_setidx_p_roles : wf_setidx_b c03famPPX_schema fm_p fm_roles = true.
Proof. vm_compute. reflexivity. Qed.
Example c03famPPX_wf_unique_p_nick : wf_unique_b c03famPPX_schema fm_p fm_nick = true.
Proof. vm_compute. reflexivity. Qed.
Example c03famPPX_wf_setidx_o_labels : wf_setidx_b c03famPPX_schema fm_o fm_labels = true.
Proof. vm_compute. reflexivity. Qed.
Example c03famPPX_wf_unique_o_title : wf_unique_b c03famPPX_schema fm_o fm_title = true.
Proof. vm_compute. reflexivity. Qed.
Example c03famPPX_wf_cunique_pc_k : wf_cunique_b c03famPPX_schema fm_pc fm_k = true.
Proof. vm_compute. reflexivity. Qed.
Example c03famPPX_wf_cunique_pc_code : wf_cunique_b c03famPPX_schema fm_pc fm_code = true.
Proof. vm_compute. reflexivity. Qed.
Example c03famPPX_wf_cunique_pd_d : wf_cunique_b c03famPPX_schema fm_pd fm_d = true.
Proof. vm_compute. reflexivity. Qed.
Example c03famPPX_wf_cunique_px_x : wf_cunique_b c03famPPX_schema fm_px fm_x = true.
Proof. vm_compute. reflexivity. Qed.

Definition c03famXPs_schema : schema :=
  [ mkSdef fm_p None false [(fm_name, false); (fm_nick, true); (fm_memo, true)] [fm_roles; fm_skills]
      [CUnique fm_name false; CSetIdx fm_roles; CUnique fm_nick true] [];
    mkSdef fm_px (Some fm_p) true [(fm_x, true)] []
      [CUnique fm_x true] [];
    mkSdef fm_pc (Some fm_p) false [(fm_k, true); (fm_code, false)] []
      [CSetIdx fm_skills; CUnique fm_k true; CUnique fm_code false] [] ].
Example c03famXPs_wf_unique_p_name : wf_unique_b c03famXPs_schema fm_p fm_name = true.
Proof. vm_compute. reflexivity. Qed.
Example c03famXPs_wf_setidx_p_roles : wf_setidx_b c03famXPs_schema fm_p fm_roles = true.
Proof. vm_compute. reflexivity. Qed.
Example c03famXPs_wf_unique_p_nick : wf_unique_b c03famXPs_schema fm_p fm_nick = true.
Proof. vm_compute. reflexivity. Qed.
Example c03famXPs_wf_cunique_px_x : wf_cunique_b c03famXPs_schema fm_px fm_x = true.
Proof. vm_compute. reflexivity. Qed.
(* set index pc.skills is owned by a child store: outside wf_setidx_b (it demands a root store), see the note below *)
Example c03famXPs_wf_cunique_pc_k : wf_cunique_b c03famXPs_schema fm_pc fm_k = true.
Proof. vm_compute. reflexivity. Qed.
Example c03famXPs_wf_cunique_pc_code : wf_cunique_b c03famXPs_schema fm_pc fm_code = true.
Proof. vm_compute. reflexivity. Qed.

(* END generated by storageharness store_c03f_coq *)

(* The set index pc.skills of c03famXPs is owned by a CHILD store (over a string list of the parent).  wf_setidx_b demands
   a root store, so set_index_mirrors does not speak about it; the check evaluates the statement of the property text for
   it (rows exactly for the entities that live in pc, under exactly the members of their list) on the implementation's
   facts and compares them with the machine's on every run. *)
Example c03famXPs_child_set_index_outside_wf : wf_setidx_b c03famXPs_schema fm_pc fm_skills = false.
Proof. vm_compute. reflexivity. Qed.

(* Non-vacuity: in the machine a delete takes the index entries of EVERY store of the family with it, whichever store the
   entity was created through and whichever store the delete is issued through - also when an extended sibling is
   registered before the child store that holds the entity. *)
Definition fam_mk (s i : name) : op :=
  OCreate s i false [(fm_name, Some [110]); (fm_nick, Some [105]); (fm_memo, None); (fm_k, Some [107]); (fm_code, Some [99]); (fm_x, Some [120])]
    [(fm_roles, [[114]; [115]]); (fm_skills, [[116]])].
Definition fam_all_indexes (st : state) : list (list (str * id)) * list (list (str * list id)) :=
  ([uidx st fm_p fm_name; uidx st fm_p fm_nick; uidx st fm_p fm_k; uidx st fm_p fm_code; uidx st fm_p fm_x],
   [sidx st fm_p fm_roles; sidx st fm_p fm_skills]).
Example fam_xps_create_through_plain_child_fills :
  fam_all_indexes (run_txs c03famXPs_schema 8 st_empty [mkTx false [] [fam_mk fm_pc [97]] false])
  = ([[([110], [97])]; [([105], [97])]; [([107], [97])]; [([99], [97])]; []],
     [[([114], [[97]]); ([115], [[97]])]; [([116], [[97]])]]).
Proof. vm_compute. reflexivity. Qed.
Example fam_xps_delete_through_any_store_empties :
  forallb (fun through => forallb (fun del =>
      match fam_all_indexes (run_txs c03famXPs_schema 8 st_empty
              [mkTx false [] [fam_mk through [97]] false; mkTx false [] [ODelete del [97]] false]) with
      | ([[]; []; []; []; []], [[]; []]) => true
      | _ => false
      end) [fm_p; fm_px; fm_pc]) [fm_p; fm_px; fm_pc] = true.
Proof. vm_compute. reflexivity. Qed.
Example fam_pxp_delete_through_any_store_empties :
  forallb (fun through => forallb (fun del =>
      match fam_all_indexes (run_txs c03famPXP_schema 8 st_empty
              [mkTx false [] [fam_mk through [97]] false; mkTx false [] [ODelete del [97]] false]) with
      | ([[]; []; []; []; []], [[]; []]) => true
      | _ => false
      end) [fm_p; fm_pd; fm_px; fm_pc]) [fm_p; fm_pd; fm_px; fm_pc] = true.
Proof. vm_compute. reflexivity. Qed.
(* ... and the values are free again: the same entity can be created once more through the child store *)
Example fam_xp_recreate_after_delete_commits :
  match run_tx c03famXP_schema 8
          (run_txs c03famXP_schema 8 st_empty [mkTx false [] [fam_mk fm_pc [97]] false; mkTx false [] [ODelete fm_p [97]] false])
          (mkTx false [] [fam_mk fm_pc [98]] false) with
  | (rs, committed, _, _) => (rs, committed)
  end = ([None], true).
Proof. vm_compute. reflexivity. Qed.

(* ---- bare child stores: child stores (plain, Extended(), one without any field, one next to a sibling that owns a unique
   index, a family that is cascade-deleted with its owner) that declare NO index and NO constraint, under a parent store
   that carries unique and set indexes (harness/cmd/storageharness/store_c03b.go: c03bareP c03bareX c03bareXP c03barePu).
   An operation entered through such a store runs the constraint chain of the parent (chain / cons_of), so the C03
   theorems demand that it maintains the parent's indexes.  The text between the two markers is printed by
   "storageharness store_c03b_coq" from the wirings the harness runs and compared with this file by checks/c03.py. *)
(* BEGIN generated by storageharness store_c03b_coq *)
Definition bm_code : name := [99;111;100;101].
Definition bm_d : name := [100].
Definition bm_k : name := [107].
Definition bm_labels : name := [108;97;98;101;108;115].
Definition bm_memo : name := [109;101;109;111].
Definition bm_name : name := [110;97;109;101].
Definition bm_nick : name := [110;105;99;107].
Definition bm_o : name := [111].
Definition bm_owner : name := [111;119;110;101;114].
Definition bm_p : name := [112].
Definition bm_pc : name := [112;99].
Definition bm_pd : name := [112;100].
Definition bm_pe : name := [112;101].
Definition bm_ps : name := [112;115].
Definition bm_px : name := [112;120].
Definition bm_roles : name := [114;111;108;101;115].
Definition bm_skills : name := [115;107;105;108;108;115].
Definition bm_title : name := [116;105;116;108;101].
Definition bm_x : name := [120].

Definition c03bareP_schema : schema :=
  [ mkSdef bm_p None false [(bm_name, false); (bm_nick, true); (bm_memo, true)] [bm_roles; bm_skills]
      [CUnique bm_name false; CSetIdx bm_roles; CUnique bm_nick true; CSetIdx bm_skills] [];
    mkSdef bm_pc (Some bm_p) false [(bm_k, true); (bm_code, false)] []
      [] [] ].
Example c03bareP_wf_unique_p_name : wf_unique_b c03bareP_schema bm_p bm_name = true.
Proof. vm_compute. reflexivity. Qed.
Example c03bareP_wf_setidx_p_roles : wf_setidx_b c03bareP_schema bm_p bm_roles = true.
Proof. vm_compute. reflexivity. Qed.
Example c03bareP_wf_unique_p_nick : wf_unique_b c03bareP_schema bm_p bm_nick = true.
Proof. vm_compute. reflexivity. Qed.
Example c03bareP_wf_setidx_p_skills : wf_setidx_b c03bareP_schema bm_p bm_skills = true.
Proof. vm_compute. reflexivity. Qed.

Definition c03bareX_schema : schema :=
  [ mkSdef bm_p None false [(bm_name, false); (bm_nick, true); (bm_memo, true)] [bm_roles; bm_skills]
      [CSetIdx bm_roles; CUnique bm_nick true; CUnique bm_name false] [];
    mkSdef bm_px (Some bm_p) true [(bm_x, true)] []
      [] [] ].
Example c03bareX_wf_setidx_p_roles : wf_setidx_b c03bareX_schema bm_p bm_roles = true.
Proof. vm_compute. reflexivity. Qed.
Example c03bareX_wf_unique_p_nick : wf_unique_b c03bareX_schema bm_p bm_nick = true.
Proof. vm_compute. reflexivity. Qed.
Example c03bareX_wf_unique_p_name : wf_unique_b c03bareX_schema bm_p bm_name = true.
Proof. vm_compute. reflexivity. Qed.

Definition c03bareXP_schema : schema :=
  [ mkSdef bm_o None false [(bm_title, false)] [bm_labels]
      [CUnique bm_title false; CSetIdx bm_labels; CFkCascade bm_p bm_owner CascDelete] [];
    mkSdef bm_p None false [(bm_name, false); (bm_nick, true); (bm_memo, true); (bm_owner, false)] [bm_roles; bm_skills]
      [CUnique bm_name false; CFkIndex bm_owner bm_o bm_ps false; CSetIdx bm_roles; CUnique bm_nick true] [];
    mkSdef bm_px (Some bm_p) true [(bm_x, true)] []
      [] [];
    mkSdef bm_pc (Some bm_p) false [(bm_k, true); (bm_code, false)] []
      [] [] ].
Example c03bareXP_wf_unique_o_title : wf_unique_b c03bareXP_schema bm_o bm_title = true.
Proof. vm_compute. reflexivity. Qed.
Example c03bareXP_wf_setidx_o_labels : wf_setidx_b c03bareXP_schema bm_o bm_labels = true.
Proof. vm_compute. reflexivity. Qed.
Example c03bareXP_wf_unique_p_name : wf_unique_b c03bareXP_schema bm_p bm_name = true.
Proof. vm_compute. reflexivity. Qed.
Example c03bareXP_wf_setidx_p_roles : wf_setidx_b c03bareXP_schema bm_p bm_roles = true.
Proof. vm_compute. reflexivity. Qed.
Example c03bareXP_wf_unique_p_nick : wf_unique_b c03bareXP_schema bm_p bm_nick = true.
Proof. vm_compute. reflexivity. Qed.

Definition c03barePu_schema : schema :=
  [ mkSdef bm_p None false [(bm_name, false); (bm_nick, true); (bm_memo, true)] [bm_roles; bm_skills]
      [CUnique bm_name false; CSetIdx bm_roles; CUnique bm_nick true; CSetIdx bm_skills] [];
    mkSdef bm_pe (Some bm_p) false [] []
      [] [];
    mkSdef bm_pd (Some bm_p) false [(bm_d, true)] []
      [CUnique bm_d true] [] ].
Example c03barePu_wf_unique_p_name : wf_unique_b c03barePu_schema bm_p bm_name = true.
Proof. vm_compute. reflexivity. Qed.
Example c03barePu_wf_setidx_p_roles : wf_setidx_b c03barePu_schema bm_p bm_roles = true.
Proof. vm_compute. reflexivity. Qed.
Example c03barePu_wf_unique_p_nick : wf_unique_b c03barePu_schema bm_p bm_nick = true.
Proof. vm_compute. reflexivity. Qed.
Example c03barePu_wf_setidx_p_skills : wf_setidx_b c03barePu_schema bm_p bm_skills = true.
Proof. vm_compute. reflexivity. Qed.
Example c03barePu_wf_cunique_pd_d : wf_cunique_b c03barePu_schema bm_pd bm_d = true.
Proof. vm_compute. reflexivity. Qed.

(* END generated by storageharness store_c03b_coq *)

(* Non-vacuity.  In the machine a create through a bare child store fills the parent's indexes, a second entity with the
   same unique value is refused through the same store, and an update that replaces a string list by another GROUPING of
   the same character sequence ({"a", "b,c"} -> {"a,b", "c"}: same size, same text when joined with a comma) moves the
   index rows. *)
Definition bare_mk (s i : name) (nm : str) (l : list str) : op :=
  OCreate s i false [(bm_name, Some nm); (bm_nick, None); (bm_memo, None); (bm_k, None); (bm_code, Some [102])]
    [(bm_roles, l); (bm_skills, [])].
Definition bare_grp1 : list str := [[97]; [98;44;99]].
Definition bare_grp2 : list str := [[97;44;98]; [99]].
Example bare_create_through_child_fills_parent_indexes :
  let st := run_txs c03bareP_schema 8 st_empty [mkTx false [] [bare_mk bm_pc [97] [110] bare_grp1] false] in
  (uidx st bm_p bm_name, sidx st bm_p bm_roles)
  = ([([110], [97])], [([97], [[97]]); ([98;44;99], [[97]])]).
Proof. vm_compute. reflexivity. Qed.
Example bare_duplicate_through_child_refused :
  match run_tx c03bareP_schema 8
          (run_txs c03bareP_schema 8 st_empty [mkTx false [] [bare_mk bm_pc [97] [110] bare_grp1] false])
          (mkTx false [] [bare_mk bm_pc [98] [110] []] false) with
  | (rs, committed, _, _) => (rs, committed)
  end = ([Some EDuplicate], false).
Proof. vm_compute. reflexivity. Qed.
Example bare_regroup_moves_index_rows :
  let st := run_txs c03bareP_schema 8 st_empty
              [mkTx false [] [bare_mk bm_pc [97] [110] bare_grp1] false;
               mkTx false [] [OUpdate bm_pc [97] [] [(bm_roles, bare_grp2)] (Some [bm_roles])] false] in
  sidx st bm_p bm_roles = [([97;44;98], [[97]]); ([99], [[97]])].
Proof. vm_compute. reflexivity. Qed.
