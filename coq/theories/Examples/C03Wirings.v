(* The schema shapes of the deep-base-path wirings of the C03 stream (harness/cmd/storageharness/store_c03s.go,
   c03DeepWirings: c03acct2 c03acct2s c03acct3 c03acct4s use acct_schema ; c03item1s c03item3 c03item4 use item_schema ;
   c03idx3 / c03casc4 are the stock idx / casc shapes, checked in C03Examples.v / below), as derived by the wiring
   script, and the proof by computation that every unique and set index of a root store passes the well-formedness
   check of the C03 theorems (wf_unique_b / wf_setidx_b) and every unique index of a child store passes wf_cunique_b.
   Where a store's buckets live (BasePath) is not part of the store machine: the same schema stands for every depth. *)
From Coq Require Import List NArith Bool.
From Storage Require Import Base.Bytes Store.Model Store.WfSchema Store.WfSetIdx Store.ReachableConsistent.
From Storage Require Examples.C06Wirings.
Import ListNotations.
Open Scope N_scope.

Definition d_acct : name := [97;99;99;116].
Definition d_adm : name := [97;100;109].
Definition d_org : name := [111;114;103].
Definition d_name : name := [110;97;109;101].
Definition d_email : name := [101;109;97;105;108].
Definition d_note : name := [110;111;116;101].
Definition d_topics : name := [116;111;112;105;99;115].
Definition d_groups : name := [103;114;111;117;112;115].
Definition d_badge : name := [98;97;100;103;101].
Definition d_title : name := [116;105;116;108;101].
Definition d_alias : name := [97;108;105;97;115].
Definition d_labels : name := [108;97;98;101;108;115].
Definition d_item : name := [105;116;101;109].
Definition d_bin : name := [98;105;110].
Definition d_code : name := [99;111;100;101].
Definition d_cats : name := [99;97;116;115].
Definition d_marks : name := [109;97;114;107;115].
Definition d_kinds : name := [107;105;110;100;115].
Definition d_items : name := [105;116;101;109;115].
Definition d_label : name := [108;97;98;101;108].

Definition acct_schema : schema :=
  [ mkSdef d_acct None false [(d_name, false); (d_email, true); (d_note, true)] [d_topics; d_groups]
      [CUnique d_name false; CSetIdx d_topics; CUnique d_email true; CSetIdx d_groups] [];
    mkSdef d_adm (Some d_acct) false [(d_badge, true)] [] [CUnique d_badge true] [];
    mkSdef d_org None false [(d_title, false); (d_alias, true)] [d_labels]
      [CSetIdx d_labels; CUnique d_title false; CUnique d_alias true] [] ].

Definition item_schema : schema :=
  [ mkSdef d_item None false [(d_code, false); (d_alias, true); (d_bin, true)] [d_cats; d_marks]
      [CUnique d_code false; CUnique d_alias true; CFkIndex d_bin d_bin d_items true; CSetIdx d_marks; CSetIdx d_cats] [];
    mkSdef d_bin None false [(d_label, true)] [d_kinds]
      [CFkRestrict d_items; CUnique d_label true; CSetIdx d_kinds] [] ].

Example acct_wf_unique_acct_name : wf_unique_b acct_schema d_acct d_name = true.
Proof. vm_compute. reflexivity. Qed.
Example acct_wf_unique_acct_email : wf_unique_b acct_schema d_acct d_email = true.
Proof. vm_compute. reflexivity. Qed.
Example acct_wf_unique_org_title : wf_unique_b acct_schema d_org d_title = true.
Proof. vm_compute. reflexivity. Qed.
Example acct_wf_unique_org_alias : wf_unique_b acct_schema d_org d_alias = true.
Proof. vm_compute. reflexivity. Qed.
Example acct_wf_setidx_acct_topics : wf_setidx_b acct_schema d_acct d_topics = true.
Proof. vm_compute. reflexivity. Qed.
Example acct_wf_setidx_acct_groups : wf_setidx_b acct_schema d_acct d_groups = true.
Proof. vm_compute. reflexivity. Qed.
Example acct_wf_setidx_org_labels : wf_setidx_b acct_schema d_org d_labels = true.
Proof. vm_compute. reflexivity. Qed.
Example acct_wf_cunique_adm_badge : wf_cunique_b acct_schema d_adm d_badge = true.
Proof. vm_compute. reflexivity. Qed.
Example item_wf_unique_item_code : wf_unique_b item_schema d_item d_code = true.
Proof. vm_compute. reflexivity. Qed.
Example item_wf_unique_item_alias : wf_unique_b item_schema d_item d_alias = true.
Proof. vm_compute. reflexivity. Qed.
Example item_wf_unique_bin_label : wf_unique_b item_schema d_bin d_label = true.
Proof. vm_compute. reflexivity. Qed.
Example item_wf_setidx_item_marks : wf_setidx_b item_schema d_item d_marks = true.
Proof. vm_compute. reflexivity. Qed.
Example item_wf_setidx_item_cats : wf_setidx_b item_schema d_item d_cats = true.
Proof. vm_compute. reflexivity. Qed.
Example item_wf_setidx_bin_kinds : wf_setidx_b item_schema d_bin d_kinds = true.
Proof. vm_compute. reflexivity. Qed.

(* the checks are not vacuous: an index declared twice, or a set index on a back-reference set, is refused *)
Example acct_wf_unique_twice_refused :
  wf_unique_b (mkSdef d_acct None false [(d_name, false)] [] [CUnique d_name false; CUnique d_name true] [] :: nil) d_acct d_name = false.
Proof. vm_compute. reflexivity. Qed.
Example item_wf_setidx_backref_refused :
  wf_setidx_b (map (fun d => if str_eqb (sd_name d) d_bin then mkSdef (sd_name d) (sd_parent d) (sd_ext d) (sd_fields d) (sd_sets d)
                     (CSetIdx d_items :: sd_cons d) (sd_links d) else d) item_schema) d_bin d_items = false.
Proof. vm_compute. reflexivity. Qed.

(* the stock casc shape (used 4 levels deep as c03casc4; the idx shape of c03idx3 is checked in C03Examples.v) *)
Example casc_wf_unique_a_name : wf_unique_b C06Wirings.casc_schema C06Wirings.w_a C06Wirings.w_name = true.
Proof. vm_compute. reflexivity. Qed.
Example casc_wf_unique_c_name : wf_unique_b C06Wirings.casc_schema C06Wirings.w_c C06Wirings.w_name = true.
Proof. vm_compute. reflexivity. Qed.
Example casc_wf_setidx_a_roles : wf_setidx_b C06Wirings.casc_schema C06Wirings.w_a C06Wirings.w_roles = true.
Proof. vm_compute. reflexivity. Qed.
Example casc_wf_cunique_bx_code : wf_cunique_b C06Wirings.casc_schema C06Wirings.w_bx C06Wirings.w_code = true.
Proof. vm_compute. reflexivity. Qed.
Example idx_wf_cunique_mgr_level : wf_cunique_b C06Wirings.idx_schema C06Wirings.w_mgr C06Wirings.w_level = true.
Proof. vm_compute. reflexivity. Qed.
