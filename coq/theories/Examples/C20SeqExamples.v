(* C20 - histories of validations: non-vacuity and the refuted memo with a lossy key. *)
From Coq Require Import List Bool NArith.
From Storage Require Import Base.Bytes Ast.AstTable Ast.Visitor Ast.VisitorProofs Ast.ValidateSeq Ast.ValidateSeqProofs Examples.C20Examples.
Import ListNotations.
Open Scope name_scope.

(* name = "a"   and   name = "a" sort by secret   on a store where secret is not public *)
Definition q_plain : tree := query (bin (sym "name") (const "a")) [].
Definition q_sorted : tree := query (bin (sym "name") (const "a")) ["secret"].
Definition pub1 : list Visitor.sym := [s "name"].
Definition st (t : tree) : vstep := (pub1, [], t).

Example seq_both_orders :
  validate_seq ex_tbl true [st q_plain; st q_sorted] = [Accept; Reject (s "secret")] /\
  validate_seq ex_tbl true [st q_sorted; st q_plain] = [Reject (s "secret"); Accept] /\
  validate_seq ex_tbl true [st q_plain; st q_sorted; st q_plain; st q_sorted] = [Accept; Reject (s "secret"); Accept; Reject (s "secret")].
Proof. vm_compute. repeat split; reflexivity. Qed.

(* instance of c20_history_accept_iff's generic form: step 1 of the history is not accepted, secret is not public *)
Example seq_accept_iff_instance :
  nth_error (validate_seq ex_tbl true [st q_plain; st q_sorted]) 1 = Some Accept <->
  forall x, In x (all_syms ex_tbl q_sorted) -> is_public pub1 [] x = true.
Proof.
  apply (validate_seq_accept_iff_lemma ex_tbl ex_aliases true ex_table_complete [st q_plain; st q_sorted] 1 pub1 [] q_sorted).
  reflexivity. vm_compute. reflexivity.
Qed.

(* a memo keyed by a LOSSY rendering - here: the first symbol the query mentions, as `count(from S where ...)`
   is printed `count(S)` - accepts the look-alike after the harmless query; in the other order it does not *)
Definition lossy_key (v : vstep) : option Visitor.sym := hd_error (visit ex_tbl (snd v)).
Definition okey_eqb (a b : option Visitor.sym) : bool :=
  match a, b with Some x, Some y => str_eqb x y | None, None => true | _, _ => false end.

Example memo_lossy_key_refuted :
  validate_memo ex_tbl true _ lossy_key okey_eqb [] [st q_plain; st q_sorted] = [Accept; Accept] /\
  validate_memo ex_tbl true _ lossy_key okey_eqb [] [st q_sorted; st q_plain] = [Reject (s "secret"); Accept] /\
  validate_seq ex_tbl true [st q_plain; st q_sorted] <> validate_memo ex_tbl true _ lossy_key okey_eqb [] [st q_plain; st q_sorted].
Proof. vm_compute. repeat split; try reflexivity. discriminate. Qed.

(* a faithful key (the whole step, here: the list of visited symbols and the public set are enough) - instance of validate_memo_faithful *)
Definition full_key (v : vstep) : list Visitor.sym * list Visitor.sym * list Visitor.sym := (fst (fst v), snd (fst v), visit ex_tbl (snd v)).
Fixpoint strs_eqb (a b : list Visitor.sym) : bool :=
  match a, b with [], [] => true | x :: a', y :: b' => str_eqb x y && strs_eqb a' b' | _, _ => false end.
Definition full_keq (a b : list Visitor.sym * list Visitor.sym * list Visitor.sym) : bool :=
  strs_eqb (fst (fst a)) (fst (fst b)) && strs_eqb (snd (fst a)) (snd (fst b)) && strs_eqb (snd a) (snd b).

Example memo_full_key_agrees :
  validate_memo ex_tbl true _ full_key full_keq [] [st q_plain; st q_sorted; st q_plain; st q_sorted]
  = validate_seq ex_tbl true [st q_plain; st q_sorted; st q_plain; st q_sorted].
Proof. vm_compute. reflexivity. Qed.
