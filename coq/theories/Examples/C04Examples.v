(* Non-vacuity for C04: the four wirings of the harness pass the well-formedness checks for every
   fk edge they contain, and concrete histories exercise back-references, restrict, a transitive
   cascade over a hostile id, and a reference cycle. *)
From Coq Require Import List NArith Bool.
From Storage Require Import Base.Bytes Store.Model Store.FkProofs Store.FkDelete Store.FkWf Examples.C03Examples.
Import ListNotations.
Open Scope N_scope.

Definition n_a : name := [97].
Definition n_b : name := [98].
Definition n_bs : name := [98;115].
Definition n_bx : name := [98;120].
Definition n_c : name := [99].
Definition n_cas : name := [99;97;115].
Definition n_code : name := [99;111;100;101].
Definition n_cs : name := [99;115].
Definition n_label : name := [108;97;98;101;108].
Definition n_leaf : name := [108;101;97;102].
Definition n_leaves : name := [108;101;97;118;101;115].
Definition n_n : name := [110].
Definition n_next : name := [110;101;120;116].
Definition n_p : name := [112].
Definition n_q : name := [113].
Definition n_room : name := [114;111;111;109].

(* the "fkc" wiring of the harness, as derived by the wiring script *)
Definition fkc_schema : schema :=
  [
    mkSdef n_emp None false [(n_name, false); (n_boss, true); (n_dept, false); (n_room, true)] []
      [CUnique n_name false; CFkCons n_boss n_emp true; CFkCascade n_emp n_boss CascNone; CFkCons n_dept n_dept false; CFkCons n_room n_room true]
      [];
    mkSdef n_dept None false [(n_title, false)] []
      [CFkCascade n_emp n_dept CascDelete]
      [];
    mkSdef n_room None false [(n_label, true)] []
      [CFkCascade n_emp n_room CascNone; CUnique n_label true]
      [] ].

(* the "casc" wiring of the harness, as derived by the wiring script *)
Definition casc_schema : schema :=
  [
    mkSdef n_a None false [(n_name, false)] [n_roles]
      [CUnique n_name false; CSetIdx n_roles; CFkCascade n_b n_a CascDelete; CFkRestrict n_cas]
      [];
    mkSdef n_b None false [(n_name, false); (n_a, false)] []
      [CFkIndex n_a n_a n_bs false; CFkCascade n_c n_b CascDelete; CSystem]
      [];
    mkSdef n_c None false [(n_name, true); (n_b, false); (n_a, true)] []
      [CFkIndex n_b n_b n_cs false; CFkIndex n_a n_a n_cas true; CUnique n_name true]
      [];
    mkSdef n_bx (Some n_b) true [(n_code, true)] []
      [CUnique n_code true]
      [] ].

(* the "cyc" wiring of the harness, as derived by the wiring script *)
Definition cyc_schema : schema :=
  [
    mkSdef n_n None false [(n_name, false); (n_next, true)] []
      [CFkCons n_next n_n true; CFkCascade n_n n_next CascDelete; CFkCascade n_leaf n_n CascDelete]
      [];
    mkSdef n_p None false [(n_q, true)] []
      [CFkCons n_q n_q true; CFkCascade n_q n_p CascDelete]
      [];
    mkSdef n_q None false [(n_p, true)] []
      [CFkCascade n_p n_q CascDelete; CFkCons n_p n_p true]
      [];
    mkSdef n_leaf None false [(n_n, false)] []
      [CFkIndex n_n n_n n_leaves false]
      [] ].

(* ---- every fk edge of every harness wiring satisfies the hypotheses of the theorems ---- *)
Example idx_edges_wf :
  wf_fk_b idx_schema n_emp n_boss n_emp (Some n_reports) && wf_fk_b idx_schema n_emp n_deptf n_dept (Some n_members) = true.
Proof. vm_compute. reflexivity. Qed.
Example fkc_edges_wf :
  wf_fk_b fkc_schema n_emp n_boss n_emp None && wf_fk_b fkc_schema n_emp n_dept n_dept None && wf_fk_b fkc_schema n_emp n_room n_room None = true.
Proof. vm_compute. reflexivity. Qed.
Example casc_edges_wf :
  wf_fk_b casc_schema n_b n_a n_a (Some n_bs) && wf_fk_b casc_schema n_c n_b n_b (Some n_cs) && wf_fk_b casc_schema n_c n_a n_a (Some n_cas) = true.
Proof. vm_compute. reflexivity. Qed.
Example cyc_edges_wf :
  wf_fk_b cyc_schema n_n n_next n_n None && wf_fk_b cyc_schema n_p n_q n_q None && wf_fk_b cyc_schema n_q n_p n_p None &&
  wf_fk_b cyc_schema n_leaf n_n n_n (Some n_leaves) = true.
Proof. vm_compute. reflexivity. Qed.
Example all_wirings_wf_casc :
  wf_casc_b idx_schema && wf_casc_b fkc_schema && wf_casc_b casc_schema && wf_casc_b cyc_schema = true.
Proof. vm_compute. reflexivity. Qed.

(* a wiring WITHOUT a delete guard is rejected by the check: an fk constraint wired with CascadeCreateUpdate *)
Definition unguarded_schema : schema :=
  [ mkSdef n_emp None false [(n_dept, false)] [] [CFkCons n_dept n_dept false] [];
    mkSdef n_dept None false [] [] [] [] ].
Example unguarded_rejected : wf_fk_b unguarded_schema n_emp n_dept n_dept None = false.
Proof. vm_compute. reflexivity. Qed.
(* ... and indeed the target-exists statement fails for it: delete the department, the employee dangles *)
Example unguarded_refuted :
  let st := run_txs unguarded_schema 8 st_empty
    [ mkTx false [] [OCreate n_dept [100] false [] []; OCreate n_emp [101] false [(n_dept, Some [100])] []] false;
      mkTx false [] [ODelete n_dept [100]] false ] in
  present unguarded_schema st n_emp [101] = true /\ fv_bytes (get_field unguarded_schema st n_emp [101] n_dept) = [100] /\
  present unguarded_schema st n_dept [100] = false.
Proof. vm_compute. repeat split; reflexivity. Qed.

(* ---- casc: a <-cascade- b <-cascade- c, ids hostile to a filter built from text ---- *)
(* the id  x" or id != "  *)
Definition hostile : id := [120;34;32;111;114;32;105;100;32;33;61;32;34].
Definition bsl : id := [97;92].                                   (* a\ *)
Definition mk_a (i : id) (nm : str) : op := OCreate n_a i false [(n_name, Some nm)] [(n_roles, [])].
Definition mk_b (i : id) (a : id) : op := OCreate n_b i false [(n_name, Some [120]); (n_a, Some a); (n_code, None)] [].
Definition mk_c (i : id) (b : id) (a : option id) : op := OCreate n_c i false [(n_name, None); (n_b, Some b); (n_a, a)] [].
Definition casc_hist : list tx :=
  [ mkTx false [] [mk_a hostile [49]; mk_a [97] [50]] false;
    mkTx false [] [mk_b [98;49] hostile; mk_b bsl hostile; mk_b [98;51] [97]] false;
    mkTx false [] [mk_c [99;49] bsl None; mk_c hostile bsl (Some [97]); mk_c [99;50] [98;51] None] false ].
Definition casc_st : state := run_txs casc_schema 8 st_empty casc_hist.

Example casc_backrefs : get_set casc_schema casc_st n_a hostile n_bs = [bsl; [98;49]] /\
                        get_set casc_schema casc_st n_b bsl n_cs = [[99;49]; hostile] /\
                        get_set casc_schema casc_st n_a [97] n_cas = [hostile].
Proof. vm_compute. repeat split; reflexivity. Qed.

(* deleting the hostile a removes exactly a, its two b and the two c below one of them; the bystanders stay *)
Example casc_delete_exact :
  match delete_by_id casc_schema (mkOctx false []) 8 (casc_st, []) n_a hostile with
  | Ok (st', _) => ids_of st' n_a = [[97]] /\ ids_of st' n_b = [[98;51]] /\ ids_of st' n_c = [[99;50]]
  | Err _ => False
  end.
Proof. vm_compute. repeat split; reflexivity. Qed.

Example casc_reach_transitive : reach casc_schema casc_st (n_a, hostile) (n_c, [99;49]).
Proof.
  assert (root_of casc_schema n_b = n_b) as Eb by (vm_compute; reflexivity).
  assert (root_of casc_schema n_c = n_c) as Ec by (vm_compute; reflexivity).
  rewrite <- Ec. eapply (reach_step casc_schema casc_st (n_a, hostile) n_b bsl n_c n_b).
  - rewrite <- Eb. eapply (reach_step casc_schema casc_st (n_a, hostile) n_a hostile n_b n_a).
    + apply reach_refl.
    + vm_compute. tauto.
    + vm_compute. reflexivity.
  - vm_compute. tauto.
  - vm_compute. reflexivity.
Qed.

(* restrict: a (id 97) is referenced by the hostile c through the nullable fk index c.a (its own cascade only
   removes b3 and c2) -> refused, nothing changes *)
Example casc_restrict_refused :
  match run_tx casc_schema 8 casc_st (mkTx false [] [ODelete n_a [97]] false) with
  | (rs, committed, st', _) => rs = [Some ERefExists] /\ committed = false /\ ids_of st' n_b = ids_of casc_st n_b
  end.
Proof. vm_compute. repeat split; reflexivity. Qed.

(* the hypotheses of delete_restrict hold for the department store of the idx wiring with pre = [] *)
Example idx_dept_restrict_shape :
  cons_of idx_schema (root_of idx_schema n_dept) = [] ++ CFkRestrict n_members :: [CUnique n_title false; CSetIdx n_tagsx] /\
  wf_stores_b idx_schema = true.
Proof. vm_compute. split; reflexivity. Qed.

(* ---- fkc: restrict through the cascade constraint with CascadeNone, cascade with CascadeDelete ---- *)
Definition mk_e (i : id) (nm : str) (boss : option id) (dept : id) (room : option id) : op :=
  OCreate n_emp i false [(n_name, Some nm); (n_boss, boss); (n_dept, Some dept); (n_room, room)] [].
Definition fkc_hist : list tx :=
  [ mkTx false [] [OCreate n_dept hostile false [(n_title, Some [116])] []; OCreate n_dept [100] false [(n_title, Some [117])] [];
                   OCreate n_room bsl false [(n_label, None)] []] false;
    mkTx false [] [mk_e [101;49] [49] None hostile (Some bsl); mk_e [101;50] [50] (Some [101;49]) [100] None] false;
    mkTx false [] [mk_e [101;51] [51] None [120] None] false ].       (* missing department: NotFound, rolled back *)
Definition fkc_st : state := run_txs fkc_schema 8 st_empty fkc_hist.

Example fkc_missing_target_rejected :
  match run_tx fkc_schema 8 (run_txs fkc_schema 8 st_empty (firstn 2 fkc_hist)) (nth 2 fkc_hist (mkTx false [] [] false)) with
  | (rs, committed, _, _) => rs = [Some ENotFound] /\ committed = false
  end.
Proof. vm_compute. split; reflexivity. Qed.

Example fkc_room_restrict : fst (fst (fst (run_tx fkc_schema 8 fkc_st (mkTx false [] [ODelete n_room bsl] false)))) = [Some ERefExists].
Proof. vm_compute. reflexivity. Qed.

(* deleting the hostile department cascades to e1 - which is refused, because e1 is the boss of e2 *)
Example fkc_cascade_meets_restrict :
  fst (fst (fst (run_tx fkc_schema 8 fkc_st (mkTx false [] [ODelete n_dept hostile] false)))) = [Some ERefExists].
Proof. vm_compute. reflexivity. Qed.

(* after e2 is gone the cascade goes through and removes exactly the department and e1 *)
Example fkc_cascade_exact :
  let st := run_txs fkc_schema 8 fkc_st [mkTx false [] [ODelete n_emp [101;50]] false; mkTx false [] [ODelete n_dept hostile] false] in
  ids_of st n_dept = [[100]] /\ ids_of st n_emp = [] /\ ids_of st n_room = [bsl].
Proof. vm_compute. repeat split; reflexivity. Qed.

(* ---- cyc: a reference cycle under CascadeDelete exhausts every fuel (the repaired code reports an error,
        the pinned code died with a stack overflow); an acyclic chain of depth 3 is removed completely ---- *)
Definition mk_n (i : id) (next : option id) : op := OCreate n_n i false [(n_name, Some [120]); (n_next, next)] [].
Definition cyc_hist : list tx :=
  [ mkTx false [] [mk_n [49] None; mk_n [50] (Some [49]); mk_n [51] (Some [50]); mk_n [52] (Some [52])] false;
    mkTx false [] [OCreate n_leaf [108] false [(n_n, Some [51])] []] false ].
Definition cyc_st : state := run_txs cyc_schema 40 st_empty cyc_hist.

Example cyc_self_reference_out_of_fuel :
  delete_by_id cyc_schema (mkOctx false []) 40 (cyc_st, []) n_n [52] = Err EOutOfFuel.
Proof. vm_compute. reflexivity. Qed.

Example cyc_chain_removed :
  match delete_by_id cyc_schema (mkOctx false []) 40 (cyc_st, []) n_n [49] with
  | Ok (st', _) => ids_of st' n_n = [[52]] /\ ids_of st' n_leaf = []
  | Err _ => False
  end.
Proof. vm_compute. split; reflexivity. Qed.

(* the chain of depth 3 (+ the leaf) needs fuel 4; every larger fuel gives the same answer *)
Example cyc_chain_fuel :
  delete_by_id cyc_schema (mkOctx false []) 3 (cyc_st, []) n_n [49] = Err EOutOfFuel /\
  delete_by_id cyc_schema (mkOctx false []) 4 (cyc_st, []) n_n [49] = delete_by_id cyc_schema (mkOctx false []) 40 (cyc_st, []) n_n [49].
Proof. vm_compute. split; reflexivity. Qed.

(* ---- re-use of a target id inside one transaction (one mutate context): reference / release / delete /
        reference again.  The machine consults the state at every step, so the last reference is refused and the
        transaction rolls back; after a re-create the reference is accepted.  (The real code must agree whatever it
        remembers per mutate context: harness stream store_c04_reuse.go.) ---- *)
Definition fkc_reuse_prefix : list tx :=
  [ mkTx false [] [OCreate n_dept [100] false [(n_title, Some [116])] []; OCreate n_room [114] false [(n_label, None)] []] false ].
Definition fkc_reuse_st : state := run_txs fkc_schema 8 st_empty fkc_reuse_prefix.

(* restrict edge emp.room -> room: e1 references r, e1 is deleted, r is deleted, e2 references r: NotFound, rollback *)
Example fkc_reuse_after_delete_refused :
  match run_tx fkc_schema 8 fkc_reuse_st
          (mkTx false [] [mk_e [101;49] [49] None [100] (Some [114]); ODelete n_emp [101;49]; ODelete n_room [114];
                          mk_e [101;50] [50] None [100] (Some [114])] false) with
  | (rs, committed, st', _) => rs = [None; None; None; Some ENotFound] /\ committed = false /\ st' = fkc_reuse_st
  end.
Proof. vm_compute. repeat split; reflexivity. Qed.

(* the same with the reference released by nulling the field (field-restricted update) instead of deleting the referrer *)
Example fkc_reuse_after_release_by_update_refused :
  match run_tx fkc_schema 8 fkc_reuse_st
          (mkTx false [] [mk_e [101;49] [49] None [100] (Some [114]);
                          OUpdate n_emp [101;49] [(n_name, Some [49]); (n_boss, None); (n_dept, Some [100]); (n_room, None)] [] (Some [n_room]);
                          ODelete n_room [114];
                          OUpdate n_emp [101;49] [(n_name, Some [49]); (n_boss, None); (n_dept, Some [100]); (n_room, Some [114])] [] (Some [n_room])] false) with
  | (rs, committed, _, _) => rs = [None; None; None; Some ENotFound] /\ committed = false
  end.
Proof. vm_compute. repeat split; reflexivity. Qed.

(* cascade edge emp.dept -> dept: the delete of the department removes e1; a new employee of the deleted department
   is refused; after re-creating the department it is accepted and the transaction commits *)
Example fkc_reuse_after_cascade_refused :
  match run_tx fkc_schema 8 fkc_reuse_st
          (mkTx false [] [mk_e [101;49] [49] None [100] None; ODelete n_dept [100]; mk_e [101;50] [50] None [100] None] false) with
  | (rs, committed, _, _) => rs = [None; None; Some ENotFound] /\ committed = false
  end.
Proof. vm_compute. repeat split; reflexivity. Qed.

Example fkc_reuse_after_recreate_accepted :
  match run_tx fkc_schema 8 fkc_reuse_st
          (mkTx false [] [mk_e [101;49] [49] None [100] None; ODelete n_dept [100];
                          OCreate n_dept [100] false [(n_title, Some [117])] []; mk_e [101;50] [50] None [100] None] false) with
  | (rs, committed, st', _) => rs = [None; None; None; None] /\ committed = true /\ ids_of st' n_emp = [[101;50]] /\ ids_of st' n_dept = [[100]]
  end.
Proof. vm_compute. repeat split; reflexivity. Qed.
