From Coq Require Import List.
Example c04_stub_ex : True. Proof. exact I. Qed.
