(* C19 - non-vacuity examples and refutation witnesses for the object store of the pinned tree. *)
From Coq Require Import List ZArith NArith Bool Sorted Permutation.
From Storage Require Import Base.Bytes Query.Compare Query.CompareProofs Query.Paging Query.PagingProofs
  Query.ScanUnique Query.ScanUniqueProofs Query.ScanSort Query.ScanSortProofs
  Query.ScalarFilter Query.ObjectScan Query.ObjectScanProofs.
From Storage Require Import Examples.C02Examples.
Import ListNotations.
Open Scope Z_scope.

(* the people of C02Examples in a shuffled (iterator) order *)
Definition ex_objs : list row := [nth 3 ex_rows (mk 0 CNull CNull CNull CNull CNull); nth 0 ex_rows (mk 0 CNull CNull CNull CNull CNull);
                                  nth 4 ex_rows (mk 0 CNull CNull CNull CNull CNull); nth 2 ex_rows (mk 0 CNull CNull CNull CNull CNull);
                                  nth 1 ex_rows (mk 0 CNull CNull CNull CNull CNull)].

Definition c_name := Col 0 TStr.
Definition c_age := Col 1 TInt.
Definition c_score := Col 2 TFloat.
Definition c_ok := Col 3 TBool.
Definition c_at := Col 4 TTime.

Example ex_objs_perm : Permutation ex_rows ex_objs.
Proof.
  unfold ex_objs, ex_rows. simpl nth.
  apply (Permutation_cons_app [_] [_; _; _]). simpl app.
  apply (Permutation_cons_app [_; _; _] []). simpl app.
  apply (Permutation_cons_app [_; _] []). simpl app.
  apply Permutation_refl.
Qed.

Example ex_objs_nodup : NoDup (map r_id ex_objs).
Proof.
  apply (Permutation_NoDup (Permutation_map r_id ex_objs_perm)). apply id_sorted_nodup. exact ex_rows_id_sorted.
Qed.

(* name = null : exactly b ; name != null sorted by name descending, second page *)
Example ex_is_null :
  objectz_query (FAtom (AIsNull c_name false)) [] (pg None None) ex_objs = (map s [[98]], 1) /\
  objectz_query (FAtom (AIsNull c_name true)) [by_name false] (pg (Some 1) (Some 2)) ex_objs = (map s [[100]; [99]], 4).
Proof. vm_compute. split; reflexivity. Qed.

(* skip without limit, default order *)
Example ex_skip_no_limit :
  objectz_query FTrue [] (pg (Some 1) None) ex_objs = (map s [[98]; [99]; [100]; [101]], 5).
Proof. vm_compute. reflexivity. Qed.

(* a composite filter: (age between 0 and 31 and not (name contains "o")) or ok = false   [null ok counts as false] *)
Example ex_composite :
  objectz_query (FOr (FAnd (FAtom (ABetween c_age (LInt 0) (LInt 31))) (FNot (FAtom (AContains c_name false false (LStr (s [111]))))))
                     (FAtom (ACmp c_ok OEq (LBool false))))
                [by_age false] (pg None limit_none) ex_objs
  = (map s [[101]; [98]; [99]], 3).
Proof. vm_compute. reflexivity. Qed.

(* same answer as the bolt model on the id-ordered rows *)
Example ex_same_as_bolt :
  objectz_query (FAtom (ACmp c_score OGte (LFloat 0))) [by_at true; by_id false] (pg (Some (-3)) (Some 2)) ex_objs
  = boltz_query (FAtom (ACmp c_score OGte (LFloat 0))) [by_at true; by_id false] (pg (Some (-3)) (Some 2)) ex_rows.
Proof. vm_compute. reflexivity. Qed.

Example ex_filter_ok :
  filter_ok (FAnd (FAtom (AIn c_name [LStr (s [97]); LStr (s [])])) (FAtom (AContains c_age true false (LInt 3)))) = true /\
  filter_ok (FAtom (ACmp c_ok OLt (LBool true))) = false /\
  filter_ok (FAtom (AContains c_age false true (LStr (s [51])))) = false.
Proof. vm_compute. repeat split; reflexivity. Qed.

Example ex_dec_of_Z : dec_of_Z (-9223372036854775808) = map Z.to_N [45;57;50;50;51;51;55;50;48;51;54;56;53;52;55;55;53;56;48;56]
                      /\ dec_of_Z 0 = [48%N] /\ dec_of_Z 1070 = map Z.to_N [49;48;55;48].
Proof. vm_compute. repeat split; reflexivity. Qed.

(* ---- the pinned tree violates the property: witnesses ------------------------------------------ *)
(* `name = null` never matches, `name != null` always matches *)
Example isnil_typed_nil_refuted :
  objectz_query_legacy (FAtom (AIsNull c_name false)) [] (pg None None) ex_objs = ([], 0) /\
  objectz_query_legacy (FAtom (AIsNull c_name true)) [] (pg None None) ex_objs = (map s [[97]; [98]; [99]; [100]; [101]], 5) /\
  objectz_query_legacy (FAtom (AIsNull c_name false)) [] (pg None None) ex_objs
    <> boltz_query (FAtom (AIsNull c_name false)) [] (pg None None) ex_rows.
Proof. vm_compute. repeat split; try reflexivity. discriminate. Qed.

(* `true skip 1` returns nothing (objectz always uses the bounded tree: 1 + MaxInt64 wraps) *)
Example objectz_skip_overflow_refuted :
  objectz_query_legacy FTrue [] (pg (Some 1) None) ex_objs = ([], 5) /\
  objectz_query_legacy FTrue [] (pg (Some 1) None) ex_objs <> boltz_query FTrue [] (pg (Some 1) None) ex_rows.
Proof. vm_compute. split; [reflexivity | discriminate]. Qed.

(* `skip -2 limit 3` returns one object *)
Example objectz_negative_skip_refuted :
  objectz_query_legacy FTrue [] (pg (Some (-2)) (Some 3)) ex_objs = (map s [[97]], 5) /\
  objectz_query_legacy FTrue [] (pg (Some (-2)) (Some 3)) ex_objs <> boltz_query FTrue [] (pg (Some (-2)) (Some 3)) ex_rows.
Proof. vm_compute. split; [reflexivity | discriminate]. Qed.

(* ---- instants over the whole range of time.Time ------------------------------------------------------ *)
(* tokens with a "never expires" sentinel (a: 9999-12-31), the year 2400 (e), contemporary dates (b: 2024, d: 2030,
   f: 1999) and an unset field (c).  Instants are (seconds, nanoseconds) over Z: nothing wraps, the sentinel is last
   ascending and first descending, null first ascending. *)
Definition far_rows : list row := [
  mk 97  CNull CNull CNull CNull (CTime 253402214400 0);
  mk 98  CNull CNull CNull CNull (CTime 1704067200 0);
  mk 99  CNull CNull CNull CNull CNull;
  mk 100 CNull CNull CNull CNull (CTime 1893456000 0);
  mk 101 CNull CNull CNull CNull (CTime 13574649600 0);
  mk 102 CNull CNull CNull CNull (CTime 946598400 0)].
Definition far_objs : list row := rev far_rows.

Example ex_far_future_order :
  objectz_query FTrue [by_at true] (pg None None) far_objs = (map s [[99]; [102]; [98]; [100]; [101]; [97]], 6) /\
  objectz_query FTrue [by_at false] (pg None (Some 2)) far_objs = (map s [[97]; [101]], 6) /\
  objectz_query (FAtom (AIsNull c_at true)) [by_at true] (pg (Some 1) (Some 2)) far_objs = (map s [[98]; [100]], 5) /\
  objectz_query FTrue [by_at true] (pg None None) far_objs = boltz_query FTrue [by_at true] (pg None None) far_rows.
Proof. vm_compute. repeat split; reflexivity. Qed.

(* why the correspondence run holds instants outside 1678..2262 (harness c19ext.go): a comparator on the int64
   nanosecond count of time.Time.UnixNano orders the sentinel before 2024, and the instant one nanosecond after
   the last representable one before everything *)
Definition unixnano (t : Z * N) : Z := wrap64 (fst t * 1000000000 + Z.of_N (snd t)).
Definition unixnano_lt (x y : Z * N) : bool := Z.ltb (unixnano x) (unixnano y).
Example unixnano_comparator_refuted :
  time_lt (1704067200, 0%N) (253402214400, 0%N) = true /\ unixnano_lt (1704067200, 0%N) (253402214400, 0%N) = false /\
  unixnano_lt (253402214400, 0%N) (1704067200, 0%N) = true /\
  time_lt (9223372036, 854775807%N) (9223372036, 854775808%N) = true /\
  unixnano_lt (9223372036, 854775808%N) (0, 0%N) = true.
Proof. vm_compute. repeat split; reflexivity. Qed.

(* ---- sort specifications longer than boltz.SortMax (harness c19long.go) -------------------------------- *)
(* four objects that tie on name, age, score (and, but for the last one, ok); `at` runs against the id order.
   Six fields with a repeated one: the sixth decides.  Seven fields with `id desc` as the sixth: the seventh is
   dead.  The bolt model agrees: SortMax only enters the choice of the scanner ([new_scanner]), which looks at
   the first field. *)
Definition long_rows : list row := [
  mk 97  (CStr (s [97])) (CInt 7) (CFloat f_1_5) (CBool true) (CTime 100 1);
  mk 98  (CStr (s [97])) (CInt 7) (CFloat f_1_5) (CBool true) (CTime 100 3);
  mk 99  (CStr (s [97])) (CInt 7) (CFloat f_1_5) (CBool true) (CTime 100 2);
  mk 100 (CStr (s [97])) (CInt 7) (CFloat f_1_5) CNull        (CTime 100 9)].
Definition long_objs : list row := [nth 2 long_rows (mk 0 CNull CNull CNull CNull CNull); nth 0 long_rows (mk 0 CNull CNull CNull CNull CNull);
                                    nth 3 long_rows (mk 0 CNull CNull CNull CNull CNull); nth 1 long_rows (mk 0 CNull CNull CNull CNull CNull)].
Definition long_spec : list sort_field := [by_name true; by_age false; by_score true; by_ok true; by_name false; by_at false].
Definition long_spec_id : list sort_field := [by_name true; by_age false; by_score true; by_ok true; by_name false; by_id false; by_at true].

Example ex_long_sort :
  length long_spec = 6%nat /\ length long_spec_id = 7%nat /\
  objectz_query FTrue long_spec (pg None None) long_objs = (map s [[100]; [98]; [99]; [97]], 4) /\
  objectz_query FTrue long_spec (pg (Some 1) (Some 2)) long_objs = (map s [[98]; [99]], 4) /\
  objectz_query FTrue long_spec_id (pg None None) long_objs = (map s [[100]; [99]; [98]; [97]], 4) /\
  objectz_query FTrue long_spec (pg None None) long_objs = boltz_query FTrue long_spec (pg None None) long_rows /\
  objectz_query FTrue long_spec_id (pg (Some 2) None) long_objs = boltz_query FTrue long_spec_id (pg (Some 2) None) long_rows /\
  new_scanner long_spec = Sorting /\ new_scanner (by_id false :: long_spec) = UniqueReverse.
Proof. vm_compute. repeat split; reflexivity. Qed.

(* why the correspondence run holds tie blocks under specifications of more than five fields: a comparator built
   from the first [sort_max] fields only (the cut NewScanner applies to choose the scanner) falls back to the id
   order among the first three objects - another order and another page *)
Example sort_cut_to_sort_max_refuted :
  objectz_query FTrue (firstn sort_max long_spec) (pg None None) long_objs = (map s [[100]; [97]; [98]; [99]], 4) /\
  objectz_query FTrue (firstn sort_max long_spec) (pg None None) long_objs <> objectz_query FTrue long_spec (pg None None) long_objs /\
  objectz_query FTrue (firstn sort_max long_spec) (pg (Some 1) (Some 1)) long_objs <> objectz_query FTrue long_spec (pg (Some 1) (Some 1)) long_objs.
Proof. vm_compute. repeat split; try reflexivity; discriminate. Qed.
