(* The three schema wirings of the store harness (harness/cmd/storageharness/store_gen.go: idx, fkc, casc),
   as derived by the wiring script, and the proof by computation that they pass wf_notrace_b. *)
From Coq Require Import List NArith Bool.
From Storage Require Import Base.Bytes Store.Model Store.NoTrace.
Import ListNotations.
Open Scope N_scope.

Definition w_emp : name := [101;109;112].
Definition w_dept : name := [100;101;112;116].
Definition w_mgr : name := [109;103;114].
Definition w_room : name := [114;111;111;109].
Definition w_name : name := [110;97;109;101].
Definition w_nick : name := [110;105;99;107].
Definition w_boss : name := [98;111;115;115].
Definition w_roles : name := [114;111;108;101;115].
Definition w_reports : name := [114;101;112;111;114;116;115].
Definition w_members : name := [109;101;109;98;101;114;115].
Definition w_title : name := [116;105;116;108;101].
Definition w_tagsx : name := [116;97;103;115;120].
Definition w_level : name := [108;101;118;101;108].
Definition w_sites : name := [115;105;116;101;115].
Definition w_staff : name := [115;116;97;102;102].
Definition w_label : name := [108;97;98;101;108].
Definition w_a : name := [97].
Definition w_b : name := [98].
Definition w_c : name := [99].
Definition w_bx : name := [98;120].
Definition w_bs : name := [98;115].
Definition w_cs : name := [99;115].
Definition w_cas : name := [99;97;115].
Definition w_code : name := [99;111;100;101].

Definition idx_schema : schema :=
  [ mkSdef w_emp None false [(w_name, false); (w_nick, true); (w_boss, true); (w_dept, false)] [w_roles]
      [CUnique w_name false; CUnique w_nick true; CSetIdx w_roles; CFkIndex w_boss w_emp w_reports true;
       CFkRestrict w_reports; CFkIndex w_dept w_dept w_members false; CSystem]
      [(w_sites, w_dept, w_staff)];
    mkSdef w_dept None false [(w_title, false)] [w_tagsx]
      [CFkRestrict w_members; CUnique w_title false; CSetIdx w_tagsx] [(w_staff, w_emp, w_sites)];
    mkSdef w_mgr (Some w_emp) false [(w_level, true)] [] [CUnique w_level true] [] ].

Definition fkc_schema : schema :=
  [ mkSdef w_emp None false [(w_name, false); (w_boss, true); (w_dept, false); (w_room, true)] []
      [CUnique w_name false; CFkCons w_boss w_emp true; CFkCascade w_emp w_boss CascNone;
       CFkCons w_dept w_dept false; CFkCons w_room w_room true] [];
    mkSdef w_dept None false [(w_title, false)] [] [CFkCascade w_emp w_dept CascDelete] [];
    mkSdef w_room None false [(w_label, true)] [] [CFkCascade w_emp w_room CascNone; CUnique w_label true] [] ].

Definition casc_schema : schema :=
  [ mkSdef w_a None false [(w_name, false)] [w_roles]
      [CUnique w_name false; CSetIdx w_roles; CFkCascade w_b w_a CascDelete; CFkRestrict w_cas] [];
    mkSdef w_b None false [(w_name, false); (w_a, false)] []
      [CFkIndex w_a w_a w_bs false; CFkCascade w_c w_b CascDelete; CSystem] [];
    mkSdef w_c None false [(w_name, true); (w_b, false); (w_a, true)] []
      [CFkIndex w_b w_b w_cs false; CFkIndex w_a w_a w_cas true; CUnique w_name true] [];
    mkSdef w_bx (Some w_b) true [(w_code, true)] [] [CUnique w_code true] [] ].

Example idx_schema_wf : wf_notrace_b idx_schema = true.
Proof. vm_compute. reflexivity. Qed.
Example fkc_schema_wf : wf_notrace_b fkc_schema = true.
Proof. vm_compute. reflexivity. Qed.
Example casc_schema_wf : wf_notrace_b casc_schema = true.
Proof. vm_compute. reflexivity. Qed.

(* wiring cl (store_c06.go wiringC06Cl, used by the burst histories): cascade through an fk index and through a nullable
   fk constraint, referrers with set index, unique index, child store and a link collection with the store they cascade from *)
Definition w_team : name := [116;101;97;109].
Definition w_user : name := [117;115;101;114].
Definition w_agent : name := [97;103;101;110;116].
Definition w_lead : name := [108;101;97;100].
Definition w_users : name := [117;115;101;114;115].
Definition w_grp : name := [103;114;112].
Definition w_mem : name := [109;101;109].

Definition cl_schema : schema :=
  [ mkSdef w_team None false [(w_name, false)] [w_tagsx]
      [CUnique w_name false; CSetIdx w_tagsx; CFkCascade w_user w_team CascDelete; CFkCascade w_user w_lead CascDelete]
      [(w_mem, w_user, w_grp)];
    mkSdef w_user None false [(w_name, false); (w_team, false); (w_lead, true)] [w_roles]
      [CFkIndex w_team w_team w_users false; CFkCons w_lead w_team true; CUnique w_name false; CSetIdx w_roles]
      [(w_grp, w_team, w_mem)];
    mkSdef w_agent (Some w_user) false [(w_code, true)] [] [CUnique w_code true] [] ].

Example cl_schema_wf : wf_notrace_b cl_schema = true.
Proof. vm_compute. reflexivity. Qed.

(* ---- child-level wirings (store_c06_child.go: C06cp, C06cx, C06cm; generated from the harness' own schema text) ----
   The per-level delete work lives on CHILD stores here: link collections whose local side is a child store, set index /
   fk index / fk constraints (as referrer and as target) declared on a child store, several child stores under one parent. *)
Definition n_a : name := [97].
Definition n_b : name := [98].
Definition n_boss : name := [98;111;115;115].
Definition n_bs : name := [98;115].
Definition n_bx : name := [98;120].
Definition n_bxs : name := [98;120;115].
Definition n_c : name := [99].
Definition n_cas : name := [99;97;115].
Definition n_code : name := [99;111;100;101].
Definition n_cps : name := [99;112;115].
Definition n_cqs : name := [99;113;115].
Definition n_crew : name := [99;114;101;119].
Definition n_emp : name := [101;109;112].
Definition n_eng : name := [101;110;103].
Definition n_engs : name := [101;110;103;115].
Definition n_grade : name := [103;114;97;100;101].
Definition n_grps : name := [103;114;112;115].
Definition n_head : name := [104;101;97;100].
Definition n_heads : name := [104;101;97;100;115].
Definition n_k : name := [107].
Definition n_labs : name := [108;97;98;115].
Definition n_level : name := [108;101;118;101;108].
Definition n_loc : name := [108;111;99].
Definition n_managers : name := [109;97;110;97;103;101;114;115].
Definition n_marks : name := [109;97;114;107;115].
Definition n_mentor : name := [109;101;110;116;111;114].
Definition n_mgr : name := [109;103;114].
Definition n_name : name := [110;97;109;101].
Definition n_offices : name := [111;102;102;105;99;101;115].
Definition n_owner : name := [111;119;110;101;114].
Definition n_p : name := [112].
Definition n_pc : name := [112;99].
Definition n_pcs : name := [112;99;115].
Definition n_peer : name := [112;101;101;114].
Definition n_peers : name := [112;101;101;114;115].
Definition n_pname : name := [112;110;97;109;101].
Definition n_proj : name := [112;114;111;106].
Definition n_ps : name := [112;115].
Definition n_px : name := [112;120].
Definition n_q : name := [113].
Definition n_qc : name := [113;99].
Definition n_qs : name := [113;115].
Definition n_r : name := [114].
Definition n_reports : name := [114;101;112;111;114;116;115].
Definition n_roles : name := [114;111;108;101;115].
Definition n_site : name := [115;105;116;101].
Definition n_siteMgrs : name := [115;105;116;101;77;103;114;115].
Definition n_sites : name := [115;105;116;101;115].
Definition n_skills : name := [115;107;105;108;108;115].
Definition n_staff : name := [115;116;97;102;102].
Definition n_tagsx : name := [116;97;103;115;120].
Definition n_tasks : name := [116;97;115;107;115].
Definition n_title : name := [116;105;116;108;101].
Definition n_x : name := [120].
Definition n_xrs : name := [120;114;115].
Definition n_y : name := [121].

Definition C06cp_schema : schema :=
  [ mkSdef n_emp None false [(n_name, false); (n_boss, true)] [n_roles; n_skills]
      [CUnique n_name false; CSetIdx n_roles; CFkIndex n_boss n_emp n_reports true; CFkRestrict n_reports]
      [(n_sites, n_loc, n_staff)];
    mkSdef n_loc None false [(n_title, false); (n_head, true)] [n_tagsx]
      [CUnique n_title false; CSetIdx n_tagsx; CFkRestrict n_siteMgrs; CFkIndex n_head n_mgr n_heads true]
      [(n_staff, n_emp, n_sites); (n_managers, n_mgr, n_offices)];
    mkSdef n_proj None false [(n_pname, false); (n_owner, true)] []
      [CFkCascade n_eng n_proj CascDelete; CFkCons n_owner n_eng true]
      [(n_crew, n_eng, n_tasks)];
    mkSdef n_mgr (Some n_emp) false [(n_level, true); (n_site, true)] []
      [CUnique n_level true; CSetIdx n_skills; CFkIndex n_site n_loc n_siteMgrs true; CFkRestrict n_heads; CFkCascade n_eng n_mentor CascNone]
      [(n_offices, n_loc, n_managers)];
    mkSdef n_eng (Some n_emp) false [(n_grade, true); (n_proj, false); (n_mentor, true)] []
      [CUnique n_grade true; CFkIndex n_proj n_proj n_engs false; CFkCons n_mentor n_mgr true; CFkCascade n_proj n_owner CascNone]
      [(n_tasks, n_proj, n_crew)] ].

Definition C06cx_schema : schema :=
  [ mkSdef n_a None false [(n_name, false)] [n_roles]
      [CUnique n_name false; CSetIdx n_roles; CFkCascade n_b n_a CascDelete; CFkRestrict n_peers; CFkRestrict n_cas]
      [(n_bxs, n_bx, n_grps)];
    mkSdef n_b None false [(n_name, false); (n_a, false)] [n_marks]
      [CFkIndex n_a n_a n_bs false; CSystem]
      [];
    mkSdef n_c None false [(n_name, true); (n_bx, true); (n_a, true)] []
      [CFkCons n_bx n_bx true; CFkIndex n_a n_a n_cas true]
      [];
    mkSdef n_bx (Some n_b) true [(n_code, true); (n_peer, true)] []
      [CUnique n_code true; CSetIdx n_marks; CFkIndex n_peer n_a n_peers true; CFkCascade n_c n_bx CascDelete]
      [(n_grps, n_a, n_bxs)] ].

Definition C06cm_schema : schema :=
  [ mkSdef n_p None false [(n_name, false)] []
      [CUnique n_name false]
      [(n_qs, n_q, n_ps)];
    mkSdef n_q None false [(n_name, true)] [n_labs]
      [CFkRestrict n_xrs]
      [(n_ps, n_p, n_qs)];
    mkSdef n_px (Some n_p) true [(n_x, true); (n_r, true)] []
      [CUnique n_x true; CFkIndex n_r n_q n_xrs true]
      [];
    mkSdef n_pc (Some n_p) false [(n_k, true); (n_q, true)] []
      [CUnique n_k true; CFkIndex n_q n_qc n_pcs true]
      [(n_cqs, n_qc, n_cps)];
    mkSdef n_qc (Some n_q) false [(n_y, true)] []
      [CUnique n_y true; CFkRestrict n_pcs; CSetIdx n_labs]
      [(n_cps, n_pc, n_cqs)] ].


(* wf_notrace_b (generalised to child-level declarations: link collections whose local / other side is a child store, fk
   indexes and fk constraints of a child store on its own fields, child stores as fk targets, set indexes of a child store over
   a string list of its root store) accepts the three wirings: the theorems of Properties/C06.v apply to them. *)
Example C06cp_schema_wf : wf_notrace_b C06cp_schema = true.
Proof. vm_compute. reflexivity. Qed.
Example C06cx_schema_wf : wf_notrace_b C06cx_schema = true.
Proof. vm_compute. reflexivity. Qed.
Example C06cm_schema_wf : wf_notrace_b C06cm_schema = true.
Proof. vm_compute. reflexivity. Qed.

(* the check still refuses what the proofs cannot do without: a link collection of a child store that is not declared on
   the other side, a child-level fk index without its delete guard on the target, two set indexes on one string list in a
   family, a link set of a child store named like a back-reference set kept on the same root entity *)
Definition drop_links_of (s : name) (sch : schema) : schema :=
  map (fun d => if str_eqb (sd_name d) s then mkSdef (sd_name d) (sd_parent d) (sd_ext d) (sd_fields d) (sd_sets d) (sd_cons d) [] else d) sch.
Definition drop_cons_of (s : name) (keep : cons -> bool) (sch : schema) : schema :=
  map (fun d => if str_eqb (sd_name d) s then mkSdef (sd_name d) (sd_parent d) (sd_ext d) (sd_fields d) (sd_sets d) (filter keep (sd_cons d)) (sd_links d) else d) sch.
Definition add_cons_to (s : name) (k : cons) (sch : schema) : schema :=
  map (fun d => if str_eqb (sd_name d) s then mkSdef (sd_name d) (sd_parent d) (sd_ext d) (sd_fields d) (sd_sets d) (sd_cons d ++ [k]) (sd_links d) else d) sch.
(* rename the local link field [from] of store s to [to], on both sides of the collection *)
Definition rename_link_of (s : name) (from to : name) (sch : schema) : schema :=
  map (fun d => mkSdef (sd_name d) (sd_parent d) (sd_ext d) (sd_fields d) (sd_sets d) (sd_cons d)
                  (map (fun l : name * name * name => match l with (lf, os, of_) =>
                          if str_eqb (sd_name d) s then (if str_eqb lf from then (to, os, of_) else l)
                          else if str_eqb os s && str_eqb of_ from then (lf, os, to) else l end) (sd_links d))) sch.

Example child_link_one_sided_refused : wf_notrace_b (drop_links_of n_loc C06cp_schema) = false.
Proof. vm_compute. reflexivity. Qed.
Example child_fk_without_guard_refused :
  wf_notrace_b (drop_cons_of n_loc (fun k => match k with CFkRestrict _ => false | _ => true end) C06cp_schema) = false.
Proof. vm_compute. reflexivity. Qed.
Example two_setidx_on_one_list_refused : wf_notrace_b (add_cons_to n_emp (CSetIdx n_skills) C06cp_schema) = false.
Proof. vm_compute. reflexivity. Qed.
Example rename_link_harmless : wf_notrace_b (rename_link_of n_mgr n_offices n_x C06cp_schema) = true.
Proof. vm_compute. reflexivity. Qed.
(* "reports" is the back-reference set that emp.boss keeps on emp entities; mgr's link set lives in the same entity *)
Example child_link_named_like_backref_refused : wf_notrace_b (rename_link_of n_mgr n_offices n_reports C06cp_schema) = false.
Proof. vm_compute. reflexivity. Qed.

(* ---- equal field names (store_c06_names.go: C06sa, C06sb, C06sc; generated from the harness' own schema text) ----
   Two sibling child stores (mgr, ctr, tmp of emp), a child store and its parent (mgr / emp), and stores of different families
   (emp / vend) declare foreign-key constraints / indexes on fields of the SAME NAME that point at the same target store; unique
   indexes on "name" and set indexes on "marks" exist in several families.  A constraint of the schema names its referrer STORE
   (CFkCascade rstore field _), so the target store carries one delete constraint per referrer store although
   "<entity type>.<field>" is the same for all of them (a child store reports the entity type of its parent). *)
Definition n_ctr : name := [99;116;114].
Definition n_dept : name := [100;101;112;116].
Definition n_desk : name := [100;101;115;107].
Definition n_nick : name := [110;105;99;107].
Definition n_room : name := [114;111;111;109].
Definition n_sponsor : name := [115;112;111;110;115;111;114].

Definition C06sa_schema : schema :=
  [ mkSdef n_dept None false [(n_name, false)] [n_marks]
      [CUnique n_name false; CSetIdx n_marks; CFkCascade n_mgr n_sponsor CascDelete; CFkCascade n_ctr n_sponsor CascDelete]
      [];
    mkSdef n_room None false [(n_name, true)] []
      [CUnique n_name true; CFkCascade n_mgr n_desk CascNone; CFkCascade n_ctr n_desk CascNone]
      [];
    mkSdef n_emp None false [(n_name, false); (n_nick, true)] [n_marks]
      [CUnique n_name false; CSetIdx n_marks]
      [];
    mkSdef n_mgr (Some n_emp) false [(n_sponsor, false); (n_desk, true)] []
      [CFkCons n_sponsor n_dept false; CFkCons n_desk n_room true]
      [];
    mkSdef n_ctr (Some n_emp) false [(n_sponsor, true); (n_desk, true)] []
      [CFkCons n_sponsor n_dept true; CFkCons n_desk n_room true]
      [] ].

Definition n_cdesks : name := [99;100;101;115;107;115].
Definition n_ctrs : name := [99;116;114;115].
Definition n_mdesks : name := [109;100;101;115;107;115].
Definition n_mgrs : name := [109;103;114;115].
Definition n_tmp : name := [116;109;112].

Definition C06sb_schema : schema :=
  [ mkSdef n_dept None false [(n_name, false)] []
      [CUnique n_name false; CFkCascade n_mgr n_sponsor CascDelete; CFkCascade n_ctr n_sponsor CascDelete; CFkCascade n_tmp n_sponsor CascDelete]
      [];
    mkSdef n_room None false [(n_name, true)] []
      [CFkRestrict n_mdesks; CFkRestrict n_cdesks]
      [(n_staff, n_emp, n_sites)];
    mkSdef n_emp None false [(n_name, false)] [n_roles]
      [CUnique n_name false]
      [(n_sites, n_room, n_staff)];
    mkSdef n_mgr (Some n_emp) false [(n_sponsor, false); (n_desk, true)] []
      [CFkIndex n_sponsor n_dept n_mgrs false; CFkIndex n_desk n_room n_mdesks true; CSetIdx n_roles]
      [];
    mkSdef n_ctr (Some n_emp) false [(n_sponsor, false); (n_desk, true)] []
      [CFkIndex n_sponsor n_dept n_ctrs false; CFkIndex n_desk n_room n_cdesks true]
      [];
    mkSdef n_tmp (Some n_emp) false [(n_sponsor, true)] []
      [CFkCons n_sponsor n_dept true]
      [] ].

Definition n_vend : name := [118;101;110;100].
Definition n_vends : name := [118;101;110;100;115].

Definition C06sc_schema : schema :=
  [ mkSdef n_dept None false [(n_name, false)] [n_marks]
      [CUnique n_name false; CSetIdx n_marks; CFkCascade n_mgr n_sponsor CascDelete; CFkCascade n_ctr n_sponsor CascDelete; CFkCascade n_emp n_sponsor CascNone; CFkRestrict n_vends]
      [];
    mkSdef n_emp None false [(n_name, false); (n_sponsor, true)] [n_marks]
      [CUnique n_name false; CSetIdx n_marks; CFkCons n_sponsor n_dept true]
      [];
    mkSdef n_vend None false [(n_name, false); (n_sponsor, true)] []
      [CUnique n_name false; CFkIndex n_sponsor n_dept n_vends true]
      [];
    mkSdef n_mgr (Some n_emp) false [(n_sponsor, true); (n_code, true)] []
      [CUnique n_code true; CFkCons n_sponsor n_dept true]
      [];
    mkSdef n_ctr (Some n_emp) false [(n_sponsor, true)] []
      [CFkCons n_sponsor n_dept true]
      [] ].

(* wf_notrace_b accepts equal field names in different stores of one family for foreign-key fields (child-level fields are the
   child store's own fields; get_field of a child store reads its own data first): the theorems of Properties/C06.v apply. *)
Example C06sa_schema_wf : wf_notrace_b C06sa_schema = true.
Proof. vm_compute. reflexivity. Qed.
Example C06sb_schema_wf : wf_notrace_b C06sb_schema = true.
Proof. vm_compute. reflexivity. Qed.
Example C06sc_schema_wf : wf_notrace_b C06sc_schema = true.
Proof. vm_compute. reflexivity. Qed.

(* every target store of these wirings carries one delete constraint per referrer store of an equally named field *)
Definition cascades_for (sch : schema) (t f : name) : list name :=
  flat_map (fun k => match k with CFkCascade rs f' _ => if str_eqb f' f then [rs] else [] | _ => [] end) (cons_of sch t).
Example C06sa_one_guard_per_sibling :
  cascades_for C06sa_schema n_dept n_sponsor = [n_mgr; n_ctr] /\ cascades_for C06sa_schema n_room n_desk = [n_mgr; n_ctr].
Proof. vm_compute. split; reflexivity. Qed.
Example C06sc_one_guard_per_level : cascades_for C06sc_schema n_dept n_sponsor = [n_mgr; n_ctr; n_emp].
Proof. vm_compute. reflexivity. Qed.
(* dropping the guard of ONE sibling (what a registry keyed by "<entity type>.<field>" does) leaves a refused schema *)
Example sibling_guard_dropped_refused :
  wf_notrace_b (drop_cons_of n_dept (fun k => match k with CFkCascade rs _ _ => negb (str_eqb rs n_ctr) | _ => true end) C06sa_schema) = false.
Proof. vm_compute. reflexivity. Qed.
Example sibling_restrict_guard_dropped_refused :
  wf_notrace_b (drop_cons_of n_room (fun k => match k with CFkCascade rs _ _ => negb (str_eqb rs n_ctr) | _ => true end) C06sa_schema) = false.
Proof. vm_compute. reflexivity. Qed.
(* what stays refused - and is therefore only exercised across families: unique indexes (and set indexes) of two stores of ONE
   family on an equally named field (the index buckets are kept per entity type and field name: the two would share one bucket),
   and two fk indexes that keep back-reference sets of the same name on one target *)
Example sibling_unique_same_name_refused :
  wf_notrace_b (add_cons_to n_ctr (CUnique n_desk true) (add_cons_to n_mgr (CUnique n_desk true) C06sa_schema)) = false.
Proof. vm_compute. reflexivity. Qed.
Example parent_child_unique_same_name_refused :
  wf_notrace_b (add_cons_to n_mgr (CUnique n_sponsor true) (add_cons_to n_emp (CUnique n_sponsor true) C06sc_schema)) = false.
Proof. vm_compute. reflexivity. Qed.
Example sibling_backref_same_name_refused :
  wf_notrace_b (map (fun d => mkSdef (sd_name d) (sd_parent d) (sd_ext d) (sd_fields d) (sd_sets d)
                              (map (fun k => match k with
                                             | CFkIndex f t b nl => if str_eqb b n_ctrs then CFkIndex f t n_mgrs nl else k
                                             | _ => k end) (sd_cons d)) (sd_links d)) C06sb_schema) = false.
Proof. vm_compute. reflexivity. Qed.

(* ---- fk fields under a path prefix (store_c06_pfx.go: C06pa, C06pb, C06pc; generated from the harness' own schema text with
   `storageharness c04-coqschema --wirings C06pa,C06pb,C06pc`) ----
   The wirings keep foreign-key fields (cascade / restrict constraints, fk indexes) and a uniquely indexed field in NESTED buckets
   of the entity (symbols declared with a path prefix).  Where a field is stored inside the entity is not part of the schema: the
   model - and therefore wf_notrace_b and the theorems of Properties/C06.v - see ordinary fields, and the harness projects the
   nested values as ordinary field facts.  C06pb / C06pc are C06sa / C06sc (plus one cascading fk index) with nested fields. *)
Definition p_name : name := [110;97;109;101].
Definition p_boss : name := [98;111;115;115].
Definition p_dept : name := [100;101;112;116].
Definition p_room : name := [114;111;111;109].
Definition p_roles : name := [114;111;108;101;115].
Definition p_emp : name := [101;109;112].
Definition p_proj : name := [112;114;111;106].
Definition p_owner : name := [111;119;110;101;114].
Definition p_backup : name := [98;97;99;107;117;112].
Definition p_title : name := [116;105;116;108;101].
Definition p_label : name := [108;97;98;101;108].
Definition p_code : name := [99;111;100;101].
Definition p_marks : name := [109;97;114;107;115].
Definition p_mgr : name := [109;103;114].
Definition p_sponsor : name := [115;112;111;110;115;111;114].
Definition p_ctr : name := [99;116;114].
Definition p_desk : name := [100;101;115;107].
Definition p_nick : name := [110;105;99;107].
Definition p_vends : name := [118;101;110;100;115].
Definition p_tmp : name := [116;109;112].
Definition p_vend : name := [118;101;110;100].
Definition p_tmps : name := [116;109;112;115].
Definition C06pa_schema : schema :=
  [ mkSdef p_emp None false [(p_name, false); (p_boss, true); (p_dept, false); (p_room, true)] [p_roles]
      [CUnique p_name false; CSetIdx p_roles; CFkCons p_boss p_emp true; CFkCascade p_emp p_boss CascNone; CFkCons p_dept p_dept false; CFkCons p_room p_room true; CFkCascade p_proj p_owner CascDelete; CFkCascade p_proj p_backup CascNone] [];
    mkSdef p_dept None false [(p_title, false)] []
      [CFkCascade p_emp p_dept CascDelete] [];
    mkSdef p_room None false [(p_label, true)] []
      [CFkCascade p_emp p_room CascNone; CUnique p_label true] [];
    mkSdef p_proj None false [(p_name, false); (p_owner, false); (p_code, true); (p_backup, true)] []
      [CFkCons p_owner p_emp false; CUnique p_code true; CFkCons p_backup p_emp true] [] ].
Definition C06pb_schema : schema :=
  [ mkSdef p_dept None false [(p_name, false)] [p_marks]
      [CUnique p_name false; CSetIdx p_marks; CFkCascade p_mgr p_sponsor CascDelete; CFkCascade p_ctr p_sponsor CascDelete] [];
    mkSdef p_room None false [(p_name, true)] []
      [CUnique p_name true; CFkCascade p_mgr p_desk CascNone; CFkCascade p_ctr p_desk CascNone] [];
    mkSdef p_emp None false [(p_name, false); (p_nick, true)] [p_marks]
      [CUnique p_name false; CSetIdx p_marks] [];
    mkSdef p_mgr (Some p_emp) false [(p_sponsor, false); (p_desk, true)] []
      [CFkCons p_sponsor p_dept false; CFkCons p_desk p_room true] [];
    mkSdef p_ctr (Some p_emp) false [(p_sponsor, true); (p_desk, true)] []
      [CFkCons p_sponsor p_dept true; CFkCons p_desk p_room true] [] ].
Definition C06pc_schema : schema :=
  [ mkSdef p_dept None false [(p_name, false)] [p_marks]
      [CUnique p_name false; CSetIdx p_marks; CFkCascade p_mgr p_sponsor CascDelete; CFkCascade p_ctr p_sponsor CascDelete; CFkCascade p_emp p_sponsor CascNone; CFkRestrict p_vends; CFkCascade p_tmp p_sponsor CascDelete] [];
    mkSdef p_emp None false [(p_name, false); (p_sponsor, true)] [p_marks]
      [CUnique p_name false; CSetIdx p_marks; CFkCons p_sponsor p_dept true] [];
    mkSdef p_vend None false [(p_name, false); (p_sponsor, true)] []
      [CUnique p_name false; CFkIndex p_sponsor p_dept p_vends true] [];
    mkSdef p_mgr (Some p_emp) false [(p_sponsor, true); (p_code, true)] []
      [CUnique p_code true; CFkCons p_sponsor p_dept true] [];
    mkSdef p_ctr (Some p_emp) false [(p_sponsor, true)] []
      [CFkCons p_sponsor p_dept true] [];
    mkSdef p_tmp (Some p_emp) false [(p_sponsor, false)] []
      [CFkIndex p_sponsor p_dept p_tmps false] [] ].

Example C06pa_schema_wf : wf_notrace_b C06pa_schema = true.
Proof. vm_compute. reflexivity. Qed.
Example C06pb_schema_wf : wf_notrace_b C06pb_schema = true.
Proof. vm_compute. reflexivity. Qed.
Example C06pc_schema_wf : wf_notrace_b C06pc_schema = true.
Proof. vm_compute. reflexivity. Qed.
(* the nested fields are what the delete constraints of the target stores work on: the chain dept -> emp -> proj of C06pa, one
   guard per referrer store (level) in C06pb / C06pc; a schema that loses the guard of a nested field is refused *)
Example C06pa_guards :
  cascades_for C06pa_schema p_dept p_dept = [p_emp] /\ cascades_for C06pa_schema p_emp p_owner = [p_proj] /\
  cascades_for C06pa_schema p_emp p_boss = [p_emp] /\ cascades_for C06pa_schema p_room p_room = [p_emp].
Proof. vm_compute. repeat split; reflexivity. Qed.
Example C06pb_guards :
  cascades_for C06pb_schema p_dept p_sponsor = [p_mgr; p_ctr] /\ cascades_for C06pb_schema p_room p_desk = [p_mgr; p_ctr].
Proof. vm_compute. split; reflexivity. Qed.
Example C06pc_guards : cascades_for C06pc_schema p_dept p_sponsor = [p_mgr; p_ctr; p_emp; p_tmp].
Proof. vm_compute. reflexivity. Qed.
Example nested_cascade_guard_dropped_refused :
  wf_notrace_b (drop_cons_of p_emp (fun k => match k with CFkCascade rs _ CascDelete => negb (str_eqb rs p_proj) | _ => true end) C06pa_schema) = false.
Proof. vm_compute. reflexivity. Qed.
Example nested_restrict_guard_dropped_refused :
  wf_notrace_b (drop_cons_of p_room (fun k => match k with CFkCascade _ _ _ => false | _ => true end) C06pa_schema) = false.
Proof. vm_compute. reflexivity. Qed.
