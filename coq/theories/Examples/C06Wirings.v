(* The three schema wirings of the store harness (harness/cmd/storageharness/store_gen.go: idx, fkc, casc),
   as derived by the wiring script, and the proof by computation that they pass wf_notrace_b. *)
From Coq Require Import List NArith Bool.
From Storage Require Import Base.Bytes Store.Model Store.NoTrace.
Import ListNotations.
Open Scope N_scope.

Definition w_emp : name := [101;109;112].
Definition w_dept : name := [100;101;112;116].
Definition w_mgr : name := [109;103;114].
Definition w_room : name := [114;111;111;109].
Definition w_name : name := [110;97;109;101].
Definition w_nick : name := [110;105;99;107].
Definition w_boss : name := [98;111;115;115].
Definition w_roles : name := [114;111;108;101;115].
Definition w_reports : name := [114;101;112;111;114;116;115].
Definition w_members : name := [109;101;109;98;101;114;115].
Definition w_title : name := [116;105;116;108;101].
Definition w_tagsx : name := [116;97;103;115;120].
Definition w_level : name := [108;101;118;101;108].
Definition w_sites : name := [115;105;116;101;115].
Definition w_staff : name := [115;116;97;102;102].
Definition w_label : name := [108;97;98;101;108].
Definition w_a : name := [97].
Definition w_b : name := [98].
Definition w_c : name := [99].
Definition w_bx : name := [98;120].
Definition w_bs : name := [98;115].
Definition w_cs : name := [99;115].
Definition w_cas : name := [99;97;115].
Definition w_code : name := [99;111;100;101].

Definition idx_schema : schema :=
  [ mkSdef w_emp None false [(w_name, false); (w_nick, true); (w_boss, true); (w_dept, false)] [w_roles]
      [CUnique w_name false; CUnique w_nick true; CSetIdx w_roles; CFkIndex w_boss w_emp w_reports true;
       CFkRestrict w_reports; CFkIndex w_dept w_dept w_members false; CSystem]
      [(w_sites, w_dept, w_staff)];
    mkSdef w_dept None false [(w_title, false)] [w_tagsx]
      [CFkRestrict w_members; CUnique w_title false; CSetIdx w_tagsx] [(w_staff, w_emp, w_sites)];
    mkSdef w_mgr (Some w_emp) false [(w_level, true)] [] [CUnique w_level true] [] ].

Definition fkc_schema : schema :=
  [ mkSdef w_emp None false [(w_name, false); (w_boss, true); (w_dept, false); (w_room, true)] []
      [CUnique w_name false; CFkCons w_boss w_emp true; CFkCascade w_emp w_boss CascNone;
       CFkCons w_dept w_dept false; CFkCons w_room w_room true] [];
    mkSdef w_dept None false [(w_title, false)] [] [CFkCascade w_emp w_dept CascDelete] [];
    mkSdef w_room None false [(w_label, true)] [] [CFkCascade w_emp w_room CascNone; CUnique w_label true] [] ].

Definition casc_schema : schema :=
  [ mkSdef w_a None false [(w_name, false)] [w_roles]
      [CUnique w_name false; CSetIdx w_roles; CFkCascade w_b w_a CascDelete; CFkRestrict w_cas] [];
    mkSdef w_b None false [(w_name, false); (w_a, false)] []
      [CFkIndex w_a w_a w_bs false; CFkCascade w_c w_b CascDelete; CSystem] [];
    mkSdef w_c None false [(w_name, true); (w_b, false); (w_a, true)] []
      [CFkIndex w_b w_b w_cs false; CFkIndex w_a w_a w_cas true; CUnique w_name true] [];
    mkSdef w_bx (Some w_b) true [(w_code, true)] [] [CUnique w_code true] [] ].

Example idx_schema_wf : wf_notrace_b idx_schema = true.
Proof. vm_compute. reflexivity. Qed.
Example fkc_schema_wf : wf_notrace_b fkc_schema = true.
Proof. vm_compute. reflexivity. Qed.
Example casc_schema_wf : wf_notrace_b casc_schema = true.
Proof. vm_compute. reflexivity. Qed.

(* wiring cl (store_c06.go wiringC06Cl, used by the burst histories): cascade through an fk index and through a nullable
   fk constraint, referrers with set index, unique index, child store and a link collection with the store they cascade from *)
Definition w_team : name := [116;101;97;109].
Definition w_user : name := [117;115;101;114].
Definition w_agent : name := [97;103;101;110;116].
Definition w_lead : name := [108;101;97;100].
Definition w_users : name := [117;115;101;114;115].
Definition w_grp : name := [103;114;112].
Definition w_mem : name := [109;101;109].

Definition cl_schema : schema :=
  [ mkSdef w_team None false [(w_name, false)] [w_tagsx]
      [CUnique w_name false; CSetIdx w_tagsx; CFkCascade w_user w_team CascDelete; CFkCascade w_user w_lead CascDelete]
      [(w_mem, w_user, w_grp)];
    mkSdef w_user None false [(w_name, false); (w_team, false); (w_lead, true)] [w_roles]
      [CFkIndex w_team w_team w_users false; CFkCons w_lead w_team true; CUnique w_name false; CSetIdx w_roles]
      [(w_grp, w_team, w_mem)];
    mkSdef w_agent (Some w_user) false [(w_code, true)] [] [CUnique w_code true] [] ].

Example cl_schema_wf : wf_notrace_b cl_schema = true.
Proof. vm_compute. reflexivity. Qed.
