(* Non-vacuity examples for the PersistContext theorems of C13 (Codec/Persist.v): concrete
   two- and three-store chains satisfying the hypotheses, and what a derivation that loses the
   checker would do. *)
From Coq Require Import List NArith ZArith Bool.
From Storage Require Import Base.Bytes Codec.CodecBase Codec.FieldCodec Codec.Containers Codec.Persist
  Codec.PersistProofs Codec.Getters Codec.GettersProofs.
Import ListNotations.
Open Scope N_scope.

Definition k_a : str := [97].
Definition k_c : str := [99].
Definition k_ext : str := [101; 120; 116].
Definition k_sub : str := [115; 117; 98].
Definition s_x : scalar := SString [120].
Definition s_y : scalar := SString [121].
Definition s_new : scalar := SString [110; 101; 119].
Definition s_junk : scalar := SString [106; 117; 110; 107].
Definition an_id : str := [105; 100].
Definition s_junk_bytes : str := [106; 117; 110; 107].

(* a child store whose entity bucket is the sub-bucket "ext" of the parent store's *)
Definition chain2 : chain := [[k_ext]; []].
Definition entity0 : bucket := [(k_a, Leaf (encode_scalar s_x)); (k_ext, Sub [(k_c, Leaf (encode_scalar s_y))])].
(* the child's strategy sets its own field c, then persists the parent part (field a) through
   GetParentContext; the patch selects c only *)
Definition patch_prog : list pstmt :=
  [PSet 0 (PBase (OpScalar k_c s_new)); PParent 0; PSet 1 (PBase (OpScalar k_a s_junk))].
Definition only_c : checker := Some (map_field_checker [k_c]).

Example two_level_patch :
  persist chain2 only_c false an_id patch_prog entity0
  = Ok [(k_a, Leaf (encode_scalar s_x)); (k_ext, Sub [(k_c, Leaf (encode_scalar s_new))])].
Proof. vm_compute. reflexivity. Qed.

(* the hypotheses of restricted_persist_frame for the parent's field a *)
Example two_level_patch_no_override : forallb (fun st => negb (is_override st)) patch_prog = true.
Proof. reflexivity. Qed.
Example two_level_patch_frame_hyp :
  forallb (fun w => negb (op_proceeds only_c (w_op w)) || negb (comparable [k_a] (w_addr w)))
          (persist_trace chain2 only_c false an_id patch_prog) = true.
Proof. vm_compute. reflexivity. Qed.
Example two_level_patch_trace :
  map (fun w => (w_path w, w_proceeds w)) (persist_trace chain2 only_c false an_id patch_prog)
  = [([k_ext], true); ([], false)].
Proof. vm_compute. reflexivity. Qed.

(* had the derived context no checker, the parent part would be written in full: the frame
   conclusion fails for field a - the inheritance stated by derived_contexts_share_checker is what
   restricted_persist_frame rests on *)
Example parent_write_without_checker_refuted :
  exists b', apply_writes [mk_write [k_ext] only_c (OpScalar k_c s_new); mk_write [] None (OpScalar k_a s_junk)] entity0 = Ok b'
             /\ node_at [k_a] (Sub b') <> node_at [k_a] (Sub entity0).
Proof. eexists. split; [vm_compute; reflexivity | vm_compute; discriminate]. Qed.

(* three stores: grandchild below the child's bucket; the override on the derived context renames
   the parent's field a to the selected c, so a is written there and nowhere else *)
Definition chain3 : chain := [[k_ext; k_sub]; [k_ext]; []].
Definition entity3 : bucket :=
  [(k_a, Leaf (encode_scalar s_x)); (k_ext, Sub [(k_a, Leaf (encode_scalar s_x)); (k_sub, Sub [])])].
Definition prog3 : list pstmt :=
  [PParent 0; PParent 1; POverride 2 [(k_a, k_c)];
   PSet 0 (PId k_c); PSet 1 (PBase (OpScalar k_a s_junk)); PSet 2 (PBase (OpScalar k_a s_new));
   PSet 2 (PByCreate k_c s_x s_y); PSet 1 (PLinked k_c [[98]; [97]; [98]])].
Example three_level_patch :
  persist chain3 only_c false an_id prog3 entity3
  = Ok [(k_a, Leaf (encode_scalar s_new)); (k_c, Leaf (encode_scalar s_y));
        (k_ext, Sub [(k_a, Leaf (encode_scalar s_x));
                     (k_c, Sub [([5; 97], Leaf []); ([5; 98], Leaf [])]);
                     (k_sub, Sub [(k_c, Leaf (encode_scalar (SString an_id)))])])].
Proof. vm_compute. reflexivity. Qed.
Example three_level_frame_hyp :
  forallb (fun w => negb (w_proceeds w) || negb (comparable [k_ext; k_a] (w_addr w)))
          (persist_trace chain3 only_c false an_id prog3) = true.
Proof. vm_compute. reflexivity. Qed.

(* a Create through the child store makes its bucket *)
Example create_makes_bucket :
  persist chain2 None true an_id [PSet 0 (PByCreate k_c s_x s_y)] [(k_a, Leaf (encode_scalar s_x))]
  = Ok [(k_a, Leaf (encode_scalar s_x)); (k_ext, Sub [(k_c, Leaf (encode_scalar s_x))])].
Proof. vm_compute. reflexivity. Qed.
(* GetParentContext needs the parent's part of the entity *)
Example update_without_bucket : persist chain2 None false an_id [PParent 0] [] = Panic.
Proof. vm_compute. reflexivity. Qed.

(* ---- getters with a default, emptiness, copy ------------------------------------------------------- *)
Example with_default_stored :
  get_int64_with_default k_a 7%Z [(k_a, Leaf (encode_scalar (SInt32 (-5))))] = (-5)%Z
  /\ get_int32_with_default k_a 7%Z [(k_a, Leaf (encode_scalar (SInt64 (-5))))] = 7%Z.
Proof. vm_compute. split; reflexivity. Qed.
Example with_default_null :
  get_string_with_default k_a s_junk_bytes [(k_a, Leaf (encode_scalar SNil))] = SVal (Some s_junk_bytes)
  /\ get_string_with_default k_a s_junk_bytes [(k_a, Leaf (encode_scalar (SString [])))] = SVal (Some []).
Proof. vm_compute. split; reflexivity. Qed.
Example entity3_canon : canon (Sub entity3).
Proof. cbn. repeat split; try (repeat constructor; fail); try discriminate; intros; vm_compute; discriminate. Qed.
Example entity3_copy : copy_bucket (fun _ => true) entity3 [] = Ok entity3.
Proof. vm_compute. reflexivity. Qed.
Example entity3_copy_filtered :
  copy_bucket (fun p => match rev p with k :: _ => negb (str_eqb k k_a) | [] => true end) entity3 []
  = Ok [(k_ext, Sub [(k_sub, Sub [])])].
Proof. vm_compute. reflexivity. Qed.
Example entity3_children : map fst (child_buckets entity3) = [k_ext].
Proof. vm_compute. reflexivity. Qed.
