(* C02 - non-vacuity examples for the child-store and re-execution theorems of Properties/C02.v and
   refutation witnesses for the two ways these can go wrong (a scan loop that counts a row before it
   has tested that the row belongs to the queried store; an execution that consumes the skip of the
   compiled query).  Everything here is evaluated by vm_compute. *)
From Coq Require Import List ZArith NArith Bool Sorted Permutation.
From Storage Require Import Base.Bytes Query.Compare Query.CompareProofs Query.Paging Query.PagingProofs
  Query.ScanUnique Query.ScanUniqueProofs Query.ScanSort Query.ScanSortProofs
  Query.ChildScan Query.ChildScanProofs Examples.C02Examples.
Import ListNotations.
Open Scope Z_scope.

(* the people table of C02Examples.v as the root store; a (97), c (99) and d (100) also have the
   bucket of the child store, b (98) and e (101) exist in the parent only *)
Definition has_child (r : row) : bool :=
  match r_id r with [x] => (N.eqb x 97 || N.eqb x 99 || N.eqb x 100)%bool | _ => false end.
Definition plain_child : store_view := {| sv_child := true; sv_extended := false |}.
Definition ext_child : store_view := {| sv_child := true; sv_extended := true |}.

Example ex_child_entities :
  map r_id (store_rows plain_child has_child ex_rows) = map s [[97]; [99]; [100]] /\
  map r_id (store_rows ext_child has_child ex_rows) = map s [[97]; [98]; [99]; [100]; [101]] /\
  map r_id (store_rows root_view has_child ex_rows) = map s [[97]; [98]; [99]; [100]; [101]].
Proof. vm_compute. repeat split. Qed.

(* `true sort by name limit 2` through the child store: "a" (c), then the first "bo" (a); b and e
   sort first among the rows of the parent (null, "") but are not entities of the child store.
   Count 3, not 5. *)
Example ex_child_sorted_limit :
  child_query_ids plain_child has_child all_rows [by_name true] (pg None (Some 2)) ex_rows
    = (map s [[99]; [97]], 3).
Proof. vm_compute. reflexivity. Qed.

(* the same query through the extended child store ranges over every row of the parent *)
Example ex_ext_child_sorted_limit :
  child_query_ids ext_child has_child all_rows [by_name true] (pg None (Some 2)) ex_rows
    = (map s [[98]; [101]], 5).
Proof. vm_compute. reflexivity. Qed.

(* every strategy and the iteration: id order, reverse id order, sorting, paged cursor *)
Example ex_child_strategies :
  child_query_ids plain_child has_child all_rows [] (pg (Some 1) (Some 5)) ex_rows = (map s [[99]; [100]], 3) /\
  child_query_ids plain_child has_child all_rows [by_id false] (pg (Some 1) None) ex_rows = (map s [[99]; [97]], 3) /\
  child_scan_sorting plain_child has_child all_rows [by_id true] (pg (Some 1) (Some 5)) ex_rows = (map s [[99]; [100]], 3) /\
  child_iterate_ids plain_child has_child all_rows (pg (Some 1) (Some 1)) ex_rows = map s [[99]].
Proof. vm_compute. repeat split. Qed.

(* a filter: has_age holds for a, b, d, e; in the child store for a and d *)
Example ex_child_filter_count :
  child_query_ids plain_child has_child has_age [by_age false] (pg None (Some 1)) ex_rows = (map s [[97]], 2).
Proof. vm_compute. reflexivity. Qed.

(* ---- refuted: counting before the membership test --------------------------------------------------
   the loop body with the two tests in the other order: the filter first, count++, and only then
   "is this row part of the child store".  The count includes rows of the parent, and because the
   same counter drives DeleteMax a finite limit evicts genuine rows of a tree that is not full. *)
Definition cs_step_count_first (sv : store_view) (present matches : row -> bool)
           (cmp : row -> row -> comparison) (maxr : Z) (st : list row * Z) (r : row) : list row * Z :=
  if matches r then
    let n := incr64 (snd st) in
    if not_in_store sv present r then (fst st, n)
    else let t := tree_insert cmp r (fst st) in (if n >? maxr then tree_delete_max t else t, n)
  else st.
Definition scan_count_first (sv : store_view) (present matches : row -> bool) (fs : list sort_field)
           (p : paging) (rows : list row) : list str * Z :=
  let off := fst (set_paging p) in
  let lim := snd (set_paging p) in
  let st := fold_left (cs_step_count_first sv present matches (row_cmp fs) (max_results off lim)) rows ([], 0) in
  (tree_do off (fst st) 0, snd st).

Example count_before_membership_refuted :
  scan_count_first plain_child has_child all_rows [by_name true] (pg None (Some 2)) ex_rows
    = (map s [[99]], 5) /\
  scan_count_first plain_child has_child all_rows [by_name true] (pg None (Some 2)) ex_rows
    <> query_spec [by_name true] (pg None (Some 2)) all_rows (store_rows plain_child has_child ex_rows).
Proof. split; vm_compute; [reflexivity|discriminate]. Qed.

(* ---- re-execution ------------------------------------------------------------------------------------ *)
Definition q_page : cquery := {| cq_match := all_rows; cq_sort := []; cq_paging := pg (Some 1) (Some 2) |}.
Definition prog : list qop :=
  [Run EQueryIds; Run EQueryIds; Run EIterate; Run ECursorQuery; SetSkip 2; Run EQueryIds; Run EObjects;
   AdoptSort [by_name false]; Run EQueryIds; SetLimit (-1); Run ECursorQuery; SetPred has_age; Run EQueryIds].

Example ex_rerun_hyps : Forall qop_wf prog /\ wf_paging (cq_paging q_page).
Proof.
  split.
  - unfold prog. repeat constructor; vm_compute; discriminate.
  - constructor; intros x E; inversion E; subst; vm_compute; split; discriminate.
Qed.

Example ex_rerun_answers :
  run_prog root_view has_child ex_rows q_page prog =
  [ (map s [[98]; [99]], Some 5); (map s [[98]; [99]], Some 5); (map s [[98]; [99]], None);
    (map s [[98]; [99]], Some 5);
    (map s [[99]; [100]], Some 5); (map s [[99]; [100]], Some 5);
    (map s [[99]; [101]], Some 5);
    (map s [[99]; [101]; [98]], Some 5);
    (map s [[101]; [98]], Some 4) ].
Proof. vm_compute. reflexivity. Qed.

Example ex_rerun_is_spec :
  run_prog plain_child has_child ex_rows q_page prog = spec_prog plain_child has_child ex_rows q_page prog.
Proof. vm_compute. reflexivity. Qed.

(* a query without skip / limit comes back normalised (skip 0, limit MaxInt64) - and means the same *)
Example ex_exec_writes_back :
  cq_paging (snd (exec root_view has_child ex_rows EQueryIds
                       {| cq_match := all_rows; cq_sort := []; cq_paging := pg (Some (-3)) limit_none |}))
    = pg (Some 0) (Some max_int64).
Proof. vm_compute. reflexivity. Qed.

(* ---- refuted: an execution that consumes the skip ---------------------------------------------------
   the id-ordered scan decrementing the skip THROUGH the pointer GetSkip() returns: after the first
   execution the compiled query has skip 0 *)
Definition exec_consuming (sv : store_view) (present : row -> bool) (rows : list row) (e : entry) (q : cquery)
  : answer * cquery :=
  let p := normalize_paging (cq_paging q) in
  let skipped := Z.min (fst (set_paging p)) (Z.of_nat (length (filter (cq_match q) (store_rows sv present rows)))) in
  (answer_of sv present rows e q,
   {| cq_match := cq_match q; cq_sort := cq_sort q;
      cq_paging := {| pg_skip := Some (fst (set_paging p) - skipped); pg_limit := pg_limit p |} |}).

Example consumed_skip_refuted :
  let (a1, q1) := exec_consuming root_view has_child ex_rows EQueryIds q_page in
  let (a2, _) := exec_consuming root_view has_child ex_rows EQueryIds q1 in
  a1 = (map s [[98]; [99]], Some 5) /\ a2 = (map s [[97]; [98]], Some 5) /\
  effective_paging q1 <> effective_paging q_page.
Proof. vm_compute. repeat split; discriminate. Qed.
