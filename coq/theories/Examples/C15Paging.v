(* Non-vacuity for the paged / sorted / counted queries of C15 (Store/Paging.v): a mixed population of plain parent
   and child entities in which the plain parents sort BEFORE the child entities and match every filter used; and a
   refuted variant of the sorting loop (the row is counted before the child-data test). *)
From Coq Require Import List NArith Bool.
From Storage Require Import Base.Bytes Store.Model Store.ChildProofs Store.Paging Store.PagingProofs Store.PagingChild
  Examples.C16Examples Examples.C15Examples.
Import ListNotations.
Open Scope N_scope.

(* idx: dept d(100) ; plain employees 97 (name 97), 99 (name 98) ; managers 98 (name 122), 101 (name 121) *)
Definition popq : list tx :=
  [ mkTx false [] [mk_dept; mk_emp [97] [97]; mk_mgr [98] [122] false; mk_emp [99] [98]; mk_mgr [101] [121] false] false ].
Definition stq : state := run_txs idx_schema 8 st_empty popq.

Example paging_population :
  ids_of stq n_emp = [[97]; [98]; [99]; [101]] /\ query_ids idx_schema stq n_mgr = [[98]; [101]].
Proof. vm_compute. split; reflexivity. Qed.

(* through the parent: all four, sorted by name; through the plain child: the two managers only - also when the
   page is smaller than the number of matching plain parents *)
Example sorted_through_parent :
  sorting_scan idx_schema stq n_emp QTrue n_name true 0 None = ([[97]; [99]; [101]; [98]], 4%nat) /\
  sorting_scan idx_schema stq n_emp QTrue n_name false 1 (Some 2%nat) = ([[101]; [99]], 4%nat).
Proof. vm_compute. split; reflexivity. Qed.

Example sorted_through_plain_child :
  sorting_scan idx_schema stq n_mgr QTrue n_name true 0 None = ([[101]; [98]], 2%nat) /\
  sorting_scan idx_schema stq n_mgr QTrue n_name true 0 (Some 1%nat) = ([[101]], 2%nat) /\
  sorting_scan idx_schema stq n_mgr QTrue n_name true 1 (Some 1%nat) = ([[98]], 2%nat) /\
  sorting_scan idx_schema stq n_mgr (QFieldEq n_dept [100]) n_level true 0 (Some 2%nat) = ([[101]; [98]], 2%nat).
Proof. vm_compute. repeat split; reflexivity. Qed.

Example unsorted_and_cursor_through_plain_child :
  unsorted_scan idx_schema stq n_mgr (QFieldEq n_dept [100]) 1 (Some 1%nat) = ([[101]], 2%nat) /\
  cursor_scan idx_schema stq n_mgr QTrue 0 (Some 1%nat) = [[98]] /\
  unsorted_scan idx_schema stq n_emp (QFieldEq n_dept [100]) 1 (Some 1%nat) = ([[98]], 4%nat).
Proof. vm_compute. repeat split; reflexivity. Qed.

Example paged_instance_of_theorem :
  forall i, In i (fst (query_page idx_schema stq n_mgr QTrue (Some (n_name, true)) 0 (Some 1%nat))) ->
  present idx_schema stq n_mgr i = true.
Proof.
  intros i Hi.
  destruct (child_paged_query_only_children_closed idx_schema n_emp n_mgr stq QTrue (Some (n_name, true)) 0 (Some 1%nat) idx_child_wf)
    as [Hplain _].
  destruct (Hplain idx_plain) as [H _]. apply H. exact Hi.
Qed.

(* extended child: the same query through bx and through b *)
Example sorted_through_extended_child :
  sorting_scan casc_schema stx n_bx QTrue n_name false 0 (Some 1%nat) = ([[51]], 2%nat) /\
  sorting_scan casc_schema stx n_b QTrue n_name false 0 (Some 1%nat) = ([[51]], 2%nat).
Proof. vm_compute. split; reflexivity. Qed.

(* REFUTED variant: the loop that counts the matching row first and tests for child data afterwards ("only pay for
   the extension-bucket lookup on rows which passed the filter") counts the plain parents and lets their count
   drive DeleteMax: the page of the managers is empty and the total is the parent store's. *)
Fixpoint sorting_loop_count_first (vis mat : id -> bool) (leb : id -> id -> bool) (maxr : option nat)
    (ids : list id) (tree : list id) (count : nat) : list id * nat :=
  match ids with
  | [] => (tree, count)
  | i :: r =>
      if negb (mat i) then sorting_loop_count_first vis mat leb maxr r tree count
      else
        let count1 := S count in
        if negb (vis i) then sorting_loop_count_first vis mat leb maxr r tree count1
        else
          let tree1 := ins leb i tree in
          sorting_loop_count_first vis mat leb maxr r (if over count1 maxr then removelast tree1 else tree1) count1
  end.

Example count_first_refuted :
  sorting_loop_count_first (q_visible idx_schema stq n_mgr) (q_match idx_schema stq n_mgr QTrue)
    (row_leb idx_schema stq n_mgr n_name true) (max_results 0 (Some 1%nat)) (ids_of stq n_emp) [] 0
  = ([], 4%nat) /\
  query_page idx_schema stq n_mgr QTrue (Some (n_name, true)) 0 (Some 1%nat) = ([[101]], 2%nat).
Proof. vm_compute. split; reflexivity. Qed.
