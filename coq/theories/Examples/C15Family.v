(* C15, sixth strengthening (seeded C15-w5-1, C15-w5-2).

   (1) The wirings C15mxp / C15mpx / C15mpp / C15m3 of harness/cmd/storageharness/store_c15w6.go - ONE parent store p
       (unique index, set index, fk index to org) with SEVERAL child stores: an extended child store px (own nullable
       unique index) registered before / after a plain child store pc (own unique index, referrer of an fk index), two
       plain child stores, three child stores - as derived by the wiring script; the side conditions of the C15 theorems
       (wf_child_b for EVERY child store, wf_unique_b, wf_notrace_b of delete_removes_every_part, dw_zone_b) by computation.
   (2) A mixed population in C15mxp: every lookup variant through the parent, the plain and the extended child store; the
       two bucket functions differ exactly on (extended child store, parent entity without extension data) - a LoadEntity on
       top of GetEntityBucket disagrees with FindById there; a delete of a pc-entity through the parent, through pc and
       through the OTHER child store px removes the entity, pc's own unique-index entry and its back-reference. *)
From Coq Require Import List NArith Bool.
From Storage Require Import Base.Bytes Store.Model Store.UniqueProofs Store.WfSchema Store.ChildProofs Store.XOps
     Store.ChildDeleteWhere Store.NoTrace Store.Lookups Store.LookupsProofs.
Import ListNotations.
Open Scope N_scope.

Definition m_org : name := [111;114;103].
Definition m_label : name := [108;97;98;101;108].
Definition m_p : name := [112].
Definition m_name : name := [110;97;109;101].
Definition m_nick : name := [110;105;99;107].
Definition m_roles : name := [114;111;108;101;115].
Definition m_marks : name := [109;97;114;107;115].
Definition m_ps : name := [112;115].
Definition m_pcs : name := [112;99;115].
Definition m_px : name := [112;120].
Definition m_xcode : name := [120;99;111;100;101].
Definition m_xnote : name := [120;110;111;116;101].
Definition m_pc : name := [112;99].
Definition m_ckey : name := [99;107;101;121].
Definition m_csite : name := [99;115;105;116;101].
Definition m_cnote : name := [99;110;111;116;101].
Definition m_pd : name := [112;100].
Definition m_dkey : name := [100;107;101;121].
Definition m_dnote : name := [100;110;111;116;101].

Definition d_org : sdef := mkSdef m_org None false [(m_label, false)] [] [CUnique m_label false; CFkRestrict m_ps; CFkRestrict m_pcs] [].
Definition d_p : sdef :=
  mkSdef m_p None false [(m_name, false); (m_nick, true); (m_org, false)] [m_roles; m_marks]
    [CUnique m_name false; CSetIdx m_roles; CFkIndex m_org m_org m_ps false] [].
Definition d_px : sdef := mkSdef m_px (Some m_p) true [(m_xcode, true); (m_xnote, false)] [] [CUnique m_xcode true] [].
Definition d_pc : sdef :=
  mkSdef m_pc (Some m_p) false [(m_ckey, false); (m_csite, true); (m_cnote, true)] []
    [CUnique m_ckey false; CFkIndex m_csite m_org m_pcs true] [].
Definition d_pd : sdef := mkSdef m_pd (Some m_p) false [(m_dkey, true); (m_dnote, false)] [] [CUnique m_dkey true; CSetIdx m_marks] [].

Definition mxp_schema : schema := [d_org; d_p; d_px; d_pc].   (* extended registered BEFORE plain *)
Definition mpx_schema : schema := [d_org; d_p; d_pc; d_px].   (* plain before extended *)
Definition mpp_schema : schema := [d_org; d_p; d_pc; d_pd].   (* two plain child stores *)
Definition m3_schema : schema := [d_org; d_p; d_pd; d_px; d_pc]. (* three: plain, extended, plain *)

(* ---- side conditions, by computation: every child store of every wiring *)
Example multi_child_wf :
  wf_child_b mxp_schema m_p m_px = true /\ wf_child_b mxp_schema m_p m_pc = true /\
  wf_child_b mpx_schema m_p m_px = true /\ wf_child_b mpx_schema m_p m_pc = true /\
  wf_child_b mpp_schema m_p m_pc = true /\ wf_child_b mpp_schema m_p m_pd = true /\
  wf_child_b m3_schema m_p m_pd = true /\ wf_child_b m3_schema m_p m_px = true /\ wf_child_b m3_schema m_p m_pc = true.
Proof. vm_compute. repeat split; reflexivity. Qed.
Example multi_unique_wf :
  wf_unique_b mxp_schema m_p m_name = true /\ wf_unique_b mpx_schema m_p m_name = true /\
  wf_unique_b mpp_schema m_p m_name = true /\ wf_unique_b m3_schema m_p m_name = true.
Proof. vm_compute. repeat split; reflexivity. Qed.
Example multi_notrace_wf :
  wf_notrace_b mxp_schema = true /\ wf_notrace_b mpx_schema = true /\ wf_notrace_b mpp_schema = true /\ wf_notrace_b m3_schema = true.
Proof. vm_compute. repeat split; reflexivity. Qed.
Example multi_children :
  map sd_name (children_of mxp_schema m_p) = [m_px; m_pc] /\ map sd_name (children_of mpx_schema m_p) = [m_pc; m_px] /\
  map sd_name (children_of mpp_schema m_p) = [m_pc; m_pd] /\ map sd_name (children_of m3_schema m_p) = [m_pd; m_px; m_pc].
Proof. vm_compute. repeat split; reflexivity. Qed.
Example multi_zones :
  dw_zone_b mxp_schema m_p [m_p; m_px; m_pc] = true /\ dw_zone_b mpx_schema m_p [m_p; m_pc; m_px] = true /\
  dw_zone_b mpp_schema m_p [m_p; m_pc; m_pd] = true /\ dw_zone_b m3_schema m_p [m_p; m_pd; m_px; m_pc] = true.
Proof. vm_compute. repeat split; reflexivity. Qed.

(* ---- C15mxp: org o ; p a = plain parent ; b created through the PLAIN child store pc ; c through the EXTENDED px *)
Definition fam_mk (through : name) (i nm : str) : op :=
  OCreate through i false
    [(m_name, Some nm); (m_nick, None); (m_org, Some [111]);
     (m_xcode, Some (nm ++ [120])); (m_xnote, Some [110]);
     (m_ckey, Some (nm ++ [107])); (m_csite, Some [111]); (m_cnote, None)] [(m_roles, [[114]]); (m_marks, [])].
Definition fam_pop : list tx :=
  [ mkTx false [] [OCreate m_org [111] false [(m_label, Some [108])] [];
                   fam_mk m_p [97] [49]; fam_mk m_pc [98] [50]; fam_mk m_px [99] [51]] false ].
Definition stf : state := run_txs mxp_schema 8 st_empty fam_pop.

Example fam_population :
  ids_of stf m_p = [[97]; [98]; [99]] /\
  uidx stf m_p m_ckey = [([50; 107], [98])] /\ uidx stf m_p m_xcode = [([51; 120], [99])] /\
  get_set mxp_schema stf m_org [111] m_pcs = [[98]] /\ get_set mxp_schema stf m_org [111] m_ps = [[97]; [98]; [99]].
Proof. vm_compute. repeat split; reflexivity. Qed.

(* every lookup variant over the ids a b c and the absent d: parent, plain child, extended child *)
Definition probes : list id := [[97]; [98]; [99]; [100]].
Example fam_lookups_parent :
  map (fun lk => lk_filter lk mxp_schema stf m_p probes)
      [lk_find_by_id; lk_load_by_id; lk_load_entity; lk_is_entity_present; lk_bucket; lk_valid_id; lk_queried]
  = repeat [[97]; [98]; [99]] 7.
Proof. vm_compute. reflexivity. Qed.
Example fam_lookups_plain_child :
  map (fun lk => lk_filter lk mxp_schema stf m_pc probes)
      [lk_find_by_id; lk_load_by_id; lk_load_entity; lk_is_entity_present; lk_bucket; lk_valid_id; lk_queried]
  = repeat [[98]] 7.
Proof. vm_compute. reflexivity. Qed.
Example fam_lookups_extended_child :
  map (fun lk => lk_filter lk mxp_schema stf m_px probes) [lk_find_by_id; lk_load_by_id; lk_load_entity; lk_queried]
  = repeat [[97]; [98]; [99]] 4 /\
  map (fun lk => lk_filter lk mxp_schema stf m_px probes) [lk_is_entity_present; lk_bucket; lk_valid_id] = repeat [[99]] 3.
Proof. vm_compute. split; reflexivity. Qed.

(* GetEntityBucket and getEntityBucketForLoad differ exactly for the extended child store on parent entities without
   extension data: a LoadEntity that reads GetEntityBucket (the seeded change) answers "not found" for a and b where
   FindById / LoadById / the store's query find them - excluded by lookups_agree *)
Example load_entity_on_plain_bucket_refuted :
  filter (fun i => is_some (entity_bucket mxp_schema stf m_px i)) probes = [[99]] /\
  lk_filter lk_find_by_id mxp_schema stf m_px probes = [[97]; [98]; [99]] /\
  filter (fun i => is_some (entity_bucket mxp_schema stf m_pc i)) probes = lk_filter lk_find_by_id mxp_schema stf m_pc probes.
Proof. vm_compute. repeat split; reflexivity. Qed.

(* string-list helpers: the parent shows the stored roles, a child store nothing *)
Example fam_related :
  lk_related mxp_schema stf m_p [98] m_roles = [[114]] /\ lk_related mxp_schema stf m_pc [98] m_roles = [] /\
  lk_related mxp_schema stf m_px [98] m_roles = [] /\ lk_is_related mxp_schema stf m_p [98] m_roles [114] = true.
Proof. vm_compute. repeat split; reflexivity. Qed.

(* deleting the pc-entity b through the parent, through pc and through the OTHER child store px: the same result, and
   nothing of b remains - not the entity, not pc's own unique-index entry, not its back-reference in org *)
Definition del_through (s : name) : tx := mkTx false [] [ODelete s [98]] false.
Example delete_removes_every_part_instance :
  match run_tx mxp_schema 8 stf (del_through m_p), run_tx mxp_schema 8 stf (del_through m_pc), run_tx mxp_schema 8 stf (del_through m_px) with
  | (rs1, c1, st1, _), (rs2, c2, st2, _), (rs3, c3, st3, _) =>
      rs1 = [None] /\ c1 = true /\ rs2 = rs1 /\ c2 = true /\ rs3 = rs1 /\ c3 = true /\
      ents st2 m_p = ents st1 m_p /\ ents st3 m_p = ents st1 m_p /\
      ids_of st1 m_p = [[97]; [99]] /\ uidx st1 m_p m_ckey = [] /\ uidx st2 m_p m_ckey = [] /\ uidx st3 m_p m_ckey = [] /\
      uidx st1 m_p m_name = [([49], [97]); ([51], [99])] /\
      get_set mxp_schema st1 m_org [111] m_pcs = [] /\ get_set mxp_schema st1 m_org [111] m_ps = [[97]; [99]] /\
      lk_filter lk_find_by_id mxp_schema st1 m_px probes = [[97]; [99]] /\ lk_filter lk_load_entity mxp_schema st1 m_pc probes = []
  end.
Proof. vm_compute. repeat split; reflexivity. Qed.

(* ... and the value is free again: a create through pc with b's old key succeeds afterwards (and is refused before) *)
Example recreate_after_delete :
  match run_tx mxp_schema 8 stf (mkTx false [] [fam_mk m_pc [100] [50]] false),
        run_tx mxp_schema 8 stf (mkTx false [] [ODelete m_p [98]; fam_mk m_pc [100] [50]] false) with
  | (rs1, c1, _, _), (rs2, c2, st2, _) =>
      rs1 = [Some EDuplicate] /\ c1 = false /\ rs2 = [None; None] /\ c2 = true /\ uidx st2 m_p m_ckey = [([50; 107], [100])]
  end.
Proof. vm_compute. repeat split; reflexivity. Qed.

(* instance of delete_removes_every_part with every hypothesis discharged: c = pc, the delete enters through px *)
Example delete_removes_every_part_hyps :
  forall st' evs', delete_by_id mxp_schema (mkOctx false []) 8 (run_txs mxp_schema 8 st_empty fam_pop, []) m_px [98] = Ok (st', evs') ->
  present mxp_schema st' m_pc [98] = false /\ (forall f v, al_get v (uidx st' m_p f) <> Some [98]).
Proof.
  intros st' evs' H.
  destruct (delete_removes_every_part_closed mxp_schema 8 fam_pop (mkOctx false []) 8 [] m_p m_pc m_px [98] st' evs') as [[_ [A _]] [B _]];
    try (vm_compute; reflexivity); [exact H|]. split; [exact A | exact B].
Qed.

(* three child stores (C15m3: pd, px, pc): an entity of the LAST child store, deleted through the FIRST *)
Definition m3_pop : list tx :=
  [ mkTx false [] [OCreate m_org [111] false [(m_label, Some [108])] []; fam_mk m_p [97] [49]; fam_mk m_pc [98] [50]] false ].
Example three_children_delete :
  match run_tx m3_schema 8 (run_txs m3_schema 8 st_empty m3_pop) (mkTx false [] [ODelete m_pd [98]] false) with
  | (rs, c, st', _) => rs = [None] /\ c = true /\ ids_of st' m_p = [[97]] /\ uidx st' m_p m_ckey = [] /\
                       get_set m3_schema st' m_org [111] m_pcs = []
  end.
Proof. vm_compute. repeat split; reflexivity. Qed.
