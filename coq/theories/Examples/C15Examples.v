(* Non-vacuity for C15: the two harness wirings with child stores pass the check; a mixed population of plain
   parent and child entities shows the queries, the update routing and the deletes of the theorems. *)
From Coq Require Import List NArith Bool.
From Storage Require Import Base.Bytes Store.Model Store.UniqueProofs Store.WfSchema Store.ChildProofs Examples.C16Examples.
Import ListNotations.
Open Scope N_scope.

(* schemas: idx_schema (emp + plain child mgr) and casc_schema (b + extended child bx) of Examples/C16Examples.v *)
Example idx_child_wf : wf_child_b idx_schema n_emp n_mgr = true.
Proof. vm_compute. reflexivity. Qed.
Example casc_child_wf : wf_child_b casc_schema n_b n_bx = true.
Proof. vm_compute. reflexivity. Qed.
Example idx_unique_wf : wf_unique_b idx_schema n_emp n_name = true.
Proof. vm_compute. reflexivity. Qed.
Example idx_only_child : map sd_name (children_of idx_schema n_emp) = [n_mgr].
Proof. vm_compute. reflexivity. Qed.
Example casc_only_child : map sd_name (children_of casc_schema n_b) = [n_bx].
Proof. vm_compute. reflexivity. Qed.
Example idx_plain : is_ext idx_schema n_mgr = false. Proof. reflexivity. Qed.
Example casc_extended : is_ext casc_schema n_bx = true. Proof. reflexivity. Qed.

(* ---- idx: dept d ; emp a (plain parent, name x) ; mgr b (child entity, name y, level l) *)
Definition mk_emp (i nm : str) : op :=
  OCreate n_emp i false [(n_name, Some nm); (n_nick, None); (n_boss, None); (n_dept, Some [100]); (n_level, None)] [(n_roles, [])].
Definition pop : list tx :=
  [ mkTx false [] [mk_dept; mk_emp [97] [120]; mk_mgr [98] [121] false] false ].
Definition stp : state := run_txs idx_schema 8 st_empty pop.

Example mixed_population :
  ids_of stp n_emp = [[97]; [98]] /\ present idx_schema stp n_mgr [97] = false /\ present idx_schema stp n_mgr [98] = true.
Proof. vm_compute. repeat split; reflexivity. Qed.

Example plain_child_reads :
  query_ids idx_schema stp n_emp = [[97]; [98]] /\ query_ids idx_schema stp n_mgr = [[98]] /\
  valid_ids idx_schema stp n_mgr = [[98]] /\ find_ids idx_schema stp n_mgr = [[98]].
Proof. vm_compute. repeat split; reflexivity. Qed.

Example child_sees_parent : get_field idx_schema stp n_mgr [98] n_name = FStr [121] /\ get_field idx_schema stp n_mgr [98] n_level = FStr [121].
Proof. vm_compute. split; reflexivity. Qed.

(* update of the child entity entered through the PARENT store: routed to mgr, shared field, child field and the
   parent's unique index all carry the new values *)
Definition up_through (s : name) : tx :=
  mkTx false [] [OUpdate s [98] [(n_name, Some [122]); (n_nick, None); (n_boss, None); (n_dept, Some [100]); (n_level, Some [109])] [(n_roles, [])] None] false.
Example update_through_parent :
  match run_tx idx_schema 8 stp (up_through n_emp) with
  | (rs, committed, st', evs) =>
      committed = true /\ get_field idx_schema st' n_emp [98] n_name = FStr [122] /\
      get_field idx_schema st' n_mgr [98] n_level = FStr [109] /\
      uidx st' n_emp n_name = [([120], [97]); ([122], [98])] /\ uidx st' n_emp n_level = [([109], [98])]
  end.
Proof. vm_compute. repeat split; reflexivity. Qed.
Example update_through_child_same :
  match run_tx idx_schema 8 stp (up_through n_emp), run_tx idx_schema 8 stp (up_through n_mgr) with
  | (rs, c1, st1, evs1), (rs2, c2, st2, evs2) =>
      rs = rs2 /\ c1 = c2 /\ evs1 = evs2 /\ ents st1 n_emp = ents st2 n_emp /\ uidx st1 n_emp n_name = uidx st2 n_emp n_name
  end.
Proof. vm_compute. repeat split; reflexivity. Qed.
Example handles_instance : handles idx_schema n_emp n_mgr stp [98].
Proof. apply handles_only_child_closed; vm_compute; reflexivity. Qed.

(* a duplicate of the plain parent's name is refused for a create through the child store *)
Example child_duplicate_refused :
  match run_tx idx_schema 8 stp (mkTx false [] [mk_mgr [99] [120] false] false) with
  | (rs, committed, _, _) => rs = [Some EDuplicate] /\ committed = false
  end.
Proof. vm_compute. split; reflexivity. Qed.

(* delete through the child store removes both parts *)
Example delete_through_child :
  match run_tx idx_schema 8 stp (mkTx false [] [ODelete n_mgr [98]] false) with
  | (rs, committed, st', evs) =>
      committed = true /\ ids_of st' n_emp = [[97]] /\ query_ids idx_schema st' n_mgr = [] /\
      uidx st' n_emp n_level = [] /\ uidx st' n_emp n_name = [([120], [97])]
  end.
Proof. vm_compute. repeat split; reflexivity. Qed.

(* modelled as it is, not asserted by the property: DeleteById through the plain child store of a parent entity
   WITHOUT child data deletes the parent entity *)
Example delete_plain_parent_through_child_as_modelled :
  match run_tx idx_schema 8 stp (mkTx false [] [ODelete n_mgr [97]] false) with
  | (rs, committed, st', evs) => rs = [None] /\ committed = true /\ ids_of st' n_emp = [[98]]
  end.
Proof. vm_compute. repeat split; reflexivity. Qed.

(* ---- casc: extended child bx of b *)
Definition popx : list tx :=
  [ mkTx false [] [mk_a [49] [120]; mk_b n_bx [50] [121] false; mk_b n_b [51] [122] false] false ].
Definition stx : state := run_txs casc_schema 8 st_empty popx.
Example extended_child_reads :
  query_ids casc_schema stx n_b = [[50]; [51]] /\ query_ids casc_schema stx n_bx = [[50]; [51]] /\
  valid_ids casc_schema stx n_bx = [[50]] /\ find_ids casc_schema stx n_bx = [[50]; [51]].
Proof. vm_compute. repeat split; reflexivity. Qed.
Example created_through_extended_child_in_both :
  present casc_schema stx n_b [50] = true /\ present casc_schema stx n_bx [50] = true /\
  get_field casc_schema stx n_b [50] n_name = FStr [121].
Proof. vm_compute. repeat split; reflexivity. Qed.
