From Coq Require Import List NArith Bool.
From Storage Require Import Base.Bytes Store.Model.
Example c15_stub_ex : True. Proof. exact I. Qed.
