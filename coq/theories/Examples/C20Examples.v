(* C20 - non-vacuity examples.  A small hand-written table (a cut-down copy of seven real kinds)
   keeps these examples independent of harmless renamings in the Go source; the last section
   computes its trees from the regenerated table itself. *)
From Coq Require Import List Bool NArith.
From Storage Require Import Base.Bytes Ast.AstTable Ast.Visitor Ast.VisitorProofs Ast.VisitorGen Ast.VisitorInst.
Import ListNotations.
Open Scope name_scope.

Definition s (n : name) : str := name_bytes n.

Definition mk (nm : name) (strs : list sfield) (kids : list cfield) (sy : symsrc) (acc : list act) : kdesc :=
  {| k_name := nm; k_ptr := true; k_file := "example.go"; k_strs := strs; k_children := kids; k_symbol := sy;
     k_recv_guard := false; k_accept := acc; k_unsupported := [] |}.
Definition symf (n : name) : sfield := {| sf_name := n; sf_issym := true; sf_evidence := [] |}.
Definition strf (n : name) : sfield := {| sf_name := n; sf_issym := false; sf_evidence := [] |}.
Definition one (n : name) : cfield := {| cf_name := n; cf_shape := FSingle; cf_type := "Node"; cf_hidden := false; cf_nilable := false |}.
Definition opt (n : name) : cfield := {| cf_name := n; cf_shape := FSingle; cf_type := "*SortBy"; cf_hidden := false; cf_nilable := true |}.
Definition many (n : name) : cfield := {| cf_name := n; cf_shape := FSlice; cf_type := "[]*SortField"; cf_hidden := false; cf_nilable := true |}.

Definition ex_tbl : list kdesc := [
  mk "Sym" [symf "symbol"] [] (SymOwn "symbol") [AVisitSym "symbol"; ACallback "VisitSym"];
  mk "Const" [strf "value"] [] SymNone [ACallback "VisitConst"];
  mk "Bin" [] [one "left"; one "right"] SymNone [ACallback "VisitBinStart"; AAccept "left"; AAccept "right"; ACallback "VisitBinEnd"];
  mk "AllOf" [symf "name"] [one "predicate"] (SymOwn "name") [ACallback "VisitAllOfStart"; AAccept "predicate"; ACallback "VisitAllOfEnd"];
  mk "SortField" [] [one "symbol"] (SymVia "symbol") [AAccept "symbol"; ACallback "VisitSortField"];
  mk "SortBy" [] [many "SortFields"] SymNone [AAcceptEach "SortFields"; ACallback "VisitSortBy"];
  mk "Query" [] [one "Predicate"; opt "SortBy"] SymNone [ACallback "VisitQueryStart"; AAccept "Predicate"; AAccept "SortBy"; ACallback "VisitQueryEnd"] ].
Definition ex_aliases : list alias := [("AllOf", "name", "predicate")].

Definition sym (x : name) : tree := T "Sym" [("symbol", s x)] [].
Definition const (x : name) : tree := T "Const" [("value", s x)] [].
Definition bin (l r : tree) : tree := T "Bin" [] [("left", [l]); ("right", [r])].
Definition allof (n : name) (p : tree) : tree := T "AllOf" [("name", s n)] [("predicate", [p])].
Definition query (p : tree) (sort : list name) : tree :=
  T "Query" [] [("Predicate", [p]);
                ("SortBy", [T "SortBy" [] [("SortFields", map (fun f => T "SortField" [] [("symbol", [sym f])]) sort)]])].

(* allOf(nums) = "a" and tags.foo = "b" sort by age *)
Definition ex_q : tree :=
  query (bin (allof "nums" (bin (sym "nums") (const "a"))) (bin (sym "tags.foo") (const "b"))) ["age"].

Example ex_table_complete : table_complete ex_tbl ex_aliases = true.
Proof. vm_compute. reflexivity. Qed.

Example ex_shaped : shaped ex_tbl ex_aliases ex_q.
Proof. vm_compute. reflexivity. Qed.

Example ex_visit : visit ex_tbl ex_q = [s "nums"; s "tags.foo"; s "age"].
Proof. vm_compute. reflexivity. Qed.

(* the derived field AllOf.name is a symbol of the tree too; it duplicates the one below predicate *)
Example ex_all_syms : all_syms ex_tbl ex_q = [s "nums"; s "nums"; s "tags.foo"; s "age"].
Proof. vm_compute. reflexivity. Qed.

(* instance of visit_covers_all_symbols / validator_iff_all_public: hypotheses hold, both sides true *)
Example ex_covers : forall x, In x (all_syms ex_tbl ex_q) <-> In x (visit ex_tbl ex_q).
Proof. exact (visit_covers_all_symbols_lemma ex_tbl ex_aliases ex_table_complete ex_q ex_shaped). Qed.

Example ex_accept : validate ex_tbl true [s "nums"; s "tags"; s "age"] [s "tags"] ex_q = Accept.
Proof. vm_compute. reflexivity. Qed.

(* the map tags is not public: its element tags.foo is named *)
Example ex_reject_map_element : validate ex_tbl true [s "nums"; s "age"] [s "tags"] ex_q = Reject (s "tags.foo").
Proof. vm_compute. reflexivity. Qed.

(* only the sort field is non-public: instance of single_nonpublic_rejected *)
Example ex_reject_sort_field : validate ex_tbl true [s "nums"; s "tags"] [s "tags"] ex_q = Reject (s "age").
Proof.
  apply (single_nonpublic_rejected_lemma ex_tbl ex_aliases ex_table_complete true _ _ ex_q (s "age") ex_shaped).
  - vm_compute. tauto.
  - vm_compute. reflexivity.
  - intros y Hy Hne. vm_compute in Hy. destruct Hy as [H|[H|[H|[H|[]]]]]; subst; try (vm_compute; reflexivity).
    exfalso. apply Hne. reflexivity.
Qed.

(* without the first-error latch the last non-public symbol is named: still one of the query *)
Example ex_reject_no_latch : validate ex_tbl false [] [] ex_q = Reject (s "age").
Proof. vm_compute. reflexivity. Qed.

(* places is public but not a map symbol: places.name is not public; published by name it is *)
Example ex_dotted_non_map : is_public [s "places"] [s "tags"] (s "places.name") = false
                         /\ is_public [s "places.name"] [s "tags"] (s "places.name") = true
                         /\ is_public [s "tags"] [s "tags"] (s "tags.a.b") = true
                         /\ is_public [] [s "tags"] (s "tags.foo") = false.
Proof. vm_compute. repeat split; reflexivity. Qed.

(* ---- what a forgotten child does (the obligation is not vacuous) ---- *)
Definition forget (k f : name) (tbl : list kdesc) : list kdesc :=
  map (fun d => if name_eqb (k_name d) k
                then mk (k_name d) (k_strs d) (k_children d) (k_symbol d) (filter (fun a => negb (forwards f a)) (k_accept d))
                else d) tbl.
Definition bad_tbl : list kdesc := forget "Query" "SortBy" ex_tbl.

Example forgotten_child_breaks_obligation : table_complete bad_tbl ex_aliases = false
  /\ table_gaps bad_tbl ex_aliases = [("Query", "SortBy", "child-not-forwarded")].
Proof. vm_compute. split; reflexivity. Qed.

Example forgotten_child_refuted : exists t x, shaped bad_tbl ex_aliases t /\ In x (all_syms bad_tbl t) /\ ~ In x (visit bad_tbl t)
  /\ validate bad_tbl true [s "nums"; s "tags"] [s "tags"] t = Accept.
Proof.
  exists ex_q, (s "age"). split. vm_compute. reflexivity. split. vm_compute. tauto. split.
  - vm_compute. intros [H|[H|[]]]; discriminate.
  - vm_compute. reflexivity.
Qed.

(* an excluded field that is NOT a duplicate of a symbol below the child is not [shaped] *)
Example excluded_field_must_duplicate :
  shaped_b ex_tbl ex_aliases (query (allof "secret" (bin (sym "nums") (const "a"))) []) = false.
Proof. vm_compute. reflexivity. Qed.

(* an exclusion the table does not justify (the duplicated child is itself not forwarded) is refused *)
Example unjustified_exclusion_refused :
  table_complete (forget "AllOf" "predicate" ex_tbl) ex_aliases = false.
Proof. vm_compute. reflexivity. Qed.

(* ---- on the regenerated table: every leaf kind that holds a symbol ---- *)
Definition leaf_of (d : kdesc) : tree := T (k_name d) (map (fun sf => (sf_name sf, s "x")) (k_strs d)) [].
Definition sym_leaf_kinds : list kdesc :=
  filter (fun d => match k_children d with [] => existsb sf_issym (k_strs d) | _ => false end) gen_table.

Example gen_symbol_leaves :
  sym_leaf_kinds <> [] /\
  forallb (fun d => gen_shaped_b (leaf_of d)
                    && match gen_validate [] [] (leaf_of d) with Reject _ => true | Accept => false end
                    && match gen_validate [s "x"] [] (leaf_of d) with Accept => true | Reject _ => false end) sym_leaf_kinds = true.
Proof. split. vm_compute. discriminate. vm_compute. reflexivity. Qed.
