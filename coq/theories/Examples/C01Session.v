(* C01 - non-vacuity examples for sequences of queries (Ast/Session.v) and the refuted witness of a process in which
   Parse hands out one shared object for the empty filter. *)
From Coq Require Import List ZArith NArith Bool Lia.
From Storage Require Import Base.Bytes Ast.F64 Ast.Values Ast.Schema Ast.Untyped Ast.Typed Ast.Typer
  Ast.Eval Ast.Spec Ast.TyperProofs Ast.Session Ast.SessionProofs Examples.C01Examples.
Import ListNotations.
Open Scope Z_scope.

(* the empty filter, and  name = "ann" *)
Definition q_empty : untyped := UQuery (UBoolConst true) None None.
Definition p_ann : untyped := UBin (LSym n_name) OpEQ (LStr v_ann).

(* caller 1: parses the empty filter, narrows it to  name = "ann"  and at most one row;
   caller 2: parses  age >= 0 skip 1 ; caller 3: the empty filter again, unrefined *)
Definition ses : list step :=
  [ {| s_store := 0%nat; s_text := q_empty; s_muts := [MSetPredicate p_ann; MSetLimit 1; MAdoptSort] |};
    {| s_store := 0%nat; s_text := UQuery (UBin (LSym n_age) OpGTE (LInt 0)) (Some 1) None; s_muts := [MSetSkip 0] |};
    {| s_store := 0%nat; s_text := q_empty; s_muts := [] |} ].

(* the refined query of caller 1 *)
Example sample_refine : refine q_empty [MSetPredicate p_ann; MSetLimit 1; MAdoptSort] = UQuery p_ann None (Some 1).
Proof. reflexivity. Qed.

(* every caller gets the entities of its own (refined) filter: [p1], [p1;p2] (the skip was reset), [p1;p2] *)
Example sample_session :
  session_answers fmt_float_int fmt_time_none ex_sch ex_db [] ses = [Ok [v_p1]; Ok [v_p1; v_p2]; Ok [v_p1; v_p2]] /\
  map (step_spec fmt_float_int fmt_time_none ex_sch ex_db) ses = [[v_p1]; [v_p1; v_p2]; [v_p1; v_p2]].
Proof. vm_compute. split; reflexivity. Qed.

(* the hypotheses of session_step_exact / session_query_exact hold for the steps of the example *)
Example sample_session_hypotheses :
  wf_db ex_sch ex_db /\
  (forall s, In s ses -> exists t, typer ex_sch (s_store s) (refine (s_text s) (s_muts s)) = Ok t).
Proof.
  split; [exact sample_wf_db|].
  intros s [H|[H|[H|[]]]]; subst s; eexists; vm_compute; reflexivity.
Qed.

(* the third caller's answer through the theorem: whatever the two earlier callers did *)
Example sample_session_query :
  nth_error (session_answers fmt_float_int fmt_time_none ex_sch ex_db [] ses) 2 =
    Some (Ok (spec_ids fmt_float_int fmt_time_none ex_sch ex_db 0 q_empty)).
Proof.
  destruct (proj2 sample_session_hypotheses {| s_store := 0%nat; s_text := q_empty; s_muts := [] |}) as [t Ht].
  { right. right. left. reflexivity. }
  exact (session_query_exact_lemma fmt_float_int fmt_time_none ex_sch ex_db []
           [ nth 0 ses (Build_step 0 q_empty []); nth 1 ses (Build_step 0 q_empty []) ] [] 0%nat
           (UBoolConst true) None None t Ht sample_wf_db).
Qed.

(* ---- witness: one shared object for the empty filter ----
   In the process where Parse returns the same object for every empty filter, the refinement of caller 1 sticks:
   caller 3 asks for everything and gets [p1] - p2 satisfies the empty filter and is omitted. *)
Example shared_empty_query_refuted :
  session_answers_shared fmt_float_int fmt_time_none ex_sch ex_db [parse_obj q_empty] ses
    = [Ok [v_p1]; Ok [v_p1; v_p2]; Ok [v_p1]] /\
  nth_error (session_answers_shared fmt_float_int fmt_time_none ex_sch ex_db [parse_obj q_empty] ses) 2
    <> Some (Ok (spec_ids fmt_float_int fmt_time_none ex_sch ex_db 0 q_empty)).
Proof. vm_compute. split; [reflexivity | discriminate]. Qed.

(* ---- interleavings ---- caller 0 parses the empty filter and limits it to one row; before it evaluates, caller 1 runs
   the empty filter (its scanner sets skip 0 / no limit on ITS object); then caller 0 evaluates: still one row *)
Definition evs : list event :=
  [ EParse 0 q_empty; EMutate 0 (MSetLimit 1);
    EParse 1 q_empty; EMutate 1 (MSetSkip 0); EMutate 1 (MSetLimit 9223372036854775807); EEval 1;
    EEval 0 ].

Example sample_interleaving :
  run_events start evs =
    [ (1%nat, Some {| q_pred := UBoolConst true; q_skip := Some 0; q_limit := Some 9223372036854775807 |});
      (0%nat, Some {| q_pred := UBoolConst true; q_skip := None; q_limit := Some 1 |}) ] /\
  run_events start evs = spec_events no_view evs /\
  own_events 0 evs = [ EParse 0 q_empty; EMutate 0 (MSetLimit 1); EEval 0 ].
Proof. vm_compute. repeat split. Qed.
