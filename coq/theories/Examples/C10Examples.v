(* Non-vacuity examples and refutation witnesses for Properties/C10.v. *)
From Coq Require Import List NArith Bool Arith.
From Storage Require Import Base.Bytes Lang.Tokens Lang.Lexer Lang.Regex Lang.LexerFull Lang.Glue Lang.BoolSurface Lang.BoolGrammar Lang.GlueEntry Lang.ForeignBlank.
Import ListNotations.
Open Scope N_scope.

(*  name = "x"#  *)
Definition q_hash : str := [110; 97; 109; 101; 32; 61; 32; 34; 120; 34; 35].
(*  name = "x"   *)
Definition q_plain : str := [110; 97; 109; 101; 32; 61; 32; 34; 120; 34].

Example q_hash_lexes : lex_full q_hash =
  [Tok K_IDENTIFIER [110; 97; 109; 101]; Tok K_WS [32]; Tok K_EQ [61]; Tok K_WS [32]; Tok K_STRING [34; 120; 34]; Drop [35]].
Proof. vm_compute. reflexivity. Qed.

(* a parser that accepts exactly the token sequence of  name = "x"  *)
Definition toy_parser (ts : list (nat * str)) : nat * option nat :=
  if Nat.eqb (length ts) 5 then (0%nat, Some 1%nat) else (1%nat, None).

(* as shipped:  name = "x"#  is accepted as  name = "x"  - the '#' vanished *)
Example lexer_error_rejects_legacy_refuted :
  exists s, drops_of (lex_full s) <> [] /\ parse_glue nat toy_parser legacy_glue s = Accepted 1%nat.
Proof. exists q_hash. split; [vm_compute; discriminate|vm_compute; reflexivity]. Qed.

(* attaching the listener to the lexer without making SyntaxError nil-safe panics instead *)
Example naive_glue_panics : parse_glue nat toy_parser naive_glue q_hash = Panicked.
Proof. vm_compute. reflexivity. Qed.

Example fixed_rejects : parse_glue nat toy_parser fixed_glue q_hash = Rejected.
Proof. vm_compute. reflexivity. Qed.

Example fixed_accepts_plain : parse_glue nat toy_parser fixed_glue q_plain = Accepted 1%nat.
Proof. vm_compute. reflexivity. Qed.

(* the drop region is the longest viable prefix plus the character that killed it:
   'ab cd  ->  the unterminated quoted identifier and the blank vanish together *)
Example viable_prefix_dropped : lex_full [39; 97; 98; 32; 99; 100] = [Drop [39; 97; 98; 32]; Tok K_IDENTIFIER [99; 100]].
Proof. vm_compute. reflexivity. Qed.

(* not in / not  contains are single tokens; notin is an identifier; 1e+ is NUMBER 1, IDENTIFIER e, dropped + *)
Example absorbing_not : map (fun s => match s with Tok k _ => k | Drop _ => 0%nat end)
    (lex_full [110; 111; 116; 32; 105; 110; 32; 110; 111; 116; 32; 32; 99; 111; 110; 116; 97; 105; 110; 115]) = [K_IN; K_WS; K_CONTAINS].
Proof. vm_compute. reflexivity. Qed.

Example number_backtrack : lex_full [49; 101; 43] = [Tok K_NUMBER [49]; Tok K_IDENTIFIER [101]; Drop [43]].
Proof. vm_compute. reflexivity. Qed.

(*  datetime( 2032-09-03t15:36:50z )  is one DATETIME token *)
Example datetime_token :
  map (fun s => match s with Tok k _ => k | Drop _ => 0%nat end)
    (lex_full [100;97;116;101;116;105;109;101;40;32;50;48;51;50;45;48;57;45;48;51;116;49;53;58;51;54;58;53;48;122;32;41]) = [K_DATETIME].
Proof. vm_compute. reflexivity. Qed.

(* on the skeleton alphabet the full rule set and the skeleton rule set of C12 agree: all strings of
   up to 3 pieces over { a, and, or, not, "(", ")", blank, andy } *)
Definition pieces : list str := [[97]; [97; 110; 100]; [111; 114]; [110; 111; 116]; [40]; [41]; [32]; [97; 110; 100; 121]].
Fixpoint strings (n : nat) : list str :=
  match n with
  | O => [[]]
  | S k => [] :: flat_map (fun p => map (fun s => p ++ s) (strings k)) pieces
  end.
Definition tok_eqb (a b : tok) : bool :=
  match a, b with
  | TId x, TId y => str_eqb x y
  | TAnd, TAnd | TOr, TOr | TNot, TNot | TLp, TLp | TRp, TRp | TWs, TWs => true
  | TOther x, TOther y => Nat.eqb x y
  | _, _ => false
  end.
Fixpoint toks_eqb (a b : list tok) : bool :=
  match a, b with
  | [], [] => true
  | x :: a', y :: b' => tok_eqb x y && toks_eqb a' b'
  | _, _ => false
  end.
Example full_and_skeleton_lexers_agree :
  forallb (fun s => toks_eqb (toks_of (lex_full s)) (toks_of (lex_skeleton s))) (strings 3) = true.
Proof. vm_compute. reflexivity. Qed.

(* ---- parsing entry points (Lang/GlueEntry.v) ---- *)
(* non-vacuity: after a debug run and a plain run, the pooled parser carries what those calls left on it, and
   the diagnostic entry point still refuses  name = "x"#  and accepts  name = "x"  *)
Definition some_history : list (entry * str) := [(EParseWithDebug true, q_plain); (EParse, q_hash); (EParseWithDebug true, q_hash)].

Example pool_carries_stale_listeners :
  pool_after nat toy_parser LexerAlways 0 fresh_instances some_history =
  mkInst [Collector 2%nat] [Collector 1%nat; Diagnostic; Collector 2%nat].
Proof. vm_compute. reflexivity. Qed.

Example debug_entry_rejects :
  run_entry nat toy_parser LexerAlways (EParseWithDebug true) 3 (pool_after nat toy_parser LexerAlways 0 fresh_instances some_history) q_hash = Rejected.
Proof. vm_compute. reflexivity. Qed.

Example debug_entry_accepts_plain :
  run_entry nat toy_parser LexerAlways (EParseWithDebug true) 3 (pool_after nat toy_parser LexerAlways 0 fresh_instances some_history) q_plain = Accepted 1%nat.
Proof. vm_compute. reflexivity. Qed.

(* a glue that replaces the lexer's listeners in the non-debug branch only: the diagnostic entry point accepts
   name = "x"#  (on new instances the console hears the lexer, on pooled ones the previous caller's collector),
   zitiql.Parse refuses it - the verdict depends on the entry point *)
Example entry_points_agree_nondebug_only_refuted :
  exists s h,
    drops_of (lex_full s) <> [] /\
    run_entry nat toy_parser LexerNonDebugOnly (EParseWithDebug true) (length h) (pool_after nat toy_parser LexerNonDebugOnly 0 fresh_instances h) s = Accepted 1%nat /\
    run_entry nat toy_parser LexerNonDebugOnly (EParseWithDebug true) 0 fresh_instances s = Accepted 1%nat /\
    run_entry nat toy_parser LexerNonDebugOnly EParse (length h) (pool_after nat toy_parser LexerNonDebugOnly 0 fresh_instances h) s = Rejected.
Proof.
  exists q_hash, [(EParse, q_hash)].
  split; [vm_compute; discriminate|]. repeat split; vm_compute; reflexivity.
Qed.


(* ---- blank-like foreign characters (Lang/ForeignBlank.v) ---- *)
(* the table holds the 21 runes of Go's unicode.IsSpace that are no white space of the grammar, 125 characters in all, no duplicates *)
Example blank_table_sizes : length go_space_foreign = 21%nat /\ length blank_like_foreign = 125%nat /\ NoDup blank_like_foreign.
Proof.
  split; [reflexivity|]. split; [reflexivity|].
  assert (H : forall l : list N, (fix nd (l : list N) : bool := match l with [] => true | x :: r => negb (existsb (N.eqb x) r) && nd r end) l = true -> NoDup l).
  { induction l as [|x r IH]; intros H; [constructor|]. apply andb_true_iff in H. destruct H as [H1 H2]. constructor; [|auto].
    intro Hin. apply negb_true_iff in H1. assert (existsb (N.eqb x) r = true) by (apply existsb_exists; exists x; split; [exact Hin|apply N.eqb_refl]). congruence. }
  apply H. vm_compute. reflexivity.
Qed.

(* NBSP name = "x"   and   name = "x" NBSP : refused through the diagnostic entry point on pooled instances as through any
   other, although the text without the NBSP is accepted (non-vacuity of foreign_blank_at_an_edge_rejected) *)
Example nbsp_in_front_rejected :
  run_entry nat toy_parser LexerAlways (EParseWithDebug true) 3 (pool_after nat toy_parser LexerAlways 0 fresh_instances some_history) (160 :: q_plain) = Rejected
  /\ run_entry nat toy_parser LexerAlways EAstParse 0 fresh_instances (q_plain ++ [160]) = Rejected
  /\ run_entry nat toy_parser LexerAlways EAstParse 0 fresh_instances ([32; 9] ++ 11 :: q_plain) = Rejected
  /\ run_entry nat toy_parser LexerAlways EAstParse 0 fresh_instances q_plain = Accepted 1%nat.
Proof. repeat split; vm_compute; reflexivity. Qed.

(* why the theorems speak about the EDGES: inside a string literal NBSP is data (SAFECODEPOINT), the text
   name = "xNBSP"  is a sentence; a control character (VT) is not even that *)
Example nbsp_inside_a_string_is_data :
  drops_of (lex_full [110; 97; 109; 101; 32; 61; 32; 34; 120; 160; 34]) = [] /\
  drops_of (lex_full [110; 97; 109; 101; 32; 61; 32; 34; 120; 11; 34]) <> [].
Proof. split; [vm_compute; reflexivity|vm_compute; discriminate]. Qed.

(* an entry point that strips what Go calls white space (strings.TrimSpace) before it hands the text to the glue:
   VT name = "x" NBSP  - not a sentence, the lexer reports two characters - becomes the query of  name = "x" *)
Definition go_blank (c : N) : bool := is_ws c || existsb (N.eqb c) go_space_foreign.
Fixpoint trim_left (s : str) : str := match s with c :: r => if go_blank c then trim_left r else s | [] => [] end.
Definition trim_space (s : str) : str := rev (trim_left (rev (trim_left s))).

Example trimming_entry_point_refuted :
  exists s, drops_of (lex_full s) <> [] /\
    run_entry nat toy_parser LexerAlways EAstParse 0 fresh_instances s = Rejected /\
    run_entry nat toy_parser LexerAlways EAstParse 0 fresh_instances (trim_space s) = Accepted 1%nat.
Proof.
  exists (11 :: q_plain ++ [160]). split; [vm_compute; discriminate|]. split; vm_compute; reflexivity.
Qed.
