(* C16, second strengthening: the wirings added for the constraint on a CHILD store only (c16cp plain, c16cx extended) and
   on BOTH levels (c16bo) - harness/cmd/storageharness/store_c16w2.go - as derived by the wiring script; the side
   conditions of the C16 theorems by computation; concrete refused / accepted operations; a history with restore steps. *)
From Coq Require Import List NArith Bool.
From Storage Require Import Base.Bytes Store.Model Store.SystemProofs Store.SystemStrip Store.SystemMixed
  Store.SystemChild Store.SystemRestore.
Import ListNotations.
Open Scope N_scope.

Definition v_own : name := [111;119;110].
Definition v_dev : name := [100;101;118].
Definition v_aux : name := [97;117;120].
Definition v_gad : name := [103;97;100].
Definition v_title : name := [116;105;116;108;101].
Definition v_name : name := [110;97;109;101].
Definition v_owner : name := [111;119;110;101;114].
Definition v_devs : name := [100;101;118;115].
Definition v_note : name := [110;111;116;101].
Definition v_serial : name := [115;101;114;105;97;108].
Definition v_slot : name := [115;108;111;116].
Definition v_a : name := [97].
Definition v_b : name := [98].
Definition v_c : name := [99].
Definition v_bx : name := [98;120].
Definition v_roles : name := [114;111;108;101;115].
Definition v_bs : name := [98;115].
Definition v_cs : name := [99;115].
Definition v_cas : name := [99;97;115].
Definition v_code : name := [99;111;100;101].
Definition v_dept : name := [100;101;112;116].
Definition v_emp : name := [101;109;112].
Definition v_mgr : name := [109;103;114].
Definition v_members : name := [109;101;109;98;101;114;115].
Definition v_level : name := [108;101;118;101;108].

(* c16cp: own <- dev (fk index, cascade delete) ; dev has the plain child stores aux and gad ; gad carries the constraint
   and a nullable fk constraint with CascadeDelete to own *)
Definition c16cp_schema : schema :=
  [ mkSdef v_own None false [(v_title, false)] []
      [CUnique v_title false; CFkCascade v_dev v_owner CascDelete; CFkCascade v_gad v_slot CascDelete] [];
    mkSdef v_dev None false [(v_name, false); (v_owner, false)] []
      [CUnique v_name false; CFkIndex v_owner v_own v_devs false] [];
    mkSdef v_aux (Some v_dev) false [(v_note, true)] [] [CUnique v_note true] [];
    mkSdef v_gad (Some v_dev) false [(v_serial, true); (v_slot, true)] []
      [CSystem; CUnique v_serial true; CFkCons v_slot v_own true] [] ].

(* c16cx: the casc wiring with the constraint on the extended child store bx instead of b *)
Definition c16cx_schema : schema :=
  [ mkSdef v_a None false [(v_name, false)] [v_roles]
      [CUnique v_name false; CSetIdx v_roles; CFkCascade v_b v_a CascDelete; CFkRestrict v_cas] [];
    mkSdef v_b None false [(v_name, false); (v_a, false)] []
      [CFkIndex v_a v_a v_bs false; CFkCascade v_c v_b CascDelete] [];
    mkSdef v_c None false [(v_name, true); (v_b, false); (v_a, true)] []
      [CFkIndex v_b v_b v_cs false; CFkIndex v_a v_a v_cas true; CUnique v_name true] [];
    mkSdef v_bx (Some v_b) true [(v_code, true)] [] [CUnique v_code true; CSystem] [] ].

(* c16bo: the constraint on the root store emp and on its plain child store mgr *)
Definition c16bo_schema : schema :=
  [ mkSdef v_dept None false [(v_title, false)] [] [CFkCascade v_emp v_dept CascDelete] [];
    mkSdef v_emp None false [(v_name, false); (v_dept, false)] []
      [CUnique v_name false; CSystem; CFkIndex v_dept v_dept v_members false] [];
    mkSdef v_mgr (Some v_emp) false [(v_level, true)] [] [CSystem; CUnique v_level true] [] ].

(* ---- side conditions of the theorems, by computation *)
Example c16cp_wf : wf_system_child_b c16cp_schema v_gad = true.
Proof. vm_compute. reflexivity. Qed.
Example c16cx_wf : wf_system_child_b c16cx_schema v_bx = true.
Proof. vm_compute. reflexivity. Qed.
Example c16bo_wf : wf_system_b c16bo_schema v_emp = true /\ wf_system_child_b c16bo_schema v_mgr = true.
Proof. vm_compute. split; reflexivity. Qed.
(* the root-store theorems do not apply to the child-only wirings (the root does not carry the constraint) *)
Example c16cp_root_not_wf : wf_system_b c16cp_schema v_dev = false /\ wf_system_b c16cx_schema v_b = false.
Proof. vm_compute. split; reflexivity. Qed.
Example c16_flag_wf : wf_flag_b c16cp_schema v_dev = true /\ wf_flag_b c16cx_schema v_b = true /\ wf_flag_b c16bo_schema v_emp = true.
Proof. vm_compute. repeat split; reflexivity. Qed.
Example c16_strip_wf : wf_strip_b c16cp_schema = true /\ wf_strip_b c16cx_schema = true /\ wf_strip_b c16bo_schema = true.
Proof. vm_compute. repeat split; reflexivity. Qed.

(* ---- c16cp: owner o ; system gadgets g (no slot) and h (slot -> o) created through gad ; flagged device d created through
   the ROOT store (not an entity of gad) ; ordinary gadget p *)
Definition i_o : id := [111]. Definition i_g : id := [103]. Definition i_h : id := [104].
Definition i_d : id := [100]. Definition i_p : id := [112].
Definition mk_own : op := OCreate v_own i_o false [(v_title, Some [116])] [].
Definition mk_gad (i nm : str) (slot : option str) (sys : bool) : op :=
  OCreate v_gad i sys [(v_name, Some nm); (v_owner, Some i_o); (v_serial, Some nm); (v_slot, slot)] [].
Definition mk_dev (i nm : str) (sys : bool) : op :=
  OCreate v_dev i sys [(v_name, Some nm); (v_owner, Some i_o); (v_note, None); (v_serial, None); (v_slot, None)] [].
Definition up_dev (through : name) (i nm : str) : op :=
  OUpdate through i [(v_name, Some nm); (v_owner, Some i_o); (v_note, None); (v_serial, Some nm); (v_slot, None)] [] None.

Definition cp_st : state :=
  run_txs c16cp_schema 8 st_empty
    [ mkTx true [] [mk_own; mk_gad i_g [49] None true; mk_gad i_h [50] (Some i_o) true; mk_dev i_d [51] true;
                    mk_gad i_p [52] None false] false ].

Example cp_flags :
  get_field c16cp_schema cp_st v_gad i_g isSystemF = FBool true /\ present c16cp_schema cp_st v_gad i_g = true /\
  get_field c16cp_schema cp_st v_gad i_d isSystemF = FBool true /\ present c16cp_schema cp_st v_gad i_d = false /\
  get_field c16cp_schema cp_st v_gad i_p isSystemF = FAbsent.
Proof. vm_compute. repeat split; reflexivity. Qed.

Definition cp_refused (t : tx) : Prop :=
  match run_tx c16cp_schema 8 cp_st t with (rs, committed, st', evs) => committed = false /\ evs = [] /\ last rs None <> None end.

(* ordinary context: delete through the child store, through the root store, through the sibling child store, by cascade
   from own (through dev.owner and through gad.slot); update through gad and through dev; create with the flag through gad *)
Example cp_delete_through_child_refused : cp_refused (mkTx false [] [ODelete v_gad i_g] false).
Proof. vm_compute. repeat split; discriminate. Qed.
Example cp_delete_through_root_refused : cp_refused (mkTx false [] [ODelete v_dev i_g] false).
Proof. vm_compute. repeat split; discriminate. Qed.
Example cp_delete_through_sibling_refused : cp_refused (mkTx false [] [ODelete v_aux i_h] false).
Proof. vm_compute. repeat split; discriminate. Qed.
Example cp_cascade_refused : cp_refused (mkTx false [] [ODelete v_own i_o] false).
Proof. vm_compute. repeat split; discriminate. Qed.
Example cp_update_through_child_refused : cp_refused (mkTx false [] [up_dev v_gad i_g [53]] false).
Proof. vm_compute. repeat split; discriminate. Qed.
Example cp_update_through_root_refused : cp_refused (mkTx false [] [up_dev v_dev i_h [53]] false).
Proof. vm_compute. repeat split; discriminate. Qed.
Example cp_create_refused : cp_refused (mkTx false [] [mk_gad [120] [53] None true] false).
Proof. vm_compute. repeat split; discriminate. Qed.

(* the hypotheses of child_system_op_refused are met by these *)
Example cp_targets :
  child_sys_target c16cp_schema v_gad cp_st (ODelete v_aux i_h) /\
  child_sys_target c16cp_schema v_gad cp_st (up_dev v_gad i_g [53]) /\
  child_sys_target c16cp_schema v_gad cp_st (mk_gad [120] [53] None true).
Proof.
  vm_compute. repeat split; try reflexivity. left. reflexivity.
Qed.
Example cp_target_through_root : child_sys_target c16cp_schema v_gad cp_st (up_dev v_dev i_h [53]).
Proof.
  split; [vm_compute; reflexivity|]. split; [vm_compute; reflexivity|]. right. split; [vm_compute; reflexivity|].
  intros d Hin Hp. vm_compute in Hin. destruct Hin as [<-|[<-|[]]]; [vm_compute in Hp; discriminate | reflexivity].
Qed.

(* OUTSIDE the reach of a constraint that sits on the child store only: the flagged device d is not an entity of gad -
   an ordinary context updates and deletes it, and may create such an entity through the root store *)
Example cp_root_entity_outside :
  match run_tx c16cp_schema 8 cp_st (mkTx false [] [up_dev v_dev i_d [53]; ODelete v_dev i_d; mk_dev [120] [54] true] false) with
  | (rs, committed, st', _) => rs = [None; None; None] /\ committed = true /\
      get_field c16cp_schema st' v_dev [120] isSystemF = FBool true
  end.
Proof. vm_compute. repeat split; reflexivity. Qed.

(* the system context deletes (also by cascade); the ordinary gadget is ordinary *)
Example cp_system_cascade_ok :
  match run_tx c16cp_schema 8 cp_st (mkTx true [] [ODelete v_own i_o] false) with
  | (rs, committed, st', _) => committed = true /\ ids_of st' v_dev = []
  end.
Proof. vm_compute. split; reflexivity. Qed.
Example cp_ordinary_ok :
  match run_tx c16cp_schema 8 cp_st (mkTx false [] [up_dev v_gad i_p [53]; ODelete v_dev i_p] false) with
  | (rs, committed, _, _) => rs = [None; None] /\ committed = true
  end.
Proof. vm_compute. split; reflexivity. Qed.

(* ---- c16cx: extended child store: DeleteById of a flagged b entity is refused with and without extension data; an update
   of the one without extension data is outside the child store's reach *)
Definition mk_a1 : op := OCreate v_a [49] false [(v_name, Some [120])] [(v_roles, [])].
Definition mk_bb (through : name) (i nm : str) (sys : bool) : op :=
  OCreate through i sys [(v_name, Some nm); (v_a, Some [49]); (v_code, Some nm)] [].
Definition up_bb (through : name) (i nm : str) : op :=
  OUpdate through i [(v_name, Some nm); (v_a, Some [49]); (v_code, Some nm)] [] None.
Definition cx_st : state :=
  run_txs c16cx_schema 8 st_empty [ mkTx true [] [mk_a1; mk_bb v_b [50] [121] true; mk_bb v_bx [51] [122] true] false ].
Definition cx_refused (t : tx) : Prop :=
  match run_tx c16cx_schema 8 cx_st t with (rs, committed, st', evs) => committed = false /\ evs = [] /\ last rs None <> None end.
Example cx_delete_plain_refused : cx_refused (mkTx false [] [ODelete v_b [50]] false).
Proof. vm_compute. repeat split; discriminate. Qed.
Example cx_delete_ext_refused : cx_refused (mkTx false [] [ODelete v_bx [51]] false).
Proof. vm_compute. repeat split; discriminate. Qed.
Example cx_cascade_refused : cx_refused (mkTx false [] [ODelete v_a [49]] false).
Proof. vm_compute. repeat split; discriminate. Qed.
Example cx_update_ext_refused : cx_refused (mkTx false [] [up_bb v_b [51] [123]] false).
Proof. vm_compute. repeat split; discriminate. Qed.
Example cx_target_without_ext_data :
  child_sys_target c16cx_schema v_bx cx_st (ODelete v_b [50]) /\ present c16cx_schema cx_st v_bx [50] = false.
Proof. vm_compute. repeat split; reflexivity. Qed.
Example cx_update_without_ext_data_outside :
  match run_tx c16cx_schema 8 cx_st (mkTx false [] [up_bb v_b [50] [123]] false) with
  | (rs, committed, _, _) => rs = [None] /\ committed = true
  end.
Proof. vm_compute. split; reflexivity. Qed.

(* ---- restore steps (Store/SystemRestore.v) on c16bo: step 1 creates a system manager, step 2 (system context) deletes it,
   step 3 brings the content of step 1 back; the ordinary update / delete that follows is refused; restoring the empty
   content (k = 0) and then step 1 again gives the same *)
Definition mk_dept1 : op := OCreate v_dept [100] false [(v_title, Some [116])] [].
Definition mk_mgr1 (sys : bool) : op :=
  OCreate v_mgr [109] sys [(v_name, Some [110]); (v_dept, Some [100]); (v_level, Some [108])] [].
Definition up_mgr1 (through : name) : op :=
  OUpdate through [109] [(v_name, Some [111]); (v_dept, Some [100]); (v_level, Some [108])] [] None.
Definition bo_hist : list hstep :=
  [ HTx (mkTx true [] [mk_dept1; mk_mgr1 true] false);
    HTx (mkTx true [] [ODelete v_emp [109]] false);
    HRestore 1;
    HRestore 0;
    HRestore 1 ].
Definition bo_trace : list state := run_hist c16bo_schema 8 st_empty bo_hist.

Example bo_restore_brings_back :
  ids_of (nth 2 bo_trace st_empty) v_emp = [] /\ ids_of (nth 3 bo_trace st_empty) v_emp = [[109]] /\
  ids_of (nth 4 bo_trace st_empty) v_emp = [] /\ ids_of (nth 4 bo_trace st_empty) v_dept = [] /\
  get_field c16bo_schema (hist_final c16bo_schema 8 st_empty bo_hist) v_emp [109] isSystemF = FBool true.
Proof. vm_compute. repeat split; reflexivity. Qed.
Example bo_restore_free_form :
  restore_free bo_hist = [HTx (mkTx true [] [mk_dept1; mk_mgr1 true] false)].
Proof. vm_compute. reflexivity. Qed.
Example bo_after_restore_refused :
  fst (hist_step c16bo_schema 8 st_empty bo_trace (HTx (mkTx false [] [up_mgr1 v_emp] false))) =
    ([Some EOther], false, hist_final c16bo_schema 8 st_empty bo_hist, []) /\
  fst (hist_step c16bo_schema 8 st_empty bo_trace (HTx (mkTx false [] [ODelete v_mgr [109]] false))) =
    ([Some EOther], false, hist_final c16bo_schema 8 st_empty bo_hist, []) /\
  fst (fst (fst (fst (hist_step c16bo_schema 8 st_empty bo_trace (HTx (mkTx false [] [ODelete v_dept [100]] false)))))) = [Some EOther].
Proof. vm_compute. repeat split; reflexivity. Qed.
Example bo_restore_hyps :
  sys_target c16bo_schema v_emp (hist_final c16bo_schema 8 st_empty bo_hist) (up_mgr1 v_mgr) /\
  child_sys_target c16bo_schema v_mgr (hist_final c16bo_schema 8 st_empty bo_hist) (ODelete v_emp [109]).
Proof. vm_compute. repeat split; reflexivity. Qed.
