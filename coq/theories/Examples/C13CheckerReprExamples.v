(* Non-vacuity examples for the checker-representation theorems of C13 (Codec/CheckerRepr.v): a
   nil MapFieldChecker selects nothing and a patch under it leaves a stored entity alone, in one
   bucket and over a two-store chain; were it taken for "no checker" every field would be
   overwritten. *)
From Coq Require Import List NArith ZArith Bool.
From Storage Require Import Base.Bytes Codec.CodecBase Codec.FieldCodec Codec.Containers Codec.Persist
  Codec.CheckerRepr Codec.CheckerReprProofs Examples.C13PersistExamples.
Import ListNotations.
Open Scope N_scope.

Definition k_b : str := [98].

(* an entity holding a string, an int64 and a string list *)
Definition stored : bucket :=
  [(k_a, Leaf (encode_scalar s_x)); (k_b, Leaf (encode_scalar (SInt64 (-1)%Z))); (k_c, Sub [([5; 120], Leaf [])])].
(* a patch naming every field *)
Definition patch_ops : list fop :=
  [OpScalar k_a s_new; OpScalar k_b SNil; OpStringList k_c []; OpMap k_ext [] true].

Example nil_map_is_a_checker : repr_checker RNilMap <> None.
Proof. discriminate. Qed.

(* hypotheses of empty_selection_writes_nothing for the nil map, for a wrapper around it (allocated
   and nil mappings), for a wrapper around a wrapper, and for a typed nil pointer answering false *)
Example nil_map_selects_nothing_hyp : forallb (fun n => negb (repr_selects RNilMap n)) [k_a; k_b; k_c; k_ext; []] = true.
Proof. reflexivity. Qed.
Example patch_ops_restricted : forallb op_restricted patch_ops = true.
Proof. reflexivity. Qed.

Example nil_map_patch_touches_nothing : apply_ops (repr_checker RNilMap) patch_ops stored = Ok stored.
Proof. vm_compute. reflexivity. Qed.
Example empty_map_patch_touches_nothing : apply_ops (repr_checker (RMap [])) patch_ops stored = Ok stored.
Proof. vm_compute. reflexivity. Qed.
Example wrapped_nil_map_patch_touches_nothing :
  apply_ops (repr_checker (RMapped (RMapped RNilMap (Some [(k_a, k_b)])) None)) patch_ops stored = Ok stored.
Proof. vm_compute. reflexivity. Qed.
Example typed_nil_pointer_patch_touches_nothing :
  apply_ops (repr_checker (RCustom true (fun _ => false))) patch_ops stored = Ok stored.
Proof. vm_compute. reflexivity. Qed.

(* taken for "no checker" the same patch rewrites every field: the conclusion of
   empty_selection_writes_nothing fails for the nil interface *)
Example nil_map_as_no_checker_refuted :
  exists b', apply_ops (repr_checker RNilInterface) patch_ops stored = Ok b' /\ b' <> stored.
Proof. eexists. split; [vm_compute; reflexivity | vm_compute; discriminate]. Qed.

(* the nil interface under a wrapper stays "no restriction" (WithFieldOverrides leaves it alone) *)
Example wrapped_nil_interface_selects_all : repr_selects (RMapped RNilInterface (Some [(k_a, k_b)])) k_a = true.
Proof. reflexivity. Qed.

(* wrappers: a is mapped to b by the outer, b to c by the inner wrapper; the map selects c *)
Example nested_wrappers_select :
  map (repr_selects (RMapped (RMapped (RMap [k_c]) (Some [(k_b, k_c)])) (Some [(k_a, k_b)]))) [k_a; k_b; k_c; k_ext]
  = [true; true; true; false].
Proof. reflexivity. Qed.

(* same selection, different representations: hypothesis and conclusion of checker_is_its_selection *)
Example same_selection_hyp :
  forallb (fun n => Bool.eqb (proceed (repr_checker (RMap [k_a])) n) (proceed (repr_checker (RCustom false (fun n => str_eqb n k_a))) n))
          [k_a; k_b; k_c; k_ext; []] = true.
Proof. reflexivity. Qed.
Example same_selection_same_bucket :
  apply_ops (repr_checker (RMap [k_a])) patch_ops stored
  = apply_ops (repr_checker (RCustom false (fun n => str_eqb n k_a))) patch_ops stored
  /\ apply_ops (repr_checker (RMap [k_a])) patch_ops stored <> Ok stored.
Proof. split; [vm_compute; reflexivity | vm_compute; discriminate]. Qed.

(* two stores: Update through the child store under the nil map, the parent part written through
   the derived context, an override on it *)
Definition patch_prog2 : list pstmt :=
  [PSet 0 (PBase (OpScalar k_c s_new)); PParent 0; POverride 1 [(k_a, k_c)]; PSet 1 (PBase (OpScalar k_a s_junk));
   PSet 1 (PLinked k_c [[98]]); PSet 0 (PId k_a)].
Example patch_prog2_restricted : forallb pstmt_restricted patch_prog2 = true.
Proof. reflexivity. Qed.
Example nil_map_persist_touches_nothing : persist chain2 (repr_checker RNilMap) false an_id patch_prog2 entity0 = Ok entity0.
Proof. vm_compute. reflexivity. Qed.
Example nil_map_persist_as_no_checker_refuted :
  exists b', persist chain2 (repr_checker RNilInterface) false an_id patch_prog2 entity0 = Ok b' /\ b' <> entity0.
Proof. eexists. split; [vm_compute; reflexivity | vm_compute; discriminate]. Qed.
