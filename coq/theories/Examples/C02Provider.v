(* C02 - non-vacuity examples for the cursor-provider theorems of Properties/C02.v (Query/Provider.v) and a refutation
   witness for the way they go wrong: a provider whose cursor hands the candidates out as collected (insertion order,
   repetitions) instead of as a set cursor.  Everything here is evaluated by vm_compute. *)
From Coq Require Import List ZArith NArith Bool Sorted Permutation.
From Storage Require Import Base.Bytes Query.Compare Query.CompareProofs Query.Paging Query.PagingProofs
  Query.ScanUnique Query.ScanUniqueProofs Query.ScanSort Query.ScanSortProofs
  Query.ChildScan Query.ChildScanProofs Query.Provider Query.ProviderProofs Examples.C02Examples Examples.C02ChildRerun.
Import ListNotations.
Open Scope Z_scope.

(* the people table of C02Examples.v; a set index over two values: "x" is carried by a (97), c (99) and e (101),
   "y" by c (99) and b (98).  IteratorMatchingAnyOf(index, [x, y]) collects x's ids, then y's ids: c is named twice *)
Definition ids_x : list str := map s [[97]; [99]; [101]].
Definition ids_y : list str := map s [[98]; [99]].
Definition any_xy : list str := ids_x ++ ids_y.
Definition any_yx_dups : list str := ids_y ++ ids_x ++ ids_y ++ map s [[122]].   (* other order, more repetitions, a dangling id *)

(* id desc, id asc, a typed sort, with paging: each candidate once, count 4 *)
Example ex_provider_any_of :
  provider_query_ids root_view has_child any_xy all_rows [by_id false] (pg None None) ex_rows
    = (map s [[101]; [99]; [98]; [97]], 4) /\
  provider_query_ids root_view has_child any_xy all_rows [by_id false] (pg (Some 1) (Some 2)) ex_rows
    = (map s [[99]; [98]], 4) /\
  provider_query_ids root_view has_child any_xy all_rows [] (pg (Some 1) (Some 2)) ex_rows
    = (map s [[98]; [99]], 4) /\
  provider_query_ids root_view has_child any_xy all_rows [by_name true] (pg None (Some 3)) ex_rows
    = (map s [[98]; [101]; [99]], 4) /\
  provider_query_ids root_view has_child any_xy has_age [by_id false] (pg None None) ex_rows
    = (map s [[101]; [98]; [97]], 3).
Proof. vm_compute. repeat split. Qed.

(* the same through the specification, and through the child store (b and e are not entities of it) *)
Example ex_provider_spec :
  provider_query_spec root_view has_child any_xy all_rows [by_id false] (pg (Some 1) (Some 2)) ex_rows
    = (map s [[99]; [98]], 4) /\
  provider_query_ids plain_child has_child any_xy all_rows [by_id false] (pg None None) ex_rows
    = (map s [[99]; [97]], 2) /\
  provider_query_spec plain_child has_child any_xy all_rows [by_id false] (pg None None) ex_rows
    = (map s [[99]; [97]], 2).
Proof. vm_compute. repeat split. Qed.

(* the hypothesis of the set-only theorem is satisfiable non-trivially: different lists, same set (up to the rows) ... *)
Example ex_provider_same_answers :
  any_xy <> any_yx_dups /\
  provider_query_ids root_view has_child any_yx_dups all_rows [by_id false] (pg (Some 1) (Some 2)) ex_rows
    = provider_query_ids root_view has_child any_xy all_rows [by_id false] (pg (Some 1) (Some 2)) ex_rows.
Proof. split; [discriminate|vm_compute; reflexivity]. Qed.

Example ex_provider_set_hyp : forall id, In id any_xy <-> In id (ids_y ++ ids_x ++ ids_y).
Proof.
  intros id. unfold any_xy. rewrite !in_app_iff. tauto.
Qed.

(* AllOf(index, [x, y]) = the candidates carrying both; zero values = the empty provider *)
Example ex_provider_all_of_and_empty :
  provider_query_ids root_view has_child (map s [[99]]) all_rows [by_id false] (pg None None) ex_rows = (map s [[99]], 1) /\
  provider_query_ids root_view has_child [] all_rows [by_id false] (pg None None) ex_rows = ([], 0).
Proof. vm_compute. repeat split. Qed.

(* ---- refuted: a provider cursor that is not a set cursor -------------------------------------------------------
   a reverse tree set whose element comparison always answers "greater" appends every inserted id at the end: the cursor
   hands out x's ids ascending, then y's ids ascending, c twice.  The reverse id scan consumes its cursor as it comes
   ([scan_unique_with .. false] walks [rev rows], so the raw sequence is passed reversed). *)
Definition row_of (id : str) : row := nth 0 (filter (fun r => str_eqb (r_id r) id) ex_rows) (mk 0 CNull CNull CNull CNull CNull).
Definition raw_cursor : list row := map row_of any_xy.

Example unordered_duplicating_provider_refuted :
  scan_unique all_rows (pg None None) false (rev raw_cursor) = (map s [[97]; [99]; [101]; [98]; [99]], 5) /\
  provider_query_spec root_view has_child any_xy all_rows [by_id false] (pg None None) ex_rows
    = (map s [[101]; [99]; [98]; [97]], 4) /\
  scan_unique all_rows (pg (Some 1) (Some 2)) false (rev raw_cursor) = (map s [[99]; [101]], 5) /\
  provider_query_spec root_view has_child any_xy all_rows [by_id false] (pg (Some 1) (Some 2)) ex_rows
    = (map s [[99]; [98]], 4).
Proof. vm_compute. repeat split. Qed.

(* the sorting scan over a duplicating cursor: the tree replaces the equal row, the counter still counts it *)
Example duplicating_provider_count_refuted :
  snd (scan_sorting all_rows [by_name true] (pg None None) raw_cursor) = 5 /\
  snd (provider_query_spec root_view has_child any_xy all_rows [by_name true] (pg None None) ex_rows) = 4.
Proof. vm_compute. repeat split. Qed.
