(* C08, second strengthening: the two wirings with SEVERAL child stores under one parent used by the C08 streams
   only (harness/cmd/storageharness/store_c08_w2.go: c08k3 = plain, plain, extended child store; c08kx = extended,
   plain, plain), as derived by the wiring script (the comment above each schema is the SCH text of the case lines),
   pass the schema conditions of the C08 theorems by computation; concrete histories: the delete of an entity living
   in the 2nd / 3rd child store announces it on that child store and on the parent (flagged); a registration naming
   several change types is notified once per committed change; an adapter whose "matched" flag is not reset inside
   the loop over the registered types is refuted. *)
From Coq Require Import List NArith Bool.
From Storage Require Import Base.Bytes Store.Model Store.Events Store.EventProofs Store.EventAnyProofs
  Store.EventsMulti Store.EventMultiProofs.
Import ListNotations.
Open Scope N_scope.

(* SCH 8 ST o - 0 1 title 0 0 1 CA p owner D 0 ST p - 0 2 name 0 owner 0 1 roles 3 FI owner o ps 0 SI roles CA q p D 0 ST k1 p 0 1 lvl 1 0 0 0 ST k2 p 0 1 code 1 0 1 U code 1 0 ST k3 p 1 1 note 1 0 0 0 ST q - 0 1 p 1 0 1 FC p p 1 0 ST q1 q 0 1 x 1 0 0 0 ST q2 q 0 1 y 1 0 0 0 *)
Definition c08k3_schema : schema :=
  [
    mkSdef [111] (* o *) None false [([116;105;116;108;101], false)] []
      [CFkCascade [112] [111;119;110;101;114] CascDelete] [];
    mkSdef [112] (* p *) None false [([110;97;109;101], false); ([111;119;110;101;114], false)] [[114;111;108;101;115]]
      [CFkIndex [111;119;110;101;114] [111] [112;115] false; CSetIdx [114;111;108;101;115]; CFkCascade [113] [112] CascDelete] [];
    mkSdef [107;49] (* k1 *) (Some [112]) false [([108;118;108], true)] []
      [] [];
    mkSdef [107;50] (* k2 *) (Some [112]) false [([99;111;100;101], true)] []
      [CUnique [99;111;100;101] true] [];
    mkSdef [107;51] (* k3 *) (Some [112]) true [([110;111;116;101], true)] []
      [] [];
    mkSdef [113] (* q *) None false [([112], true)] []
      [CFkCons [112] [112] true] [];
    mkSdef [113;49] (* q1 *) (Some [113]) false [([120], true)] []
      [] [];
    mkSdef [113;50] (* q2 *) (Some [113]) false [([121], true)] []
      [] [] ].

(* SCH 5 ST p - 0 1 name 0 0 2 U name 0 CA r p D 0 ST x1 p 1 1 code 1 0 0 0 ST k2 p 0 1 lvl 1 0 0 0 ST k3 p 0 1 tag 1 0 1 U tag 1 0 ST r - 0 2 p 0 label 1 0 1 FI p p rs 0 0 *)
Definition c08kx_schema : schema :=
  [
    mkSdef [112] (* p *) None false [([110;97;109;101], false)] []
      [CUnique [110;97;109;101] false; CFkCascade [114] [112] CascDelete] [];
    mkSdef [120;49] (* x1 *) (Some [112]) true [([99;111;100;101], true)] []
      [] [];
    mkSdef [107;50] (* k2 *) (Some [112]) false [([108;118;108], true)] []
      [] [];
    mkSdef [107;51] (* k3 *) (Some [112]) false [([116;97;103], true)] []
      [CUnique [116;97;103] true] [];
    mkSdef [114] (* r *) None false [([112], false); ([108;97;98;101;108], true)] []
      [CFkIndex [112] [112] [114;115] false] [] ].

Definition k_o : name := [111].
Definition k_p : name := [112].
Definition k_q : name := [113].
Definition k_r : name := [114].
Definition k_k1 : name := [107;49].
Definition k_k2 : name := [107;50].
Definition k_k3 : name := [107;51].
Definition k_x1 : name := [120;49].

Definition c08k3_rank : list (name * nat) := [(k_o, 0%nat); (k_p, 1%nat); (k_q, 2%nat)].
Definition c08kx_rank : list (name * nat) := [(k_p, 0%nat); (k_r, 1%nat)].

Example c08k3_schema_wf : wf_events_b c08k3_schema c08k3_rank = true /\ wf_events0_b c08k3_schema = true.
Proof. vm_compute. split; reflexivity. Qed.
Example c08kx_schema_wf : wf_events_b c08kx_schema c08kx_rank = true /\ wf_events0_b c08kx_schema = true.
Proof. vm_compute. split; reflexivity. Qed.

(* ---- an entity living in the 2nd plain child store (k2), the 3rd (extended) store k3 loads every p entity ---- *)
Definition f_title : name := [116;105;116;108;101].
Definition f_name : name := [110;97;109;101].
Definition f_owner : name := [111;119;110;101;114].
Definition f_roles : name := [114;111;108;101;115].
Definition f_code : name := [99;111;100;101].
Definition f_lvl : name := [108;118;108].
Definition f_tag : name := [116;97;103].
Definition O1 : id := [79;49].
Definition P1 : id := [80;49].
Definition P2 : id := [80;50].

Definition k3_setup : list tx :=
  [ mkTx false [] [OCreate k_o O1 false [(f_title, Some [1])] []] false;
    mkTx false [] [OCreate k_k2 P1 false [(f_name, Some [2]); (f_owner, Some O1); (f_code, Some [7])] [(f_roles, [])]] false ].
Definition k3_st : state := run_txs c08k3_schema 16 st_empty k3_setup.

(* delete through the parent: parent event flagged, one event on k2 (2nd registered) and one on the extended k3; none on k1 *)
Example k3_delete_second_child :
  run_tx c08k3_schema 16 k3_st (mkTx false [] [ODelete k_p P1] false) =
  ([None], true, snd (fst (run_tx c08k3_schema 16 k3_st (mkTx false [] [ODelete k_p P1] false))),
   [mkEvent k_p Deleted P1 true; mkEvent k_k2 Deleted P1 false; mkEvent k_k3 Deleted P1 false]).
Proof. vm_compute. reflexivity. Qed.

(* ... and when the owner is deleted the cascade announces the same three events after none for the owner's children *)
Example k3_cascade_second_child :
  snd (run_tx c08k3_schema 16 k3_st (mkTx false [] [ODelete k_o O1] false)) =
  [mkEvent k_p Deleted P1 true; mkEvent k_k2 Deleted P1 false; mkEvent k_k3 Deleted P1 false; mkEvent k_o Deleted O1 false].
Proof. vm_compute. reflexivity. Qed.

(* c08kx: extended store first; the entity lives in the 3rd store *)
Definition kx_st : state :=
  run_txs c08kx_schema 16 st_empty
    [ mkTx false [] [OCreate k_k3 P2 false [(f_name, Some [3]); (f_tag, Some [5])] []] false ].
Example kx_delete_third_child :
  snd (run_tx c08kx_schema 16 kx_st (mkTx false [] [ODelete k_k3 P2] false)) =
  [mkEvent k_p Deleted P2 true; mkEvent k_x1 Deleted P2 false; mkEvent k_k3 Deleted P2 false].
Proof. vm_compute. reflexivity. Qed.

(* an update entered through the parent is carried out by the store that holds the entity's data (the 3rd) *)
Example kx_update_through_parent :
  snd (run_tx c08kx_schema 16 kx_st (mkTx false [] [OUpdate k_p P2 [(f_name, Some [4]); (f_tag, Some [6])] [] None] false)) =
  [mkEvent k_p Updated P2 true; mkEvent k_k3 Updated P2 false].
Proof. vm_compute. reflexivity. Qed.

(* ---- registrations naming several change types ---- *)
Definition l_cud : listener := mkListener LFunction k_p [ECreated; EUpdatedAsync; EDeleted].
Definition l_du : listener := mkListener LIdOnly k_k3 [EDeletedAsync; EUpdated].

Example multi_kinds_distinct : kinds_distinct (l_types l_cud) = true /\ kinds_distinct (l_types l_du) = true /\
  kinds_distinct [ECreated; ECreatedAsync] = false.
Proof. vm_compute. repeat split; reflexivity. Qed.

(* one notification per committed change, in the mode of the entry of that kind *)
Example multi_one_per_change :
  delivered_to l_cud [mkEvent k_p Created P2 true; mkEvent k_k3 Created P2 false; mkEvent k_p Updated P2 true; mkEvent k_p Deleted P2 true] =
  [(mkEvent k_p Created P2 true, false); (mkEvent k_p Updated P2 true, true); (mkEvent k_p Deleted P2 true, false)] /\
  delivered_to l_du [mkEvent k_k3 Created P2 false; mkEvent k_k3 Updated P2 false; mkEvent k_k3 Deleted P2 false] =
  [(mkEvent k_k3 Updated P2 false, false); (mkEvent k_k3 Deleted P2 false, true)].
Proof. vm_compute. split; reflexivity. Qed.

(* an adapter that does not reset its "matched" flag: (Created, Updated, Deleted) is told three times about a create,
   twice about an update - the loop of Store/Events.v [invocations] (the pinned code) tells it once *)
Example sticky_adapter_refuted :
  sticky_invocations [ECreated; EUpdated; EDeleted] Created false = [false; false; false] /\
  sticky_invocations [ECreated; EUpdated; EDeleted] Updated false = [false; false] /\
  invocations (mkListener LTyped k_p [ECreated; EUpdated; EDeleted]) Created = [false] /\
  invocations (mkListener LTyped k_p [ECreated; EUpdated; EDeleted]) Updated = [false].
Proof. vm_compute. repeat split; reflexivity. Qed.
