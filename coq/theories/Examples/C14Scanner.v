(* C14 - scanners layered over cursors (Cursor/Scanner.v): non-vacuity examples for the theorems of
   Properties/C14.v, and the refutation of the seeded shape "Seek returns when the WRAPPED cursor is exhausted". *)
From Coq Require Import List NArith Bool Arith Sorting.Sorted.
From Storage Require Import Base.Bytes Cursor.StrOrder Cursor.Core Cursor.BoltCursor Cursor.Filtered
  Cursor.SetSym Cursor.Cases Cursor.Scanner.
Import ListNotations.
Open Scope nat_scope.

Definition s_a : str := [97%N].
Definition s_ab : str := [97%N; 98%N].
Definition s_b : str := [98%N].
Definition s_c : str := [99%N].
Definition s_ff : str := [255%N].
Definition yes (_ : str) : bool := true.
Definition not_ab (x : str) : bool := negb (str_eqb x s_ab).

Definition ids5 : list str := [[1%N]; s_a; s_ab; s_b; s_ff].
Example ids5_sorted : sorted_asc ids5.
Proof. repeat constructor. Qed.

(* IterateIds, filter true: walk to the LAST id, seek back, seek past the end, run out, seek again *)
Example ids_seek_from_the_last_element :
  ids_run yes yes 7 0 None (Some ids5) [CNext; CNext; CNext; CNext; CSeek s_a; CSeek [255%N; 255%N]; CNext; CSeek s_b; CNext; CNext]
  = [OCur [1%N]; OCur s_a; OCur s_ab; OCur s_b; OCur s_ff; OCur s_a; OInvalid; OInvalid; OCur s_b; OCur s_ff; OInvalid].
Proof. vm_compute. reflexivity. Qed.

Example ids_spec_agrees :
  spec_ops true ids5 [CNext; CNext; CNext; CNext; CSeek s_a; CSeek [255%N; 255%N]; CNext; CSeek s_b; CNext; CNext]
  = [OCur [1%N]; OCur s_a; OCur s_ab; OCur s_b; OCur s_ff; OCur s_a; OInvalid; OInvalid; OCur s_b; OCur s_ff; OInvalid].
Proof. vm_compute. reflexivity. Qed.

(* a selective filter: seeking a rejected id lands on the next accepted one *)
Example ids_selective_filter :
  ids_run yes not_ab 7 0 None (Some ids5) [CSeek s_ab; CNext; CNext; CSeek s_ab; CSeek []]
  = [OCur [1%N]; OCur s_b; OCur s_ff; OInvalid; OCur s_b; OCur [1%N]].
Proof. vm_compute. reflexivity. Qed.

(* a child store that owns only a and 0xff, one-entity stores, a missing entities bucket *)
Example ids_child_store :
  ids_run (fun x => mem x [s_a; s_ff]) yes 7 0 None (Some ids5) [CNext; CSeek s_a; CNext; CNext]
  = [OCur s_a; OCur s_ff; OCur s_a; OCur s_ff; OInvalid].
Proof. vm_compute. reflexivity. Qed.

Example ids_one_entity_store :
  ids_run yes yes 3 0 None (Some [s_a]) [CSeek s_b; CSeek s_a; CSeek []; CNext; CSeek s_a]
  = [OCur s_a; OInvalid; OCur s_a; OCur s_a; OInvalid; OCur s_a].
Proof. vm_compute. reflexivity. Qed.

Example ids_no_bucket :
  ids_run yes yes 2 0 None None [CSeek s_a; CNext] = [OInvalid; OInvalid; OInvalid].
Proof. vm_compute. reflexivity. Qed.

(* IterateValidIds of an extended store: ValidIdsCursors skips ids without extended data (here ab and 0xff) *)
Example valid_ids_sample :
  valid_ids_run yes yes (fun x => mem x [[1%N]; s_a; s_b]) 7 (Some ids5) [CNext; CNext; CSeek s_ab; CNext; CSeek s_a]
  = [OCur [1%N]; OCur s_a; OCur s_b; OCur s_b; OInvalid; OCur s_a].
Proof. vm_compute. reflexivity. Qed.

(* paging: skip 1 limit 2 over the accepted ids *)
Example ids_paged_sample :
  ids_run yes not_ab 7 1 (Some 2) (Some ids5) [CNext; CNext; CNext] = [OCur s_a; OCur s_b; OInvalid; OInvalid].
Proof. vm_compute. reflexivity. Qed.
Example page_sample : page 1 (Some 2) (filter not_ab ids5) = [s_a; s_b].
Proof. vm_compute. reflexivity. Qed.

(* QueryWithCursorC: page and count, both directions *)
Example scan_cursor_sample :
  scan_bolt_run yes not_ab 7 1 (Some 2) false ids5 = Ok ([s_b; s_a], 4).
Proof. vm_compute. reflexivity. Qed.

(* ---- the seeded shape ----------------------------------------------------------------------------------------
   "if !cursor.IsValid() { return }" at the top of uniqueIndexScanner.Seek: on the last element the wrapped cursor is
   exhausted, so the Seek is dropped - a seek past the end leaves the cursor valid, a backward seek does not move *)
Example seek_guard_refuted_one_entity :
  ids_run_guarded yes 3 [s_a] [CSeek s_b] = [OCur s_a; OCur s_a] /\
  spec_ops true [s_a] [CSeek s_b] = [OCur s_a; OInvalid] /\
  ids_run yes yes 3 0 None (Some [s_a]) [CSeek s_b] = [OCur s_a; OInvalid].
Proof. vm_compute. repeat split. Qed.

Example seek_guard_refuted_backwards :
  ids_run_guarded yes 4 [s_a; s_b] [CNext; CSeek s_a] = [OCur s_a; OCur s_b; OCur s_b] /\
  spec_ops true [s_a; s_b] [CNext; CSeek s_a] = [OCur s_a; OCur s_b; OCur s_a].
Proof. vm_compute. repeat split. Qed.

Example seek_guard_refuted_after_exhaustion :
  ids_run_guarded yes 4 [s_a; s_b] [CNext; CNext; CSeek s_a] = [OCur s_a; OCur s_b; OInvalid; OInvalid] /\
  spec_ops true [s_a; s_b] [CNext; CNext; CSeek s_a] = [OCur s_a; OCur s_b; OInvalid; OCur s_a].
Proof. vm_compute. repeat split. Qed.
