(* C01 / C10Typer - non-vacuity examples (the hypotheses of the theorems are satisfiable by a non-trivial
   schema, dataset and filter) and [..._refuted] witnesses for the behaviour of the unfixed code. *)
From Coq Require Import List ZArith NArith Bool Lia Sorting.Sorted.
From Storage Require Import Base.Bytes Ast.F64 Ast.Values Ast.Schema Ast.Stacked Ast.Untyped Ast.Typed Ast.Typer
  Ast.Eval Ast.Spec Ast.Seek Ast.StackedProofs Ast.ScanProofs Ast.TyperProofs.
Import ListNotations.
Open Scope N_scope.

(* names *)
Definition n_id : str := [105;100].
Definition n_name : str := [110;97;109;101].
Definition n_age : str := [97;103;101].
Definition n_born : str := [98;111;114;110].
Definition n_strs : str := [115;116;114;115].
Definition n_place : str := [112;108;97;99;101].
Definition n_places : str := [112;108;97;99;101;115].
Definition n_biz : str := [98;105;122].
Definition n_owner : str := [111;119;110;101;114].
Definition n_tags : str := [116;97;103;115].
Definition dot (a b : str) : str := a ++ [46] ++ b.
(* values *)
Definition v_p1 : str := [112;49].
Definition v_p2 : str := [112;50].
Definition v_l1 : str := [108;49].
Definition v_zz : str := [122;122].
Definition v_ann : str := [97;110;110].
Definition v_x : str := [120].
Definition v_y : str := [121].
Definition v_a : str := [97].
Definition v_b : str := [98].

(* two stores: people (0) with scalar fields, a string set, a foreign key and a foreign-key set into places (1);
   places with a name, a string set and a foreign key back to people *)
Definition ex_sch : schema :=
  [ {| st_syms := [ (n_id, DId); (n_name, DField TString [] n_name None); (n_age, DField TInt64 [] n_age None);
                    (n_born, DField TDatetime [] n_born None);
                    (n_strs, DSet TString n_strs None); (n_place, DField TString [] n_place (Some 1%nat));
                    (n_places, DSet TString n_places (Some 1%nat)) ];
       st_maps := [ (n_tags, {| m_ty := TAny; m_prefix := []; m_key := n_tags |}) ] |};
    {| st_syms := [ (n_id, DId); (n_name, DField TString [] n_name None); (n_biz, DSet TString n_biz None);
                    (n_owner, DField TString [] n_owner (Some 0%nat)) ];
       st_maps := [] |} ].

(* p1: all fields set, one place; p2: null name, empty set, a dangling place reference *)
Definition ex_db : db := fun S =>
  match S with
  | O => [ (v_p1, {| e_fields := [ ([n_name], VStr v_ann); ([n_age], VInt32 5); ([n_place], VStr v_l1);
                                   ([n_tags; v_a], VInt64 7) ];
                     e_sets := [ (n_strs, [VStr v_a]); (n_places, [VStr v_l1]) ] |});
           (v_p2, {| e_fields := [ ([n_name], VNil); ([n_age], VInt64 9007199254740993) ];
                     e_sets := [ (n_strs, []); (n_places, [VStr v_zz]) ] |}) ]
  | S O => [ (v_l1, {| e_fields := [ ([n_name], VStr v_x); ([n_owner], VStr v_p1) ];
                         e_sets := [ (n_biz, [VStr v_b]) ] |}) ]
  | _ => []
  end.

(* anyOf(places.name) != "y"  and  count(from places where name = "x" and owner.name = "ann") = 1
   - a two-hop dotted set with a null element (p2's dangling place), a sub-query, a dotted fk chain *)
Definition ex_filter : untyped :=
  UQuery (UAnd (UBin (LAnyOf (dot n_places n_name)) OpNEQ (LStr v_y))
               (UBin (LCount (SESub n_places
                        (UQuery (UAnd (UBin (LSym n_name) OpEQ (LStr v_x))
                                      (UBin (LSym (dot n_owner n_name)) OpEQ (LStr v_ann))) None None)))
                     OpEQ (LInt 1)))
         None None.

Example sample_typer_ok : exists t, typer ex_sch 0 ex_filter = Ok t.
Proof. eexists. vm_compute. reflexivity. Qed.

Lemma sorted_strs_nil : sorted_strs [].
Proof. exists []. split; [reflexivity | constructor]. Qed.
Lemma sorted_strs_one : forall s, sorted_strs [VStr s].
Proof. intros s. exists [s]. split; [reflexivity | repeat constructor]. Qed.

Lemma ex_sets_small : forall S id key,
  sorted_strs (set_get ex_db S id key) /\ (length (set_get ex_db S id key) <= 1)%nat.
Proof.
  intros S id key. unfold set_get, get_entity.
  destruct S as [|[|S]]; cbn;
    repeat match goal with |- context [str_eqb ?a ?b] => destruct (str_eqb a b); cbn end;
    split; auto using sorted_strs_nil, sorted_strs_one.
Qed.

Lemma small_chain : forall (d : db), (forall S id key, (length (set_get d S id key) <= 1)%nat) ->
  forall chain k, (length (chain_enum d chain k) <= 1)%nat.
Proof.
  intros d Hs chain. induction chain as [|l up IH]; intros k; cbn; auto.
  assert (Hl : (length (link_step d l (id_of k)) <= 1)%nat).
  { destruct l; cbn; auto. }
  destruct (link_step d l (id_of k)) as [|x [|y r]]; cbn in *; auto.
  - rewrite app_nil_r. apply IH.
  - lia.
Qed.

Example sample_wf_db : wf_db ex_sch ex_db.
Proof.
  assert (Hsmall : forall S id key, (length (set_get ex_db S id key) <= 1)%nat) by (intros; apply ex_sets_small).
  split; [intros; apply ex_sets_small | split].
  - intros S id n. assert (length (keys_of ex_sch ex_db S id n) <= 1)%nat.
    { unfold keys_of. destruct (resolve ex_sch S n) as [[l|ty c|ty c last]|]; cbn; auto.
      - destruct l; cbn; auto.
      - destruct c as [|l0 up]; cbn; auto.
        assert (Hl : (length (link_step ex_db l0 id) <= 1)%nat) by (destruct l0; cbn; auto).
        destruct (link_step ex_db l0 id) as [|x [|y r]]; cbn in *; auto.
        + rewrite app_nil_r. apply small_chain. exact Hsmall.
        + lia. }
    unfold max_int64. lia.
  - intros S. destruct S as [|[|S]]; cbn; unfold max_int64; lia.
Qed.

(* the theorems apply: the evaluator, the declarative semantics and the id list agree on the example *)
Example sample_query_ids :
  (t <- typer ex_sch 0 ex_filter ;; query_ids fmt_float_int fmt_time_none ex_sch ex_db 0 t) = Ok [v_p1] /\
  (t <- typer ex_sch 0 ex_filter ;; iterate_ids fmt_float_int fmt_time_none ex_sch ex_db 0 t) = Ok [v_p1] /\
  spec_ids fmt_float_int fmt_time_none ex_sch ex_db 0 ex_filter = [v_p1].
Proof. vm_compute. repeat split. Qed.

(* p2 is selected by  anyOf(places.name) != "y"  (its only element is null) but fails the count *)
Example sample_null_element :
  spec fmt_float_int fmt_time_none ex_sch ex_db 0 v_p2 (UBin (LAnyOf (dot n_places n_name)) OpNEQ (LStr v_y)) = true /\
  elements_of ex_sch ex_db 0 v_p2 (dot n_places n_name) = [VNil].
Proof. vm_compute. split; reflexivity. Qed.

(* seek shortcut: the hypotheses hold for a two element set, and both paths answer the same *)
Example sample_seek : sorted_strs [VStr v_a; VStr v_b] /\
  seek_path fmt_float_int fmt_time_none [VStr v_a; VStr v_b] v_b = true /\
  scan_path fmt_float_int fmt_time_none [VStr v_a; VStr v_b] v_b = true.
Proof.
  split; [|split; reflexivity]. exists [v_a; v_b]. split; [reflexivity|].
  repeat constructor.
Qed.

(* ---- witnesses for the unfixed code ---- *)
(* BinaryStringExprNode.IsSeekable allowed != : answering  anyOf(set) != v  from the seek position only *)
Definition seek_path_neq_legacy (l : list sval) (v : str) : bool :=
  match cur_seek l v with
  | [] => false
  | e :: _ => cmp_str OpNEQ (field_to_string fmt_float_int fmt_time_none e) (Some v)
  end.
Example seek_neq_legacy_refuted :
  exists l v, sorted_strs l /\
    seek_path_neq_legacy l v <> existsb (fun e => cmp_str OpNEQ (field_to_string fmt_float_int fmt_time_none e) (Some v)) l.
Proof.
  exists [VStr v_a; VStr v_b], v_a. split.
  - exists [v_a; v_b]. split; [reflexivity | repeat constructor].
  - vm_compute. discriminate.
Qed.

(* SetFunctionNode.TypeTransform dropped the sub-query of count(from ...): every element was counted *)
Example count_subquery_legacy_refuted :
  exists u, spec fmt_float_int fmt_time_none ex_sch ex_db 0 v_p2 u = true /\
            Z.of_nat (length (elements_of ex_sch ex_db 0 v_p2 n_places)) <> 0%Z /\
            u = UBin (LCount (SESub n_places (UQuery (UBin (LSym n_name) OpEQ (LStr v_x)) None None))) OpEQ (LInt 0).
Proof. eexists. split; [|split; [|reflexivity]]; vm_compute; [reflexivity | discriminate]. Qed.

(* the listener wrapped  anyOf(s) not in [...]  as  not (anyOf(s) in [...]) : "no element in" instead of
   "some element not in"; on a set with one element inside and one outside the list the two differ *)
Example setfn_negation_legacy_refuted :
  let elems := [VStr v_a; VStr v_b] in
  let inl := fun e : sval => in_str (field_to_string fmt_float_int fmt_time_none e) [Some v_a] in
  existsb (fun e => negb (inl e)) elems <> negb (existsb inl elems).
Proof. vm_compute. discriminate. Qed.

(* C10: a datetime symbol between two numbers is a typing error, not a failed assertion *)
Example sample_between_checked : typer ex_sch 0 (UBetween false (LSym n_born) (LInt 1) (LInt 2)) = Err.
Proof. vm_compute. reflexivity. Qed.
Example sample_any_between :
  (t <- typer ex_sch 0 (UBetween false (LSym (dot n_tags v_a)) (LInt 1) (LInt 9)) ;;
   eval fmt_float_int fmt_time_none (mk ex_sch ex_db 0 v_p1) t) = Ok true.
Proof. vm_compute. reflexivity. Qed.
