(* placeholder while the proofs are being developed *)
