(* C08, sixth strengthening: concrete caller programs against the event code (Store/EventsCaller.v).
   vm_compute only here (non-vacuity and the refuted variant). *)
From Coq Require Import List NArith Bool.
From Storage Require Import Base.Bytes Store.Model Store.Events Store.EventsCaller.
Import ListNotations.
Open Scope N_scope.

Definition nameF : name := [110; 97; 109; 101].
Definition vw (n : str) : view := mkView [(nameF, FStr n)] [] false.

(* scratch := &Employee{}; for i := 0; i < 3; i++ { scratch.Id = ..; scratch.Name = ..; store.Create(ctx, scratch) };
   scratch.Id = "not-an-entity"; scratch.Name = "never-stored"        (the demonstration of seeded change C08-w6-1) *)
Definition scratch_loop : list eaction :=
  [EMake [65] (vw [48]); ECreate 0%nat;
   EWrite 0%nat [66] (vw [49]); ECreate 0%nat;
   EWrite 0%nat [67] (vw [50]); ECreate 0%nat;
   EWrite 0%nat [33; 33] (vw [63])].

Example scratch_loop_pinned :
  delivered (run_ecaller LibPinned estate_empty scratch_loop) =
  [Some ([65], vw [48]); Some ([66], vw [49]); Some ([67], vw [50])].
Proof. vm_compute. reflexivity. Qed.

(* Create without loadFinalState: the three events all lead to the caller's one struct - at commit time every
   listener is handed the id that was never stored, the three committed entities are announced to nobody *)
Example scratch_loop_alias_refuted :
  delivered (run_ecaller LibCreateAlias estate_empty scratch_loop) =
  [Some ([33; 33], vw [63]); Some ([33; 33], vw [63]); Some ([33; 33], vw [63])] /\
  map Some (es_snap (run_ecaller LibCreateAlias estate_empty scratch_loop)) =
  [Some ([65], vw [48]); Some ([66], vw [49]); Some ([67], vw [50])].
Proof. vm_compute. split; reflexivity. Qed.

(* one create whose struct is changed afterwards, an update through the same struct changed again, a struct the
   caller loaded, changed, and whose entity it then deletes: final state, final state, last state - as stored *)
Definition busy_caller : list eaction :=
  [EMake [65] (vw [48]); ECreate 0%nat; EWrite 0%nat [65] (vw [126]);
   EWrite 0%nat [65] (vw [49]); EUpdate 0%nat; EWrite 0%nat [90] (vw [126; 126]);
   ELoad [65]; EWrite 3%nat [65] (vw [126]); EDelete [65]; EWrite 3%nat [90] (vw [])].

Example busy_caller_pinned :
  delivered (run_ecaller LibPinned estate_empty busy_caller) =
  [Some ([65], vw [48]); Some ([65], vw [49]); Some ([65], vw [49])] /\
  map q_change (es_queue (run_ecaller LibPinned estate_empty busy_caller)) = [Created; Updated; Deleted].
Proof. vm_compute. split; reflexivity. Qed.

Example busy_caller_alias_refuted :
  nth_error (delivered (run_ecaller LibCreateAlias estate_empty busy_caller)) 0 = Some (Some ([90], vw [126; 126])).
Proof. vm_compute. reflexivity. Qed.
