(* C20 - non-vacuity examples for the store-configuration model (Ast/PublicCfg.v): symbols whose
   NAME differs from their bucket KEY. *)
From Coq Require Import List Bool NArith.
From Storage Require Import Base.Bytes Ast.AstTable Ast.Visitor Ast.VisitorProofs Ast.PublicCfg Ast.PublicCfgProofs.
Import ListNotations.
Open Scope name_scope.

Definition s (n : name) : str := name_bytes n.

(* AddIdSymbol("id"); AddSymbol("name"); AddSymbolWithKey("alias", _, "labels");
   AddMapSymbol("labels", _, "tags"); MakeSymbolPublic("labels");      public map, key <> name
   AddMapSymbol("attrs", _, "name")                                     NON-public map whose key is the name of a public symbol *)
Definition ex_cfg : list cfg_op := [
  OAddPublic false (s "id") (s "id"); OAddPublic false (s "name") (s "name");
  OAddPublic false (s "alias") (s "labels");
  OAddMap false (s "labels") (s "tags"); OMakePublic false (s "labels") false;
  OAddMap false (s "attrs") (s "name") ].
Definition ex_store : cfg_store := cfg_store_of (cfg_run ex_cfg) false.

Example ex_cfg_maps : cs_maps ex_store = [(s "attrs", s "name"); (s "labels", s "tags")].
Proof. vm_compute. reflexivity. Qed.

Example ex_cfg_public_map_element :
  cs_is_public ex_store (s "labels.env") = true /\ cs_is_public ex_store (s "labels.a.b") = true.
Proof. vm_compute. auto. Qed.

Example ex_cfg_nonpublic_map_element :
  cs_is_public ex_store (s "attrs.secret") = false /\ cs_is_public ex_store (s "name") = true.
Proof. vm_compute. auto. Qed.

(* instance of cfg_map_element_public: hypotheses hold for the map registered as labels / key tags *)
Example ex_cfg_map_element_instance :
  In (s "labels", s "tags") (cs_maps ex_store) /\ before_dot (s "labels") = None /\
  mem_str (s "labels" ++ dot :: s "env") (cs_pub ex_store) = false /\
  cs_is_public ex_store (s "labels" ++ dot :: s "env") = mem_str (s "labels") (cs_pub ex_store).
Proof. vm_compute. repeat split; auto. Qed.

(* the same calls with every key replaced: the same public symbols (instance of cfg_public_is_by_name) *)
Definition ex_cfg_other_keys : list cfg_op := [
  OAddPublic false (s "id") (s "k0"); OAddPublic false (s "name") (s "attrs");
  OAddPublic false (s "alias") (s "k1");
  OAddMap false (s "labels") (s "labels"); OMakePublic false (s "labels") false;
  OAddMap false (s "attrs") (s "id") ].
Example ex_cfg_other_keys_same_names :
  forallb (fun o => negb (op_is_grant o)) ex_cfg = true /\ map op_forget_key ex_cfg = map op_forget_key ex_cfg_other_keys.
Proof. vm_compute. auto. Qed.
Example ex_cfg_other_keys_same_public :
  map (cs_is_public (cfg_store_of (cfg_run ex_cfg_other_keys) false)) [s "labels.env"; s "attrs.secret"; s "name"; s "tags.x"]
  = map (cs_is_public ex_store) [s "labels.env"; s "attrs.secret"; s "name"; s "tags.x"].
Proof. vm_compute. reflexivity. Qed.

(* What looking the map's public flag up under its KEY would do (a plausible "optimisation" of
   IsPublicSymbol that reuses the looked-up map symbol): the map-element rule fails both ways. *)
Definition is_public_by_key (st : cfg_store) (x : sym) : bool :=
  mem_str x (cs_pub st) ||
  match before_dot x with
  | Some base => match find (fun e => str_eqb (fst e) base) (cs_maps st) with
                 | Some e => mem_str (snd e) (cs_pub st)
                 | None => false
                 end
  | None => false
  end.
Example is_public_by_key_refuted :
  (is_public_by_key ex_store (s "labels.env") = false /\ cs_is_public ex_store (s "labels") = true) /\
  (is_public_by_key ex_store (s "attrs.secret") = true /\ cs_is_public ex_store (s "attrs") = false).
Proof. vm_compute. auto. Qed.

(* MakeSymbolPublic before AddMapSymbol is ignored (instance of cfg_make_public_unknown_noop) *)
Definition ex_cfg_early : list cfg_op := [
  OAddPublic false (s "id") (s "id"); OMakePublic false (s "labels") false; OAddMap false (s "labels") (s "tags") ].
Example ex_cfg_make_public_too_early :
  cs_is_public (cfg_store_of (cfg_run ex_cfg_early) false) (s "labels.env") = false.
Proof. vm_compute. reflexivity. Qed.
Example ex_cfg_make_public_after :
  cs_is_public (cs_make_public (cs_set_map cs_empty (s "labels") (s "tags")) (s "labels") false) (s "labels" ++ dot :: s "env") = true.
Proof. vm_compute. reflexivity. Qed.

(* GrantSymbols with name = key everywhere (instance of cfg_grant_by_name_partial) *)
Definition ex_parent_ok : cfg_store := cfg_store_of (cfg_run [
  OAddPublic false (s "id") (s "id"); OAddPrivate false (s "secret");
  OAddMap false (s "tags") (s "tags"); OMakePublic false (s "tags") false; OAddMap false (s "meta") (s "meta") ]) false.
Example ex_grant_by_name :
  (forall m k, In (m, k) (cs_maps ex_parent_ok) -> m = k) /\
  map (cs_is_public (cs_grant ex_parent_ok cs_empty)) [s "id"; s "secret"; s "tags.x"; s "meta.x"] = [true; false; true; false].
Proof.
  split. 2: vm_compute; reflexivity.
  intros m k H. vm_compute in H. destruct H as [H|[H|H]]; try contradiction; inversion H; reflexivity.
Qed.

(* GrantSymbols as it is written registers an inherited map under its KEY (inheritMapSymbol):
   the child of [ex_store] has no map called labels (its public elements are gone), and has a map
   called name - which is the parent's NON-public map attrs - whose elements count as public
   because the scalar symbol name is.  Why cfg_grant_by_name_partial asks for name = key. *)
Definition ex_child : cfg_store := cs_grant ex_store cs_empty.
Example grant_renames_map_refuted :
  cs_map_names ex_child = [s "tags"; s "name"] /\
  cs_is_public ex_store (s "labels.env") = true /\ cs_is_public ex_child (s "labels.env") = false /\
  cs_is_public ex_store (s "attrs.secret") = false /\ cs_is_public ex_child (s "name.secret") = true.
Proof. vm_compute. repeat split; reflexivity. Qed.
