(* Non-vacuity for Properties/C06Links.v on the "idx" wiring (emp.sites <-> dept.staff): a department and an employee
   are committed; ONE transaction adds the link with AddLink, probes it, removes it with RemoveLink, adds it twice,
   removes it again; the department is then deleted by a committed transaction.  The hypotheses of the theorems hold for
   this history and the observed bools / states are computed. *)
From Coq Require Import List NArith Bool.
From Storage Require Import Base.Bytes Store.Model Store.XOps Store.LinkOne Store.NoTrace.
From Storage Require Import Examples.C06Wirings Properties.C06Links.
Import ListNotations.
Open Scope N_scope.

Definition l_e : id := [101].      (* employee e *)
Definition l_d : id := [100].      (* department d *)
Definition l_v (n : N) : str := [118; n].

Definition l_mk_dept : op := OCreate w_dept l_d false [(w_title, Some (l_v 1))] [(w_tagsx, [])].
Definition l_mk_emp : op := OCreate w_emp l_e false [(w_name, Some (l_v 2)); (w_nick, None); (w_boss, None); (w_dept, Some l_d)] [(w_roles, [])].
Definition plain (ops : list op) : ltx := mkLtx true [] (map (fun o => LBase (XBase o)) ops) false.

Definition l_churn : ltx := mkLtx false []
  [ LAddLink w_emp l_e w_sites [l_d];           (* new link: true *)
    LIsLinked w_emp l_e w_sites [l_d];           (* seen inside the transaction *)
    LIsLinked w_dept l_d w_staff [l_e];          (* ... from the other side too *)
    LRemoveLink w_emp l_e w_sites [l_d];        (* the link written two operations ago: true *)
    LIsLinked w_dept l_d w_staff [l_e];
    LAddLink w_emp l_e w_sites [l_d; l_d];      (* true, then false *)
    LRemoveLink w_dept l_d w_staff [l_e; l_e]   (* from the other side: true, then false *)
  ] false.

Definition l_hist : list ltx := [ plain [l_mk_dept]; plain [l_mk_emp] ].
Definition l_st1 : state := run_ltxs idx_schema 8 st_empty l_hist.

Example churn_reports :
  match run_ltx idx_schema 8 l_st1 l_churn with
  | (rs, bss, c, st', _) => (rs, bss, c, eset st' w_emp l_e w_sites, eset st' w_dept l_d w_staff)
  end = ([None; None; None; None; None; None; None],
         [[true]; [true]; [true]; [true]; [false]; [true; false]; [true; false]], true, [], []).
Proof. vm_compute. reflexivity. Qed.

(* the link survives an add - remove - add: both sides hold it *)
Definition l_churn2 : ltx := mkLtx false []
  [ LAddLink w_emp l_e w_sites [l_d]; LRemoveLink w_emp l_e w_sites [l_d]; LAddLink w_dept l_d w_staff [l_e] ] false.
Definition l_st2 : state := run_ltxs idx_schema 8 st_empty (l_hist ++ [l_churn; l_churn2]).
Example churn2_links : eset l_st2 w_emp l_e w_sites = [l_d] /\ eset l_st2 w_dept l_d w_staff = [l_e].
Proof. vm_compute. split; reflexivity. Qed.

(* the employee must be released first (restrict on dept.members): re-pointing is not possible with one department, so the
   employee goes, then the department - an instance of committed_delete_leaves_no_trace_single_links *)
Definition l_del : ltx := mkLtx true [] [ LRemoveLink w_dept l_d w_staff [l_e]; LAddLink w_emp l_e w_sites [l_d];
                                           LBase (XBase (ODelete w_emp l_e)); LBase (XBase (ODelete w_dept l_d)) ] false.
Example delete_commits :
  match run_ltx idx_schema 8 l_st2 l_del with
  | (rs, bss, c, st', _) => (rs, bss, c, get_ent st' w_dept l_d, get_ent st' w_emp l_e)
  end = ([None; None; None; None], [[true]; [true]; []; []], true, None, None).
Proof. vm_compute. reflexivity. Qed.

Example dept_not_mentioned : forall rs bss st' evs,
  run_ltx idx_schema 8 (run_ltxs idx_schema 8 st_empty (l_hist ++ [l_churn; l_churn2])) l_del = (rs, bss, true, st', evs) ->
  ~ mentions idx_schema st' (root_of idx_schema w_dept) l_d.
Proof.
  intros rs bss st' evs H.
  exact (committed_delete_leaves_no_trace_single_links idx_schema 8 (l_hist ++ [l_churn; l_churn2]) l_del
           [LRemoveLink w_dept l_d w_staff [l_e]; LAddLink w_emp l_e w_sites [l_d]; LBase (XBase (ODelete w_emp l_e))]
           w_dept l_d rs bss st' evs idx_schema_wf eq_refl H).
Qed.

(* the flattening of the churn transaction: one AddLinks / RemoveLinks with a single target per call, the probes vanish *)
Example churn_flat : tx_ops (ltx_flat idx_schema 8 l_st1 l_churn) =
  [ OAddLinks w_emp l_e w_sites [l_d]; ORemoveLinks w_emp l_e w_sites [l_d];
    OAddLinks w_emp l_e w_sites [l_d]; OAddLinks w_emp l_e w_sites [l_d];
    ORemoveLinks w_dept l_d w_staff [l_e]; ORemoveLinks w_dept l_d w_staff [l_e] ].
Proof. vm_compute. reflexivity. Qed.
