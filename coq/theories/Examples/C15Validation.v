(* C15, ninth strengthening (seeded C15-w9-3): the wirings C15rq / C15rx of harness/cmd/storageharness/store_c15w9.go - the
   schemas of C15np / C15nx plus one required (SetRequiredString), not indexed field on the parent store (badge / code); the
   child stores' required fields (mode / plan) are fields C15np / C15nx already declare.  "Required" is a property of the
   entity strategy, not of the schema: histories name the required fields on the guarded operations (XOps.XPersist).
   Side conditions of the C15 theorems by computation, and the rejection through the child store on concrete values. *)
From Coq Require Import List NArith Bool.
From Storage Require Import Base.Bytes Store.Model Store.UniqueProofs Store.WfSchema Store.ChildProofs Store.XOps
     Store.ChildDeleteWhere Store.NoTrace Store.ChildValidation Examples.C15Wirings.
Import ListNotations.
Open Scope N_scope.

Definition k_badge : name := [98;97;100;103;101].
Definition k_code : name := [99;111;100;101].

Definition c15rq_schema : schema :=
  [ mkSdef k_site None false [(k_label, false)] [] [CUnique k_label false; CFkRestrict k_nodes] [(k_crew, k_node, k_zones)];
    mkSdef k_node None false [(k_name, false); (k_alias, true); (k_site, false); (k_badge, false)] [k_roles]
      [CUnique k_name false; CUnique k_alias true; CSetIdx k_roles; CFkIndex k_site k_site k_nodes false]
      [(k_zones, k_site, k_crew)];
    mkSdef k_edge (Some k_node) false [(k_port, true); (k_mode, false)] [] [] [] ].

Definition c15rx_schema : schema :=
  [ mkSdef k_grp None false [(k_name, false)] [] [CUnique k_name false; CFkCascade k_acct k_grp CascDelete] [];
    mkSdef k_acct None false [(k_name, false); (k_grp, false); (k_code, false)] [k_caps]
      [CUnique k_name false; CSetIdx k_caps; CFkIndex k_grp k_grp k_accts false; CFkCascade k_sub k_acct CascDelete] [];
    mkSdef k_sub None false [(k_note, true); (k_acct, false)] [] [CFkIndex k_acct k_acct k_subs false] [];
    mkSdef k_acx (Some k_acct) true [(k_quota, true); (k_plan, false)] [] [] [] ].

Example c15rq_wf :
  wf_child_b c15rq_schema k_node k_edge = true /\ wf_unique_b c15rq_schema k_node k_name = true /\
  wf_unique_b c15rq_schema k_node k_alias = true /\ wf_notrace_b c15rq_schema = true /\
  dw_zone_b c15rq_schema k_node [k_node; k_edge] = true.
Proof. vm_compute. repeat split; reflexivity. Qed.
Example c15rx_wf :
  wf_child_b c15rx_schema k_acct k_acx = true /\ wf_unique_b c15rx_schema k_acct k_name = true /\
  wf_notrace_b c15rx_schema = true /\ dw_zone_b c15rx_schema k_acct [k_acct; k_acx; k_sub] = true.
Proof. vm_compute. repeat split; reflexivity. Qed.

(* the required fields as the guarded operations of the histories name them *)
Definition rq_req : list (name * name) := [(k_node, k_badge); (k_edge, k_mode)].
Definition rq_fv (badge mode : str) : fieldvals :=
  [(k_name, Some [120]); (k_alias, None); (k_site, Some [115]); (k_badge, Some badge); (k_port, None); (k_mode, Some mode)].

(* an empty badge is rejected through the parent AND through the child store; a patch that does not name badge is not;
   an empty mode is the child's own rule (the parent store does not know the field) *)
Example rq_rejections :
  persist_rejected false rq_req c15rq_schema k_node (rq_fv [] [109]) [] None = true /\
  persist_rejected false rq_req c15rq_schema k_edge (rq_fv [] [109]) [] None = true /\
  persist_rejected false rq_req c15rq_schema k_edge (rq_fv [] [109]) [] (Some [k_badge]) = true /\
  persist_rejected false rq_req c15rq_schema k_edge (rq_fv [] [109]) [] (Some [k_name]) = false /\
  persist_rejected false rq_req c15rq_schema k_edge (rq_fv [98] [109]) [] None = false /\
  persist_rejected false rq_req c15rq_schema k_edge (rq_fv [98] []) [] None = true /\
  persist_rejected false rq_req c15rq_schema k_node (rq_fv [98] []) [] None = false.
Proof. vm_compute. repeat split; reflexivity. Qed.

(* ---- (seeded C15-w9-1) wirings C15cp / C15cm of store_c15w9.go: the schemas of C15lp / C15lm (Examples/C15Links.v) whose PLAIN
   child store owns a link collection to the peer store: pc.csites <-> site.ccrew.  (An extended child store with a link
   collection is not part of the stream: candidate defect of the unmodified tree, design/C06.md.)  Side conditions of the C15
   theorems (wf_child_b per child store, wf_unique_b, wf_notrace_b of delete_removes_link_mentions) by computation, and the
   delete of a linked child entity through either store on a concrete population: the peer's back-reference set is emptied. *)
From Storage Require Import Examples.C15Links.

Definition l_csites : name := [99;115;105;116;101;115].
Definition l_ccrew : name := [99;99;114;101;119].

Definition dc_site : sdef :=
  mkSdef l_site None false [(l_label, false)] [] [CUnique l_label false] [(l_crew, l_p, l_sites); (l_ccrew, l_pc, l_csites)].
Definition dc_pc : sdef := mkSdef l_pc (Some l_p) false [(l_ckey, true); (l_cnote, false)] [] [CUnique l_ckey true] [(l_csites, l_site, l_ccrew)].

Definition cp_schema : schema := [dc_site; dl_p; dc_pc].
Definition cm_schema : schema := [dc_site; dl_p; dl_px; dc_pc].

Example child_linked_wf :
  wf_child_b cp_schema l_p l_pc = true /\ wf_child_b cm_schema l_p l_px = true /\ wf_child_b cm_schema l_p l_pc = true /\
  wf_unique_b cp_schema l_p l_name = true /\ wf_unique_b cm_schema l_p l_name = true /\
  wf_notrace_b cp_schema = true /\ wf_notrace_b cm_schema = true.
Proof. vm_compute. repeat split; reflexivity. Qed.

(* site s ; p a plain parent ; b through pc, linked through pc.csites to s ; c through px *)
Definition cl_pop : list tx :=
  [ mkTx false [] [OCreate l_site [115] false [(l_label, Some [108])] [];
                   lk_mk l_p [97] [49]; lk_mk l_pc [98] [50]; lk_mk l_px [99] [51];
                   OAddLinks l_pc [98] l_csites [[115]]; OAddLinks l_p [99] l_sites [[115]]] false ].
Definition stc : state := run_txs cm_schema 8 st_empty cl_pop.
Definition stc_after (through : name) (i : str) : state := run_txs cm_schema 8 stc [mkTx false [] [ODelete through i] false].

Example child_linked_population :
  get_set cm_schema stc l_site [115] l_ccrew = [[98]] /\ get_set cm_schema stc l_site [115] l_crew = [[99]] /\
  get_set cm_schema stc l_p [98] l_csites = [[115]].
Proof. vm_compute. repeat split; reflexivity. Qed.
Example child_linked_delete_cleans_peer :
  get_set cm_schema (stc_after l_pc [98]) l_site [115] l_ccrew = [] /\ get_set cm_schema (stc_after l_p [98]) l_site [115] l_ccrew = [] /\
  ids_of (stc_after l_p [98]) l_p = [[97]; [99]] /\ get_set cm_schema (stc_after l_pc [98]) l_site [115] l_crew = [[99]].
Proof. vm_compute. repeat split; reflexivity. Qed.
