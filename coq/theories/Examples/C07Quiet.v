(* Non-vacuity for Properties/C07Quiet.v, and the seeded shape (tx-complete listeners called by DbImpl itself, guarded
   by a flag set before the pre-commit actions ran) refuted by the silence statement. *)
From Coq Require Import List NArith Bool.
From Storage Require Import Base.Bytes Store.Model Store.XOps Store.Events Store.TxCtx Store.TxQuiet.
From Storage Require Import Examples.C07Examples.
Import ListNotations.
Open Scope N_scope.

Definition qcr (i v : str) : citem := IOp (XBase (mk_create i v)).
Definition qobs1 (p : cprog) := ctx_update_q sch1 8 st_empty false [] p.
Definition hk1 : hooks := std_hooks sch1.

(* per kind of hook: total invocations of the store-level registrations, commit-action labels, tx-complete executions *)
Definition qsummary (o : qobs) :=
  (q_results o, q_committed o, length (ents (q_state o) s_emp),
   fold_right (fun l acc => (length (q_delivered l o) + acc)%nat) 0%nat (hk_listeners hk1),
   q_commit_runs o, q_tx_complete hk1 o).

(* the harness registers 4 styles x 6 change types + 2 constraints + 1 multi-type registration per store, and two
   tx-complete listeners *)
Example std_hooks_of_one_store : (length (hk_listeners hk1), hk_tx_complete hk1) = (27, 2)%nat.
Proof. vm_compute. reflexivity. Qed.

(* committed: two creates -> every create-registration of the four styles (sync and async: 8), both constraints and
   the multi-type registration are invoked once per event (11 x 2), the commit actions run, both tx-complete
   listeners run once *)
Example committed_tx_tells_everybody :
  qsummary (qobs1 (mkCprog false [] [([], ACommit 7)] [qcr [97] [120]; IReg [DWrap WGetSys] (ACommit 8); qcr [98] [121]]))
  = ([None; None], true, 2, 22, [7; 8], 2)%nat.
Proof. vm_compute. reflexivity. Qed.

(* THE seeded history: the function succeeds (one create), the pre-commit action registered before the transaction
   fails: rolled back, nobody is told - not the 11 registrations the create would have reached, not the commit
   actions, not the tx-complete listeners *)
Example failing_precommit_after_successful_function_is_silent :
  qsummary (qobs1 (mkCprog false [] [([], APre 1 true); ([], ACommit 7)] [qcr [97] [120]; IReg [] (ACommit 8)]))
  = ([None], false, 0, 0, [], 0)%nat.
Proof. vm_compute. reflexivity. Qed.

(* a failing operation after a successful one (duplicate), with commit actions on three contexts *)
Example failing_operation_is_silent_ex :
  qsummary (qobs1 (mkCprog true [] [] [IReg [DWrap WGetSys] (ACommit 7); qcr [97] [120]; IReg [DNewTx] (ACommit 8); qcr [98] [120];
                                       IReg [DJoin true] (ACommit 9)]))
  = ([None; Some EDuplicate], false, 0, 0, [], 0)%nat.
Proof. vm_compute. reflexivity. Qed.

(* a veto at the pre-commit stage of the second create *)
Example vetoed_operation_is_silent_ex :
  qsummary (ctx_update_q sch1 8 st_empty false [(s_emp, Created, [98])]
              (mkCprog false [] [([], ACommit 7)] [qcr [97] [120]; qcr [98] [121]]))
  = ([None; Some EOther], false, 0, 0, [], 0)%nat.
Proof. vm_compute. reflexivity. Qed.

(* what the driver prints: per registration the number of invocations; failed = all zero *)
Example printed_counts_committed :
  let o := qobs1 (mkCprog false [] [] [qcr [97] [120]]) in
  (fold_right (fun x acc => (snd x + acc)%nat) 0%nat (fst (hook_counts hk1 (q_committed o) (q_events o))),
   snd (hook_counts hk1 (q_committed o) (q_events o))) = (11, 2)%nat.
Proof. vm_compute. reflexivity. Qed.

Example printed_counts_failed :
  let o := qobs1 (mkCprog false [] [([], APre 1 true)] [qcr [97] [120]]) in
  (fold_right (fun x acc => (snd x + acc)%nat) 0%nat (fst (hook_counts hk1 (q_committed o) (q_events o))),
   snd (hook_counts hk1 (q_committed o) (q_events o))) = (0, 0)%nat.
Proof. vm_compute. reflexivity. Qed.

(* the multi-type registration of store 0 ("CuD" through AddEntityEventListener): one synchronous invocation for a
   create *)
Example multi_type_registration_counts :
  map snd (delivered_to (mkListener (multi_style 0) s_emp (multi_types 0)) [mkEvent s_emp Created [97] false;
                                                                               mkEvent s_emp Updated [97] false])
  = [false; true].
Proof. vm_compute. reflexivity. Qed.

(* ---- the seeded shape refuted: with the flag set before the pre-commit actions ran, the very history above
   notifies both tx-complete listeners about a transaction that was rolled back - [silent] does not hold *)
Example flag_before_precommit_refuted :
  let o := ctx_update_q_flag_before_precommit sch1 8 st_empty false []
             (mkCprog false [] [([], APre 1 true)] [qcr [97] [120]]) in
  q_committed o = false /\ q_tx_complete hk1 o = 2%nat /\ ~ silent st_empty o.
Proof.
  vm_compute. split; [reflexivity|]. split; [reflexivity|].
  intros (_ & Hf & _). discriminate Hf.
Qed.

(* ... while it agrees with the code's shape on every other kind of history (failing operation, commit) *)
Example flag_before_precommit_same_elsewhere :
  let p1 := mkCprog false [] [] [qcr [97] [120]; qcr [98] [120]] in
  let p2 := mkCprog false [] [] [qcr [97] [120]] in
  ctx_update_q_flag_before_precommit sch1 8 st_empty false [] p1 = ctx_update_q sch1 8 st_empty false [] p1 /\
  q_fired (ctx_update_q_flag_before_precommit sch1 8 st_empty false [] p2) = q_fired (ctx_update_q sch1 8 st_empty false [] p2).
Proof. vm_compute. split; reflexivity. Qed.
