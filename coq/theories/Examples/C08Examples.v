(* Non-vacuity for C08: the three wirings of the harness pass wf_events_b; a concrete history on the
   "casc" wiring (cascade chain a <- b <- c, extended child store bx of b) shows update-then-delete in
   one transaction, a cascade delete notifying every deleted referrer, a delete repeated in one
   transaction (rejected: nothing delivered), the extended child store's event for a parent entity
   without extension data, listener filtering, delivered states; the pinned Db.Batch is refuted. *)
From Coq Require Import List NArith Bool.
From Storage Require Import Base.Bytes Store.Model Store.Events Store.EventProofs Store.EventAnyProofs
  Store.TxHooks Store.TxHooksProofs.
Import ListNotations.
Open Scope N_scope.


Definition n_a : name := [97].
Definition n_b : name := [98].
Definition n_c : name := [99].
Definition n_bx : name := [98;120].
Definition n_name : name := [110;97;109;101].
Definition n_roles : name := [114;111;108;101;115].
Definition n_bs : name := [98;115].
Definition n_cs : name := [99;115].
Definition n_cas : name := [99;97;115].
Definition n_code : name := [99;111;100;101].

Definition casc_schema : schema :=
  [ mkSdef n_a None false [(n_name, false)] [n_roles]
      [CUnique n_name false; CSetIdx n_roles; CFkCascade n_b n_a CascDelete; CFkRestrict n_cas] [];
    mkSdef n_b None false [(n_name, false); (n_a, false)] []
      [CFkIndex n_a n_a n_bs false; CFkCascade n_c n_b CascDelete; CSystem] [];
    mkSdef n_c None false [(n_name, true); (n_b, false); (n_a, true)] []
      [CFkIndex n_b n_b n_cs false; CFkIndex n_a n_a n_cas true; CUnique n_name true] [];
    mkSdef n_bx (Some n_b) true [(n_code, true)] [] [CUnique n_code true] [] ].
Definition casc_rank : list (name * nat) := [(n_a, 0%nat); (n_b, 1%nat); (n_c, 2%nat)].

Definition A1 : id := [65;49].
Definition A2 : id := [65;50].
Definition B1 : id := [66;49].
Definition B2 : id := [66;50].
Definition C1 : id := [67;49].
Definition C2 : id := [67;50].

Definition mk_a (i nm : str) : op := OCreate n_a i false [(n_name, Some nm)] [(n_roles, [])].
Definition mk_b (s : name) (i nm a : str) : op := OCreate s i false [(n_name, Some nm); (n_a, Some a); (n_code, Some [122])] [].
Definition mk_c (i b : str) (a : option str) : op := OCreate n_c i false [(n_name, None); (n_b, Some b); (n_a, a)] [].
Definition up_c (i nm b : str) : op := OUpdate n_c i [(n_name, Some nm); (n_b, Some b); (n_a, None)] [] None.

Definition setup : list tx :=
  [ mkTx false [] [mk_a A1 [1]; mk_a A2 [2]] false;
    mkTx false [] [mk_b n_b B1 [3] A1; mk_b n_bx B2 [4] A1] false;
    mkTx false [] [mk_c C1 B1 None; mk_c C2 B2 (Some A1)] false ].
Definition st3 : state := run_txs casc_schema 16 st_empty setup.
Definition tx4 : tx := mkTx false [] [up_c C1 [9] B1; ODelete n_a A1] false.
Definition tx5 : tx := mkTx false [] [ODelete n_a A2; ODelete n_a A2] false.

(* ---- the other two wirings of harness/cmd/storageharness/store_gen.go ---- *)
Definition n_emp : name := [101;109;112].
Definition n_dept : name := [100;101;112;116].
Definition n_mgr : name := [109;103;114].
Definition n_room : name := [114;111;111;109].
Definition n_nick : name := [110;105;99;107].
Definition n_boss : name := [98;111;115;115].
Definition n_reports : name := [114;101;112;111;114;116;115].
Definition n_members : name := [109;101;109;98;101;114;115].
Definition n_title : name := [116;105;116;108;101].
Definition n_tagsx : name := [116;97;103;115;120].
Definition n_level : name := [108;101;118;101;108].
Definition n_sites : name := [115;105;116;101;115].
Definition n_staff : name := [115;116;97;102;102].
Definition n_label : name := [108;97;98;101;108].

Definition idx_schema : schema :=
  [ mkSdef n_emp None false [(n_name, false); (n_nick, true); (n_boss, true); (n_dept, false)] [n_roles]
      [CUnique n_name false; CUnique n_nick true; CSetIdx n_roles; CFkIndex n_boss n_emp n_reports true;
       CFkRestrict n_reports; CFkIndex n_dept n_dept n_members false; CSystem]
      [(n_sites, n_dept, n_staff)];
    mkSdef n_dept None false [(n_title, false)] [n_tagsx]
      [CFkRestrict n_members; CUnique n_title false; CSetIdx n_tagsx] [(n_staff, n_emp, n_sites)];
    mkSdef n_mgr (Some n_emp) false [(n_level, true)] [] [CUnique n_level true] [] ].

Definition fkc_schema : schema :=
  [ mkSdef n_emp None false [(n_name, false); (n_boss, true); (n_dept, false); (n_room, true)] []
      [CUnique n_name false; CFkCons n_boss n_emp true; CFkCascade n_emp n_boss CascNone;
       CFkCons n_dept n_dept false; CFkCons n_room n_room true] [];
    mkSdef n_dept None false [(n_title, false)] [] [CFkCascade n_emp n_dept CascDelete] [];
    mkSdef n_room None false [(n_label, true)] [] [CFkCascade n_emp n_room CascNone; CUnique n_label true] [] ].

Example casc_schema_wf : wf_events_b casc_schema casc_rank = true.
Proof. vm_compute. reflexivity. Qed.
Example idx_schema_wf : wf_events_b idx_schema [] = true.
Proof. vm_compute. reflexivity. Qed.
Example fkc_schema_wf : wf_events_b fkc_schema [(n_dept, 0%nat); (n_emp, 1%nat)] = true.
Proof. vm_compute. reflexivity. Qed.

(* a cascade cycle is refused by the check (such a schema makes DeleteById recurse without bound) *)
Example self_cascade_refused :
  wf_events_b [mkSdef n_emp None false [(n_boss, true)] [] [CFkCascade n_emp n_boss CascDelete] []] [(n_emp, 0%nat)] = false.
Proof. vm_compute. reflexivity. Qed.

Definition ev (s : name) (c : change) (i : id) (p : bool) : event := mkEvent s c i p.

(* (c)+(d): update C1, then delete A1: the delete cascades to B1, B2 (through b.a) and C1, C2 (through c.b);
   every removed entity is announced once - C1 after its update event -, b's events are flagged parent
   because the extended child store bx joins every delete of a b entity *)
Example update_then_cascade_delete :
  match run_tx casc_schema 16 st3 tx4 with
  | (rs, committed, _, evs) =>
      rs = [None; None] /\ committed = true /\
      evs = [ ev n_c Updated C1 false;
              ev n_c Deleted C1 false; ev n_b Deleted B1 true; ev n_bx Deleted B1 false;
              ev n_c Deleted C2 false; ev n_b Deleted B2 true; ev n_bx Deleted B2 false;
              ev n_a Deleted A1 false ]
  end.
Proof. vm_compute. repeat split; reflexivity. Qed.

(* the declarative expectation gives the same multiplicities (instance of events_exactly_once) *)
Example update_then_cascade_delete_expected :
  map (expected_events casc_schema (tx_trace casc_schema 16 st3 tx4))
      [ev n_c Updated C1 false; ev n_c Deleted C1 false; ev n_c Deleted C2 false; ev n_b Deleted B1 true;
       ev n_b Deleted B1 false; ev n_bx Deleted B2 false; ev n_a Deleted A1 false; ev n_a Deleted A2 false;
       ev n_c Created C1 false]
  = [1; 1; 1; 1; 0; 1; 1; 0; 0]%nat.
Proof. vm_compute. reflexivity. Qed.

(* (a) B1 was created through the parent store b (no bx data), still the EXTENDED child store bx gets a
   delete event for it: its FindById finds every parent entity *)
Example extended_child_event_for_plain_parent :
  present casc_schema st3 n_bx B1 = false /\ loadable casc_schema st3 n_bx B1 = true /\
  del_events casc_schema st3 n_b B1 = [ev n_b Deleted B1 true; ev n_bx Deleted B1 false].
Proof. vm_compute. repeat split; reflexivity. Qed.

(* (c) the same entity deleted twice in one transaction: the second delete is rejected, the
   transaction rolls back, nothing is delivered *)
Example delete_twice_rejected :
  run_tx casc_schema 16 st3 tx5 = ([None; Some ENotFound], false, st3, []).
Proof. vm_compute. reflexivity. Qed.

(* a create through the child store bx: parent event first, flagged *)
Example child_create_events :
  match run_tx casc_schema 16 st3 (mkTx false [] [OCreate n_bx [66;51] false [(n_name, Some [5]); (n_a, Some A2); (n_code, Some [7])] []] false) with
  | (_, committed, _, evs) => committed = true /\ evs = [ev n_b Created [66;51] true; ev n_bx Created [66;51] false]
  end.
Proof. vm_compute. split; reflexivity. Qed.

(* an update entered through the parent store is carried out by the child store holding the data *)
Example update_routed_to_child :
  update_target casc_schema st3 n_b B2 = n_bx /\ update_target casc_schema st3 n_b B1 = n_b.
Proof. vm_compute. split; reflexivity. Qed.

(* listener filtering on the delivered list of tx4 *)
Definition evs4 : list event := match run_tx casc_schema 16 st3 tx4 with (_, _, _, evs) => evs end.

Example typed_async_delete_listener_on_c :
  delivered_to (mkListener LTyped n_c [EDeletedAsync]) evs4 = [(ev n_c Deleted C1 false, true); (ev n_c Deleted C2 false, true)].
Proof. vm_compute. reflexivity. Qed.

Example id_listener_for_create_gets_nothing :
  delivered_to (mkListener LIdOnly n_c [ECreated]) evs4 = [].
Proof. vm_compute. reflexivity. Qed.

Example constraint_on_b_sees_everything_of_b :
  map fst (delivered_to (mkListener LUntypedConstraint n_b []) evs4) = [ev n_b Deleted B1 true; ev n_b Deleted B2 true].
Proof. vm_compute. reflexivity. Qed.

(* a listener registered for a change type AND its async twin is invoked twice (the adapters loop over
   the registered types) - which is why the harness registers one type per listener *)
Example double_registration_double_delivery :
  length (delivered_to (mkListener LFunction n_a [EDeleted; EDeletedAsync]) evs4) = 2%nat.
Proof. vm_compute. reflexivity. Qed.

(* delivered states: the update event and the later delete event of C1 both carry the updated name *)
Example delivered_states_of_c1 :
  map (fun se => (ev_change (se_ev se), v_fields (se_view se)))
      (filter (fun se => str_eqb (ev_id (se_ev se)) C1) (to_events (run_tx_v casc_schema 16 st3 tx4)))
  = [ (Updated, [(n_name, FStr [9]); (n_b, FStr B1); (n_a, FNil)]);
      (Deleted, [(n_name, FStr [9]); (n_b, FStr B1); (n_a, FNil)]) ].
Proof. vm_compute. reflexivity. Qed.

Example hooks_of_committed_and_rejected :
  (to_commit_actions (run_tx_v casc_schema 16 st3 tx4), to_tx_complete (run_tx_v casc_schema 16 st3 tx4),
   to_commit_actions (run_tx_v casc_schema 16 st3 tx5), to_tx_complete (run_tx_v casc_schema 16 st3 tx5))
  = (1, 1, 0, 0)%nat.
Proof. vm_compute. reflexivity. Qed.

(* a vetoed change: ProcessPreCommit of the parent store refuses the parent event of a child create *)
Example vetoed_parent_event_nothing_delivered :
  match run_tx casc_schema 16 st3 (mkTx false [(n_b, Created, [66;51])]
          [OCreate n_bx [66;51] false [(n_name, Some [5]); (n_a, Some A2); (n_code, Some [7])] []] false) with
  | (rs, committed, _, evs) => rs = [Some EOther] /\ committed = false /\ evs = []
  end.
Proof. vm_compute. repeat split; reflexivity. Qed.

(* ---- the pinned Db.Batch: same glue as Db.Update but the tx-complete listeners are never registered ---- *)
Definition run_tx_v_batch_legacy (sch : schema) (fuel : nat) (st : state) (t : tx) : tx_obs :=
  let o := run_tx_v sch fuel st t in
  mkTxObs (to_results o) (to_committed o) (to_state o) (to_events o) (to_commit_actions o) 0.

Example batch_legacy_refuted :
  let o := run_tx_v_batch_legacy casc_schema 16 st3 tx4 in
  to_committed o = true /\ to_tx_complete o <> (if to_committed o then 1 else 0)%nat.
Proof. vm_compute. split; [reflexivity | discriminate]. Qed.

(* ---- a self-referential tree with cascade delete: outside wf_events_b, inside wf_events0_b ---- *)
Definition n_node : name := [110].
Definition n_up : name := [117;112].
Definition n_kids : name := [107;105;100;115].
Definition tree_schema : schema :=
  [ mkSdef n_node None false [(n_up, true)] [] [CFkIndex n_up n_node n_kids true; CFkCascade n_node n_up CascDelete] [] ].
Definition mk_node (i : id) (up : option str) : op := OCreate n_node i false [(n_up, up)] [].
Definition tree_st : state :=
  run_txs tree_schema 16 st_empty [mkTx false [] [mk_node [1] None; mk_node [2] (Some [1]); mk_node [3] (Some [2]); mk_node [4] (Some [1])] false].

Example tree_schema_wf0 : wf_events0_b tree_schema = true /\ wf_events_b tree_schema [(n_node, 0%nat)] = false.
Proof. vm_compute. split; reflexivity. Qed.

(* deleting the root removes the whole tree; each node is announced (here exactly once) *)
Example tree_cascade_delete :
  match run_tx tree_schema 16 tree_st (mkTx false [] [ODelete n_node [1]] false) with
  | (rs, committed, st', evs) =>
      rs = [None] /\ committed = true /\ ids_of st' n_node = [] /\
      evs = [ev n_node Deleted [3] false; ev n_node Deleted [2] false; ev n_node Deleted [4] false; ev n_node Deleted [1] false]
  end.
Proof. vm_compute. repeat split; reflexivity. Qed.

(* a reference cycle: the machine runs out of fuel (boltz reports the cycle), nothing is delivered *)
Example tree_cycle_nothing_delivered :
  let st := run_txs tree_schema 16 tree_st [mkTx false [] [OUpdate n_node [1] [(n_up, Some [3])] [] None] false] in
  match run_tx tree_schema 16 st (mkTx false [] [ODelete n_node [1]] false) with
  | (rs, committed, _, evs) => committed = false /\ evs = []
  end.
Proof. vm_compute. split; reflexivity. Qed.

Open Scope nat_scope.
(* ---- transaction hooks (Store/TxHooks.v): registrations before the transaction, in the body, in nested joins ---- *)
(* ctx.AddCommitAction(0); ctx.AddPreCommitAction(0) before db.Update(ctx, ...); in the body: commit action 1, a
   pre-commit action 1 that adds commit action 100 when it runs, then db.Update(ctx, {update C1; commit action 2;
   db.Batch(ctx, {delete A1; pre-commit action 2})}), then commit action 3 *)
Definition hooks_ctx0 : mctx := mkMctx [(0, PkOk)] [0].
Definition hooks_prog (pk : pre_kind) (last : op) : list hitem :=
  [ HAddCommit 1; HAddPre 1 (PkAddsCommit 100);
    HNest false [ HOp (up_c C1 [9%N] B1); HAddCommit 2; HNest true [ HOp last; HAddPre 2 pk ] ];
    HAddCommit 3 ].

Example nested_program_commits_hooks_once :
  let o := db_update casc_schema 16 st3 false [] hooks_ctx0 (hooks_prog PkOk (ODelete n_a A1)) in
  ho_committed o = true /\ ho_results o = [None; None] /\
  ho_commit_runs o = [0; 1; 2; 3; 100] /\ ho_pre_runs o = [0; 1; 2] /\ ho_tc o = 1 /\
  ho_events o = to_events (run_tx_v casc_schema 16 st3 tx4) /\ length (ho_events o) = 8 /\
  NoDup (registered_commits hooks_ctx0 (hooks_prog PkOk (ODelete n_a A1))).
Proof.
  vm_compute. repeat split; try reflexivity.
  repeat constructor; cbn; intros H; repeat (destruct H as [H|H]; [discriminate H|]); exact H.
Qed.

Example nested_program_flattened :
  flatten (hooks_prog PkOk (ODelete n_a A1)) =
  [ HAddCommit 1; HAddPre 1 (PkAddsCommit 100); HOp (up_c C1 [9%N] B1); HAddCommit 2; HOp (ODelete n_a A1); HAddPre 2 PkOk;
    HAddCommit 3 ].
Proof. reflexivity. Qed.

(* a failing pre-commit action registered inside the innermost nested call: rollback, nothing runs after it *)
Example nested_failing_precommit_no_hooks :
  let o := db_update casc_schema 16 st3 false [] hooks_ctx0 (hooks_prog PkFail (ODelete n_a A1)) in
  ho_committed o = false /\ ho_results o = [None; None] /\ ho_commit_runs o = [] /\ ho_tc o = 0 /\
  ho_events o = [] /\ ho_pre_runs o = [0; 1; 2].
Proof. vm_compute. repeat split; reflexivity. Qed.

(* a failing operation inside the innermost nested call (no such entity): rollback, no pre-commit action ran *)
Example nested_failing_op_no_hooks :
  let o := db_update casc_schema 16 st3 false [] hooks_ctx0 (hooks_prog PkOk (ODelete n_a [90%N])) in
  ho_committed o = false /\ ho_results o = [None; Some ENotFound] /\ ho_commit_runs o = [] /\ ho_tc o = 0 /\ ho_pre_runs o = [].
Proof. vm_compute. repeat split; reflexivity. Qed.
