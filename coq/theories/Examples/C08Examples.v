From Coq Require Import List NArith Bool.
From Storage Require Import Base.Bytes Store.Model Store.Events.
Import ListNotations.
Example c08_placeholder : et_change ECreatedAsync = Created.
Proof. reflexivity. Qed.
