(* C14 - ast.emptyCursor and ast.filteredCursor (ast/cursors.go), over an arbitrary wrapped
   ast.SetCursor given by its interface [W : scursor St]. *)
From Coq Require Import List NArith Bool Arith.
From Storage Require Import Base.Bytes Cursor.Core.
Import ListNotations.
Open Scope nat_scope.

Definition bind {A B} (r : res A) (f : A -> res B) : res B :=
  match r with Ok a => f a | Panic => Panic | OutOfFuel => OutOfFuel end.
Definition rmap {A B} (f : A -> B) (r : res A) : res B := bind r (fun a => Ok (f a)).

(* emptyCursor: Next() {} ; IsValid() false ; Current() nil ; Seek([]byte) {} *)
Definition empty_cursor : kcursor unit :=
  mkK (fun s => Ok s) (fun _ s => Ok s) (fun _ => false) (fun _ => Ok None).

(* a cursor that may be the emptyCursor instead (hand-outs return it when a bucket is missing) *)
Definition opt_cursor {St} (K : kcursor St) : kcursor (option St) :=
  mkK (fun o => match o with None => Ok None | Some s => rmap Some (k_next K s) end)
      (fun v o => match o with None => Ok None | Some s => rmap Some (k_seek K v s) end)
      (fun o => match o with None => false | Some s => k_valid K s end)
      (fun o => match o with None => Ok None | Some s => k_current K s end).

Section Filtered.
  Variable St : Type.
  Variable W : scursor St.
  Variable filter : str -> bool.
  Variable fuel : nat.                 (* bound for the loop in Next; > number of remaining elements *)

  Inductive fstate := FEmpty | FWrap (s : St).

  (* func (cursor *filteredCursor) Next() {
         for cursor.wrapped.IsValid() {
             cursor.wrapped.Next()
             if cursor.wrapped.IsValid() { if cursor.filter(cursor.wrapped.Current()) { return } }
         } }                                                                                  *)
  Fixpoint f_loop (k : nat) (s : St) : res St :=
    if s_valid W s then
      match k with
      | O => OutOfFuel
      | S k' =>
          bind (s_next W s) (fun s' =>
            if s_valid W s' then
              bind (s_current W s') (fun b => if filter (gb_str b) then Ok s' else f_loop k' s')
            else f_loop k' s')
      end
    else Ok s.

  Definition f_next (fs : fstate) : res fstate :=
    match fs with FEmpty => Ok FEmpty | FWrap s => rmap FWrap (f_loop fuel s) end.
  Definition f_valid (fs : fstate) : bool :=
    match fs with FEmpty => false | FWrap s => s_valid W s end.
  Definition f_current (fs : fstate) : res gobytes :=
    match fs with FEmpty => Ok None | FWrap s => s_current W s end.
  Definition filtered_cursor : scursor fstate := mkS f_next f_valid f_current.

  (* func NewFilteredCursor(cursor SetCursor, filter func(val []byte) bool) SetCursor {
         if cursor == nil || !cursor.IsValid() { return emptyCursor{} }
         result := &filteredCursor{...}
         if !filter(cursor.Current()) { result.Next() }
         return result }                                                                      *)
  Definition f_open (w : option St) : res fstate :=
    match w with
    | None => Ok FEmpty
    | Some s =>
        if s_valid W s then
          bind (s_current W s) (fun b => if filter (gb_str b) then Ok (FWrap s) else f_next (FWrap s))
        else Ok FEmpty
    end.
End Filtered.
Arguments FEmpty {St}.
Arguments FWrap {St} s.
