(* Order facts about Go's bytes.Compare ([str_cmp] of Base/Bytes.v) used by the cursor proofs:
   total, antisymmetric, transitive; strict sortedness of key lists. *)
From Coq Require Import List NArith Bool Arith Lia Sorting.Sorted.
From Storage Require Import Base.Bytes.
Import ListNotations.
Open Scope nat_scope.

Lemma str_cmp_refl : forall a, str_cmp a a = Eq.
Proof.
  induction a as [|x a IH]; simpl; [reflexivity|].
  rewrite N.compare_refl. exact IH.
Qed.

Lemma str_cmp_eq : forall a b, str_cmp a b = Eq -> a = b.
Proof.
  induction a as [|x a IH]; destruct b as [|y b]; simpl; intro H; try discriminate; [reflexivity|].
  destruct (N.compare x y) eqn:E; try discriminate.
  apply N.compare_eq in E. subst y. f_equal. apply IH. exact H.
Qed.

Lemma str_cmp_opp : forall a b, str_cmp b a = CompOpp (str_cmp a b).
Proof.
  induction a as [|x a IH]; destruct b as [|y b]; simpl; try reflexivity.
  rewrite (N.compare_antisym x y).
  destruct (N.compare x y); simpl; try reflexivity. apply IH.
Qed.

Lemma str_cmp_lt_trans : forall a b c, str_cmp a b = Lt -> str_cmp b c = Lt -> str_cmp a c = Lt.
Proof.
  induction a as [|x a IH]; destruct b as [|y b]; destruct c as [|z c]; simpl; intros H1 H2;
    try discriminate; try reflexivity.
  destruct (N.compare x y) eqn:E1; try discriminate.
  - apply N.compare_eq in E1. subst y.
    destruct (N.compare x z) eqn:E2; try discriminate; [|reflexivity].
    eapply IH; eassumption.
  - destruct (N.compare y z) eqn:E2; try discriminate.
    + apply N.compare_eq in E2. subst z. rewrite E1. reflexivity.
    + assert (Hxz : N.compare x z = Lt).
      { apply N.compare_lt_iff. apply N.compare_lt_iff in E1. apply N.compare_lt_iff in E2.
        eapply N.lt_trans; eassumption. }
      rewrite Hxz. reflexivity.
Qed.

Lemma str_eqb_eq : forall a b, str_eqb a b = true <-> a = b.
Proof.
  induction a as [|x a IH]; destruct b as [|y b]; simpl; split; intro H; try discriminate; try reflexivity.
  - apply andb_prop in H. destruct H as [H1 H2]. apply N.eqb_eq in H1. apply IH in H2. subst. reflexivity.
  - inversion H; subst. rewrite N.eqb_refl. simpl. apply IH. reflexivity.
Qed.

Lemma str_eqb_refl : forall a, str_eqb a a = true.
Proof. intro a. apply str_eqb_eq. reflexivity. Qed.

Lemma str_eqb_neq : forall a b, str_eqb a b = false <-> a <> b.
Proof.
  intros a b. split.
  - intros H E. apply str_eqb_eq in E. rewrite E in H. discriminate.
  - intro H. destruct (str_eqb a b) eqn:E; [|reflexivity]. apply str_eqb_eq in E. contradiction.
Qed.

(* derived facts on the boolean orders *)
Lemma str_leb_refl : forall a, str_leb a a = true.
Proof. intro a. unfold str_leb. rewrite str_cmp_refl. reflexivity. Qed.

Lemma str_leb_nil : forall a, str_leb [] a = true.
Proof. destruct a; reflexivity. Qed.

Lemma str_leb_false_ltb : forall v x, str_leb v x = false -> str_ltb x v = true.
Proof.
  intros v x H. unfold str_leb in H. unfold str_ltb. rewrite (str_cmp_opp v x).
  destruct (str_cmp v x); simpl; try discriminate. reflexivity.
Qed.

Lemma str_ltb_leb_false : forall a b, str_ltb a b = true -> str_leb b a = false.
Proof.
  intros a b H. unfold str_ltb in H. unfold str_leb. rewrite (str_cmp_opp a b).
  destruct (str_cmp a b); simpl; try discriminate. reflexivity.
Qed.

Lemma str_ltb_leb : forall a b, str_ltb a b = true -> str_leb a b = true.
Proof.
  intros a b H. unfold str_ltb in H. unfold str_leb. destruct (str_cmp a b); try discriminate; reflexivity.
Qed.

Lemma str_ltb_trans : forall a b c, str_ltb a b = true -> str_ltb b c = true -> str_ltb a c = true.
Proof.
  intros a b c H1 H2. unfold str_ltb in *.
  destruct (str_cmp a b) eqn:E1; try discriminate.
  destruct (str_cmp b c) eqn:E2; try discriminate.
  rewrite (str_cmp_lt_trans a b c E1 E2). reflexivity.
Qed.

Lemma str_ltb_irrefl : forall a, str_ltb a a = false.
Proof. intro a. unfold str_ltb. rewrite str_cmp_refl. reflexivity. Qed.

(* v <= x and x <> v  ->  v < x *)
Lemma str_leb_neq_ltb : forall v x, str_leb v x = true -> x <> v -> str_ltb v x = true.
Proof.
  intros v x H N. unfold str_leb in H. unfold str_ltb.
  destruct (str_cmp v x) eqn:E; try discriminate; [|reflexivity].
  apply str_cmp_eq in E. subst. contradiction.
Qed.

Lemma str_leb_ltb_trans : forall a b c, str_leb a b = true -> str_ltb b c = true -> str_ltb a c = true.
Proof.
  intros a b c H1 H2. unfold str_leb in H1. destruct (str_cmp a b) eqn:E; try discriminate.
  - apply str_cmp_eq in E. subst. exact H2.
  - apply str_ltb_trans with b; [|exact H2]. unfold str_ltb. rewrite E. reflexivity.
Qed.

Lemma str_cmp_cons : forall t a b, str_cmp (t :: a) (t :: b) = str_cmp a b.
Proof. intros. simpl. rewrite N.compare_refl. reflexivity. Qed.

Lemma str_leb_cons : forall t a b, str_leb (t :: a) (t :: b) = str_leb a b.
Proof. intros. unfold str_leb. rewrite str_cmp_cons. reflexivity. Qed.

Lemma str_ltb_cons : forall t a b, str_ltb (t :: a) (t :: b) = str_ltb a b.
Proof. intros. unfold str_ltb. rewrite str_cmp_cons. reflexivity. Qed.

(* ---- strict sortedness -------------------------------------------------------------- *)

(* direction-aware strict order: ascending for forward cursors, descending for reverse *)
Definition before (fw : bool) (a b : str) : Prop :=
  if fw then str_ltb a b = true else str_ltb b a = true.

Definition sorted_dir (fw : bool) (l : list str) : Prop := StronglySorted (before fw) l.
Definition sorted_asc (l : list str) : Prop := sorted_dir true l.

Lemma before_trans : forall fw a b c, before fw a b -> before fw b c -> before fw a c.
Proof.
  intros [] a b c H1 H2; unfold before in *.
  - eapply str_ltb_trans; eassumption.
  - eapply str_ltb_trans; eassumption.
Qed.

Lemma before_irrefl : forall fw a, ~ before fw a a.
Proof. intros [] a H; unfold before in H; rewrite str_ltb_irrefl in H; discriminate. Qed.

Lemma sorted_dir_tail : forall fw x l, sorted_dir fw (x :: l) -> sorted_dir fw l.
Proof. intros fw x l H. inversion H; assumption. Qed.

Lemma sorted_dir_head : forall fw x l, sorted_dir fw (x :: l) -> Forall (before fw x) l.
Proof. intros fw x l H. inversion H; assumption. Qed.

Lemma sorted_dir_app : forall fw l1 l2,
  sorted_dir fw l1 -> sorted_dir fw l2 ->
  (forall a b, In a l1 -> In b l2 -> before fw a b) -> sorted_dir fw (l1 ++ l2).
Proof.
  induction l1 as [|x l1 IH]; simpl; intros l2 H1 H2 H; [exact H2|].
  constructor.
  - apply IH; [eapply sorted_dir_tail; eassumption | exact H2 | intros; apply H; auto].
  - apply Forall_app. split; [eapply sorted_dir_head; eassumption|].
    apply Forall_forall. intros b Hb. apply H; auto.
Qed.

Lemma sorted_dir_app_inv : forall fw l1 l2, sorted_dir fw (l1 ++ l2) ->
  sorted_dir fw l1 /\ sorted_dir fw l2 /\ (forall a b, In a l1 -> In b l2 -> before fw a b).
Proof.
  induction l1 as [|x l1 IH]; simpl; intros l2 H.
  - split; [constructor|]. split; [exact H|]. intros a b [].
  - inversion H as [|? ? Hs Hf]; subst. destruct (IH _ Hs) as [I1 [I2 I3]].
    apply Forall_app in Hf. destruct Hf as [Hf1 Hf2].
    split; [constructor; assumption|]. split; [exact I2|].
    intros a b [Ha|Ha] Hb; [subst; eapply Forall_forall in Hf2; eassumption | apply I3; assumption].
Qed.

(* reversing an ascending list gives a descending one *)
Lemma sorted_dir_rev : forall fw l, sorted_dir fw l -> sorted_dir (negb fw) (rev l).
Proof.
  induction l as [|x l IH]; simpl; intro H; [constructor|].
  apply sorted_dir_app.
  - apply IH. eapply sorted_dir_tail; eassumption.
  - constructor; constructor.
  - intros a b Ha [Hb|[]]. subst b. apply in_rev in Ha.
    pose proof (sorted_dir_head _ _ _ H) as Hf. eapply Forall_forall in Hf; [|eassumption].
    destruct fw; exact Hf.
Qed.

Lemma sorted_dir_map_cons : forall fw t l, sorted_dir fw l -> sorted_dir fw (map (cons t) l).
Proof.
  induction l as [|x l IH]; simpl; intro H; [constructor|].
  constructor; [apply IH; eapply sorted_dir_tail; eassumption|].
  apply Forall_forall. intros y Hy. apply in_map_iff in Hy. destruct Hy as [z [Hz Hin]]. subst y.
  pose proof (sorted_dir_head _ _ _ H) as Hf. eapply Forall_forall in Hf; [|eassumption].
  destruct fw; unfold before in *; rewrite str_ltb_cons; exact Hf.
Qed.

(* a strictly sorted list has no duplicates *)
Lemma sorted_dir_NoDup : forall fw l, sorted_dir fw l -> NoDup l.
Proof.
  induction l as [|x l IH]; intro H; constructor.
  - intro Hin. pose proof (sorted_dir_head _ _ _ H) as Hf. eapply Forall_forall in Hf; [|eassumption].
    eapply before_irrefl; eassumption.
  - apply IH. eapply sorted_dir_tail; eassumption.
Qed.

(* two strictly sorted lists with the same elements are equal: "the" sorted enumeration of a set *)
Lemma sorted_dir_unique : forall fw l1 l2, sorted_dir fw l1 -> sorted_dir fw l2 ->
  (forall x, In x l1 <-> In x l2) -> l1 = l2.
Proof.
  induction l1 as [|x l1 IH]; intros l2 H1 H2 Hin.
  - destruct l2 as [|y l2]; [reflexivity|]. exfalso. apply (proj2 (Hin y)). left; reflexivity.
  - destruct l2 as [|y l2]; [exfalso; apply (proj1 (Hin x)); left; reflexivity|].
    pose proof (sorted_dir_head _ _ _ H1) as F1. pose proof (sorted_dir_head _ _ _ H2) as F2.
    assert (x = y).
    { destruct (proj1 (Hin x) (or_introl eq_refl)) as [E|Hx]; [auto|].
      destruct (proj2 (Hin y) (or_introl eq_refl)) as [E|Hy]; [auto|].
      eapply Forall_forall in F1; [|exact Hy]. eapply Forall_forall in F2; [|exact Hx].
      exfalso. eapply before_irrefl. eapply before_trans; eassumption. }
    subst y. f_equal. apply IH; [eapply sorted_dir_tail; eassumption | eapply sorted_dir_tail; eassumption|].
    intro z. split; intro Hz.
    + destruct (proj1 (Hin z) (or_intror Hz)) as [E|Hz']; [|exact Hz'].
      subst z. exfalso. eapply Forall_forall in F1; [|exact Hz]. eapply before_irrefl; eassumption.
    + destruct (proj2 (Hin z) (or_intror Hz)) as [E|Hz']; [|exact Hz'].
      subst z. exfalso. eapply Forall_forall in F2; [|exact Hz]. eapply before_irrefl; eassumption.
Qed.
