(* The statements of Properties/C14.v, proved from the per-kind lemmas. *)
From Coq Require Import List NArith Bool Arith Lia Sorting.Sorted.
From Storage Require Import Base.Bytes Cursor.StrOrder Cursor.Core Cursor.CoreProofs Cursor.BoltCursor
  Cursor.BoltCursorProofs Cursor.Typed Cursor.TypedProofs Cursor.Filtered Cursor.FilteredProofs
  Cursor.Union Cursor.UnionProofs Cursor.Tree Cursor.TreeProofs Cursor.SetSym Cursor.SetSymProofs
  Cursor.Cases Cursor.CasesProofs Cursor.Scanner Cursor.ScannerProofs.
Import ListNotations.
Open Scope nat_scope.

(* ---- shape of the enumeration trace ------------------------------------------------------------------ *)

Lemma enum_trace_long_lemma : forall L n, length L <= n ->
  enum_trace L n = map OCur L ++ repeat OInvalid (S n - length L).
Proof.
  intros L n H. unfold enum_trace. rewrite firstn_app_repeat by (rewrite map_length; lia).
  rewrite map_length. rewrite firstn_all2 by (rewrite map_length; lia). reflexivity.
Qed.

Lemma in_firstn : forall (A : Type) (x : A) n l, In x (firstn n l) -> In x l.
Proof.
  intros A x. induction n as [|n IH]; intros l H; [contradiction|].
  destruct l as [|y l]; [contradiction|]. simpl in H. destruct H as [H|H]; [left; exact H | right; apply IH; exact H].
Qed.

Lemma enum_trace_no_panic_lemma : forall L n, Forall (fun o => o <> OPanic /\ o <> OFuel) (enum_trace L n).
Proof.
  intros L n. unfold enum_trace. apply Forall_forall. intros o H. apply in_firstn in H.
  apply in_app_iff in H. destruct H as [H|H].
  - apply in_map_iff in H. destruct H as [x [E _]]. subst. split; discriminate.
  - apply repeat_spec in H. subst. split; discriminate.
Qed.

Lemma enum_trace_nil_lemma : forall n, enum_trace [] n = repeat OInvalid (S n).
Proof. intro n. unfold enum_trace. change (map OCur [] ++ repeat OInvalid (S n)) with (repeat OInvalid (S n)). apply (firstn_repeat OInvalid (S n) (S n)). lia. Qed.

(* ---- seekable kinds: the three statements at once ------------------------------------------------------ *)

Lemma seekable_of_rspec : forall run fw l,
  (forall ops, run ops = rspec_run (dir_leb fw) (dir_list fw l) ops) -> seekable_props run fw l.
Proof. intros run fw l H. unfold seekable_props, spec_ops, seek_target. apply props_of_rspec. exact H. Qed.

Lemma bolt_props : forall keys fw, sorted_asc keys -> seekable_props (bolt_run keys fw) fw keys.
Proof. intros keys fw Hs. apply seekable_of_rspec. intro ops. apply bolt_run_spec. exact Hs. Qed.

Lemma typed_props : forall fw tag l, sorted_asc l -> seekable_props (typed_run fw tag l) fw l.
Proof. intros fw tag l Hs. apply seekable_of_rspec. intro ops. apply typed_run_spec. exact Hs. Qed.

Lemma setsym_props : forall tag b, seekable_props (setsym_run tag b) true (bucket_elems b).
Proof. intros tag b. apply seekable_of_rspec. intro ops. apply setsym_run_spec. Qed.

Lemma handout_props : forall fw tag b, sorted_asc (bucket_elems b) ->
  seekable_props (handout_run fw tag b) fw (bucket_elems b).
Proof. intros fw tag b Hs. apply seekable_of_rspec. intro ops. apply handout_run_spec. exact Hs. Qed.

Lemma rawhand_props : forall fw b, sorted_asc (bucket_elems b) ->
  seekable_props (rawhand_run fw b) fw (bucket_elems b).
Proof. intros fw b Hs. apply seekable_of_rspec. intro ops. apply rawhand_run_spec. exact Hs. Qed.

Lemma empty_props : forall fw, seekable_props empty_run fw [].
Proof.
  intro fw. apply seekable_of_rspec. intro ops. rewrite dir_list_nil. apply empty_run_spec.
Qed.

(* ---- Next-only kinds ---------------------------------------------------------------------------------- *)

Lemma nextonly_of_rspec : forall run L,
  (forall leb n, run n = rspec_run leb L (repeat CNext n)) -> nextonly_props run L.
Proof.
  intros run L H. split.
  - intros leb n. rewrite (H leb). symmetry. apply spec_run_rspec.
  - intro n. rewrite (H fwd_leb). apply rspec_run_next_only.
Qed.

(* any filtered cursor over any cursor that enumerates L *)
Lemma filtered_props : forall St (W : scursor St) R f fuel s0 L,
  sim W R -> R s0 L -> length L <= fuel ->
  nextonly_props (srun (filtered_cursor St W f fuel) (f_open St W f fuel (Some s0))) (filter f L).
Proof.
  intros St W R f fuel s0 L HW HR Hl. apply nextonly_of_rspec. intros leb n.
  eapply filtered_run_spec; eassumption.
Qed.

(* any union cursor over any two cursors that enumerate L1, L2 and never return nil while valid *)
Lemma union_props : forall S1 S2 (W1 : scursor S1) (W2 : scursor S2) fw R1 R2 s1 s2 L1 L2,
  sim W1 R1 -> sim W2 R2 -> nonnil W1 R1 -> nonnil W2 R2 -> R1 s1 L1 -> R2 s2 L2 ->
  nextonly_props (srun (union_cursor S1 S2 W1 W2 fw) (u_open S1 S2 W1 W2 fw s1 s2)) (merge fw L1 L2).
Proof.
  intros S1 S2 W1 W2 fw R1 R2 s1 s2 L1 L2 A B C D E F. apply nextonly_of_rspec. intros leb n.
  eapply union_run_spec; eassumption.
Qed.

Lemma union_merge_lemma : forall fw L1 L2, sorted_dir fw L1 -> sorted_dir fw L2 ->
  sorted_dir fw (merge fw L1 L2) /\ NoDup (merge fw L1 L2) /\
  (forall z, In z (merge fw L1 L2) <-> In z L1 \/ In z L2).
Proof.
  intros fw L1 L2 H1 H2. pose proof (merge_sorted fw L1 L2 H1 H2) as S.
  split; [exact S|]. split; [eapply sorted_dir_NoDup; exact S|]. intro z. apply merge_in.
Qed.

Lemma tree_props : forall t, nextonly_props (tree_run t) (map gb_str (inorder t)).
Proof. intro t. apply nextonly_of_rspec. intros leb n. apply tree_run_spec. Qed.

Lemma is_bst_sorted_lemma : forall fw t, is_bst fw t -> sorted_dir fw (map gb_str (inorder t)).
Proof.
  intros fw. induction t as [|l IHl x r IHr]; intro H; [constructor|].
  destruct H as [Hl [Hr [Bl Br]]]. fold (tkeys (Node l x r)). rewrite tkeys_node.
  apply sorted_dir_app; [apply IHl; exact Hl | |].
  - constructor; [apply IHr; exact Hr|]. apply Forall_forall. exact Br.
  - intros a b Ha [Hb|Hb]; [subst; apply Bl; exact Ha|].
    eapply before_trans; [apply Bl; exact Ha | apply Br; exact Hb].
Qed.

Lemma treeset_props : forall fw adds, nextonly_props (treeset_run fw adds) (dir_list fw (sort_dedup adds)).
Proof. intros fw adds. apply nextonly_of_rspec. intros leb n. apply treeset_run_spec. Qed.

Lemma sort_dedup_lemma : forall l, sorted_asc (sort_dedup l) /\ NoDup (sort_dedup l) /\ (forall z, In z (sort_dedup l) <-> In z l).
Proof.
  intro l. split; [apply sort_dedup_sorted|]. split; [eapply sorted_dir_NoDup; apply sort_dedup_sorted|].
  intro z. apply sort_dedup_in.
Qed.

Lemma allof_props : forall tag fuel ix rows values fw, index_sorted ix ->
  (forall v, length (bucket_elems (lookup ix v)) <= fuel) ->
  nextonly_props (allof_run tag fuel ix rows values fw) (allof_list ix rows values fw).
Proof.
  intros tag fuel ix rows values fw Hix Hf. apply nextonly_of_rspec. intros leb n.
  apply allof_run_spec; assumption.
Qed.

Lemma anyof_props : forall tag ix values fw, index_sorted ix ->
  nextonly_props (anyof_run tag ix values fw) (dir_list fw (anyof_list ix values)).
Proof.
  intros tag ix values fw Hix. apply nextonly_of_rspec. intros leb n. apply anyof_run_spec. exact Hix.
Qed.

Lemma filtered_typed_props : forall fw tag fuel a accept, sorted_asc a -> length a <= fuel ->
  nextonly_props (filtered_typed_run fw tag fuel a accept) (dir_list fw (filter (fun x => mem x accept) a)).
Proof.
  intros fw tag fuel a accept Hs Hl. apply nextonly_of_rspec. intros leb n.
  apply filtered_typed_run_spec; assumption.
Qed.

Lemma union_typed_props : forall fw tag a b, sorted_asc a -> sorted_asc b ->
  nextonly_props (union_typed_run fw tag a b) (dir_list fw (sort_dedup (a ++ b))).
Proof.
  intros fw tag a b Ha Hb. apply nextonly_of_rspec. intros leb n. apply union_typed_run_spec; assumption.
Qed.

Lemma union_tree_props : forall fw a b,
  nextonly_props (union_tree_run fw a b) (dir_list fw (sort_dedup (a ++ b))).
Proof. intros fw a b. apply nextonly_of_rspec. intros leb n. apply union_tree_run_spec. Qed.

Lemma union_filtered_props : forall fw tag fuel a b, sorted_asc a -> sorted_asc b -> length a <= fuel ->
  nextonly_props (union_filtered_run fw tag fuel a b) (dir_list fw b).
Proof.
  intros fw tag fuel a b Ha Hb Hl. apply nextonly_of_rspec. intros leb n.
  apply union_filtered_run_spec; assumption.
Qed.

Lemma filtered_nil_props : nextonly_props filtered_nil_run [].
Proof. apply nextonly_of_rspec. intros leb n. apply filtered_nil_run_spec. Qed.

(* ---- the drain loop  for c.IsValid() { collect c.Current(); c.Next() } ------------------------------------ *)

Lemma typed_drain_lemma : forall fw tag l fuel, sorted_asc l -> length l < fuel ->
  drain_init (plain (typed_cursor fw tag (tagged tag l))) fuel (typed_open fw (tagged tag l)) = Ok (dir_list fw l).
Proof.
  intros fw tag l fuel Hs Hl. destruct (typed_open_R tag l Hs fw) as [s0 [Ho HR]]. rewrite Ho. simpl.
  eapply drain_sim; [apply (ks_sim _ _ _ _ (typed_ksim tag l Hs fw)) | exact HR |].
  rewrite dir_list_length. exact Hl.
Qed.

Lemma tree_drain_lemma : forall t fuel, length (inorder t) < fuel ->
  drain_init tree_cursor fuel (t_open t) = Ok (map gb_str (inorder t)).
Proof.
  intros t fuel Hl. destruct (tree_open_R t) as [c [E HR]]. rewrite E. simpl.
  eapply drain_sim; [exact tree_sim | exact HR |]. rewrite map_length. exact Hl.
Qed.

(* ---- Seek targets mean what the property says ---------------------------------------------------------------- *)

Lemma seek_target_meaning_lemma : forall l v, sorted_asc l ->
  (forall x, seek_target true l v = Some x ->
     In x l /\ str_leb v x = true /\ forall y, In y l -> str_leb v y = true -> str_leb x y = true) /\
  (seek_target true l v = None -> forall y, In y l -> str_leb v y = false) /\
  (forall x, seek_target false l v = Some x ->
     In x l /\ str_leb x v = true /\ forall y, In y l -> str_leb y v = true -> str_leb y x = true) /\
  (seek_target false l v = None -> forall y, In y l -> str_leb y v = false).
Proof.
  intros l v Hs. split; [|split; [|split]].
  - intros x H. apply seek_target_fwd_some; assumption.
  - intros H y Hy. apply (seek_target_none true l v H y Hy).
  - intros x H. apply seek_target_rev_some; assumption.
  - intros H y Hy. apply (seek_target_none false l v H y Hy).
Qed.

(* ---- the raw Seek of the runtime set symbol -------------------------------------------------------------------- *)

Lemma setsym_raw_seek_lemma : forall tag keys v s,
  ss_seek_raw keys (prepend_field_type tag v) s = k_seek (setsym_cursor tag keys) v s.
Proof. reflexivity. Qed.

(* ---- scanners layered over cursors (Cursor/Scanner.v) ---------------------------------------------------- *)

Lemma lookahead_scanner_lemma : forall St (W : kcursor St) R fw L present matches fuel w0,
  ksim W (dir_leb fw) L R -> nonnil (plain W) R -> sorted_dir fw L -> length L <= fuel -> R w0 L ->
  forall ops,
  krun (scanner_cursor St W present matches fuel 0 None) (sc_open St W present matches fuel 0 None w0) ops =
  spec_run (dir_leb fw) (filter (accept_of present matches) L) ops.
Proof.
  intros St W R fw L present matches fuel w0 HK HN Hs Hl HR ops.
  rewrite spec_run_rspec. apply scanner_run_spec with (R := R); try assumption.
  intro v. apply sorted_closed_up. exact Hs.
Qed.

Lemma ids_props : forall present matches fuel ids,
  sorted_asc (bucket_elems ids) -> length (bucket_elems ids) <= fuel ->
  seekable_props (ids_run present matches fuel 0 None ids) true (filter (accept_of present matches) (bucket_elems ids)).
Proof. intros present matches fuel ids Hs Hl. apply seekable_of_rspec. intro ops. apply ids_run_spec; assumption. Qed.

Lemma valid_ids_props : forall present matches ext fuel ids,
  sorted_asc (bucket_elems ids) -> length (bucket_elems ids) <= fuel ->
  seekable_props (valid_ids_run present matches ext fuel ids) true
                 (filter ext (filter (accept_of present matches) (bucket_elems ids))).
Proof. intros present matches ext fuel ids Hs Hl. apply seekable_of_rspec. intro ops. apply valid_ids_run_spec; assumption. Qed.

Lemma ids_paged_props : forall present matches fuel off lim ids, length (bucket_elems ids) <= fuel ->
  nextonly_props (fun n => ids_run present matches fuel off lim ids (repeat CNext n))
                 (page off lim (filter (accept_of present matches) (bucket_elems ids))).
Proof.
  intros present matches fuel off lim ids Hl. apply nextonly_of_rspec. intros leb n.
  apply ids_paged_run_spec. exact Hl.
Qed.
