(* C14 - typed bolt cursors (boltz/query_bolt_cursors.go TypedForwardBoltCursor /
   TypedReverseBoltCursor) over a list bucket whose keys are  type-tag byte :: element.

   [get_type_and_value] is boltz.GetTypeAndValue as it exists (typed_bucket.go): a one-byte key
   (the encoding of the empty-string element) yields a NIL value.  The pinned cursors used it
   to strip the tag, and nil means "exhausted" ([..._legacy] below, refuted in Examples).
   The repaired cursors strip with [strip_field_type] (key[1:], nil only for a nil key) and
   the reverse Seek strips the tag on an exact hit as well. *)
From Coq Require Import List NArith Bool Arith.
From Storage Require Import Base.Bytes Cursor.Core Cursor.BoltCursor.
Import ListNotations.
Open Scope nat_scope.

(* func GetTypeAndValue(bytes []byte) (FieldType, []byte): value part *)
Definition get_type_and_value (b : gobytes) : gobytes :=
  match b with
  | None => None
  | Some [] => None               (* len(bytes) == 0 *)
  | Some [_] => None              (* len(bytes) == 1: return fieldType, nil *)
  | Some (_ :: r) => Some r       (* bytes[1:] *)
  end.

(* repaired helper of the cursors:  if len(key) == 0 { return nil }; return key[1:]  *)
Definition strip_field_type (b : gobytes) : gobytes :=
  match b with
  | None => None
  | Some [] => None
  | Some (_ :: r) => Some r
  end.

(* func PrependFieldType(fieldType FieldType, value []byte) []byte *)
Definition prepend_field_type (t : byte) (v : str) : str := t :: v.

Section Typed.
  Variable strip : gobytes -> gobytes.
  Variable tag : byte.
  Variable keys : list str.         (* the raw keys of the bucket *)

  Definition strip_of (p : nat * gobytes) : bc := mkBc (fst p) (strip (snd p)).

  (* NewTypedForwardBoltCursor: key, _ := cursor.First(); _, result.key = strip(key) *)
  Definition tf_open : res bc := Ok (strip_of (b_first keys)).
  Definition tf_next (s : bc) : res bc := Ok (strip_of (b_next keys (bc_idx s))).
  (* Seek: searchVal := PrependFieldType(f.fieldType, val); key, _ := f.cursor.Seek(searchVal); strip *)
  Definition tf_seek (v : str) (s : bc) : res bc := Ok (strip_of (b_seek keys (prepend_field_type tag v))).
  Definition tf_cursor : kcursor bc := mkK tf_next tf_seek bc_valid bc_current.

  (* NewTypedReverseBoltCursor: key, _ := cursor.Last() *)
  Definition tr_open : res bc := Ok (strip_of (b_last keys)).
  (* Next: key, _ := f.cursor.Prev() *)
  Definition tr_next (s : bc) : res bc := Ok (strip_of (b_prev keys (bc_idx s))).
  (* repaired Seek:
       searchVal := PrependFieldType(f.fieldType, val)
       key, _ := f.cursor.Seek(searchVal)
       if bytes.Equal(searchVal, key) { f.key = key[1:] } else { f.Next() }
     key[1:] of an empty key would be a slice-bounds panic; it is only evaluated on an exact hit *)
  Definition slice_from_1 (i : nat) (k : gobytes) : res bc :=
    match k with Some (_ :: r) => Ok (mkBc i (Some r)) | _ => Panic end.
  Definition tr_seek (v : str) (s : bc) : res bc :=
    let sv := prepend_field_type tag v in
    let p := b_seek keys sv in
    if gb_equal (Some sv) (snd p) then slice_from_1 (fst p) (snd p) else tr_next (mkBc (fst p) (snd p)).
  Definition tr_cursor : kcursor bc := mkK tr_next tr_seek bc_valid bc_current.

  (* pinned Seek:  f.key, _ = f.cursor.Seek(searchVal); if !bytes.Equal(searchVal, f.key) { f.Next() }
     - on an exact hit the key keeps its type tag *)
  Definition tr_seek_legacy (v : str) (s : bc) : res bc :=
    let sv := prepend_field_type tag v in
    let p := b_seek keys sv in
    if gb_equal (Some sv) (snd p) then Ok (mkBc (fst p) (snd p)) else tr_next (mkBc (fst p) (snd p)).
  Definition tr_cursor_legacy : kcursor bc := mkK tr_next tr_seek_legacy bc_valid bc_current.
End Typed.

(* the bucket of a set of elements *)
Definition tagged (tag : byte) (l : list str) : list str := map (cons tag) l.

(* repaired cursors *)
Definition typed_cursor (fw : bool) (tag : byte) (keys : list str) : kcursor bc :=
  if fw then tf_cursor strip_field_type tag keys else tr_cursor strip_field_type tag keys.
Definition typed_open (fw : bool) (keys : list str) : res bc :=
  if fw then tf_open strip_field_type keys else tr_open strip_field_type keys.
Definition typed_run (fw : bool) (tag : byte) (l : list str) (ops : list cop) : list obs :=
  krun (typed_cursor fw tag (tagged tag l)) (typed_open fw (tagged tag l)) ops.

(* pinned cursors (GetTypeAndValue + tagged exact hit) *)
Definition typed_cursor_legacy (fw : bool) (tag : byte) (keys : list str) : kcursor bc :=
  if fw then tf_cursor get_type_and_value tag keys else tr_cursor_legacy get_type_and_value tag keys.
Definition typed_open_legacy (fw : bool) (keys : list str) : res bc :=
  if fw then tf_open get_type_and_value keys else tr_open get_type_and_value keys.
Definition typed_run_legacy (fw : bool) (tag : byte) (l : list str) (ops : list cop) : list obs :=
  krun (typed_cursor_legacy fw tag (tagged tag l)) (typed_open_legacy fw (tagged tag l)) ops.
