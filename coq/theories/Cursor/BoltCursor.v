(* C14 - abstract bbolt cursor and the two raw adapters of boltz/query_bolt_cursors.go.

   [bolt]: a bbolt bucket is its ascending, duplicate-free key list [keys]; a *bbolt.Cursor is
   an index [idx] into it.  idx = length keys is "past the end" (DESIGN.md writes this state as
   (idx, off); the off flag is idx = length keys here).  Behaviour of bbolt 1.4.0, re-validated
   against the real library by the harness on random operation sequences (case kind B):
     First        idx := 0, returns keys[0] or nil (empty bucket)
     Last         idx := len-1, returns keys[len-1] or nil (empty bucket)
     Seek v       idx := index of the first key >= v (len if none), returns keys[idx] or nil
     Next         if idx+1 < len then idx++ and return keys[idx], else return nil and leave idx
                  (so at the last key Next yields nil, stays on the last key, a following Prev
                  yields the second-to-last key; after a Seek miss idx = len and Prev yields the last key)
     Prev         if idx > 0 then idx-- and return keys[idx], else return nil and leave idx = 0
                  (a following Next yields the second key)
   Keys are never empty in bbolt; values are ignored by every adapter. *)
From Coq Require Import List NArith Bool Arith.
From Storage Require Import Base.Bytes Cursor.Core.
Import ListNotations.
Open Scope nat_scope.

Section Bolt.
  Variable keys : list str.

  Definition kv (i : nat) : gobytes := nth_error keys i.

  (* index of the first key >= v *)
  Fixpoint lb (v : str) (l : list str) : nat :=
    match l with [] => 0 | x :: r => if str_leb v x then 0 else S (lb v r) end.

  Definition b_first : nat * gobytes := (0, kv 0).
  Definition b_last : nat * gobytes := (length keys - 1, kv (length keys - 1)).
  Definition b_seek (v : str) : nat * gobytes := let i := lb v keys in (i, kv i).
  Definition b_next (i : nat) : nat * gobytes :=
    if Nat.ltb (S i) (length keys) then (S i, kv (S i)) else (i, None).
  Definition b_prev (i : nat) : nat * gobytes :=
    match i with O => (O, None) | S j => (j, kv j) end.

  (* operations of the validation cases (harness kind B) *)
  Inductive bop := BFirst | BLast | BNext | BPrev | BSeek (v : str).
  Definition b_apply (i : nat) (o : bop) : nat * gobytes :=
    match o with
    | BFirst => b_first | BLast => b_last | BNext => b_next i | BPrev => b_prev i | BSeek v => b_seek v
    end.
  Fixpoint b_run (i : nat) (ops : list bop) : list gobytes :=
    match ops with [] => [] | o :: r => let (j, k) := b_apply i o in k :: b_run j r end.

  (* BaseBoltCursor { cursor *bbolt.Cursor; key []byte } *)
  Record bc := mkBc { bc_idx : nat; bc_key : gobytes }.
  Definition bc_of (p : nat * gobytes) : bc := mkBc (fst p) (snd p).

  (* func (f *BaseBoltCursor) IsValid() bool { return f.key != nil } ; Current() = f.key *)
  Definition bc_valid (s : bc) : bool := negb (gb_is_nil (bc_key s)).
  Definition bc_current (s : bc) : res gobytes := Ok (bc_key s).

  (* NewForwardBoltCursor: result.key, _ = result.cursor.First() *)
  Definition fwd_open : res bc := Ok (bc_of b_first).
  (* Next: f.key, _ = f.cursor.Next() *)
  Definition fwd_next (s : bc) : res bc := Ok (bc_of (b_next (bc_idx s))).
  (* Seek: f.key, _ = f.cursor.Seek(val) *)
  Definition fwd_seek (v : str) (s : bc) : res bc := Ok (bc_of (b_seek v)).
  Definition fwd_cursor : kcursor bc := mkK fwd_next fwd_seek bc_valid bc_current.

  (* NewReverseBoltCursor: result.key, _ = result.cursor.Last() *)
  Definition rev_open : res bc := Ok (bc_of b_last).
  (* Next: f.key, _ = f.cursor.Prev() *)
  Definition rev_next (s : bc) : res bc := Ok (bc_of (b_prev (bc_idx s))).
  (* Seek: f.key, _ = f.cursor.Seek(val); if !bytes.Equal(val, f.key) { f.key, _ = f.cursor.Prev() } *)
  Definition rev_seek (v : str) (s : bc) : res bc :=
    let p := b_seek v in
    if gb_equal (Some v) (snd p) then Ok (bc_of p) else Ok (bc_of (b_prev (fst p))).
  Definition rev_cursor : kcursor bc := mkK rev_next rev_seek bc_valid bc_current.

  (* NewBoltCursor(cursor, forward) *)
  Definition bolt_run (fw : bool) (ops : list cop) : list obs :=
    if fw then krun fwd_cursor fwd_open ops else krun rev_cursor rev_open ops.
End Bolt.
