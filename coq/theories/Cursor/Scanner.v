(* C14 - the seekable cursors that are SCANNERS layered over a set cursor (no proofs in this file):

     boltz/query_scanners.go   uniqueIndexScanner (newFilteredCursor, newCursorScanner, ScanCursor)
     boltz/store_query.go      BaseStore.IterateIds, IterateValidIds, ValidIdsCursors, QueryWithCursorC

   uniqueIndexScanner used as a cursor reads ONE ELEMENT AHEAD: [current] holds the element the client
   sees while the wrapped cursor already stands on the element after it (or is exhausted).  So the
   validity of the wrapped cursor says nothing about the validity of the scanner: on the last accepted
   element, and on a one-element set right after the constructor, the wrapped cursor is invalid and the
   scanner is valid.

   Go side                                              model
   -------                                              -----
   scanner.cursor (ast.SetCursor / SeekableSetCursor)   [W : kcursor St], state [sc_w]
   scanner.current []byte                               [sc_cur : gobytes]
   scanner.offset / collected  int64                    [sc_offset] / [sc_collected : nat]
   scanner.targetOffset                                 [target_offset : nat]
   scanner.targetLimit                                  [target_limit : option nat]; [None] = math.MaxInt64,
                                                        the value setPaging / newFilteredCursor store when the
                                                        filter carries no limit.  [collected] grows by at most one
                                                        per cursor operation, so that bound is not reachable; the
                                                        comparison  collected >= MaxInt64  is modelled as false.
   store.IsChildStore() && !IsEntityPresent(id)
        && !store.IsExtended()                          [negb (present id)]
   rowCursor.NextRow(id); filter.EvalBool(rowCursor)    [matches id]  (the filter on the row, see Cursor/Reuse.v for
                                                        what evaluating a set filter does to the cached symbol)   *)
From Coq Require Import List NArith Bool Arith.
From Storage Require Import Base.Bytes Cursor.Core Cursor.Filtered Cursor.BoltCursor.
Import ListNotations.
Open Scope nat_scope.

Section Scanner.
  Variable St : Type.
  Variable W : kcursor St.
  Variable present : str -> bool.
  Variable matches : str -> bool.
  Variable fuel : nat.                       (* bound of the loop in Next; >= number of elements of the wrapped set *)
  Variable target_offset : nat.
  Variable target_limit : option nat.

  Record scst := mkSc { sc_w : St; sc_cur : gobytes; sc_offset : nat; sc_collected : nat }.

  (* scanner.collected >= scanner.targetLimit *)
  Definition limit_reached (c : nat) : bool :=
    match target_limit with None => false | Some n => Nat.leb n c end.

  (* func (scanner *uniqueIndexScanner) Next() {
         cursor := scanner.cursor
         for {
             if !cursor.IsValid() { scanner.current = nil; return }
             if scanner.collected >= scanner.targetLimit { scanner.current = nil; return }
             scanner.current = cursor.Current()
             cursor.Next()
             if scanner.current == nil { continue }
             if scanner.store.IsChildStore() && !scanner.store.IsEntityPresent(..) && !scanner.store.IsExtended() { continue }
             rowCursor.NextRow(scanner.current)
             match := scanner.filter.EvalBool(rowCursor)
             if match {
                 if scanner.offset < scanner.targetOffset { scanner.offset++ } else { scanner.collected++; return }
             } } }                                                                                              *)
  Fixpoint sc_loop (k : nat) (s : scst) : res scst :=
    if negb (k_valid W (sc_w s)) then Ok (mkSc (sc_w s) None (sc_offset s) (sc_collected s))
    else if limit_reached (sc_collected s) then Ok (mkSc (sc_w s) None (sc_offset s) (sc_collected s))
    else
      match k with
      | O => OutOfFuel
      | S k' =>
          bind (k_current W (sc_w s)) (fun b =>
          bind (k_next W (sc_w s)) (fun w' =>
            let s1 := mkSc w' b (sc_offset s) (sc_collected s) in
            match b with
            | None => sc_loop k' s1
            | Some x =>
                if negb (present x) then sc_loop k' s1
                else if matches x then
                  if Nat.ltb (sc_offset s) target_offset
                  then sc_loop k' (mkSc w' b (S (sc_offset s)) (sc_collected s))
                  else Ok (mkSc w' b (sc_offset s) (S (sc_collected s)))
                else sc_loop k' s1
            end))
      end.

  Definition sc_next (s : scst) : res scst := sc_loop fuel s.

  (* func (scanner *uniqueIndexScanner) Seek(val []byte) {
         cursor := scanner.cursor
         if seekableCursor, ok := cursor.(ast.SeekableSetCursor); ok { seekableCursor.Seek(val); scanner.Next() }
         else { for scanner.IsValid() && string(scanner.current) < string(val) { scanner.Next() } } }
     [W] is a seekable cursor: the first branch.  NOTHING is asked of the wrapped cursor's validity:
     the wrapped cursor is exhausted whenever the scanner stands on its last element. *)
  Definition sc_seek (v : str) (s : scst) : res scst :=
    bind (k_seek W v (sc_w s)) (fun w' => sc_next (mkSc w' (sc_cur s) (sc_offset s) (sc_collected s))).

  (* IsValid() = scanner.current != nil ; Current() = scanner.current *)
  Definition sc_valid (s : scst) : bool := negb (gb_is_nil (sc_cur s)).
  Definition sc_current (s : scst) : res gobytes := Ok (sc_cur s).
  Definition scanner_cursor : kcursor scst := mkK sc_next sc_seek sc_valid sc_current.

  (* newFilteredCursor / newCursorScanner: result := &uniqueIndexScanner{cursor: cursor, ..}; result.Next() *)
  Definition sc_open (w0 : St) : res scst := sc_next (mkSc w0 None 0 0).

  (* ---- the scanner used as a scanner: ScanCursor (Store.QueryWithCursorC, Scan) ------------------------

     func (scanner *uniqueIndexScanner) nextUnpaged() {
         for {
             if !cursor.IsValid() { scanner.current = nil; return }
             scanner.current = cursor.Current()
             cursor.Next()
             if scanner.store.IsChildStore() && !IsEntityPresent(string(scanner.current)) && !IsExtended() { continue }
             rowCursor.NextRow(scanner.current)
             if scanner.filter.EvalBool(rowCursor) { return } } }                                            *)
  Fixpoint sc_loop_unpaged (k : nat) (w : St) : res (St * gobytes) :=
    if negb (k_valid W w) then Ok (w, None)
    else
      match k with
      | O => OutOfFuel
      | S k' =>
          bind (k_current W w) (fun b =>
          bind (k_next W w) (fun w' =>
            if negb (present (gb_str b)) then sc_loop_unpaged k' w'
            else if matches (gb_str b) then Ok (w', b) else sc_loop_unpaged k' w'))
      end.

  (*  scanner.nextUnpaged()
      for scanner.IsValid() {
          id := scanner.Current()
          if scanner.offset < scanner.targetOffset { scanner.offset++ }
          else { if scanner.collected < scanner.targetLimit { result = append(result, string(id)); scanner.collected++ } }
          scanner.count++
          scanner.nextUnpaged() }
      return result, scanner.count, nil                                                                       *)
  Fixpoint scan_loop (k : nat) (w : St) (cur : gobytes) (off coll cnt : nat) (acc : list str)
    : res (list str * nat) :=
    match cur with
    | None => Ok (rev acc, cnt)
    | Some id =>
        match k with
        | O => OutOfFuel
        | S k' =>
            let '(off', coll', acc') :=
              if Nat.ltb off target_offset then (S off, coll, acc)
              else if negb (limit_reached coll) then (off, S coll, id :: acc) else (off, coll, acc) in
            bind (sc_loop_unpaged fuel w) (fun p => scan_loop k' (fst p) (snd p) off' coll' (S cnt) acc')
        end
    end.

  Definition scan_cursor (w0 : St) : res (list str * nat) :=
    bind (sc_loop_unpaged fuel w0) (fun p => scan_loop (S fuel) (fst p) (snd p) 0 0 0 []).
End Scanner.
Arguments mkSc {St}.
Arguments sc_w {St}. Arguments sc_cur {St}. Arguments sc_offset {St}. Arguments sc_collected {St}.

(* ---- ValidIdsCursors: the second layer IterateValidIds puts on an extended store ------------------------- *)

Section ValidIds.
  Variable St : Type.
  Variable V : kcursor St.                   (* cursor.wrapped (the cursor IterateIds returned) *)
  Variable ext_present : str -> bool.        (* nil != store.GetEntityBucket(tx, wrapped.Current()) *)
  Variable fuel : nat.

  (* for cursor.IsValid() && !cursor.IsExtendedDataPresent() { cursor.wrapped.Next() } *)
  Fixpoint vi_skip (k : nat) (w : St) : res St :=
    if k_valid V w then
      bind (k_current V w) (fun b =>
        if ext_present (gb_str b) then Ok w
        else match k with O => OutOfFuel | S k' => bind (k_next V w) (vi_skip k') end)
    else Ok w.

  (* Next: cursor.wrapped.Next(); loop      Seek: cursor.wrapped.Seek(bytes); loop *)
  Definition vi_next (w : St) : res St := bind (k_next V w) (vi_skip fuel).
  Definition vi_seek (v : str) (w : St) : res St := bind (k_seek V v w) (vi_skip fuel).
  Definition valid_ids_cursor : kcursor St := mkK vi_next vi_seek (k_valid V) (k_current V).

  (* IterateValidIds: if validIdsCursor.IsValid() && !validIdsCursor.IsExtendedDataPresent() { validIdsCursor.Next() } *)
  Definition vi_open (w : St) : res St :=
    if k_valid V w then
      bind (k_current V w) (fun b => if ext_present (gb_str b) then Ok w else vi_next w)
    else Ok w.
End ValidIds.

(* ---- the hand-outs as the harness runs them ----------------------------------------------------------------

   [ids]     the keys of the entities bucket (ascending; for a child store: of the PARENT's entities bucket),
             [None] when the bucket does not exist (IterateIds returns ast.EmptyCursor)
   [present] the child store's own check, [matches] the filter, [ext] IsExtendedDataPresent
   [paging]  (targetOffset, targetLimit) when the filter is an ast.Query with skip / limit                  *)
Definition accept_of (present matches : str -> bool) (x : str) : bool := present x && matches x.

(* Store.IterateIds(tx, filter): newFilteredCursor(tx, store, entitiesBucket.OpenSeekableCursor(), filter) *)
Definition ids_cursor (present matches : str -> bool) (fuel off : nat) (lim : option nat) (l : list str)
  : kcursor (scst bc) := scanner_cursor bc (fwd_cursor l) present matches fuel off lim.
Definition ids_open (present matches : str -> bool) (fuel off : nat) (lim : option nat) (l : list str)
  : res (scst bc) := bind (fwd_open l) (sc_open bc (fwd_cursor l) present matches fuel off lim).

Definition ids_run (present matches : str -> bool) (fuel off : nat) (lim : option nat)
  (ids : option (list str)) (ops : list cop) : list obs :=
  match ids with
  | None => krun empty_cursor (Ok tt) ops
  | Some l => krun (ids_cursor present matches fuel off lim l) (ids_open present matches fuel off lim l) ops
  end.

(* Store.IterateValidIds(tx, filter) of an extended store: ValidIdsCursors over IterateIds.  (Of any other store
   it IS IterateIds.)  When the entities bucket is missing the wrapped cursor is the emptyCursor. *)
Definition valid_ids_run (present matches ext : str -> bool) (fuel : nat)
  (ids : option (list str)) (ops : list cop) : list obs :=
  match ids with
  | None => krun (valid_ids_cursor unit empty_cursor ext fuel) (vi_open unit empty_cursor ext fuel tt) ops
  | Some l =>
      let V := ids_cursor present matches fuel 0 None l in
      krun (valid_ids_cursor _ V ext fuel) (bind (ids_open present matches fuel 0 None l) (vi_open _ V ext fuel)) ops
  end.

(* Store.QueryWithCursorC(tx, provider, query) with the unique-index scanner (no sort field, or sort by id):
   ScanCursor over whatever cursor the provider hands out; here over the raw bolt cursor in the direction of the
   scanner (entityBucket.OpenCursor, setIndex.OpenKeyCursor ..), which is also what Scan / QueryIds use *)
Definition scan_bolt_run (present matches : str -> bool) (fuel off : nat) (lim : option nat)
  (fw : bool) (l : list str) : res (list str * nat) :=
  if fw then bind (fwd_open l) (scan_cursor bc (fwd_cursor l) present matches fuel off lim)
  else bind (rev_open l) (scan_cursor bc (rev_cursor l) present matches fuel off lim).

(* the page of an enumeration *)
Definition lim_take (lim : option nat) (l : list str) : list str :=
  match lim with None => l | Some n => firstn n l end.
Definition page (off : nat) (lim : option nat) (l : list str) : list str := lim_take lim (skipn off l).

(* ---- the seeded shape: Seek gives up when the WRAPPED cursor is exhausted ---------------------------------
   "if !cursor.IsValid() { return }" at the top of Seek.  Refuted in Examples/C14Scanner.v. *)
Section Guarded.
  Variable St : Type.
  Variable W : kcursor St.
  Variable present matches : str -> bool.
  Variable fuel : nat.
  Definition sc_seek_guarded (v : str) (s : scst St) : res (scst St) :=
    if negb (k_valid W (sc_w s)) then Ok s else sc_seek St W present matches fuel 0 None v s.
  Definition scanner_cursor_guarded : kcursor (scst St) :=
    mkK (sc_next St W present matches fuel 0 None) sc_seek_guarded (sc_valid St) (sc_current St).
End Guarded.
Definition ids_run_guarded (matches : str -> bool) (fuel : nat) (l : list str) (ops : list cop) : list obs :=
  krun (scanner_cursor_guarded bc (fwd_cursor l) (fun _ => true) matches fuel)
       (ids_open (fun _ => true) matches fuel 0 None l) ops.
