(* C14 - where cursors are handed out:
   boltz/query_symbols.go entitySetSymbolRuntime; boltz/indexes.go setIndex.OpenValueCursor /
   OpenKeyCursor / Read; boltz/store_crud.go GetRelatedEntitiesCursor, IteratorMatchingAllOf /
   IteratorMatchingAnyOf; boltz/typed_bucket.go IterateStringList(InDirection), OpenTypedCursor,
   OpenCursor, OpenSeekableCursor; link collections' IterateLinks.
   A bucket that may be missing is an [option (list str)] (its ascending element list). *)
From Coq Require Import List NArith Bool Arith.
From Storage Require Import Base.Bytes Cursor.Core Cursor.BoltCursor Cursor.Typed Cursor.Filtered
  Cursor.Union Cursor.Tree.
Import ListNotations.
Open Scope nat_scope.

Definition bucket_elems (b : option (list str)) : list str := match b with Some l => l | None => [] end.

(* ---- entitySetSymbolRuntime { cursor *bbolt.Cursor; value []byte } ------------------------- *)
Section SetSym.
  Variable tag : byte.
  Variable keys : list str.          (* raw keys of the list bucket ([] when there is none) *)

  Record ss := mkSs { ss_has : bool; ss_idx : nat; ss_value : gobytes }.

  (* OpenCursor: symbol.cursor = symbol.openBoltCursor(tx, rowId);
                 if symbol.cursor != nil { symbol.value, _ = symbol.cursor.First() } else { symbol.value = nil } *)
  Definition ss_open (present : bool) : res ss :=
    if present then Ok (mkSs true (fst (b_first keys)) (snd (b_first keys))) else Ok (mkSs false 0 None).
  (* Next: if symbol.cursor != nil { symbol.value, _ = symbol.cursor.Next() } *)
  Definition ss_next (s : ss) : res ss :=
    if ss_has s then let p := b_next keys (ss_idx s) in Ok (mkSs true (fst p) (snd p)) else Ok s.
  (* Seek(val): if symbol.cursor != nil { symbol.value, _ = symbol.cursor.Seek(val) }  (val = stored key) *)
  Definition ss_seek_raw (v : str) (s : ss) : res ss :=
    if ss_has s then let p := b_seek keys v in Ok (mkSs true (fst p) (snd p)) else Ok s.
  (* SeekToString(val): seekVal := PrependFieldType(TypeString, []byte(val)); ...Seek(seekVal) *)
  Definition ss_seek_string (v : str) (s : ss) : res ss := ss_seek_raw (prepend_field_type tag v) s.
  (* IsValid: symbol.value != nil ; Current: _, value := GetTypeAndValue(symbol.value) *)
  Definition ss_valid (s : ss) : bool := negb (gb_is_nil (ss_value s)).
  Definition ss_current (s : ss) : res gobytes := Ok (get_type_and_value (ss_value s)).
  Definition setsym_cursor : kcursor ss := mkK ss_next ss_seek_string ss_valid ss_current.
End SetSym.

Definition setsym_run (tag : byte) (b : option (list str)) (ops : list cop) : list obs :=
  let keys := tagged tag (bucket_elems b) in
  krun (setsym_cursor tag keys) (ss_open keys (match b with Some _ => true | None => false end)) ops.

(* ---- typed hand-outs ------------------------------------------------------------------------
   setIndex.OpenValueCursor(tx, key, forward), BaseStore.GetRelatedEntitiesCursor(tx, id, field, forward),
   TypedBucket.OpenTypedCursor / IterateStringList / IterateStringListInDirection,
   linkCollectionImpl.IterateLinks, rcLinkCollectionImpl.IterateLinks:
   the emptyCursor when the bucket (entity, field) does not exist, else the typed cursor in the direction *)
Definition handout_cursor (fw : bool) (tag : byte) (b : option (list str)) : kcursor (option bc) :=
  opt_cursor (typed_cursor fw tag (tagged tag (bucket_elems b))).
Definition handout_open (fw : bool) (tag : byte) (b : option (list str)) : res (option bc) :=
  match b with
  | None => Ok None
  | Some l => rmap Some (typed_open fw (tagged tag l))
  end.
Definition handout_run (fw : bool) (tag : byte) (b : option (list str)) (ops : list cop) : list obs :=
  krun (handout_cursor fw tag b) (handout_open fw tag b) ops.

(* the same hand-outs over the pinned typed cursors *)
Definition handout_run_legacy (fw : bool) (tag : byte) (b : option (list str)) (ops : list cop) : list obs :=
  krun (opt_cursor (typed_cursor_legacy fw tag (tagged tag (bucket_elems b))))
       (match b with None => Ok None | Some l => rmap Some (typed_open_legacy fw (tagged tag l)) end) ops.

(* setIndex.OpenKeyCursor / TypedBucket.OpenCursor: NewBoltCursor over the bucket, or the emptyCursor *)
Definition rawhand_cursor (fw : bool) (b : option (list str)) : kcursor (option bc) :=
  opt_cursor (if fw then fwd_cursor (bucket_elems b) else rev_cursor (bucket_elems b)).
Definition rawhand_open (fw : bool) (b : option (list str)) : res (option bc) :=
  match b with
  | None => Ok None
  | Some l => rmap Some (if fw then fwd_open l else rev_open l)
  end.
Definition rawhand_run (fw : bool) (b : option (list str)) (ops : list cop) : list obs :=
  krun (rawhand_cursor fw b) (rawhand_open fw b) ops.

Definition empty_run (ops : list cop) : list obs := krun empty_cursor (Ok tt) ops.

(* ---- IteratorMatchingAllOf / IteratorMatchingAnyOf -------------------------------------------- *)

(* the set index: value -> ascending ids carrying it (no entry = no bucket);
   the symbol: id -> its string list (entitySetSymbolImpl.EvalStringList) *)
Definition assoc := list (str * list str).
Fixpoint lookup (m : assoc) (k : str) : option (list str) :=
  match m with [] => None | (k', v) :: r => if str_eqb k k' then Some v else lookup r k end.

(* stringz.ContainsAll(have, want...) *)
Definition contains_all (have want : list str) : bool :=
  forallb (fun w => existsb (str_eqb w) have) want.

Definition allof_filter (rows : assoc) (rest : list str) (id : str) : bool :=
  contains_all (bucket_elems (lookup rows id)) rest.

Definition allof_run (tag : byte) (fuel : nat) (ix rows : assoc) (values : list str) (fw : bool) (n : nat) : list obs :=
  match values with
  | [] => srun (plain empty_cursor) (Ok tt) n                                   (* ast.OpenEmptyCursor *)
  | [v] => srun (plain (handout_cursor fw tag (lookup ix v))) (handout_open fw tag (lookup ix v)) n
  | v :: rest =>
      let W := plain (handout_cursor fw tag (lookup ix v)) in
      srun (filtered_cursor _ W (allof_filter rows rest) fuel)
           (bind (handout_open fw tag (lookup ix v)) (fun s => f_open _ W (allof_filter rows rest) fuel (Some s))) n
  end.

(* setIndex.Read(tx, key, f): for val := cursor.First(); val != nil; val = cursor.Next() { _, value := GetTypeAndValue(val); f(value) } *)
Definition index_read (tag : byte) (ix : assoc) (v : str) : list gobytes :=
  map (fun id => get_type_and_value (Some (tag :: id))) (bucket_elems (lookup ix v)).

Definition anyof_tree (tag : byte) (ix : assoc) (values : list str) (fw : bool) : tree :=
  treeset_of fw (flat_map (index_read tag ix) values).

Definition anyof_run (tag : byte) (ix : assoc) (values : list str) (fw : bool) (n : nat) : list obs :=
  match values with
  | [] => srun (plain empty_cursor) (Ok tt) n
  | [v] => srun (plain (handout_cursor fw tag (lookup ix v))) (handout_open fw tag (lookup ix v)) n
  | _ => tree_run (anyof_tree tag ix values fw) n
  end.
Definition anyof_run_legacy (tag : byte) (ix : assoc) (values : list str) (fw : bool) (n : nat) : list obs :=
  match values with
  | [] => srun (plain empty_cursor) (Ok tt) n
  | [v] => srun (plain (handout_cursor fw tag (lookup ix v))) (handout_open fw tag (lookup ix v)) n
  | _ => tree_run_legacy (anyof_tree tag ix values fw) n
  end.
