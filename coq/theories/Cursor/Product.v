(* C14 - SEVERAL cursors alive at once (no proofs in this file).

   Every theorem of Properties/C14.v up to here speaks about ONE cursor driven by one program.  Clients hold several:
   a merge join over the role sets of two entities, a cursor for a second row opened before the first is drained, an
   index value cursor next to the cursor over the set it indexes.  The property is a statement about every one of
   them, so the product needs its own statement: a family of cursors (of any kinds, over buckets nobody modifies), each
   with its own Next/Seek program, the programs interleaved in ANY order - every cursor shows, at every moment, what
   it would show had it run alone.

   In the model this is true for a structural reason: a cursor is a VALUE (its state is threaded through its own
   operations and nobody else's).  That is exactly what the Go code has to refine: two hand-outs must not share the
   position (`entitySetSymbolImpl.GetRuntimeSymbol` returns a fresh `entitySetSymbolRuntime` per call because that
   object IS the cursor; `TreeSet.ToCursor`, `OpenValueCursor` .. allocate per call).  The correspondence harness
   (c14_multi.go, M lines) runs the real cursors in the product and compares with [prod_views]. *)
From Coq Require Import List NArith Bool Arith.
From Storage Require Import Base.Bytes Cursor.StrOrder Cursor.Core Cursor.BoltCursor Cursor.Typed Cursor.Filtered
  Cursor.Union Cursor.Tree Cursor.SetSym Cursor.Cases Cursor.Scanner.
Import ListNotations.
Open Scope nat_scope.

(* a cursor of any family, seen from outside: a state, how an operation changes it, what it shows, and the result of
   its constructor *)
Record machine := mkM {
  m_St : Type;
  m_step : m_St -> cop -> res m_St;
  m_obs : m_St -> obs;
  m_init : res m_St }.

Definition res_obs (M : machine) (r : res (m_St M)) : obs :=
  match r with Ok s => m_obs M s | Panic => OPanic | OutOfFuel => OFuel end.
(* a cursor that panicked stays dead *)
Definition res_step (M : machine) (r : res (m_St M)) (o : cop) : res (m_St M) :=
  match r with Ok s => m_step M s o | Panic => Panic | OutOfFuel => OutOfFuel end.

(* the cursor running ALONE: observation after the constructor and after every operation (= krun / srun) *)
Fixpoint solo_from (M : machine) (r : res (m_St M)) (ops : list cop) : list obs :=
  match ops with
  | [] => []
  | o :: rest => let r' := res_step M r o in res_obs M r' :: solo_from M r' rest
  end.
Definition solo (M : machine) (ops : list cop) : list obs := res_obs M (m_init M) :: solo_from M (m_init M) ops.

Definition of_k {St} (K : kcursor St) (init : res St) : machine := mkM St (kstep K) (observe (plain K)) init.
(* cursors without Seek: their programs are Next-only (a Seek is no operation of theirs) *)
Definition of_s {St} (C : scursor St) (init : res St) : machine :=
  mkM St (fun s o => match o with CNext => s_next C s | CSeek _ => Ok s end) (observe C) init.

(* ---- the product ------------------------------------------------------------------------------------------------ *)

(* one member of the family: not opened yet ([None]) or the state its own operations led to; the rest of its program *)
Record slot := mkSlot { sl_M : machine; sl_cur : option (res (m_St sl_M)); sl_pending : list cop }.
Definition start (p : machine * list cop) : slot := mkSlot (fst p) None (snd p).

(* a turn of this member: the constructor first, then the next operation of its program; nothing once it is through *)
Definition slot_step (s : slot) : slot :=
  match sl_cur s with
  | None => mkSlot (sl_M s) (Some (m_init (sl_M s))) (sl_pending s)
  | Some r =>
      match sl_pending s with
      | [] => s
      | o :: rest => mkSlot (sl_M s) (Some (res_step (sl_M s) r o)) rest
      end
  end.
Definition slot_view (s : slot) : option obs := option_map (res_obs (sl_M s)) (sl_cur s).

Fixpoint upd {A} (f : A -> A) (j : nat) (l : list A) : list A :=
  match l, j with
  | [], _ => []
  | x :: r, O => f x :: r
  | x :: r, S k => x :: upd f k r
  end.

(* the schedule names whose turn it is; after every turn the client looks at ALL cursors *)
Fixpoint prod_views (slots : list slot) (sched : list nat) : list (list (option obs)) :=
  match sched with
  | [] => []
  | j :: rest => let s' := upd slot_step j slots in map slot_view s' :: prod_views s' rest
  end.

(* ---- what the product has to show: every member reads its own solo trace at its own pace ------------------------------- *)

(* after n turns of its own a cursor shows: nothing (not opened), then entry n-1 of its solo trace, the last entry
   once its program is through *)
Definition trace_view (t : list obs) (n : nat) : option obs :=
  match n with O => None | S k => nth_error t (Nat.min k (length t - 1)) end.
Definition tc := (list obs * nat)%type.
Definition tc_step (x : tc) : tc := (fst x, S (snd x)).
Definition tc_view (x : tc) : option obs := trace_view (fst x) (snd x).
Fixpoint trace_views (tcs : list tc) (sched : list nat) : list (list (option obs)) :=
  match sched with
  | [] => []
  | j :: rest => let t' := upd tc_step j tcs in map tc_view t' :: trace_views t' rest
  end.
Definition solo_views (traces : list (list obs)) (sched : list nat) : list (list (option obs)) :=
  trace_views (map (fun t => (t, O)) traces) sched.

(* ---- the families the harness puts into one transaction -------------------------------------------------------------- *)

Inductive cdesc :=
| DSetsym (b : option (list str))                       (* runtime set symbol: GetSymbol(..).OpenCursor / GetRuntimeSymbol().OpenCursor *)
| DHandout (fw : bool) (b : option (list str))          (* typed hand-outs: OpenTypedCursor, IterateStringList.., related, links, index value *)
| DRawhand (fw : bool) (b : option (list str))          (* raw hand-outs: TypedBucket.OpenCursor / OpenSeekableCursor, index key *)
| DBolt (fw : bool) (keys : list str)                   (* NewBoltCursor *)
| DTyped (fw : bool) (l : list str)                     (* NewTypedForward/ReverseBoltCursor *)
| DIds (fuel : nat) (ids : option (list str))           (* IterateIds(tx, true): the look-ahead scanner *)
| DTree (fw : bool) (adds : list str)                   (* TreeSet.ToCursor *)
| DUnion (fw : bool) (a b : list str)                   (* NewUnionSetCursor over two typed cursors *)
| DFiltered (fw : bool) (fuel : nat) (a accept : list str). (* NewFilteredCursor over a typed cursor *)

Definition yes (_ : str) : bool := true.

Definition desc_machine (tag : byte) (d : cdesc) : machine :=
  match d with
  | DSetsym b =>
      let keys := tagged tag (bucket_elems b) in
      of_k (setsym_cursor tag keys) (ss_open keys (match b with Some _ => true | None => false end))
  | DHandout fw b => of_k (handout_cursor fw tag b) (handout_open fw tag b)
  | DRawhand fw b => of_k (rawhand_cursor fw b) (rawhand_open fw b)
  | DBolt fw keys => if fw then of_k (fwd_cursor keys) (fwd_open keys) else of_k (rev_cursor keys) (rev_open keys)
  | DTyped fw l => of_k (typed_cursor fw tag (tagged tag l)) (typed_open fw (tagged tag l))
  | DIds fuel ids =>
      match ids with
      | None => of_k empty_cursor (Ok tt)
      | Some l => of_k (ids_cursor yes yes fuel 0 None l) (ids_open yes yes fuel 0 None l)
      end
  | DTree fw adds => of_s tree_cursor (t_open (treeset_of fw (map Some adds)))
  | DUnion fw a b =>
      let W1 := plain (typed_cursor fw tag (tagged tag a)) in
      let W2 := plain (typed_cursor fw tag (tagged tag b)) in
      of_s (union_cursor _ _ W1 W2 fw)
           (bind (typed_open fw (tagged tag a)) (fun s1 =>
            bind (typed_open fw (tagged tag b)) (fun s2 => u_open _ _ W1 W2 fw s1 s2)))
  | DFiltered fw fuel a accept =>
      let W := plain (typed_cursor fw tag (tagged tag a)) in
      of_s (filtered_cursor _ W (fun x => mem x accept) fuel)
           (bind (typed_open fw (tagged tag a)) (fun s => f_open _ W (fun x => mem x accept) fuel (Some s)))
  end.

(* direction and (ascending) set of the cursor *)
Definition desc_fw (d : cdesc) : bool :=
  match d with
  | DSetsym _ | DIds _ _ => true
  | DHandout fw _ | DRawhand fw _ | DBolt fw _ | DTyped fw _ | DTree fw _ | DUnion fw _ _ | DFiltered fw _ _ _ => fw
  end.
Definition desc_set (d : cdesc) : list str :=
  match d with
  | DSetsym b | DHandout _ b | DRawhand _ b | DIds _ b => bucket_elems b
  | DBolt _ l | DTyped _ l => l
  | DTree _ adds => sort_dedup adds
  | DUnion _ a b => sort_dedup (a ++ b)
  | DFiltered _ _ a accept => filter (fun x => mem x accept) a
  end.

Definition next_only (ops : list cop) : Prop := ops = repeat CNext (length ops).

(* side conditions under which the single-cursor theorems speak: buckets are sorted (bbolt), loops have fuel,
   cursors without Seek are driven with Next only *)
Definition desc_ok (d : cdesc) (ops : list cop) : Prop :=
  match d with
  | DSetsym _ => True
  | DHandout _ b | DRawhand _ b => sorted_asc (bucket_elems b)
  | DBolt _ l | DTyped _ l => sorted_asc l
  | DIds fuel ids => sorted_asc (bucket_elems ids) /\ length (bucket_elems ids) <= fuel
  | DTree _ _ => next_only ops
  | DUnion _ a b => sorted_asc a /\ sorted_asc b /\ next_only ops
  | DFiltered _ fuel a _ => sorted_asc a /\ length a <= fuel /\ next_only ops
  end.

(* what the driver runs: the family in one transaction under a schedule *)
Definition multi_run (tag : byte) (progs : list (cdesc * list cop)) (sched : list nat) : list (list (option obs)) :=
  prod_views (map (fun p => start (desc_machine tag (fst p), snd p)) progs) sched.
(* .. and what the property demands: every cursor the position machine over its own set, read at its own pace *)
Definition multi_spec (progs : list (cdesc * list cop)) (sched : list nat) : list (list (option obs)) :=
  solo_views (map (fun p => spec_ops (desc_fw (fst p)) (desc_set (fst p)) (snd p)) progs) sched.

(* the seeded shape: ONE runtime object behind every hand-out of a set symbol (GetRuntimeSymbol memoised).  All
   members share the bolt cursor and the current key; each OpenCursor re-points it at its own row's bucket.  Rows
   are given by their key lists; [sh_keys] is the bucket the shared cursor stands in. *)
Record shared := mkShared { sh_keys : list str; sh_state : ss }.
Definition shared_turn (tag : byte) (rows : list (option (list str))) (opened : list bool) (pend : list (list cop))
  (sh : option shared) (j : nat) : option shared * list bool * list (list cop) :=
  match nth_error opened j, nth_error rows j with
  | Some false, Some b =>
      let keys := tagged tag (bucket_elems b) in
      let st := match ss_open keys (match b with Some _ => true | None => false end) with Ok s => s | _ => mkSs false 0 None end in
      (Some (mkShared keys st), upd (fun _ => true) j opened, pend)
  | Some true, _ =>
      match nth_error pend j, sh with
      | Some (o :: rest), Some x =>
          let st := match kstep (setsym_cursor tag (sh_keys x)) (sh_state x) o with Ok s => s | _ => sh_state x end in
          (Some (mkShared (sh_keys x) st), opened, upd (fun _ => rest) j pend)
      | _, _ => (sh, opened, pend)
      end
  | _, _ => (sh, opened, pend)
  end.
Fixpoint shared_views (tag : byte) (rows : list (option (list str))) (opened : list bool) (pend : list (list cop))
  (sh : option shared) (sched : list nat) : list (list (option obs)) :=
  match sched with
  | [] => []
  | j :: rest =>
      let '(sh', opened', pend') := shared_turn tag rows opened pend sh j in
      map (fun o : bool => if o then option_map (fun x => observe (plain (setsym_cursor tag (sh_keys x))) (sh_state x)) sh' else None) opened'
        :: shared_views tag rows opened' pend' sh' rest
  end.
Definition multi_run_shared (tag : byte) (progs : list (option (list str) * list cop)) (sched : list nat) :=
  shared_views tag (map fst progs) (map (fun _ => false) progs) (map snd progs) None sched.
