(* A look-ahead scanner (uniqueIndexScanner) over a cursor that enumerates L is the cursor over
   [filter accept L] - for every interleaving of Next and Seek - and, with paging, enumerates the page;
   ValidIdsCursors over a seekable cursor is the cursor over the filtered list; ScanCursor returns the page
   and the number of matches. *)
From Coq Require Import List NArith Bool Arith Lia Sorting.Sorted.
From Storage Require Import Base.Bytes Cursor.StrOrder Cursor.Core Cursor.CoreProofs Cursor.BoltCursor
  Cursor.BoltCursorProofs Cursor.Filtered Cursor.FilteredProofs Cursor.SetSym Cursor.SetSymProofs
  Cursor.Cases Cursor.CasesProofs Cursor.Scanner.
Import ListNotations.
Open Scope nat_scope.

(* ---- Seek and filtering commute on an ordered enumeration ------------------------------------------------ *)

(* once an element is at or after the seek target, every later element is *)
Fixpoint closed_up (p : str -> bool) (l : list str) : Prop :=
  match l with
  | [] => True
  | x :: r => (p x = true -> Forall (fun y => p y = true) r) /\ closed_up p r
  end.

Lemma forall_filter : forall (p f : str -> bool) l,
  Forall (fun y => p y = true) l -> Forall (fun y => p y = true) (filter f l).
Proof.
  intros p f l H. apply Forall_forall. intros x Hx. apply filter_In in Hx.
  eapply Forall_forall in H; [exact H | tauto].
Qed.

Lemma drop_until_filter : forall leb (f : str -> bool) v l, closed_up (leb v) l ->
  filter f (drop_until leb v l) = drop_until leb v (filter f l).
Proof.
  intros leb f v. induction l as [|x r IH]; intro H; [reflexivity|].
  destruct H as [Hx Hr]. simpl drop_until at 1. destruct (leb v x) eqn:E.
  - simpl. destruct (f x).
    + simpl. rewrite E. reflexivity.
    + symmetry. apply drop_until_all. apply forall_filter. apply Hx. reflexivity.
  - rewrite (IH Hr). simpl. destruct (f x); [simpl; rewrite E|]; reflexivity.
Qed.

Lemma str_ltb_leb_trans : forall a b c, str_ltb a b = true -> str_leb b c = true -> str_leb a c = true.
Proof.
  intros a b c H1 H2. destruct (str_eqb c b) eqn:E.
  - apply str_eqb_eq in E. subst. apply str_ltb_leb. exact H1.
  - apply str_eqb_neq in E. apply str_ltb_leb. eapply str_ltb_trans; [exact H1|].
    apply str_leb_neq_ltb; assumption.
Qed.

Lemma sorted_closed_up : forall fw v l, sorted_dir fw l -> closed_up (dir_leb fw v) l.
Proof.
  intros fw v. induction l as [|x r IH]; intro Hs; [exact I|].
  split; [|apply IH; eapply sorted_dir_tail; exact Hs].
  intro Hx. pose proof (sorted_dir_head _ _ _ Hs) as Hh.
  apply Forall_forall. intros y Hy. eapply Forall_forall in Hh; [|exact Hy].
  destruct fw; simpl in *.
  - unfold fwd_leb in *. apply str_ltb_leb. eapply str_leb_ltb_trans; [exact Hx | exact Hh].
  - unfold rev_leb in *. eapply str_ltb_leb_trans; [exact Hh | exact Hx].
Qed.

Lemma closed_up_filter : forall p (f : str -> bool) l, closed_up p l -> closed_up p (filter f l).
Proof.
  intros p f. induction l as [|x r IH]; intro H; [exact I|]. destruct H as [Hx Hr]. simpl.
  destruct (f x); [|apply IH; exact Hr]. split; [|apply IH; exact Hr].
  intro E. apply forall_filter. apply Hx. exact E.
Qed.

Lemma drop_until_length : forall leb v (l : list str), length (drop_until leb v l) <= length l.
Proof. intros leb v. induction l as [|x r IH]; simpl; [lia|]. destruct (leb v x); simpl; lia. Qed.

Lemma filter_len_le : forall (f : str -> bool) l, length (filter f l) <= length l.
Proof. intros f. induction l as [|x r IH]; simpl; [lia|]. destruct (f x); simpl; lia. Qed.

Lemma firstn_nil' : forall n, firstn n (@nil str) = [].
Proof. destruct n; reflexivity. Qed.
Lemma skipn_nil' : forall n, skipn n (@nil str) = [].
Proof. destruct n; reflexivity. Qed.

(* ---- uniqueIndexScanner ------------------------------------------------------------------------------- *)

Section ScannerProofs.
  Variable St : Type.
  Variable W : kcursor St.
  Variable present matches : str -> bool.
  Variable fuel toff : nat.
  Variable lim : option nat.
  Variable R : St -> list str -> Prop.
  Hypothesis HW : sim (plain W) R.
  Hypothesis HN : nonnil (plain W) R.

  Let acc := accept_of present matches.

  (* what is left of the limit after c elements were handed out *)
  Definition lim_left (c : nat) : option nat := match lim with None => None | Some n => Some (n - c) end.
  (* what a scanner with counters (o, c) still delivers when the matches ahead of it are M *)
  Definition gen_deliver (o c : nat) (M : list str) : list str := lim_take (lim_left c) (skipn (toff - o) M).
  Definition deliver (o c : nat) (rem : list str) : list str := gen_deliver o c (filter acc rem).

  Lemma gen_deliver_nil : forall o c, gen_deliver o c [] = [].
  Proof. intros o c. unfold gen_deliver, lim_take. rewrite skipn_nil'. destruct (lim_left c); [apply firstn_nil'|reflexivity]. Qed.

  Lemma gen_deliver_offset : forall o c y M, o < toff -> gen_deliver o c (y :: M) = gen_deliver (S o) c M.
  Proof. intros o c y M H. unfold gen_deliver. replace (toff - o) with (S (toff - S o)) by lia. reflexivity. Qed.

  Lemma gen_deliver_take : forall c y M, limit_reached lim c = false ->
    gen_deliver toff c (y :: M) = y :: gen_deliver toff (S c) M.
  Proof.
    intros c y M H. unfold gen_deliver. rewrite Nat.sub_diag. simpl skipn.
    unfold limit_reached in H. unfold lim_left, lim_take. destruct lim as [n|]; [|reflexivity].
    apply Nat.leb_gt in H. replace (n - c) with (S (n - S c)) by lia. reflexivity.
  Qed.

  Lemma gen_deliver_limit : forall o c M, limit_reached lim c = true -> gen_deliver o c M = [].
  Proof.
    intros o c M H. unfold gen_deliver. unfold limit_reached in H. unfold lim_left, lim_take.
    destruct lim as [n|]; [|discriminate]. apply Nat.leb_le in H. replace (n - c) with 0 by lia. reflexivity.
  Qed.

  Lemma deliver_skip : forall o c y r, acc y = false -> deliver o c (y :: r) = deliver o c r.
  Proof. intros o c y r H. unfold deliver. simpl. rewrite H. reflexivity. Qed.

  Lemma deliver_acc : forall o c y r, acc y = true -> deliver o c (y :: r) = gen_deliver o c (y :: filter acc r).
  Proof. intros o c y r H. unfold deliver. simpl. rewrite H. reflexivity. Qed.

  Notation LOOP := (sc_loop St W present matches toff lim).

  Lemma sc_loop_spec : forall k s rem, R (sc_w s) rem -> length rem <= k -> sc_offset s <= toff ->
    exists s' rem2, LOOP k s = Ok s' /\ R (sc_w s') rem2 /\ length rem2 <= length rem /\
      match deliver (sc_offset s) (sc_collected s) rem with
      | [] => sc_cur s' = None /\ sc_offset s' <= toff /\ deliver (sc_offset s') (sc_collected s') rem2 = []
      | x :: rest => sc_cur s' = Some x /\ sc_offset s' = toff /\ sc_collected s' = S (sc_collected s) /\
                     rest = deliver toff (S (sc_collected s)) rem2
      end.
  Proof.
    induction k as [|k IH]; intros s rem HR Hlen Ho.
    - destruct rem as [|y r]; [|simpl in Hlen; lia].
      pose proof (sim_valid_nil _ _ _ _ HW HR) as Hv. simpl in Hv.
      exists (mkSc (sc_w s) None (sc_offset s) (sc_collected s)), []. simpl. rewrite Hv. simpl.
      split; [reflexivity|]. split; [exact HR|]. split; [lia|].
      unfold deliver. simpl. rewrite gen_deliver_nil. auto.
    - destruct rem as [|y r].
      + pose proof (sim_valid_nil _ _ _ _ HW HR) as Hv. simpl in Hv.
        exists (mkSc (sc_w s) None (sc_offset s) (sc_collected s)), []. simpl. rewrite Hv. simpl.
        split; [reflexivity|]. split; [exact HR|]. split; [lia|].
        unfold deliver. simpl. rewrite gen_deliver_nil. auto.
      + destruct (sim_valid_cons _ _ _ _ _ _ HW HR) as [Hv _]. simpl in Hv.
        destruct (HN _ _ _ HR) as [y' Hc]. simpl in Hc.
        assert (y' = y).
        { destruct (sim_valid_cons _ _ _ _ _ _ HW HR) as [_ [b [Hb Hg]]]. simpl in Hb. rewrite Hc in Hb.
          inversion Hb; subst b. exact Hg. }
        subst y'.
        destruct (sim_next _ _ HW _ _ HR) as [w' [Hn HR']]. simpl in Hn. simpl tl in HR'.
        simpl LOOP. rewrite Hv. simpl negb. cbv iota.
        destruct (limit_reached lim (sc_collected s)) eqn:El.
        * exists (mkSc (sc_w s) None (sc_offset s) (sc_collected s)), (y :: r). simpl.
          split; [reflexivity|]. split; [exact HR|]. split; [lia|].
          unfold deliver. rewrite gen_deliver_limit by exact El. auto using gen_deliver_limit.
        * rewrite Hc, Hn. simpl bind.
          assert (Hlen' : length r <= k) by (simpl in Hlen; lia).
          destruct (present y) eqn:Ep; simpl negb; cbv iota.
          -- destruct (matches y) eqn:Em.
             ++ assert (Ha : acc y = true) by (unfold acc, accept_of; rewrite Ep, Em; reflexivity).
                rewrite (deliver_acc _ _ _ _ Ha).
                destruct (Nat.ltb (sc_offset s) toff) eqn:Eo.
                ** apply Nat.ltb_lt in Eo. rewrite gen_deliver_offset by exact Eo.
                   destruct (IH (mkSc w' (Some y) (S (sc_offset s)) (sc_collected s)) r HR' Hlen') as
                       [s' [rem2 [E [H1 [H2 H3]]]]]; [simpl; lia|].
                   exists s', rem2. split; [exact E|]. split; [exact H1|]. split; [simpl; lia|]. exact H3.
                ** apply Nat.ltb_ge in Eo. assert (sc_offset s = toff) by lia.
                   exists (mkSc w' (Some y) (sc_offset s) (S (sc_collected s))), r.
                   split; [reflexivity|]. split; [exact HR'|]. split; [simpl; lia|].
                   rewrite H. rewrite gen_deliver_take by exact El. simpl. auto.
             ++ assert (Ha : acc y = false) by (unfold acc, accept_of; rewrite Ep, Em; reflexivity).
                rewrite (deliver_skip _ _ _ _ Ha).
                destruct (IH (mkSc w' (Some y) (sc_offset s) (sc_collected s)) r HR' Hlen' Ho) as
                    [s' [rem2 [E [H1 [H2 H3]]]]].
                exists s', rem2. split; [exact E|]. split; [exact H1|]. split; [simpl; lia|]. exact H3.
          -- assert (Ha : acc y = false) by (unfold acc, accept_of; rewrite Ep; reflexivity).
             rewrite (deliver_skip _ _ _ _ Ha).
             destruct (IH (mkSc w' (Some y) (sc_offset s) (sc_collected s)) r HR' Hlen' Ho) as
                 [s' [rem2 [E [H1 [H2 H3]]]]].
             exists s', rem2. split; [exact E|]. split; [exact H1|]. split; [simpl; lia|]. exact H3.
  Qed.

  (* [rem'] is what the client still gets, head = current; the wrapped cursor is one element ahead *)
  Definition R_sc (s : scst St) (rem' : list str) : Prop :=
    sc_offset s <= toff /\ exists rem, R (sc_w s) rem /\ length rem <= fuel /\
      match sc_cur s with
      | Some x => sc_offset s = toff /\ rem' = x :: deliver toff (sc_collected s) rem
      | None => rem' = [] /\ deliver (sc_offset s) (sc_collected s) rem = []
      end.

  Notation SC := (scanner_cursor St W present matches fuel toff lim).

  (* the state a run of the loop leaves, given what it was to deliver *)
  Lemma loop_R_sc : forall s rem, R (sc_w s) rem -> length rem <= fuel -> sc_offset s <= toff ->
    exists s', LOOP fuel s = Ok s' /\ R_sc s' (deliver (sc_offset s) (sc_collected s) rem).
  Proof.
    intros s rem HR Hl Ho.
    destruct (sc_loop_spec fuel s rem HR Hl Ho) as [s' [rem2 [E [H1 [H2 H3]]]]].
    exists s'. split; [exact E|].
    destruct (deliver (sc_offset s) (sc_collected s) rem) as [|x rest].
    - destruct H3 as [Hc [Ho' Hd]]. split; [exact Ho'|]. exists rem2. split; [exact H1|]. split; [lia|].
      rewrite Hc. auto.
    - destruct H3 as [Hc [Ho' [Hcc Hr]]]. split; [lia|]. exists rem2. split; [exact H1|]. split; [lia|].
      rewrite Hc. split; [exact Ho'|]. rewrite Hcc, Hr. reflexivity.
  Qed.

  Lemma scanner_sim : sim (plain SC) R_sc.
  Proof.
    constructor.
    - intros s rem' [_ [rem [_ [_ H]]]]. unfold observe; simpl. unfold sc_valid, sc_current.
      destruct (sc_cur s) as [x|]; simpl.
      + destruct H as [_ H]. subst. reflexivity.
      + destruct H as [H _]. subst. reflexivity.
    - intros s rem' [Ho [rem [HR [Hl H]]]]. simpl s_next. unfold sc_next.
      destruct (loop_R_sc s rem HR Hl Ho) as [s' [E HR']]. exists s'. split; [exact E|].
      destruct (sc_cur s) as [x|].
      + destruct H as [Hot H]. subst rem'. simpl tl. rewrite Hot in HR'. exact HR'.
      + destruct H as [H Hd]. subst rem'. simpl tl. rewrite Hd in HR'. exact HR'.
  Qed.

  Lemma scanner_open_R : forall w0 L, R w0 L -> length L <= fuel ->
    exists s, sc_open St W present matches fuel toff lim w0 = Ok s /\ R_sc s (deliver 0 0 L).
  Proof.
    intros w0 L HR Hl. unfold sc_open, sc_next.
    apply (loop_R_sc (mkSc w0 None 0 0) L HR Hl). simpl. lia.
  Qed.

  Lemma deliver_0_0 : forall L, deliver 0 0 L = page toff lim (filter acc L).
  Proof.
    intro L. unfold deliver, gen_deliver, page, lim_left. rewrite Nat.sub_0_r.
    destruct lim as [n|]; [rewrite Nat.sub_0_r|]; reflexivity.
  Qed.

  (* Seek, from ANY state: the wrapped cursor is repositioned and one look-ahead step taken *)
  Lemma scanner_seek_R : forall leb L, ksim W leb L R -> length L <= fuel ->
    forall s rem' v, R_sc s rem' ->
    exists s', sc_seek St W present matches fuel toff lim v s = Ok s' /\
               R_sc s' (deliver (sc_offset s) (sc_collected s) (drop_until leb v L)).
  Proof.
    intros leb L HK HL s rem' v [Ho [rem [HR _]]].
    destruct (ks_seek _ _ _ _ HK _ _ v HR) as [w' [Es HR']].
    unfold sc_seek. rewrite Es. simpl bind. unfold sc_next.
    apply (loop_R_sc (mkSc w' (sc_cur s) (sc_offset s) (sc_collected s)) _ HR').
    - pose proof (drop_until_length leb v L). lia.
    - exact Ho.
  Qed.
End ScannerProofs.

(* without paging (newFilteredCursor over a filter that is not a paged query): a seekable cursor over the
   accepted elements *)
Section Unpaged.
  Variable St : Type.
  Variable W : kcursor St.
  Variable present matches : str -> bool.
  Variable fuel : nat.
  Variable R : St -> list str -> Prop.
  Variable leb : str -> str -> bool.
  Variable L : list str.
  Hypothesis HK : ksim W leb L R.
  Hypothesis HN : nonnil (plain W) R.
  Hypothesis HL : length L <= fuel.
  Hypothesis Hup : forall v, closed_up (leb v) L.

  Let acc := accept_of present matches.

  Lemma deliver_unpaged : forall o c rem, deliver present matches 0 None o c rem = filter acc rem.
  Proof. intros. reflexivity. Qed.

  Lemma scanner_ksim :
    ksim (scanner_cursor St W present matches fuel 0 None) leb (filter acc L)
         (R_sc St present matches fuel 0 None R).
  Proof.
    constructor.
    - apply scanner_sim; [exact (ks_sim _ _ _ _ HK) | exact HN].
    - intros s rem' v H.
      destruct (scanner_seek_R St W present matches fuel 0 None R (ks_sim _ _ _ _ HK) HN leb L HK HL s rem' v H)
        as [s' [E HR]].
      exists s'. split; [exact E|]. rewrite deliver_unpaged in HR.
      unfold acc. rewrite <- drop_until_filter by apply Hup. exact HR.
  Qed.

  Lemma scanner_open_unpaged : forall w0, R w0 L ->
    exists s, sc_open St W present matches fuel 0 None w0 = Ok s /\
              R_sc St present matches fuel 0 None R s (filter acc L).
  Proof.
    intros w0 HR.
    destruct (scanner_open_R St W present matches fuel 0 None R (ks_sim _ _ _ _ HK) HN w0 L HR HL) as [s [E H]].
    exists s. split; [exact E|]. rewrite deliver_unpaged in H. exact H.
  Qed.

  (* a scanner is never valid on a nil Current() *)
  Lemma scanner_nonnil :
    nonnil (plain (scanner_cursor St W present matches fuel 0 None)) (R_sc St present matches fuel 0 None R).
  Proof.
    intros s x rem' [_ [rem [_ [_ H]]]]. simpl. unfold sc_current.
    destruct (sc_cur s) as [y|]; [exists y; reflexivity|]. destruct H as [H _]. discriminate.
  Qed.
End Unpaged.

(* ---- ValidIdsCursors ----------------------------------------------------------------------------------- *)

Section ValidIdsProofs.
  Variable St : Type.
  Variable V : kcursor St.
  Variable ext : str -> bool.
  Variable fuel : nat.
  Variable R : St -> list str -> Prop.
  Variable leb : str -> str -> bool.
  Variable L : list str.
  Hypothesis HK : ksim V leb L R.
  Hypothesis HL : length L <= fuel.
  Hypothesis Hup : forall v, closed_up (leb v) L.

  Definition vi_head_ok (rem : list str) : Prop := match rem with [] => True | x :: _ => ext x = true end.

  Definition R_vi (w : St) (rem' : list str) : Prop :=
    exists rem, R w rem /\ length rem <= fuel /\ vi_head_ok rem /\ rem' = filter ext rem.

  Lemma vi_skip_spec : forall k w rem, R w rem -> length rem <= k ->
    exists w' rem2, vi_skip St V ext k w = Ok w' /\ R w' rem2 /\ vi_head_ok rem2 /\
                    filter ext rem2 = filter ext rem /\ length rem2 <= length rem.
  Proof.
    pose proof (ks_sim _ _ _ _ HK) as HS.
    induction k as [|k IH]; intros w rem HR Hlen.
    - destruct rem as [|y r]; [|simpl in Hlen; lia].
      pose proof (sim_valid_nil _ _ _ _ HS HR) as Hv. simpl in Hv.
      exists w, []. simpl. rewrite Hv. repeat split; auto.
    - destruct rem as [|y r].
      + pose proof (sim_valid_nil _ _ _ _ HS HR) as Hv. simpl in Hv.
        exists w, []. simpl. rewrite Hv. repeat split; auto.
      + destruct (sim_valid_cons _ _ _ _ _ _ HS HR) as [Hv [b [Hc Hb]]]. simpl in Hv, Hc.
        simpl vi_skip. rewrite Hv, Hc. simpl bind. rewrite Hb.
        destruct (ext y) eqn:Ee.
        * exists w, (y :: r). repeat split; auto.
        * destruct (sim_next _ _ HS _ _ HR) as [w1 [Hn HR1]]. simpl in Hn. simpl tl in HR1.
          rewrite Hn. simpl bind.
          assert (Hl : length r <= k) by (simpl in Hlen; lia).
          destruct (IH w1 r HR1 Hl) as [w' [rem2 [E [H1 [H2 [H3 H4]]]]]].
          exists w', rem2. split; [exact E|]. split; [exact H1|]. split; [exact H2|].
          split; [simpl; rewrite Ee; exact H3 | simpl; lia].
  Qed.

  Lemma vi_filter_tl : forall rem, vi_head_ok rem -> tl (filter ext rem) = filter ext (tl rem).
  Proof. intros [|x r] H; simpl in *; [reflexivity|]. rewrite H. reflexivity. Qed.

  Lemma skip_R_vi : forall w rem, R w rem -> length rem <= fuel ->
    exists w', vi_skip St V ext fuel w = Ok w' /\ R_vi w' (filter ext rem).
  Proof.
    intros w rem HR Hl. destruct (vi_skip_spec fuel w rem HR Hl) as [w' [rem2 [E [H1 [H2 [H3 H4]]]]]].
    exists w'. split; [exact E|]. exists rem2. split; [exact H1|]. split; [lia|]. split; [exact H2|].
    symmetry. exact H3.
  Qed.

  Lemma valid_ids_ksim : ksim (valid_ids_cursor St V ext fuel) leb (filter ext L) R_vi.
  Proof.
    pose proof (ks_sim _ _ _ _ HK) as HS.
    constructor; [constructor|].
    - intros w rem' [rem [HR [_ [Hh E]]]]. subst rem'.
      change (observe (plain (valid_ids_cursor St V ext fuel)) w) with (observe (plain V) w).
      rewrite (sim_obs _ _ HS _ _ HR). destruct rem as [|x r]; simpl in *; [reflexivity|]. rewrite Hh. reflexivity.
    - intros w rem' [rem [HR [Hl [Hh E]]]]. subst rem'.
      destruct (sim_next _ _ HS _ _ HR) as [w1 [Hn HR1]]. simpl in Hn.
      assert (Hl1 : length (tl rem) <= fuel) by (destruct rem; simpl in *; lia).
      destruct (skip_R_vi w1 (tl rem) HR1 Hl1) as [w' [E HR']].
      exists w'. split; [simpl; unfold vi_next; rewrite Hn; exact E|].
      rewrite vi_filter_tl by exact Hh. exact HR'.
    - intros w rem' v [rem [HR _]].
      destruct (ks_seek _ _ _ _ HK _ _ v HR) as [w1 [Hn HR1]].
      assert (Hl1 : length (drop_until leb v L) <= fuel) by (pose proof (drop_until_length leb v L); lia).
      destruct (skip_R_vi w1 _ HR1 Hl1) as [w' [E HR']].
      exists w'. split; [simpl; unfold vi_seek; rewrite Hn; exact E|].
      rewrite <- drop_until_filter by apply Hup. exact HR'.
  Qed.

  Lemma valid_ids_open_gen : forall w0 rem, R w0 rem -> length rem <= fuel ->
    exists w, vi_open St V ext fuel w0 = Ok w /\ R_vi w (filter ext rem).
  Proof.
    pose proof (ks_sim _ _ _ _ HK) as HS.
    intros w0 rem HR Hl. unfold vi_open. destruct rem as [|x r].
    - pose proof (sim_valid_nil _ _ _ _ HS HR) as Hv. simpl in Hv. rewrite Hv.
      exists w0. split; [reflexivity|]. exists []. repeat split; auto.
    - destruct (sim_valid_cons _ _ _ _ _ _ HS HR) as [Hv [b [Hc Hb]]]. simpl in Hv, Hc.
      rewrite Hv, Hc. simpl bind. rewrite Hb. destruct (ext x) eqn:Ee.
      + exists w0. split; [reflexivity|]. exists (x :: r). simpl. rewrite Ee. repeat split; auto.
      + destruct (sim_next _ _ HS _ _ HR) as [w1 [Hn HR1]]. simpl in Hn. simpl tl in HR1.
        unfold vi_next. rewrite Hn. simpl bind.
        assert (Hl1 : length r <= fuel) by (simpl in Hl; lia).
        destruct (skip_R_vi w1 r HR1 Hl1) as [w' [E HR']].
        exists w'. split; [exact E|]. simpl. rewrite Ee. exact HR'.
  Qed.

  Lemma valid_ids_open_R : forall w0, R w0 L ->
    exists w, vi_open St V ext fuel w0 = Ok w /\ R_vi w (filter ext L).
  Proof. intros w0 HR. apply valid_ids_open_gen; [exact HR | exact HL]. Qed.
End ValidIdsProofs.

(* ---- ScanCursor ------------------------------------------------------------------------------------------ *)

Section ScanCursorProofs.
  Variable St : Type.
  Variable W : kcursor St.
  Variable present matches : str -> bool.
  Variable fuel toff : nat.
  Variable lim : option nat.
  Variable R : St -> list str -> Prop.
  Hypothesis HW : sim (plain W) R.
  Hypothesis HN : nonnil (plain W) R.

  Let acc := accept_of present matches.

  Lemma unpaged_spec : forall k w rem, R w rem -> length rem <= k ->
    exists w' b rem2, sc_loop_unpaged St W present matches k w = Ok (w', b) /\ R w' rem2 /\ length rem2 <= length rem /\
      match filter acc rem with
      | [] => b = None /\ filter acc rem2 = []
      | x :: rest => b = Some x /\ rest = filter acc rem2
      end.
  Proof.
    induction k as [|k IH]; intros w rem HR Hlen.
    - destruct rem as [|y r]; [|simpl in Hlen; lia].
      pose proof (sim_valid_nil _ _ _ _ HW HR) as Hv. simpl in Hv.
      exists w, None, []. simpl. rewrite Hv. simpl. repeat split; auto.
    - destruct rem as [|y r].
      + pose proof (sim_valid_nil _ _ _ _ HW HR) as Hv. simpl in Hv.
        exists w, None, []. simpl. rewrite Hv. simpl. repeat split; auto.
      + destruct (sim_valid_cons _ _ _ _ _ _ HW HR) as [Hv _]. simpl in Hv.
        destruct (HN _ _ _ HR) as [y' Hc]. simpl in Hc.
        assert (y' = y).
        { destruct (sim_valid_cons _ _ _ _ _ _ HW HR) as [_ [b [Hb Hg]]]. simpl in Hb. rewrite Hc in Hb.
          inversion Hb; subst b. exact Hg. }
        subst y'.
        destruct (sim_next _ _ HW _ _ HR) as [w1 [Hn HR1]]. simpl in Hn. simpl tl in HR1.
        simpl sc_loop_unpaged. rewrite Hv. simpl negb. cbv iota. rewrite Hc, Hn. simpl bind. simpl gb_str.
        assert (Hl : length r <= k) by (simpl in Hlen; lia).
        simpl filter. unfold acc at 1, accept_of.
        destruct (present y); simpl negb; cbv iota; simpl andb.
        * destruct (matches y).
          -- exists w1, (Some y), r. split; [reflexivity|]. split; [exact HR1|]. split; [simpl; lia|]. auto.
          -- destruct (IH w1 r HR1 Hl) as [w' [b [rem2 [E [H1 [H2 H3]]]]]].
             exists w', b, rem2. split; [exact E|]. split; [exact H1|]. split; [simpl; lia | exact H3].
        * destruct (IH w1 r HR1 Hl) as [w' [b [rem2 [E [H1 [H2 H3]]]]]].
          exists w', b, rem2. split; [exact E|]. split; [exact H1|]. split; [simpl; lia | exact H3].
  Qed.

  Notation GD := (gen_deliver toff lim).

  Lemma scan_loop_spec : forall k w cur off coll cnt accl rem,
    R w rem -> length rem <= fuel -> off <= toff ->
    (cur = None -> filter acc rem = []) ->
    length (filter acc rem) < k ->
    scan_loop St W present matches fuel toff lim k w cur off coll cnt accl =
      Ok (rev accl ++ GD off coll (match cur with Some x => [x] | None => [] end ++ filter acc rem),
          cnt + length (match cur with Some x => [x] | None => [] end ++ filter acc rem)).
  Proof.
    induction k as [|k IH]; intros w cur off coll cnt accl rem HR Hl Ho Hnone Hk; [lia|].
    destruct cur as [id|].
    - cbn [scan_loop app].
      destruct (unpaged_spec fuel w rem HR Hl) as [w' [b [rem2 [E [H1 [H2 H3]]]]]].
      rewrite E. simpl bind. cbn [fst snd].
      assert (Hnext : forall off' coll' accl', off' <= toff ->
        scan_loop St W present matches fuel toff lim k w' b off' coll' (S cnt) accl' =
        Ok (rev accl' ++ GD off' coll' (filter acc rem), S cnt + length (filter acc rem))).
      { intros off' coll' accl' Ho'. destruct (filter acc rem) as [|x rest] eqn:Ef.
        - destruct H3 as [Hb Hf2]. subst b.
          destruct k as [|k']; simpl; rewrite gen_deliver_nil, app_nil_r, Nat.add_0_r; reflexivity.
        - destruct H3 as [Hb Hrest]. subst b.
          rewrite (IH w' (Some x) off' coll' (S cnt) accl' rem2 H1); try lia.
          + rewrite <- Hrest. reflexivity.
          + discriminate.
          + rewrite <- Hrest. simpl in Hk. lia. }
      destruct (Nat.ltb off toff) eqn:Eo.
      + apply Nat.ltb_lt in Eo. rewrite Hnext by lia. rewrite gen_deliver_offset by exact Eo.
        f_equal. f_equal. simpl. lia.
      + apply Nat.ltb_ge in Eo. assert (off = toff) by lia. subst off.
        destruct (limit_reached lim coll) eqn:El; simpl negb; cbv iota.
        * rewrite Hnext by lia. rewrite !gen_deliver_limit by exact El. f_equal. f_equal. simpl. lia.
        * rewrite Hnext by lia. rewrite gen_deliver_take by exact El. simpl rev. rewrite <- app_assoc.
          f_equal. f_equal. simpl. lia.
    - rewrite (Hnone eq_refl). simpl. rewrite gen_deliver_nil, app_nil_r, Nat.add_0_r. reflexivity.
  Qed.

  Lemma scan_cursor_spec : forall w0 L, R w0 L -> length L <= fuel ->
    scan_cursor St W present matches fuel toff lim w0 =
      Ok (page toff lim (filter acc L), length (filter acc L)).
  Proof.
    intros w0 L HR Hl. unfold scan_cursor.
    destruct (unpaged_spec fuel w0 L HR Hl) as [w' [b [rem2 [E [H1 [H2 H3]]]]]].
    rewrite E. unfold bind at 1. cbn [fst snd].
    assert (Hf : length (filter acc L) <= fuel).
    { pose proof (filter_len_le acc L). lia. }
    rewrite (scan_loop_spec (S fuel) w' b 0 0 0 [] rem2 H1); try lia.
    - simpl rev. simpl app. destruct (filter acc L) as [|x rest] eqn:Ef.
      + destruct H3 as [Hb Hf2]. subst b. rewrite Hf2. simpl.
        unfold page. unfold gen_deliver. rewrite !skipn_nil'. unfold lim_take, lim_left.
        destruct lim; [rewrite !firstn_nil'|]; reflexivity.
      + destruct H3 as [Hb Hrest]. subst b. rewrite <- Hrest.
        unfold gen_deliver, page, lim_left. rewrite Nat.sub_0_r.
        destruct lim as [n|]; [rewrite Nat.sub_0_r|]; reflexivity.
    - intro Hb. destruct (filter acc L) as [|x rest]; [tauto|]. destruct H3 as [H3 _]. congruence.
    - destruct (filter acc L) as [|x rest].
      + destruct H3 as [_ H3]. rewrite H3. simpl. lia.
      + destruct H3 as [_ H3]. rewrite <- H3. simpl in Hf. lia.
  Qed.
End ScanCursorProofs.

(* ---- the hand-outs ----------------------------------------------------------------------------------------- *)

Lemma krun_next_only_sim : forall St (K : kcursor St) R leb L' s0, sim (plain K) R -> R s0 L' ->
  forall n, krun K (Ok s0) (repeat CNext n) = rspec_run leb L' (repeat CNext n).
Proof.
  intros St K R leb L' s0 HS HR n. unfold krun, rspec_run. rewrite (sim_obs _ _ HS _ _ HR). f_equal.
  rewrite krun_next_only. eapply srun_from_sim; eassumption.
Qed.

Lemma page_nil : forall off lim, page off lim [] = [].
Proof. intros off lim. unfold page, lim_take. rewrite skipn_nil'. destruct lim; [apply firstn_nil'|reflexivity]. Qed.

(* the look-ahead scanner over ANY seekable cursor that enumerates an ordered L: every Next/Seek program
   observes what it observes on the cursor over [filter accept L] *)
Lemma scanner_run_spec : forall St (W : kcursor St) R leb L present matches fuel w0 ops,
  ksim W leb L R -> nonnil (plain W) R -> length L <= fuel -> (forall v, closed_up (leb v) L) -> R w0 L ->
  krun (scanner_cursor St W present matches fuel 0 None) (sc_open St W present matches fuel 0 None w0) ops =
  rspec_run leb (filter (accept_of present matches) L) ops.
Proof.
  intros St W R leb L present matches fuel w0 ops HK HN HL Hup HR.
  destruct (scanner_open_unpaged St W present matches fuel R leb L HK HN HL w0 HR) as [s [Eo HRs]].
  rewrite Eo. eapply krun_sim; [apply scanner_ksim; eassumption | exact HRs].
Qed.

(* with paging: Next-only programs enumerate the page *)
Lemma scanner_paged_run_spec : forall St (W : kcursor St) R leb L present matches fuel off lim w0 n,
  sim (plain W) R -> nonnil (plain W) R -> length L <= fuel -> R w0 L ->
  krun (scanner_cursor St W present matches fuel off lim) (sc_open St W present matches fuel off lim w0) (repeat CNext n) =
  rspec_run leb (page off lim (filter (accept_of present matches) L)) (repeat CNext n).
Proof.
  intros St W R leb L present matches fuel off lim w0 n HW HN HL HR.
  destruct (scanner_open_R St W present matches fuel off lim R HW HN w0 L HR HL) as [s [Eo HRs]].
  rewrite Eo. rewrite deliver_0_0 in HRs.
  eapply krun_next_only_sim; [apply scanner_sim; eassumption | exact HRs].
Qed.

Lemma ids_run_spec : forall present matches fuel ids ops,
  sorted_asc (bucket_elems ids) -> length (bucket_elems ids) <= fuel ->
  ids_run present matches fuel 0 None ids ops =
  rspec_run fwd_leb (filter (accept_of present matches) (bucket_elems ids)) ops.
Proof.
  intros present matches fuel [l|] ops Hs Hl; simpl in *.
  - destruct (fwd_open_R l) as [s0 [Ho HR]]. unfold ids_open. rewrite Ho. simpl bind.
    apply scanner_run_spec with (R := R_fwd l).
    + apply fwd_ksim.
    + apply fwd_nonnil.
    + exact Hl.
    + intro v. apply (sorted_closed_up true v l Hs).
    + exact HR.
  - apply empty_run_spec.
Qed.

Lemma ids_paged_run_spec : forall present matches fuel off lim ids leb n,
  length (bucket_elems ids) <= fuel ->
  ids_run present matches fuel off lim ids (repeat CNext n) =
  rspec_run leb (page off lim (filter (accept_of present matches) (bucket_elems ids))) (repeat CNext n).
Proof.
  intros present matches fuel off lim [l|] leb n Hl; simpl in *.
  - destruct (fwd_open_R l) as [s0 [Ho HR]]. unfold ids_open. rewrite Ho. simpl bind.
    apply scanner_paged_run_spec with (R := R_fwd l).
    + apply (ks_sim _ _ _ _ (fwd_ksim l)).
    + apply fwd_nonnil.
    + exact Hl.
    + exact HR.
  - rewrite page_nil. apply (empty_run_spec leb).
Qed.

Lemma valid_ids_run_spec : forall present matches ext fuel ids ops,
  sorted_asc (bucket_elems ids) -> length (bucket_elems ids) <= fuel ->
  valid_ids_run present matches ext fuel ids ops =
  rspec_run fwd_leb (filter ext (filter (accept_of present matches) (bucket_elems ids))) ops.
Proof.
  intros present matches ext fuel ids ops Hs Hl. unfold valid_ids_run. destruct ids as [l|]; cbn [bucket_elems filter] in *.
  - destruct (fwd_open_R l) as [s0 [Ho HR]]. unfold ids_open. rewrite Ho. simpl bind.
    assert (Hup : forall v, closed_up (fwd_leb v) l) by (intro v; apply (sorted_closed_up true v l Hs)).
    destruct (scanner_open_unpaged bc (fwd_cursor l) present matches fuel (R_fwd l) fwd_leb l
                (fwd_ksim l) (fwd_nonnil l) Hl s0 HR) as [s [Eo HRs]].
    rewrite Eo. simpl bind.
    pose proof (scanner_ksim bc (fwd_cursor l) present matches fuel (R_fwd l) fwd_leb l
                  (fwd_ksim l) (fwd_nonnil l) Hl Hup) as HK.
    assert (HL' : length (filter (accept_of present matches) l) <= fuel).
    { pose proof (filter_len_le (accept_of present matches) l). lia. }
    assert (Hup' : forall v, closed_up (fwd_leb v) (filter (accept_of present matches) l)).
    { intro v. apply closed_up_filter. apply Hup. }
    destruct (valid_ids_open_R _ _ ext fuel _ fwd_leb _ HK HL' s HRs) as [w [Ev HRv]].
    unfold ids_cursor. rewrite Ev.
    eapply krun_sim; [apply valid_ids_ksim; eassumption | exact HRv].
  - pose proof (empty_ksim fwd_leb) as HK.
    assert (HL' : length (@nil str) <= fuel) by (simpl; lia).
    assert (Hup' : forall v, closed_up (fwd_leb v) []) by (intro v; exact I).
    destruct (valid_ids_open_R _ _ ext fuel _ fwd_leb _ HK HL' tt eq_refl) as [w [Ev HRv]].
    rewrite Ev. change (rspec_run fwd_leb [] ops) with (rspec_run fwd_leb (filter ext []) ops).
    eapply krun_sim; [apply valid_ids_ksim; eassumption | exact HRv].
Qed.

Lemma scan_bolt_run_spec : forall present matches fuel off lim fw l,
  sorted_asc l -> length l <= fuel ->
  scan_bolt_run present matches fuel off lim fw l =
  Ok (page off lim (filter (accept_of present matches) (dir_list fw l)),
      length (filter (accept_of present matches) l)).
Proof.
  intros present matches fuel off lim fw l Hs Hl. unfold scan_bolt_run, dir_list. destruct fw.
  - destruct (fwd_open_R l) as [s0 [Ho HR]]. rewrite Ho. simpl bind.
    apply scan_cursor_spec with (R := R_fwd l).
    + apply (ks_sim _ _ _ _ (fwd_ksim l)).
    + apply fwd_nonnil.
    + exact HR.
    + exact Hl.
  - destruct (rev_open_R l Hs) as [s0 [Ho HR]]. rewrite Ho. simpl bind.
    rewrite (scan_cursor_spec bc (rev_cursor l) present matches fuel off lim (R_rev l)
               (ks_sim _ _ _ _ (rev_ksim l Hs)) (rev_nonnil l) s0 (rev l) HR).
    + rewrite filter_rev', rev_length. reflexivity.
    + rewrite rev_length. exact Hl.
Qed.
