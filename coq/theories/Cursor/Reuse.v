(* C14 - cursors that are RE-OPENED.

   The query engine does not build a new set cursor for every row.  rowCursorImpl (boltz/query_cursor.go)
   caches the symbol it got from store.GetSymbol(name) - for a set symbol that is ONE
   *entitySetSymbolRuntime { cursor *bbolt.Cursor; value []byte } - and calls
   symbol.OpenCursor(tx, rowId) on it for every row it visits; the ast.SetCursor handed out is the symbol
   itself.  Whatever the evaluation of the previous row left in the two fields (a cursor in the middle of
   that row's bucket, an exhausted one, one moved by SeekToString, its last value) is still there when
   OpenCursor runs for the next row.  So "the cursor enumerates its set, immediately invalid for an empty
   set" is a statement about OpenCursor in EVERY earlier state, not only about a fresh symbol:

     func (symbol *entitySetSymbolRuntime) OpenCursor(tx *bbolt.Tx, rowId []byte) ast.SetCursor {
         symbol.cursor = symbol.openBoltCursor(tx, rowId)
         if symbol.cursor != nil { symbol.value, _ = symbol.cursor.First() } else { symbol.value = nil }
         return symbol
     }

   This file: [ss_reopen] (OpenCursor with the earlier state as an argument), the run of one symbol over
   consecutive rows [setsym_reuse_run], and the scan of boltz/query_scanners.go evaluating a set
   predicate (ast/node_set.go) for every row through the one cached symbol [scan_run].
   [ss_reopen_noreset] is OpenCursor without the else branch; it is refuted in Examples/C14Examples.v.
   No proofs in this file. *)
From Coq Require Import List NArith Bool Arith.
From Storage Require Import Base.Bytes Cursor.StrOrder Cursor.Core Cursor.BoltCursor Cursor.Typed Cursor.Filtered Cursor.SetSym.
Import ListNotations.
Open Scope nat_scope.

(* entitySetSymbolImpl.GetRuntimeSymbol(): &entitySetSymbolRuntime{entitySetSymbolImpl: symbol} - cursor nil, value nil *)
Definition ss_zero : ss := mkSs false 0 None.

Section Reopen.
  Variable keys : list str.          (* raw keys of the NEW row's list bucket ([] when there is none) *)

  (* symbol.cursor = symbol.openBoltCursor(tx, rowId): a new, not yet positioned bbolt cursor over the new
     row's bucket, or nil; symbol.value is not touched by this statement *)
  Definition ss_set_cursor (present : bool) (prev : ss) : ss := mkSs present 0 (ss_value prev).

  (* if symbol.cursor != nil { symbol.value, _ = symbol.cursor.First() } else { symbol.value = nil } *)
  Definition ss_reopen (present : bool) (prev : ss) : res ss :=
    let s1 := ss_set_cursor present prev in
    if ss_has s1 then Ok (mkSs true (fst (b_first keys)) (snd (b_first keys)))
    else Ok (mkSs false 0 None).

  (* the same without the else branch (value keeps what the previous row left) - NOT the code; see
     [reopen_noreset_refuted] *)
  Definition ss_reopen_noreset (present : bool) (prev : ss) : res ss :=
    let s1 := ss_set_cursor present prev in
    if ss_has s1 then Ok (mkSs true (fst (b_first keys)) (snd (b_first keys)))
    else Ok s1.
End Reopen.

(* the state a cursor is left in by a list of operations *)
Fixpoint kend {St} (K : kcursor St) (s : St) (ops : list cop) : res St :=
  match ops with
  | [] => Ok s
  | o :: r => bind (kstep K s o) (fun s' => kend K s' r)
  end.

(* one use of the symbol: the row's bucket (None = no bucket / no such entity) and what the client does
   with the cursor after OpenCursor *)
Definition seg := (option (list str) * list cop)%type.
Definition seg_has (b : option (list str)) : bool := match b with Some _ => true | None => false end.

Section ReuseRun.
  Variable tag : byte.
  Variable reopen : list str -> bool -> ss -> res ss.

  Fixpoint reuse_from (prev : res ss) (segs : list seg) : list (list obs) :=
    match segs with
    | [] => []
    | (b, ops) :: rest =>
        let keys := tagged tag (bucket_elems b) in
        let K := setsym_cursor tag keys in
        let init := bind prev (reopen keys (seg_has b)) in
        krun K init ops :: reuse_from (bind init (fun s => kend K s ops)) rest
    end.
End ReuseRun.

(* one runtime symbol (fresh from GetRuntimeSymbol / GetSymbol) used for the rows of [segs] one after the
   other; the result holds the observation trace of every use *)
Definition setsym_reuse_run (tag : byte) (segs : list seg) : list (list obs) :=
  reuse_from tag ss_reopen (Ok ss_zero) segs.
Definition setsym_reuse_run_noreset (tag : byte) (segs : list seg) : list (list obs) :=
  reuse_from tag ss_reopen_noreset (Ok ss_zero) segs.

(* ---- the scan: one cached symbol, one set predicate, every row ------------------------------------- *)

(* set predicates of ast/node_set.go over one set symbol f *)
Inductive spred :=
| PIsEmpty                 (* isEmpty(f)        IsEmptySetExprNode: cursor := s.OpenSetCursor(f); return !cursor.IsValid() *)
| PAnyEq (v : str)         (* anyOf(f) = "v"    seekable predicate: BinaryStringExprNode.EvalBoolWithSeek *)
| PAnyNeq (v : str)        (* anyOf(f) != "v"   AnyOfSetExprNode loop *)
| PAllEq (v : str)         (* allOf(f) = "v"    AllOfSetExprNode loop *)
| PCountEq (n : nat).      (* count(f) = n      CountSetExprNode loop *)

(* rowCursorImpl.EvalString(f) while the set cursor is open: symbol.Eval = GetTypeAndValue(symbol.value)
   (TypeNil, nil for a nil value); FieldToString(TypeString, v) = BytesToString(v), nil for a nil slice *)
Definition ss_eval_string (s : ss) : gobytes := get_type_and_value (ss_value s).

(* BinaryStringExprNode.EvalBool with a constant right operand v:
   if leftResult == nil || rightResult == nil { if op == NEQ { return leftResult != rightResult }; return false } *)
Definition str_eq_node (l : gobytes) (v : str) : bool :=
  match l with None => false | Some x => str_eqb x v end.
Definition str_neq_node (l : gobytes) (v : str) : bool :=
  match l with None => true | Some x => negb (str_eqb x v) end.

Section Eval.
  Variable tag : byte.
  Variable keys : list str.

  (* for cursor.IsValid() { if node.predicate.EvalBool(s) { return true }; cursor.Next() }; return false *)
  Fixpoint any_loop (p : ss -> bool) (fuel : nat) (s : ss) : res (bool * ss) :=
    match fuel with
    | O => OutOfFuel
    | S k => if ss_valid s then (if p s then Ok (true, s) else bind (ss_next keys s) (any_loop p k))
             else Ok (false, s)
    end.
  (* for cursor.IsValid() { if !node.predicate.EvalBool(s) { return false }; cursor.Next() }; return true *)
  Fixpoint all_loop (p : ss -> bool) (fuel : nat) (s : ss) : res (bool * ss) :=
    match fuel with
    | O => OutOfFuel
    | S k => if ss_valid s then (if p s then bind (ss_next keys s) (all_loop p k) else Ok (false, s))
             else Ok (true, s)
    end.
  (* for cursor.IsValid() { result++; cursor.Next() } *)
  Fixpoint count_loop (fuel : nat) (acc : nat) (s : ss) : res (nat * ss) :=
    match fuel with
    | O => OutOfFuel
    | S k => if ss_valid s then bind (ss_next keys s) (count_loop k (S acc)) else Ok (acc, s)
    end.

  (* the predicate on the freshly (re-)opened cursor [s0]; also returns the state the symbol is left in *)
  Definition eval_pred (fuel : nat) (p : spred) (s0 : ss) : res (bool * ss) :=
    match p with
    | PIsEmpty => Ok (negb (ss_valid s0), s0)
    | PAnyEq v =>
        (* cursor.SeekToString(v); if cursor.IsValid() { return node.EvalBool(s) }; return false *)
        bind (ss_seek_string tag keys v s0) (fun s1 =>
          Ok (if ss_valid s1 then str_eq_node (ss_eval_string s1) v else false, s1))
    | PAnyNeq v => any_loop (fun s => str_neq_node (ss_eval_string s) v) fuel s0
    | PAllEq v => all_loop (fun s => str_eq_node (ss_eval_string s) v) fuel s0
    | PCountEq n => bind (count_loop fuel 0 s0) (fun r => Ok (Nat.eqb (fst r) n, snd r))
    end.
End Eval.

(* a filter over the one set symbol: predicates combined by not / and / or (ast/node_expr.go NotExprNode,
   AndExprNode, OrExprNode - both binary nodes short-circuit).  EVERY predicate evaluation calls
   s.OpenSetCursor(f), i.e. OpenCursor on the cached symbol, also several times for the same row. *)
Inductive sfilter :=
| FP (p : spred)
| FNot (f : sfilter)
| FAnd (f g : sfilter)
| FOr (f g : sfilter).

(* a row of the scan: its id and its set bucket *)
Definition srow := (str * option (list str))%type.

Section Scan.
  Variable tag : byte.
  Variable reopen : list str -> bool -> ss -> res ss.
  Variable fuel : nat.

  Section Row.
    Variable b : option (list str).
    Let keys := tagged tag (bucket_elems b).

    Fixpoint eval_filter (f : sfilter) (prev : ss) : res (bool * ss) :=
      match f with
      | FP p => bind (reopen keys (seg_has b) prev) (eval_pred tag keys fuel p)
      | FNot f1 => bind (eval_filter f1 prev) (fun r => Ok (negb (fst r), snd r))
      | FAnd f1 f2 => bind (eval_filter f1 prev) (fun r => if fst r then eval_filter f2 (snd r) else Ok (false, snd r))
      | FOr f1 f2 => bind (eval_filter f1 prev) (fun r => if fst r then Ok (true, snd r) else eval_filter f2 (snd r))
      end.
  End Row.

  Variable f : sfilter.

  (* for every row: rowCursor.NextRow(id); filter.EvalBool(rowCursor) - the symbol comes from symbolCache *)
  Fixpoint scan_from (prev : ss) (rows : list srow) : res (list str) :=
    match rows with
    | [] => Ok []
    | (id, b) :: rest =>
        bind (eval_filter b f prev) (fun r =>
        bind (scan_from (snd r) rest) (fun ids => Ok (if fst r then id :: ids else ids)))
    end.
End Scan.

Definition scan_run (tag : byte) (fuel : nat) (f : sfilter) (rows : list srow) : res (list str) :=
  scan_from tag ss_reopen fuel f ss_zero rows.
Definition scan_run_noreset (tag : byte) (fuel : nat) (f : sfilter) (rows : list srow) : res (list str) :=
  scan_from tag ss_reopen_noreset fuel f ss_zero rows.

(* what the predicate means for the SET of a row (ascending list) *)
Definition pred_holds (p : spred) (l : list str) : bool :=
  match p with
  | PIsEmpty => match l with [] => true | _ => false end
  | PAnyEq v => existsb (str_eqb v) l
  | PAnyNeq v => existsb (fun x => negb (str_eqb x v)) l
  | PAllEq v => forallb (fun x => str_eqb x v) l
  | PCountEq n => Nat.eqb (length l) n
  end.
Fixpoint filter_holds (f : sfilter) (l : list str) : bool :=
  match f with
  | FP p => pred_holds p l
  | FNot f1 => negb (filter_holds f1 l)
  | FAnd f1 f2 => filter_holds f1 l && filter_holds f2 l
  | FOr f1 f2 => filter_holds f1 l || filter_holds f2 l
  end.
Definition scan_spec (f : sfilter) (rows : list srow) : list str :=
  map fst (filter (fun r => filter_holds f (bucket_elems (snd r))) rows).

(* string operands of the predicates: comparing with the empty string is outside the statement (the
   runtime symbol's Eval reads the empty-string element as a nil string, see design/C14.md section 3) *)
Definition pred_wf (p : spred) : Prop :=
  match p with
  | PAnyEq v | PAnyNeq v | PAllEq v => v <> []
  | _ => True
  end.
Fixpoint filter_wf (f : sfilter) : Prop :=
  match f with
  | FP p => pred_wf p
  | FNot f1 => filter_wf f1
  | FAnd f1 f2 | FOr f1 f2 => filter_wf f1 /\ filter_wf f2
  end.

(* the rows of a scan: every set a strictly ascending list (a bbolt bucket), smaller than the loop fuel *)
Definition rows_ok (fuel : nat) (rows : list srow) : Prop :=
  forall id b, In (id, b) rows -> sorted_asc (bucket_elems b) /\ length (bucket_elems b) < fuel.
