(* unionSetCursor over two cursors that enumerate L1 and L2 (and never hand out a nil Current
   while valid) enumerates [merge fw L1 L2]; for inputs sorted in direction fw that is the sorted
   duplicate-free union. *)
From Coq Require Import List NArith Bool Arith Lia Sorting.Sorted.
From Storage Require Import Base.Bytes Cursor.StrOrder Cursor.Core Cursor.CoreProofs Cursor.Filtered Cursor.Union.
Import ListNotations.
Open Scope nat_scope.

(* ---- merge -------------------------------------------------------------------------------------- *)

Lemma merge_nil_l : forall fw l, merge fw [] l = l.
Proof. intros fw l. destruct l; reflexivity. Qed.

Lemma merge_nil_r : forall fw l, merge fw l [] = l.
Proof. intros fw l. destruct l; reflexivity. Qed.

Lemma merge_cons_cons : forall fw x r1 y r2,
  merge fw (x :: r1) (y :: r2) =
  match str_cmp x y with
  | Eq => x :: merge fw r1 r2
  | Lt => if fw then x :: merge fw r1 (y :: r2) else y :: merge fw (x :: r1) r2
  | Gt => if fw then y :: merge fw (x :: r1) r2 else x :: merge fw r1 (y :: r2)
  end.
Proof. intros. reflexivity. Qed.

Lemma merge_in : forall fw l1 l2 z, In z (merge fw l1 l2) <-> In z l1 \/ In z l2.
Proof.
  intros fw. induction l1 as [|x r1 IH1]; intros l2 z.
  - rewrite merge_nil_l. simpl. tauto.
  - induction l2 as [|y r2 IH2].
    + rewrite merge_nil_r. simpl. tauto.
    + rewrite merge_cons_cons. destruct (str_cmp x y) eqn:E.
      * apply str_cmp_eq in E. subst y. simpl. rewrite IH1. tauto.
      * destruct fw; simpl.
        -- rewrite IH1. simpl. tauto.
        -- rewrite IH2. simpl. tauto.
      * destruct fw; simpl.
        -- rewrite IH2. simpl. tauto.
        -- rewrite IH1. simpl. tauto.
Qed.

Lemma cmp_lt_ltb : forall a b, str_cmp a b = Lt -> str_ltb a b = true.
Proof. intros a b H. unfold str_ltb. rewrite H. reflexivity. Qed.

Lemma cmp_gt_ltb : forall a b, str_cmp a b = Gt -> str_ltb b a = true.
Proof. intros a b H. unfold str_ltb. rewrite (str_cmp_opp a b), H. reflexivity. Qed.

Lemma merge_sorted : forall fw l1 l2, sorted_dir fw l1 -> sorted_dir fw l2 -> sorted_dir fw (merge fw l1 l2).
Proof.
  intros fw. induction l1 as [|x r1 IH1]; intros l2 H1 H2.
  - rewrite merge_nil_l. exact H2.
  - induction l2 as [|y r2 IH2].
    + rewrite merge_nil_r. exact H1.
    + pose proof (sorted_dir_tail _ _ _ H1) as T1. pose proof (sorted_dir_tail _ _ _ H2) as T2.
      pose proof (sorted_dir_head _ _ _ H1) as F1. pose proof (sorted_dir_head _ _ _ H2) as F2.
      rewrite Forall_forall in F1, F2.
      rewrite merge_cons_cons. destruct (str_cmp x y) eqn:E.
      * apply str_cmp_eq in E. subst y. constructor; [apply IH1; assumption|].
        apply Forall_forall. intros z Hz. apply merge_in in Hz. destruct Hz; auto.
      * apply cmp_lt_ltb in E. destruct fw.
        -- constructor; [apply IH1; assumption|]. apply Forall_forall. intros z Hz. apply merge_in in Hz.
           destruct Hz as [Hz|[Hz|Hz]]; [auto | subst; exact E |].
           eapply (before_trans true); [exact E | apply F2; exact Hz].
        -- constructor; [apply IH2; assumption|]. apply Forall_forall. intros z Hz. apply merge_in in Hz.
           destruct Hz as [[Hz|Hz]|Hz]; [subst; exact E | | auto].
           eapply (before_trans false); [exact E | apply F1; exact Hz].
      * apply cmp_gt_ltb in E. destruct fw.
        -- constructor; [apply IH2; assumption|]. apply Forall_forall. intros z Hz. apply merge_in in Hz.
           destruct Hz as [[Hz|Hz]|Hz]; [subst; exact E | | auto].
           eapply (before_trans true); [exact E | apply F1; exact Hz].
        -- constructor; [apply IH1; assumption|]. apply Forall_forall. intros z Hz. apply merge_in in Hz.
           destruct Hz as [Hz|[Hz|Hz]]; [auto | subst; exact E |].
           eapply (before_trans false); [exact E | apply F2; exact Hz].
Qed.

(* ---- the cursor ---------------------------------------------------------------------------------- *)

Section UnionProofs.
  Variables S1 S2 : Type.
  Variable W1 : scursor S1.
  Variable W2 : scursor S2.
  Variable fw : bool.
  Variable R1 : S1 -> list str -> Prop.
  Variable R2 : S2 -> list str -> Prop.
  Hypothesis H1 : sim W1 R1.
  Hypothesis H2 : sim W2 R2.
  Hypothesis N1 : nonnil W1 R1.
  Hypothesis N2 : nonnil W2 R2.

  Definition R_u (u : ustate S1 S2) (rem : list str) : Prop :=
    exists r1 r2, R1 (u_fst u) r1 /\ R2 (u_snd u) r2 /\
      match u_cur u with
      | Some x => rem = x :: merge fw r1 r2
      | None => rem = [] /\ r1 = [] /\ r2 = []
      end.

  Lemma cur1 : forall s x r, R1 s (x :: r) -> s_valid W1 s = true /\ s_current W1 s = Ok (Some x).
  Proof.
    intros s x r HR. destruct (sim_valid_cons _ _ _ _ _ _ H1 HR) as [Hv [b [Hc Hb]]].
    split; [exact Hv|]. destruct (N1 s x r HR) as [y Hy]. rewrite Hy in Hc. inversion Hc; subst b. simpl in Hb. subst. exact Hy.
  Qed.

  Lemma cur2 : forall s x r, R2 s (x :: r) -> s_valid W2 s = true /\ s_current W2 s = Ok (Some x).
  Proof.
    intros s x r HR. destruct (sim_valid_cons _ _ _ _ _ _ H2 HR) as [Hv [b [Hc Hb]]].
    split; [exact Hv|]. destruct (N2 s x r HR) as [y Hy]. rewrite Hy in Hc. inversion Hc; subst b. simpl in Hb. subst. exact Hy.
  Qed.

  (* one Next pops the head of the merge of what the two inputs still hold *)
  Lemma u_next_spec : forall u r1 r2, R1 (u_fst u) r1 -> R2 (u_snd u) r2 ->
    exists u' r1' r2', u_next S1 S2 W1 W2 fw u = Ok u' /\ R1 (u_fst u') r1' /\ R2 (u_snd u') r2' /\
      match merge fw r1 r2 with
      | [] => u_cur u' = None /\ r1' = [] /\ r2' = []
      | x :: m => u_cur u' = Some x /\ m = merge fw r1' r2'
      end.
  Proof.
    intros u r1 r2 HR1 HR2. unfold u_next. destruct r1 as [|x t1].
    - rewrite (sim_valid_nil _ _ _ _ H1 HR1). simpl negb. cbv iota.
      destruct r2 as [|y t2].
      + rewrite (sim_valid_nil _ _ _ _ H2 HR2). eexists _, [], [].
        split; [reflexivity|]. split; [exact HR1|]. split; [exact HR2|]. rewrite merge_nil_l. auto.
      + destruct (cur2 _ _ _ HR2) as [Hv Hc]. rewrite Hv, Hc. simpl bind.
        destruct (sim_next _ _ H2 _ _ HR2) as [s2' [Hn HR2']]. rewrite Hn. simpl bind. simpl tl in HR2'.
        eexists _, [], t2. split; [reflexivity|]. split; [exact HR1|]. split; [exact HR2'|].
        rewrite merge_nil_l. split; [reflexivity|]. rewrite merge_nil_l. reflexivity.
    - destruct (cur1 _ _ _ HR1) as [Hv1 Hc1]. rewrite Hv1. simpl negb. cbv iota.
      destruct (sim_next _ _ H1 _ _ HR1) as [s1' [Hn1 HR1']]. simpl tl in HR1'.
      destruct r2 as [|y t2].
      + rewrite (sim_valid_nil _ _ _ _ H2 HR2). simpl negb. cbv iota. rewrite Hc1, Hn1. simpl bind.
        eexists _, t1, []. split; [reflexivity|]. split; [exact HR1'|]. split; [exact HR2|].
        rewrite merge_nil_r. split; [reflexivity|]. rewrite merge_nil_r. reflexivity.
      + destruct (cur2 _ _ _ HR2) as [Hv2 Hc2]. rewrite Hv2. simpl negb. cbv iota.
        destruct (sim_next _ _ H2 _ _ HR2) as [s2' [Hn2 HR2']]. simpl tl in HR2'.
        rewrite Hc1, Hc2. simpl bind. simpl gb_str. rewrite merge_cons_cons.
        destruct (str_cmp x y) eqn:E.
        * rewrite Hn1, Hn2. simpl bind. eexists _, t1, t2.
          split; [reflexivity|]. split; [exact HR1'|]. split; [exact HR2'|]. split; reflexivity.
        * destruct fw.
          -- rewrite Hn1. simpl bind. eexists _, t1, (y :: t2).
             split; [reflexivity|]. split; [exact HR1'|]. split; [exact HR2|]. split; reflexivity.
          -- rewrite Hn2. simpl bind. eexists _, (x :: t1), t2.
             split; [reflexivity|]. split; [exact HR1|]. split; [exact HR2'|]. split; reflexivity.
        * destruct fw.
          -- rewrite Hn2. simpl bind. eexists _, (x :: t1), t2.
             split; [reflexivity|]. split; [exact HR1|]. split; [exact HR2'|]. split; reflexivity.
          -- rewrite Hn1. simpl bind. eexists _, t1, (y :: t2).
             split; [reflexivity|]. split; [exact HR1'|]. split; [exact HR2|]. split; reflexivity.
  Qed.

  Lemma R_u_of_spec : forall u' r1 r2 r1' r2', R1 (u_fst u') r1' -> R2 (u_snd u') r2' ->
    match merge fw r1 r2 with
    | [] => u_cur u' = None /\ r1' = [] /\ r2' = []
    | x :: m => u_cur u' = Some x /\ m = merge fw r1' r2'
    end -> R_u u' (merge fw r1 r2).
  Proof.
    intros u' r1 r2 r1' r2' A B C. exists r1', r2'. split; [exact A|]. split; [exact B|].
    destruct (merge fw r1 r2) as [|x m].
    - destruct C as [C1 [C2 C3]]. rewrite C1. auto.
    - destruct C as [C1 C2]. rewrite C1, C2. reflexivity.
  Qed.

  Lemma union_sim : sim (union_cursor S1 S2 W1 W2 fw) R_u.
  Proof.
    constructor.
    - intros u rem [r1 [r2 [A [B C]]]]. unfold observe; simpl. unfold u_valid, u_current.
      destruct (u_cur u) as [x|]; simpl.
      + subst rem. reflexivity.
      + destruct C as [C _]. subst rem. reflexivity.
    - intros u rem [r1 [r2 [A [B C]]]].
      destruct (u_next_spec u r1 r2 A B) as [u' [r1' [r2' [En [A' [B' C']]]]]].
      exists u'. split; [exact En|].
      assert (Hm : tl rem = merge fw r1 r2).
      { destruct (u_cur u) as [x|]; [subst rem; reflexivity|].
        destruct C as [C1 [C2 C3]]. subst. rewrite merge_nil_l. reflexivity. }
      rewrite Hm. eapply R_u_of_spec; eassumption.
  Qed.

  Lemma union_open : forall s1 s2 L1 L2, R1 s1 L1 -> R2 s2 L2 ->
    exists u, u_open S1 S2 W1 W2 fw s1 s2 = Ok u /\ R_u u (merge fw L1 L2).
  Proof.
    intros s1 s2 L1 L2 A B. unfold u_open.
    destruct (u_next_spec (mkU None s1 s2) L1 L2 A B) as [u' [r1' [r2' [En [A' [B' C']]]]]].
    exists u'. split; [exact En|]. eapply R_u_of_spec; eassumption.
  Qed.

  Lemma union_nonnil : nonnil (union_cursor S1 S2 W1 W2 fw) R_u.
  Proof.
    intros u x rem [r1 [r2 [A [B C]]]]. simpl. unfold u_current.
    destruct (u_cur u) as [y|]; [exists y; reflexivity|]. destruct C as [C _]. discriminate.
  Qed.
End UnionProofs.

Lemma union_run_spec : forall S1 S2 (W1 : scursor S1) (W2 : scursor S2) fw R1 R2 s1 s2 L1 L2 leb n,
  sim W1 R1 -> sim W2 R2 -> nonnil W1 R1 -> nonnil W2 R2 -> R1 s1 L1 -> R2 s2 L2 ->
  srun (union_cursor S1 S2 W1 W2 fw) (u_open S1 S2 W1 W2 fw s1 s2) n = rspec_run leb (merge fw L1 L2) (repeat CNext n).
Proof.
  intros S1 S2 W1 W2 fw R1 R2 s1 s2 L1 L2 leb n A B C D E F.
  destruct (union_open S1 S2 W1 W2 fw R1 R2 A B C D s1 s2 L1 L2 E F) as [u [Ho HR]]. rewrite Ho.
  eapply srun_sim; [exact (union_sim S1 S2 W1 W2 fw R1 R2 A B C D) | exact HR].
Qed.
