(* Re-opening the runtime set symbol is a state reset: OpenCursor in ANY earlier state equals OpenCursor
   on a fresh symbol; hence one symbol used for many rows behaves on every row like a fresh cursor over
   that row's set, and a scan that evaluates a set predicate through the one cached symbol selects
   exactly the rows whose SET satisfies the predicate. *)
From Coq Require Import List NArith Bool Arith Lia Sorting.Sorted.
From Storage Require Import Base.Bytes Cursor.StrOrder Cursor.Core Cursor.CoreProofs Cursor.BoltCursor
  Cursor.BoltCursorProofs Cursor.Typed Cursor.TypedProofs Cursor.Filtered Cursor.SetSym Cursor.SetSymProofs
  Cursor.Cases Cursor.Reuse.
Import ListNotations.
Open Scope nat_scope.

(* ---- OpenCursor forgets the earlier state ----------------------------------------------------------- *)

Lemma reopen_is_fresh_lemma : forall keys present prev,
  ss_reopen keys present prev = ss_open keys present.
Proof. intros keys [|] prev; reflexivity. Qed.

Lemma ss_kend_ok : forall tag keys ops s, exists s', kend (setsym_cursor tag keys) s ops = Ok s'.
Proof.
  intros tag keys. induction ops as [|o ops IH]; intro s; simpl; [eexists; reflexivity|].
  destruct o as [|v]; simpl; unfold ss_next, ss_seek_string, ss_seek_raw; destruct (ss_has s); simpl; apply IH.
Qed.

Lemma reuse_from_fresh : forall tag segs p,
  reuse_from tag ss_reopen (Ok p) segs = map (fun sg => setsym_run tag (fst sg) (snd sg)) segs.
Proof.
  intros tag. induction segs as [|[b ops] rest IH]; intro p; [reflexivity|].
  cbn [reuse_from map fst snd bind]. rewrite reopen_is_fresh_lemma. f_equal.
  destruct (ss_open_R tag b) as [s0 [Ho _]]. unfold seg_has. rewrite Ho. cbn [bind].
  destruct (ss_kend_ok tag (tagged tag (bucket_elems b)) ops s0) as [s' Hs']. rewrite Hs'. apply IH.
Qed.

Lemma setsym_reuse_run_fresh : forall tag segs,
  setsym_reuse_run tag segs = map (fun sg => setsym_run tag (fst sg) (snd sg)) segs.
Proof. intros. apply reuse_from_fresh. Qed.

Lemma setsym_reuse_run_spec : forall tag segs,
  setsym_reuse_run tag segs = map (fun sg => spec_ops true (bucket_elems (fst sg)) (snd sg)) segs.
Proof.
  intros tag segs. rewrite setsym_reuse_run_fresh. apply map_ext. intros [b ops]. simpl.
  rewrite setsym_run_spec. unfold spec_ops. simpl. symmetry. apply spec_run_rspec.
Qed.

(* every single use: whatever rows came before and whatever was done with their cursors *)
Lemma setsym_reuse_nth : forall tag before b ops after,
  nth_error (setsym_reuse_run tag (before ++ (b, ops) :: after)) (length before) = Some (setsym_run tag b ops).
Proof.
  intros. rewrite setsym_reuse_run_fresh. rewrite map_app. simpl.
  rewrite nth_error_app2; rewrite map_length; [|lia]. rewrite Nat.sub_diag. reflexivity.
Qed.

(* ---- the predicates on a (re-)opened cursor ---------------------------------------------------------- *)

Lemma eq_node_gb : forall g v, v <> [] -> str_eq_node g v = str_eqb (gb_str g) v.
Proof.
  intros [x|] v Hv; simpl; [reflexivity|]. symmetry. destruct v; [contradiction | reflexivity].
Qed.
Lemma neq_node_gb : forall g v, v <> [] -> str_neq_node g v = negb (str_eqb (gb_str g) v).
Proof.
  intros [x|] v Hv; simpl; [reflexivity|]. destruct v; [contradiction | reflexivity].
Qed.

Lemma str_eqb_sym : forall a b, str_eqb a b = str_eqb b a.
Proof.
  intros a b. destruct (str_eqb a b) eqn:E.
  - apply str_eqb_eq in E. subst. symmetry. apply str_eqb_refl.
  - symmetry. apply str_eqb_neq. apply str_eqb_neq in E. congruence.
Qed.

(* in a sorted set, "v is an element" is decided by the first element >= v *)
Lemma drop_until_mem : forall v l, sorted_asc l ->
  existsb (str_eqb v) l = match drop_until fwd_leb v l with x :: _ => str_eqb x v | [] => false end.
Proof.
  intros v. induction l as [|x r IH]; intro Hs; [reflexivity|].
  cbn [drop_until existsb]. unfold fwd_leb at 1.
  pose proof (sorted_dir_head _ _ _ Hs) as Hh. pose proof (sorted_dir_tail _ _ _ Hs) as Ht.
  destruct (str_leb v x) eqn:Ele.
  - destruct (str_eqb v x) eqn:Eq.
    + apply str_eqb_eq in Eq. subst. simpl. symmetry. apply str_eqb_refl.
    + simpl. rewrite (str_eqb_sym x v), Eq.
      destruct (existsb (str_eqb v) r) eqn:Ex; [|reflexivity]. exfalso.
      apply existsb_exists in Ex. destruct Ex as [y [Hin Hy]]. apply str_eqb_eq in Hy. subst y.
      apply str_eqb_neq in Eq.
      assert (Hvx : str_ltb v x = true) by (apply str_leb_neq_ltb; [exact Ele | congruence]).
      rewrite Forall_forall in Hh. specialize (Hh v Hin). simpl in Hh.
      pose proof (str_ltb_trans _ _ _ Hvx Hh) as Hbad. rewrite str_ltb_irrefl in Hbad. discriminate.
  - assert (Hne : str_eqb v x = false).
    { apply str_eqb_neq. intro E. subst. rewrite str_leb_refl in Ele. discriminate. }
    rewrite Hne. simpl. apply IH. exact Ht.
Qed.

Section EvalProofs.
  Variable tag : byte.
  Variable b : option (list str).
  Let l := bucket_elems b.
  Let keys := tagged tag l.
  Let K := setsym_cursor tag keys.
  Let R := R_ss tag b.

  Lemma ss_sim : sim (plain K) R.
  Proof. exact (ks_sim _ _ _ _ (ss_ksim tag b)). Qed.

  Lemma ss_head : forall s x rem, R s (x :: rem) -> ss_valid s = true /\ gb_str (ss_eval_string s) = x.
  Proof.
    intros s x rem H. destruct (sim_valid_cons _ _ _ s x rem ss_sim H) as [Hv [g [Hc Hx]]].
    split; [exact Hv|]. simpl in Hc. unfold ss_current in Hc. inversion Hc. subst g. exact Hx.
  Qed.

  Lemma ss_end : forall s, R s [] -> ss_valid s = false.
  Proof. intros s H. exact (sim_valid_nil _ _ _ s ss_sim H). Qed.

  Lemma ss_valid_rem : forall s rem, R s rem -> ss_valid s = match rem with [] => false | _ => true end.
  Proof. intros s [|x r] H; [exact (ss_end s H) | exact (proj1 (ss_head s x r H))]. Qed.

  Lemma ss_step : forall s rem, R s rem -> exists s', ss_next keys s = Ok s' /\ R s' (tl rem).
  Proof. intros s rem H. exact (sim_next _ _ ss_sim _ _ H). Qed.

  Lemma any_loop_spec : forall (p : ss -> bool) (q : str -> bool),
    (forall s x rem, R s (x :: rem) -> p s = q x) ->
    forall fuel s rem, R s rem -> length rem < fuel ->
    exists s', any_loop keys p fuel s = Ok (existsb q rem, s').
  Proof.
    intros p q Hpq. induction fuel as [|fuel IH]; intros s rem HR Hl; [lia|].
    cbn [any_loop]. destruct rem as [|x r].
    - rewrite (ss_end s HR). eexists; reflexivity.
    - destruct (ss_head s x r HR) as [Hv _]. rewrite Hv. rewrite (Hpq _ _ _ HR). cbn [existsb].
      destruct (q x); [eexists; reflexivity|].
      destruct (ss_step s _ HR) as [s' [Hn HR']]. rewrite Hn. cbn [bind orb tl] in *.
      apply IH; [exact HR' | simpl in Hl; lia].
  Qed.

  Lemma all_loop_spec : forall (p : ss -> bool) (q : str -> bool),
    (forall s x rem, R s (x :: rem) -> p s = q x) ->
    forall fuel s rem, R s rem -> length rem < fuel ->
    exists s', all_loop keys p fuel s = Ok (forallb q rem, s').
  Proof.
    intros p q Hpq. induction fuel as [|fuel IH]; intros s rem HR Hl; [lia|].
    cbn [all_loop]. destruct rem as [|x r].
    - rewrite (ss_end s HR). eexists; reflexivity.
    - destruct (ss_head s x r HR) as [Hv _]. rewrite Hv. rewrite (Hpq _ _ _ HR). cbn [forallb].
      destruct (q x); [|eexists; reflexivity].
      destruct (ss_step s _ HR) as [s' [Hn HR']]. rewrite Hn. cbn [bind andb tl] in *.
      apply IH; [exact HR' | simpl in Hl; lia].
  Qed.

  Lemma count_loop_spec : forall fuel acc s rem, R s rem -> length rem < fuel ->
    exists s', count_loop keys fuel acc s = Ok (acc + length rem, s').
  Proof.
    induction fuel as [|fuel IH]; intros acc s rem HR Hl; [lia|].
    cbn [count_loop]. destruct rem as [|x r].
    - rewrite (ss_end s HR). simpl. rewrite Nat.add_0_r. eexists; reflexivity.
    - destruct (ss_head s x r HR) as [Hv _]. rewrite Hv.
      destruct (ss_step s _ HR) as [s' [Hn HR']]. rewrite Hn. cbn [bind tl] in *.
      destruct (IH (S acc) s' r HR') as [s'' Hs'']; [simpl in Hl; lia|].
      exists s''. rewrite Hs''. f_equal. f_equal. simpl. lia.
  Qed.

  Lemma eval_pred_spec : forall fuel p s0, sorted_asc l -> pred_wf p -> R s0 l -> length l < fuel ->
    exists s1, eval_pred tag keys fuel p s0 = Ok (pred_holds p l, s1).
  Proof.
    intros fuel p s0 Hs Hwf HR Hl. destruct p as [|v|v|v|n]; cbn [eval_pred pred_holds].
    - exists s0. rewrite (ss_valid_rem s0 l HR). generalize l. intros [|x r]; reflexivity.
    - destruct (ks_seek _ _ _ _ (ss_ksim tag b) s0 l v HR) as [s1 [Hk HR1]].
      simpl in Hk. unfold keys, l. rewrite Hk. cbn [bind]. exists s1. fold l.
      rewrite (drop_until_mem v l Hs). fold l in HR1.
      destruct (drop_until fwd_leb v l) as [|x r].
      + rewrite (ss_end s1 HR1). reflexivity.
      + destruct (ss_head s1 x r HR1) as [Hv Hx]. rewrite Hv.
        rewrite (eq_node_gb _ _ Hwf), Hx. reflexivity.
    - apply any_loop_spec; [|exact HR | exact Hl].
      intros s x rem H. destruct (ss_head s x rem H) as [_ Hx]. rewrite (neq_node_gb _ _ Hwf), Hx. reflexivity.
    - apply all_loop_spec; [|exact HR | exact Hl].
      intros s x rem H. destruct (ss_head s x rem H) as [_ Hx]. rewrite (eq_node_gb _ _ Hwf), Hx. reflexivity.
    - destruct (count_loop_spec fuel 0 s0 l HR Hl) as [s1 Hc]. rewrite Hc. cbn [bind fst snd]. exists s1. reflexivity.
  Qed.
End EvalProofs.

(* ---- the scan ------------------------------------------------------------------------------------------ *)

Lemma eval_filter_spec : forall tag fuel b f, sorted_asc (bucket_elems b) -> length (bucket_elems b) < fuel ->
  filter_wf f -> forall prev, exists s1,
  eval_filter tag ss_reopen fuel b f prev = Ok (filter_holds f (bucket_elems b), s1).
Proof.
  intros tag fuel b f Hs Hl. induction f as [p|f1 IH1|f1 IH1 f2 IH2|f1 IH1 f2 IH2]; intros Hwf prev; cbn [eval_filter filter_holds].
  - rewrite reopen_is_fresh_lemma. destruct (ss_open_R tag b) as [s0 [Ho HR]]. unfold seg_has. rewrite Ho. cbn [bind].
    apply eval_pred_spec; assumption.
  - destruct (IH1 Hwf prev) as [s1 H1]. rewrite H1. cbn [bind fst snd]. eexists; reflexivity.
  - destruct Hwf as [Hw1 Hw2]. destruct (IH1 Hw1 prev) as [s1 H1]. rewrite H1. cbn [bind fst snd].
    destruct (filter_holds f1 (bucket_elems b)); cbn [andb]; [apply IH2; exact Hw2 | eexists; reflexivity].
  - destruct Hwf as [Hw1 Hw2]. destruct (IH1 Hw1 prev) as [s1 H1]. rewrite H1. cbn [bind fst snd].
    destruct (filter_holds f1 (bucket_elems b)); cbn [orb]; [eexists; reflexivity | apply IH2; exact Hw2].
Qed.

Lemma scan_from_spec : forall tag fuel f, filter_wf f ->
  forall rows prev, rows_ok fuel rows ->
  scan_from tag ss_reopen fuel f prev rows = Ok (scan_spec f rows).
Proof.
  intros tag fuel f Hwf. induction rows as [|[id b] rest IH]; intros prev Hok; [reflexivity|].
  cbn [scan_from].
  destruct (Hok id b (or_introl eq_refl)) as [Hs Hl].
  destruct (eval_filter_spec tag fuel b f Hs Hl Hwf prev) as [s1 He]. rewrite He. cbn [bind fst snd].
  rewrite IH; [|intros id' b' Hin; apply (Hok id' b'); right; exact Hin]. cbn [bind].
  unfold scan_spec. cbn [filter snd]. destruct (filter_holds f (bucket_elems b)); reflexivity.
Qed.

Lemma scan_run_spec : forall tag fuel f rows, filter_wf f -> rows_ok fuel rows ->
  scan_run tag fuel f rows = Ok (scan_spec f rows).
Proof. intros. apply scan_from_spec; assumption. Qed.
