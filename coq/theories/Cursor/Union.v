(* C14 - ast.unionSetCursor (ast/cursors.go) over two arbitrary wrapped ast.SetCursors.
   The cursor keeps its own [current []byte]; nil means exhausted. *)
From Coq Require Import List NArith Bool Arith.
From Storage Require Import Base.Bytes Cursor.Core Cursor.Filtered.
Import ListNotations.
Open Scope nat_scope.

Section Union.
  Variables S1 S2 : Type.
  Variable W1 : scursor S1.
  Variable W2 : scursor S2.
  Variable forward : bool.

  Record ustate := mkU { u_cur : gobytes; u_fst : S1; u_snd : S2 }.

  (* func (cursor *unionSetCursor) Next() *)
  Definition u_next (u : ustate) : res ustate :=
    if negb (s_valid W1 (u_fst u)) then
      (* if !cursor.fst.IsValid() { *)
      if s_valid W2 (u_snd u) then
        (* cursor.current = cursor.snd.Current(); cursor.snd.Next() *)
        bind (s_current W2 (u_snd u)) (fun c =>
        bind (s_next W2 (u_snd u)) (fun s2 => Ok (mkU c (u_fst u) s2)))
      else Ok (mkU None (u_fst u) (u_snd u))            (* cursor.current = nil // end of cursor *)
    else if negb (s_valid W2 (u_snd u)) then
      (* cursor.current = cursor.fst.Current(); cursor.fst.Next() *)
      bind (s_current W1 (u_fst u)) (fun c =>
      bind (s_next W1 (u_fst u)) (fun s1 => Ok (mkU c s1 (u_snd u))))
    else
      bind (s_current W1 (u_fst u)) (fun c1 =>
      bind (s_current W2 (u_snd u)) (fun c2 =>
        (* cmp := bytes.Compare(cursor.fst.Current(), cursor.snd.Current()) *)
        match str_cmp (gb_str c1) (gb_str c2) with
        | Eq =>   (* same: advance both and only use one value *)
            bind (s_next W1 (u_fst u)) (fun s1 =>
            bind (s_next W2 (u_snd u)) (fun s2 => Ok (mkU c1 s1 s2)))
        | Lt =>
            if forward
            then bind (s_next W1 (u_fst u)) (fun s1 => Ok (mkU c1 s1 (u_snd u)))
            else bind (s_next W2 (u_snd u)) (fun s2 => Ok (mkU c2 (u_fst u) s2))
        | Gt =>
            if forward
            then bind (s_next W2 (u_snd u)) (fun s2 => Ok (mkU c2 (u_fst u) s2))
            else bind (s_next W1 (u_fst u)) (fun s1 => Ok (mkU c1 s1 (u_snd u)))
        end)).

  Definition u_valid (u : ustate) : bool := negb (gb_is_nil (u_cur u)).    (* cursor.current != nil *)
  Definition u_current (u : ustate) : res gobytes := Ok (u_cur u).
  Definition union_cursor : scursor ustate := mkS u_next u_valid u_current.

  (* NewUnionSetCursor: result := &unionSetCursor{fst, snd, forward}; result.Next() *)
  Definition u_open (s1 : S1) (s2 : S2) : res ustate := u_next (mkU None s1 s2).
End Union.
Arguments mkU {S1 S2}.
Arguments u_cur {S1 S2}. Arguments u_fst {S1 S2}. Arguments u_snd {S1 S2}.

(* the specification: merge of two enumeration lists in direction [fw], equal heads once *)
Fixpoint merge (fw : bool) (l1 : list str) : list str -> list str :=
  fix merge2 (l2 : list str) : list str :=
    match l1, l2 with
    | [], _ => l2
    | _, [] => l1
    | x :: r1, y :: r2 =>
        match str_cmp x y with
        | Eq => x :: merge fw r1 r2
        | Lt => if fw then x :: merge fw r1 l2 else y :: merge2 r2
        | Gt => if fw then y :: merge2 r2 else x :: merge fw r1 l2
        end
    end.
