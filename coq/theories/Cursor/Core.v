(* C14 - shared vocabulary of the cursor models (no proofs in this file).

   Go side                               model
   -------                               -----
   []byte (nil or not)                   [gobytes] = option str, None = nil slice
   ast.SetCursor                         [scursor St]  (Next / IsValid / Current over a state S)
   ast.SeekableSetCursor                 [kcursor St]  (+ Seek)
   nil dereference / failed assertion    [Panic]
   loop the model bounds by fuel         [OutOfFuel] when the fuel runs out (excluded by theorems)

   The *specification* every cursor is compared with is the abstract position machine of
   DESIGN.md appendix A3: a position [pos : option nat] into the enumeration list L (the
   sorted set for forward cursors, the reversed sorted set for reverse cursors). *)
From Coq Require Import List NArith Bool Arith.
From Storage Require Import Base.Bytes.
Import ListNotations.
Open Scope nat_scope.

Inductive res (A : Type) : Type :=
| Ok (a : A)
| Panic
| OutOfFuel.
Arguments Ok {A} a.
Arguments Panic {A}.
Arguments OutOfFuel {A}.

Definition gobytes := option str.
Definition gb_str (b : gobytes) : str := match b with Some s => s | None => [] end.
Definition gb_is_nil (b : gobytes) : bool := match b with None => true | Some _ => false end.
(* bytes.Equal: a nil slice equals an empty one *)
Definition gb_equal (a b : gobytes) : bool := str_eqb (gb_str a) (gb_str b).

(* operations a client may interleave on a cursor, and what it can observe after each *)
Inductive cop := CNext | CSeek (v : str).
Inductive obs :=
| OInvalid             (* IsValid() = false *)
| OCur (v : str)       (* IsValid() = true, Current() = v (nil and empty both read as "") *)
| OPanic
| OFuel.

Record scursor (St : Type) := mkS {
  s_next : St -> res St;
  s_valid : St -> bool;
  s_current : St -> res gobytes }.
Arguments mkS {St}. Arguments s_next {St}. Arguments s_valid {St}. Arguments s_current {St}.

Record kcursor (St : Type) := mkK {
  k_next : St -> res St;
  k_seek : str -> St -> res St;
  k_valid : St -> bool;
  k_current : St -> res gobytes }.
Arguments mkK {St}. Arguments k_next {St}. Arguments k_seek {St}. Arguments k_valid {St}. Arguments k_current {St}.

Definition plain {St} (K : kcursor St) : scursor St := mkS (k_next K) (k_valid K) (k_current K).

(* what a client sees: IsValid(), and Current() only when valid (as every caller in the library does) *)
Definition observe {St} (C : scursor St) (s : St) : obs :=
  if s_valid C s then
    match s_current C s with Ok b => OCur (gb_str b) | Panic => OPanic | OutOfFuel => OFuel end
  else OInvalid.

Definition fail_obs {A} (r : res A) : obs := match r with Panic => OPanic | _ => OFuel end.

Definition kstep {St} (K : kcursor St) (s : St) (o : cop) : res St :=
  match o with CNext => k_next K s | CSeek v => k_seek K v s end.

(* observations after each operation; once an operation panics everything after is OPanic *)
Fixpoint krun_from {St} (K : kcursor St) (s : St) (ops : list cop) : list obs :=
  match ops with
  | [] => []
  | o :: r =>
      match kstep K s o with
      | Ok s' => observe (plain K) s' :: krun_from K s' r
      | bad => repeat (fail_obs bad) (length ops)
      end
  end.

(* [init] is the result of the constructor; the first observation is taken right after it *)
Definition krun {St} (K : kcursor St) (init : res St) (ops : list cop) : list obs :=
  match init with
  | Ok s => observe (plain K) s :: krun_from K s ops
  | bad => repeat (fail_obs bad) (S (length ops))
  end.

(* non-seekable cursors: only Next, [n] times *)
Fixpoint srun_from {St} (C : scursor St) (s : St) (n : nat) : list obs :=
  match n with
  | O => []
  | S m =>
      match s_next C s with
      | Ok s' => observe C s' :: srun_from C s' m
      | bad => repeat (fail_obs bad) n
      end
  end.

Definition srun {St} (C : scursor St) (init : res St) (n : nat) : list obs :=
  match init with
  | Ok s => observe C s :: srun_from C s n
  | bad => repeat (fail_obs bad) (S n)
  end.

(* the loop  for c.IsValid() { collect c.Current(); c.Next() }  with fuel *)
Fixpoint drain {St} (C : scursor St) (fuel : nat) (s : St) : res (list str) :=
  match fuel with
  | O => OutOfFuel
  | S k =>
      if s_valid C s then
        match s_current C s with
        | Ok b =>
            match s_next C s with
            | Ok s' => match drain C k s' with Ok l => Ok (gb_str b :: l) | bad => bad end
            | Panic => Panic | OutOfFuel => OutOfFuel
            end
        | Panic => Panic | OutOfFuel => OutOfFuel
        end
      else Ok []
  end.

Definition drain_init {St} (C : scursor St) (fuel : nat) (init : res St) : res (list str) :=
  match init with Ok s => drain C fuel s | Panic => Panic | OutOfFuel => OutOfFuel end.

(* ---- specification: the abstract position machine (DESIGN.md A3) ------------------------- *)

Section Spec.
  (* [leb v x]: element x is at or after the seek target v in enumeration order *)
  Variable leb : str -> str -> bool.
  Variable L : list str.

  Fixpoint lower_bound (v : str) (l : list str) : nat :=
    match l with [] => 0 | x :: r => if leb v x then 0 else S (lower_bound v r) end.

  Definition apos := option nat.
  Definition norm (i : nat) : apos := if Nat.ltb i (length L) then Some i else None.
  Definition afirst : apos := norm 0.
  Definition astep (p : apos) (o : cop) : apos :=
    match o with
    | CNext => match p with Some i => norm (S i) | None => None end
    | CSeek v => norm (lower_bound v L)
    end.
  Definition aobs (p : apos) : obs :=
    match p with
    | Some i => match nth_error L i with Some x => OCur x | None => OInvalid end
    | None => OInvalid
    end.
  Fixpoint spec_from (p : apos) (ops : list cop) : list obs :=
    match ops with [] => [] | o :: r => let p' := astep p o in aobs p' :: spec_from p' r end.
  Definition spec_run (ops : list cop) : list obs := aobs afirst :: spec_from afirst ops.

  (* the same machine with the remaining suffix of L as its state (used by the proofs) *)
  Fixpoint drop_until (v : str) (l : list str) : list str :=
    match l with [] => [] | x :: r => if leb v x then l else drop_until v r end.
  Definition rstep (rem : list str) (o : cop) : list str :=
    match o with CNext => tl rem | CSeek v => drop_until v L end.
  Definition robs (rem : list str) : obs := match rem with [] => OInvalid | x :: _ => OCur x end.
  Fixpoint rspec_from (rem : list str) (ops : list cop) : list obs :=
    match ops with [] => [] | o :: r => let rem' := rstep rem o in robs rem' :: rspec_from rem' r end.
  Definition rspec_run (ops : list cop) : list obs := robs L :: rspec_from L ops.
End Spec.

Definition fwd_leb (v x : str) : bool := str_leb v x.       (* forward: first element >= v *)
Definition rev_leb (v x : str) : bool := str_leb x v.       (* reverse: first (= largest) element <= v *)
Definition dir_leb (fw : bool) : str -> str -> bool := if fw then fwd_leb else rev_leb.
(* enumeration list of a sorted set in direction [fw] *)
Definition dir_list (fw : bool) (l : list str) : list str := if fw then l else rev l.

(* what the property says about Seek, stated without positions *)
Definition seek_target (fw : bool) (l : list str) (v : str) : option str :=
  find (dir_leb fw v) (dir_list fw l).
Definition obs_of_option (o : option str) : obs := match o with Some x => OCur x | None => OInvalid end.

(* Next-only specification trace of length S n : the elements of L, then invalid for ever *)
Definition enum_trace (L : list str) (n : nat) : list obs :=
  firstn (S n) (map OCur L ++ repeat OInvalid (S n)).

(* ---- refinement relations (hypotheses for the wrapping cursors, conclusions for the adapters) *)

(* [R s rem]: in state s the cursor still has exactly [rem] to deliver, head = current *)
Record sim {St} (C : scursor St) (R : St -> list str -> Prop) : Prop := {
  sim_obs : forall s rem, R s rem -> observe C s = robs rem;
  sim_next : forall s rem, R s rem -> exists s', s_next C s = Ok s' /\ R s' (tl rem) }.

Record ksim {St} (K : kcursor St) (leb : str -> str -> bool) (L : list str) (R : St -> list str -> Prop) : Prop := {
  ks_sim : sim (plain K) R;
  ks_seek : forall s rem v, R s rem -> exists s', k_seek K v s = Ok s' /\ R s' (drop_until leb v L) }.

(* Current() of a valid position is never the nil slice (needed by cursors that use nil as
   their own end marker, i.e. unionSetCursor) *)
Definition nonnil {St} (C : scursor St) (R : St -> list str -> Prop) : Prop :=
  forall s x rem, R s (x :: rem) -> exists y, s_current C s = Ok (Some y).
