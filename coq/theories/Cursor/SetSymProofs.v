(* The hand-out sites: entitySetSymbolRuntime, the typed and raw hand-outs that may return the
   emptyCursor, IteratorMatchingAllOf / IteratorMatchingAnyOf. *)
From Coq Require Import List NArith Bool Arith Lia Sorting.Sorted.
From Storage Require Import Base.Bytes Cursor.StrOrder Cursor.Core Cursor.CoreProofs Cursor.BoltCursor
  Cursor.BoltCursorProofs Cursor.Typed Cursor.TypedProofs Cursor.Filtered Cursor.FilteredProofs
  Cursor.Union Cursor.Tree Cursor.TreeProofs Cursor.SetSym Cursor.Cases.
Import ListNotations.
Open Scope nat_scope.

(* ---- entitySetSymbolRuntime ---------------------------------------------------------------- *)

Section SetSymProofs.
  Variable tag : byte.
  Variable b : option (list str).
  Let l := bucket_elems b.
  Let keys := tagged tag l.

  Definition R_ss (s : ss) (rem : list str) : Prop :=
    if ss_has s then R_fwd keys (mkBc (ss_idx s) (ss_value s)) (tagged tag rem)
    else ss_value s = None /\ rem = [] /\ l = [].

  Lemma gtv_tagged : forall x, gb_str (get_type_and_value (Some (tag :: x))) = x.
  Proof. intros [|y x]; reflexivity. Qed.

  Lemma ss_ksim : ksim (setsym_cursor tag keys) fwd_leb l R_ss.
  Proof.
    constructor; [constructor|].
    - intros s rem H. unfold R_ss in H. unfold observe; simpl. unfold ss_valid, ss_current.
      destruct (ss_has s).
      + destruct rem as [|x r]; simpl in H; destruct H as [H1 H2]; simpl in *.
        * rewrite H1. reflexivity.
        * rewrite H2. cbn [gb_is_nil negb]. cbv iota. rewrite gtv_tagged. reflexivity.
      + destruct H as [H1 [H2 _]]. rewrite H1. subst. reflexivity.
    - intros s rem H. unfold R_ss in H. simpl s_next. unfold ss_next.
      destruct (ss_has s) eqn:Eh.
      + destruct (fwd_next_R keys _ _ H) as [s' [En HR]]. unfold fwd_next in En. inversion En; subst s'.
        eexists. split; [reflexivity|]. unfold R_ss. simpl. rewrite <- tagged_tl. exact HR.
      + exists s. split; [reflexivity|]. unfold R_ss. rewrite Eh. destruct H as [H1 [H2 H3]]. subst rem. simpl. auto.
    - intros s rem v H. unfold R_ss in H. simpl k_seek. unfold ss_seek_string, ss_seek_raw.
      destruct (ss_has s) eqn:Eh.
      + destruct (fwd_seek_R keys _ _ (prepend_field_type tag v) H) as [s' [En HR]]. unfold fwd_seek in En. inversion En; subst s'.
        eexists. split; [reflexivity|]. unfold R_ss. simpl.
        rewrite <- (drop_until_tagged true). exact HR.
      + exists s. split; [reflexivity|]. unfold R_ss. rewrite Eh. destruct H as [H1 [H2 H3]].
        rewrite H3. simpl. auto.
  Qed.

End SetSymProofs.

Lemma ss_open_R : forall tag b, exists s0,
  ss_open (tagged tag (bucket_elems b)) (match b with Some _ => true | None => false end) = Ok s0 /\
  R_ss tag b s0 (bucket_elems b).
Proof.
  intros tag b. unfold ss_open. destruct b as [l0|].
  - eexists. split; [reflexivity|]. unfold R_ss. simpl.
    destruct (fwd_open_R (tagged tag l0)) as [s0 [Ho HR]]. unfold fwd_open in Ho. inversion Ho; subst s0. exact HR.
  - eexists. split; [reflexivity|]. unfold R_ss. simpl. auto.
Qed.

Lemma setsym_run_spec : forall tag b ops,
  setsym_run tag b ops = rspec_run fwd_leb (bucket_elems b) ops.
Proof.
  intros tag b ops. unfold setsym_run. destruct (ss_open_R tag b) as [s0 [Ho HR]]. rewrite Ho.
  eapply krun_sim; [apply ss_ksim | exact HR].
Qed.

(* the raw Seek of the runtime symbol, given the stored key of v, is SeekToString v *)
Lemma ss_seek_raw_tagged : forall tag keys v s,
  ss_seek_raw keys (prepend_field_type tag v) s = ss_seek_string tag keys v s.
Proof. reflexivity. Qed.

(* ---- typed / raw hand-outs that may be the emptyCursor ---------------------------------------- *)

Lemma dir_list_nil : forall fw, dir_list fw [] = [].
Proof. intros [|]; reflexivity. Qed.

Section Handouts.
  Variable tag : byte.
  Variable b : option (list str).
  Hypothesis b_sorted : sorted_asc (bucket_elems b).
  Let l := bucket_elems b.

  Definition R_hand (fw : bool) : option bc -> list str -> Prop :=
    R_opt bc (dir_list fw l) (R_typed tag l fw).

  Lemma hand_ksim : forall fw, ksim (handout_cursor fw tag b) (dir_leb fw) (dir_list fw l) (R_hand fw).
  Proof. intro fw. unfold handout_cursor, R_hand. apply opt_ksim. apply typed_ksim. exact b_sorted. Qed.

  Lemma hand_nonnil : forall fw, nonnil (plain (handout_cursor fw tag b)) (R_hand fw).
  Proof. intro fw. unfold handout_cursor, R_hand. apply opt_nonnil. apply typed_nonnil. exact b_sorted. Qed.

  Definition R_rawhand (fw : bool) : option bc -> list str -> Prop :=
    R_opt bc (dir_list fw l) (if fw then R_fwd l else R_rev l).

  Lemma rawhand_ksim : forall fw, ksim (rawhand_cursor fw b) (dir_leb fw) (dir_list fw l) (R_rawhand fw).
  Proof.
    intros [|]; unfold rawhand_cursor, R_rawhand; apply opt_ksim; simpl.
    - apply fwd_ksim.
    - apply rev_ksim. exact b_sorted.
  Qed.

End Handouts.

Lemma hand_open_R : forall tag b (Hs : sorted_asc (bucket_elems b)) fw, exists s0,
  handout_open fw tag b = Ok s0 /\ R_hand tag b fw s0 (dir_list fw (bucket_elems b)).
Proof.
  intros tag b Hs fw. unfold handout_open, R_hand. destruct b as [l0|]; simpl bucket_elems in *.
  - destruct (typed_open_R tag l0 Hs fw) as [s0 [Ho HR]]. rewrite Ho.
    exists (Some s0). split; [reflexivity | exact HR].
  - exists None. split; [reflexivity|]. simpl. rewrite dir_list_nil. auto.
Qed.

Lemma rawhand_open_R : forall b (Hs : sorted_asc (bucket_elems b)) fw, exists s0,
  rawhand_open fw b = Ok s0 /\ R_rawhand b fw s0 (dir_list fw (bucket_elems b)).
Proof.
  intros b Hs fw. unfold rawhand_open, R_rawhand. destruct b as [l0|]; simpl bucket_elems in *.
  - destruct fw.
    + destruct (fwd_open_R l0) as [s0 [Ho HR]]. exists (Some s0).
      split; [unfold fwd_open in Ho; inversion Ho; reflexivity | exact HR].
    + destruct (rev_open_R l0 Hs) as [s0 [Ho HR]]. exists (Some s0).
      split; [unfold rev_open in Ho; inversion Ho; reflexivity | exact HR].
  - exists None. split; [reflexivity|]. simpl. rewrite dir_list_nil. auto.
Qed.

Lemma handout_run_spec : forall fw tag b ops, sorted_asc (bucket_elems b) ->
  handout_run fw tag b ops = rspec_run (dir_leb fw) (dir_list fw (bucket_elems b)) ops.
Proof.
  intros fw tag b ops Hs. unfold handout_run. destruct (hand_open_R tag b Hs fw) as [s0 [Ho HR]]. rewrite Ho.
  eapply krun_sim; [apply hand_ksim; exact Hs | exact HR].
Qed.

Lemma rawhand_run_spec : forall fw b ops, sorted_asc (bucket_elems b) ->
  rawhand_run fw b ops = rspec_run (dir_leb fw) (dir_list fw (bucket_elems b)) ops.
Proof.
  intros fw b ops Hs. unfold rawhand_run. destruct (rawhand_open_R b Hs fw) as [s0 [Ho HR]]. rewrite Ho.
  eapply krun_sim; [apply rawhand_ksim; exact Hs | exact HR].
Qed.

Lemma empty_run_spec : forall leb ops, empty_run ops = rspec_run leb [] ops.
Proof. intros. unfold empty_run. eapply krun_sim; [apply empty_ksim | reflexivity]. Qed.

Lemma empty_srun_spec : forall leb n, srun (plain empty_cursor) (Ok tt) n = rspec_run leb [] (repeat CNext n).
Proof.
  intros. eapply srun_sim; [apply (ks_sim _ _ _ _ (empty_ksim leb)) | reflexivity].
Qed.

(* ---- IteratorMatchingAllOf ---------------------------------------------------------------------- *)

Definition index_sorted (ix : assoc) : Prop := forall v l, lookup ix v = Some l -> sorted_asc l.

Lemma index_bucket_sorted : forall ix v, index_sorted ix -> sorted_asc (bucket_elems (lookup ix v)).
Proof.
  intros ix v H. destruct (lookup ix v) as [l|] eqn:E; simpl; [eapply H; exact E | constructor].
Qed.

(* ids of the first value's bucket that also carry all the other values, in direction fw *)
Definition allof_list (ix rows : assoc) (values : list str) (fw : bool) : list str :=
  match values with
  | [] => []
  | v :: rest => filter (allof_filter rows rest) (dir_list fw (bucket_elems (lookup ix v)))
  end.

Lemma filter_all : forall (f : str -> bool) l, (forall x, f x = true) -> filter f l = l.
Proof. intros f l H. induction l as [|x l IH]; simpl; [reflexivity|]. rewrite H, IH. reflexivity. Qed.

Lemma dir_list_length : forall fw l, length (dir_list fw l) = length l.
Proof. intros [|] l; simpl; [reflexivity | apply rev_length]. Qed.

Lemma allof_run_spec : forall tag fuel ix rows values fw leb n,
  index_sorted ix ->
  (forall v, length (bucket_elems (lookup ix v)) <= fuel) ->
  allof_run tag fuel ix rows values fw n = rspec_run leb (allof_list ix rows values fw) (repeat CNext n).
Proof.
  intros tag fuel ix rows values fw leb n Hix Hfuel. unfold allof_run, allof_list.
  destruct values as [|v rest]; [apply empty_srun_spec|].
  pose proof (index_bucket_sorted ix v Hix) as Hs.
  destruct (hand_open_R tag (lookup ix v) Hs fw) as [s0 [Ho HR]].
  destruct rest as [|v2 rest].
  - rewrite filter_all by reflexivity. rewrite Ho.
    eapply srun_sim; [apply (ks_sim _ _ _ _ (hand_ksim tag (lookup ix v) Hs fw)) | exact HR].
  - rewrite Ho. unfold bind at 1.
    eapply filtered_run_spec; [apply (ks_sim _ _ _ _ (hand_ksim tag (lookup ix v) Hs fw)) | exact HR |].
    rewrite dir_list_length. apply Hfuel.
Qed.

(* ---- IteratorMatchingAnyOf ---------------------------------------------------------------------- *)

Definition anyof_list (ix : assoc) (values : list str) : list str :=
  match values with
  | [] => []
  | _ => sort_dedup (flat_map (fun v => bucket_elems (lookup ix v)) values)
  end.

Lemma map_gtv_tagged : forall tag (l : list str),
  map (fun id => gb_str (get_type_and_value (Some (tag :: id)))) l = l.
Proof.
  intros tag. induction l as [|x l IH]; [reflexivity|].
  simpl. f_equal; [destruct x; reflexivity | exact IH].
Qed.

Lemma index_read_str : forall tag ix v, map gb_str (index_read tag ix v) = bucket_elems (lookup ix v).
Proof. intros tag ix v. unfold index_read. rewrite map_map. apply map_gtv_tagged. Qed.

Lemma flat_map_read_str : forall tag ix values,
  map gb_str (flat_map (index_read tag ix) values) = flat_map (fun v => bucket_elems (lookup ix v)) values.
Proof.
  intros tag ix. induction values as [|v values IH]; simpl; [reflexivity|].
  rewrite map_app, IH, index_read_str. reflexivity.
Qed.

Lemma sort_dedup_sorted_id : forall l, sorted_asc l -> sort_dedup l = l.
Proof.
  intros l H. apply (sorted_dir_unique true); [apply sort_dedup_sorted | exact H | apply sort_dedup_in].
Qed.

Lemma anyof_run_spec : forall tag ix values fw leb n,
  index_sorted ix ->
  anyof_run tag ix values fw n = rspec_run leb (dir_list fw (anyof_list ix values)) (repeat CNext n).
Proof.
  intros tag ix values fw leb n Hix. unfold anyof_run, anyof_list.
  destruct values as [|v rest]; [rewrite dir_list_nil; apply empty_srun_spec|].
  destruct rest as [|v2 rest].
  - pose proof (index_bucket_sorted ix v Hix) as Hs.
    destruct (hand_open_R tag (lookup ix v) Hs fw) as [s0 [Ho HR]]. rewrite Ho.
    simpl flat_map. rewrite app_nil_r. rewrite sort_dedup_sorted_id by exact Hs.
    eapply srun_sim; [apply (ks_sim _ _ _ _ (hand_ksim tag (lookup ix v) Hs fw)) | exact HR].
  - rewrite (tree_run_spec _ leb). unfold anyof_tree.
    fold (tkeys (treeset_of fw (flat_map (index_read tag ix) (v :: v2 :: rest)))).
    rewrite treeset_keys. rewrite flat_map_read_str. reflexivity.
Qed.
