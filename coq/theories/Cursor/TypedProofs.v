(* The repaired typed cursors refine the suffix machine over the untagged elements: they are the raw
   adapters over the tagged keys, seen through the projection that strips the tag. *)
From Coq Require Import List NArith Bool Arith Lia Sorting.Sorted.
From Storage Require Import Base.Bytes Cursor.StrOrder Cursor.Core Cursor.CoreProofs Cursor.BoltCursor
  Cursor.BoltCursorProofs Cursor.Typed Cursor.Filtered.
Import ListNotations.
Open Scope nat_scope.

Lemma drop_until_tagged : forall fw tag v L,
  drop_until (dir_leb fw) (tag :: v) (tagged tag L) = tagged tag (drop_until (dir_leb fw) v L).
Proof.
  intros fw tag v. induction L as [|x L IH]; simpl; [reflexivity|].
  assert (E : dir_leb fw (tag :: v) (tag :: x) = dir_leb fw v x).
  { destruct fw; simpl; unfold fwd_leb, rev_leb; apply str_leb_cons. }
  rewrite E. destruct (dir_leb fw v x); [reflexivity | exact IH].
Qed.

Lemma tagged_tl : forall tag l, tl (tagged tag l) = tagged tag (tl l).
Proof. intros tag l. destruct l; reflexivity. Qed.

Lemma tagged_rev : forall tag l, tagged tag (rev l) = rev (tagged tag l).
Proof. intros. unfold tagged. apply map_rev. Qed.

Definition pi (s : bc) : bc := mkBc (bc_idx s) (strip_field_type (bc_key s)).

Section Lift.
  Variable tag : byte.
  Variables K T : kcursor bc.
  Variable fw : bool.
  Variable L : list str.
  Variable R : bc -> list str -> Prop.
  Hypothesis HK : ksim K (dir_leb fw) (tagged tag L) R.
  Hypothesis HKv : k_valid K = bc_valid.
  Hypothesis HKc : k_current K = bc_current.
  Hypothesis HTv : k_valid T = bc_valid.
  Hypothesis HTc : k_current T = bc_current.
  Hypothesis Hnext : forall s, k_next T (pi s) = rmap pi (k_next K s).
  Hypothesis Hseek : forall v s, k_seek T v (pi s) = rmap pi (k_seek K (tag :: v) s).

  Definition R_t (ts : bc) (rem : list str) : Prop := exists s, ts = pi s /\ R s (tagged tag rem).

  Lemma raw_key_nil : forall s, R s [] -> bc_key s = None.
  Proof.
    intros s H. pose proof (sim_obs _ _ (ks_sim _ _ _ _ HK) _ _ H) as Ho.
    apply observe_invalid_inv in Ho. simpl in Ho. rewrite HKv in Ho. unfold bc_valid in Ho.
    destruct (bc_key s); [discriminate | reflexivity].
  Qed.

  Lemma raw_key_cons : forall s y rem, R s (y :: rem) -> bc_key s = Some y.
  Proof.
    intros s y rem H. pose proof (sim_obs _ _ (ks_sim _ _ _ _ HK) _ _ H) as Ho.
    apply observe_cur_inv in Ho. destruct Ho as [Hv [b [Hc Hb]]]. simpl in Hv, Hc.
    rewrite HKv in Hv. rewrite HKc in Hc. unfold bc_valid in Hv. unfold bc_current in Hc.
    inversion Hc; subst b. destruct (bc_key s) as [k|]; [|discriminate]. simpl in Hb. subst. reflexivity.
  Qed.

  Lemma lift_obs : forall ts rem, R_t ts rem -> observe (plain T) ts = robs rem.
  Proof.
    intros ts rem [s [E H]]. subst ts. unfold observe; simpl. rewrite HTv, HTc. unfold bc_valid, bc_current, pi; simpl.
    destruct rem as [|x r]; simpl in H.
    - rewrite (raw_key_nil _ H). reflexivity.
    - rewrite (raw_key_cons _ _ _ H). reflexivity.
  Qed.

  Lemma lift_ksim : ksim T (dir_leb fw) L R_t.
  Proof.
    constructor; [constructor|].
    - exact lift_obs.
    - intros ts rem [s [E H]]. subst ts.
      destruct (sim_next _ _ (ks_sim _ _ _ _ HK) _ _ H) as [s' [Hn HR]]. simpl in Hn.
      exists (pi s'). split; [simpl; rewrite Hnext, Hn; reflexivity|].
      exists s'. split; [reflexivity|]. rewrite <- tagged_tl. exact HR.
    - intros ts rem v [s [E H]]. subst ts.
      destruct (ks_seek _ _ _ _ HK _ _ (tag :: v) H) as [s' [Hn HR]].
      exists (pi s'). split; [rewrite Hseek, Hn; reflexivity|].
      exists s'. split; [reflexivity|]. rewrite <- drop_until_tagged. exact HR.
  Qed.

  Lemma lift_nonnil : nonnil (plain T) R_t.
  Proof.
    intros ts x rem [s [E H]]. subst ts. simpl in H. exists x. simpl. rewrite HTc. unfold bc_current, pi; simpl.
    rewrite (raw_key_cons _ _ _ H). reflexivity.
  Qed.
End Lift.

(* ---- the two instances -------------------------------------------------------------------- *)

Section Instances.
  Variable tag : byte.
  Variable l : list str.
  Hypothesis l_sorted : sorted_asc l.
  Let keys := tagged tag l.

  Definition R_typed (fw : bool) : bc -> list str -> Prop :=
    if fw then R_t tag (R_fwd keys) else R_t tag (R_rev keys).

  Lemma tf_ksim : ksim (tf_cursor strip_field_type tag keys) fwd_leb l (R_t tag (R_fwd keys)).
  Proof.
    apply (lift_ksim tag (fwd_cursor keys) (tf_cursor strip_field_type tag keys) true l (R_fwd keys));
      try reflexivity.
    apply fwd_ksim.
  Qed.

  Lemma keys_sorted : sorted_asc keys.
  Proof. unfold keys, tagged. apply sorted_dir_map_cons. exact l_sorted. Qed.

  Lemma tr_seek_pi : forall v s,
    tr_seek strip_field_type tag keys v (pi s) = rmap pi (rev_seek keys (tag :: v) s).
  Proof.
    intros v s. unfold tr_seek, rev_seek, prepend_field_type. cbv zeta.
    destruct (b_seek keys (tag :: v)) as [i k]. cbn [fst snd]. unfold gb_equal.
    destruct k as [[|c r]|]; cbn [gb_str]; try reflexivity.
    destruct (str_eqb (tag :: v) (c :: r)); reflexivity.
  Qed.

  Lemma tr_ksim : ksim (tr_cursor strip_field_type tag keys) rev_leb (rev l) (R_t tag (R_rev keys)).
  Proof.
    apply (lift_ksim tag (rev_cursor keys) (tr_cursor strip_field_type tag keys) false (rev l) (R_rev keys));
      try reflexivity.
    - rewrite tagged_rev. apply rev_ksim. exact keys_sorted.
    - exact tr_seek_pi.
  Qed.

  Lemma typed_ksim : forall fw, ksim (typed_cursor fw tag keys) (dir_leb fw) (dir_list fw l) (R_typed fw).
  Proof. intros [|]; [exact tf_ksim | exact tr_ksim]. Qed.

  Lemma typed_open_R : forall fw, exists s0, typed_open fw keys = Ok s0 /\ R_typed fw s0 (dir_list fw l).
  Proof.
    intros [|]; simpl.
    - destruct (fwd_open_R keys) as [s0 [Ho HR]]. exists (pi s0). split.
      + unfold tf_open. unfold fwd_open in Ho. inversion Ho. reflexivity.
      + exists s0. split; [reflexivity | exact HR].
    - destruct (rev_open_R keys keys_sorted) as [s0 [Ho HR]]. exists (pi s0). split.
      + unfold tr_open. unfold rev_open in Ho. inversion Ho. reflexivity.
      + exists s0. split; [reflexivity|]. rewrite tagged_rev. exact HR.
  Qed.

  Lemma typed_nonnil : forall fw, nonnil (plain (typed_cursor fw tag keys)) (R_typed fw).
  Proof.
    intros [|]; simpl.
    - apply (lift_nonnil tag (fwd_cursor keys) (tf_cursor strip_field_type tag keys) true l (R_fwd keys));
        try reflexivity. apply fwd_ksim.
    - apply (lift_nonnil tag (rev_cursor keys) (tr_cursor strip_field_type tag keys) false (rev l) (R_rev keys));
        try reflexivity. rewrite tagged_rev. apply rev_ksim. exact keys_sorted.
  Qed.
End Instances.

Lemma typed_run_spec : forall fw tag l ops, sorted_asc l ->
  typed_run fw tag l ops = rspec_run (dir_leb fw) (dir_list fw l) ops.
Proof.
  intros fw tag l ops Hs. unfold typed_run.
  destruct (typed_open_R tag l Hs fw) as [s0 [Ho HR]]. rewrite Ho.
  eapply krun_sim; [apply typed_ksim; exact Hs | exact HR].
Qed.
