(* The compositions of Cursor/Cases.v (what the harness runs) meet the specification, and the
   generic corollaries: position-machine form, closed-form enumeration trace, Seek observation. *)
From Coq Require Import List NArith Bool Arith Lia Sorting.Sorted.
From Storage Require Import Base.Bytes Cursor.StrOrder Cursor.Core Cursor.CoreProofs Cursor.BoltCursor
  Cursor.BoltCursorProofs Cursor.Typed Cursor.TypedProofs Cursor.Filtered Cursor.FilteredProofs
  Cursor.Union Cursor.UnionProofs Cursor.Tree Cursor.TreeProofs Cursor.SetSym Cursor.SetSymProofs Cursor.Cases.
Import ListNotations.
Open Scope nat_scope.

(* ---- from the suffix-machine equation to the three property statements ------------------------ *)

Lemma props_of_rspec : forall (run : list cop -> list obs) leb L,
  (forall ops, run ops = rspec_run leb L ops) ->
  (forall ops, run ops = spec_run leb L ops) /\
  (forall n, run (repeat CNext n) = enum_trace L n) /\
  (forall ops v, last (run (ops ++ [CSeek v])) OInvalid = obs_of_option (find (leb v) L)).
Proof.
  intros run leb L H. split; [|split].
  - intro ops. rewrite H. symmetry. apply spec_run_rspec.
  - intro n. rewrite H. apply rspec_run_next_only.
  - intros ops v. rewrite H. apply rspec_run_seek_last.
Qed.

Lemma nprops_of_rspec : forall (run : nat -> list obs) leb L,
  (forall n, run n = rspec_run leb L (repeat CNext n)) ->
  (forall n, run n = spec_run leb L (repeat CNext n)) /\ (forall n, run n = enum_trace L n).
Proof.
  intros run leb L H. split; intro n; rewrite H; [symmetry; apply spec_run_rspec | apply rspec_run_next_only].
Qed.

(* ---- list facts ----------------------------------------------------------------------------------- *)

Lemma filter_rev' : forall (f : str -> bool) l, filter f (rev l) = rev (filter f l).
Proof.
  intros f. induction l as [|x l IH]; simpl; [reflexivity|].
  rewrite filter_app, IH. simpl. destruct (f x); simpl; [reflexivity | apply app_nil_r].
Qed.

Lemma filter_dir_list : forall (f : str -> bool) fw l, filter f (dir_list fw l) = dir_list fw (filter f l).
Proof. intros f [|] l; simpl; [reflexivity | apply filter_rev']. Qed.

Lemma mem_in : forall x l, mem x l = true <-> In x l.
Proof.
  intros x l. unfold mem. rewrite existsb_exists. split.
  - intros [y [Hy E]]. apply str_eqb_eq in E. subst. exact Hy.
  - intro H. exists x. split; [exact H | apply str_eqb_refl].
Qed.

Lemma sorted_filter : forall fw (f : str -> bool) l, sorted_dir fw l -> sorted_dir fw (filter f l).
Proof.
  intros fw f. induction l as [|x l IH]; intro H; simpl; [constructor|].
  pose proof (sorted_dir_tail _ _ _ H) as T. pose proof (sorted_dir_head _ _ _ H) as F.
  destruct (f x); [|apply IH; exact T].
  constructor; [apply IH; exact T|]. rewrite Forall_forall in *. intros z Hz. apply filter_In in Hz. apply F. tauto.
Qed.

(* ---- filtered over typed ---------------------------------------------------------------------------- *)

Lemma filtered_typed_run_spec : forall fw tag fuel a accept leb n,
  sorted_asc a -> length a <= fuel ->
  filtered_typed_run fw tag fuel a accept n =
  rspec_run leb (dir_list fw (filter (fun x => mem x accept) a)) (repeat CNext n).
Proof.
  intros fw tag fuel a accept leb n Hs Hl. unfold filtered_typed_run.
  destruct (typed_open_R tag a Hs fw) as [s0 [Ho HR]]. rewrite Ho. unfold bind at 1.
  rewrite <- filter_dir_list.
  eapply filtered_run_spec; [apply (ks_sim _ _ _ _ (typed_ksim tag a Hs fw)) | exact HR |].
  rewrite dir_list_length. exact Hl.
Qed.

Lemma filtered_nil_run_spec : forall leb n, filtered_nil_run n = rspec_run leb [] (repeat CNext n).
Proof.
  intros leb n. unfold filtered_nil_run.
  destruct (filtered_open_none unit (plain empty_cursor) (fun _ => true) 0 R_empty) as [fs [Ho HR]].
  rewrite Ho. eapply srun_sim; [apply filtered_sim; apply (ks_sim _ _ _ _ (empty_ksim leb)) | exact HR].
Qed.

(* ---- union over typed ------------------------------------------------------------------------------ *)

Lemma merge_dir_lists : forall fw a b, sorted_asc a -> sorted_asc b ->
  merge fw (dir_list fw a) (dir_list fw b) = dir_list fw (sort_dedup (a ++ b)).
Proof.
  intros fw a b Ha Hb. apply (sorted_dir_unique fw).
  - apply merge_sorted; apply dir_list_sorted; assumption.
  - apply dir_list_sorted. apply sort_dedup_sorted.
  - intro z. rewrite merge_in, !dir_list_in, sort_dedup_in, in_app_iff. tauto.
Qed.

Lemma union_typed_run_spec : forall fw tag a b leb n, sorted_asc a -> sorted_asc b ->
  union_typed_run fw tag a b n = rspec_run leb (dir_list fw (sort_dedup (a ++ b))) (repeat CNext n).
Proof.
  intros fw tag a b leb n Ha Hb. unfold union_typed_run.
  destruct (typed_open_R tag a Ha fw) as [s1 [Ho1 HR1]]. destruct (typed_open_R tag b Hb fw) as [s2 [Ho2 HR2]].
  rewrite Ho1, Ho2. unfold bind at 1. unfold bind at 1.
  rewrite <- merge_dir_lists by assumption.
  eapply union_run_spec.
  - apply (ks_sim _ _ _ _ (typed_ksim tag a Ha fw)).
  - apply (ks_sim _ _ _ _ (typed_ksim tag b Hb fw)).
  - apply typed_nonnil. exact Ha.
  - apply typed_nonnil. exact Hb.
  - exact HR1.
  - exact HR2.
Qed.

(* union of (A filtered to the members of B) with B enumerates B *)
Lemma union_filtered_run_spec : forall fw tag fuel a b leb n, sorted_asc a -> sorted_asc b -> length a <= fuel ->
  union_filtered_run fw tag fuel a b n = rspec_run leb (dir_list fw b) (repeat CNext n).
Proof.
  intros fw tag fuel a b leb n Ha Hb Hl. unfold union_filtered_run.
  destruct (typed_open_R tag a Ha fw) as [s0 [Ho0 HR0]]. destruct (typed_open_R tag b Hb fw) as [s2 [Ho2 HR2]].
  pose proof (ks_sim _ _ _ _ (typed_ksim tag a Ha fw)) as SA.
  assert (Hl' : length (dir_list fw a) <= fuel) by (rewrite dir_list_length; exact Hl).
  destruct (filtered_open_some _ _ (fun x => mem x b) fuel _ SA s0 _ HR0 Hl') as [fs [Hof HRf]].
  rewrite Ho0. unfold bind at 1. rewrite Hof. unfold bind at 1. rewrite Ho2. unfold bind at 1.
  assert (E : dir_list fw b = merge fw (filter (fun x => mem x b) (dir_list fw a)) (dir_list fw b)).
  { apply (sorted_dir_unique fw).
    - apply dir_list_sorted. exact Hb.
    - apply merge_sorted; [apply sorted_filter|]; apply dir_list_sorted; assumption.
    - intro z. rewrite merge_in, filter_In, !dir_list_in, mem_in. tauto. }
  rewrite E at 1.
  eapply union_run_spec.
  - apply filtered_sim. exact SA.
  - apply (ks_sim _ _ _ _ (typed_ksim tag b Hb fw)).
  - apply filtered_nonnil. apply typed_nonnil. exact Ha.
  - apply typed_nonnil. exact Hb.
  - exact HRf.
  - exact HR2.
Qed.

(* ---- union over two TreeSet cursors ------------------------------------------------------------------ *)

Lemma union_tree_run_spec : forall fw a b leb n,
  union_tree_run fw a b n = rspec_run leb (dir_list fw (sort_dedup (a ++ b))) (repeat CNext n).
Proof.
  intros fw a b leb n. unfold union_tree_run.
  destruct (treeset_open_nn fw a) as [c1 [Ho1 HR1]]. destruct (treeset_open_nn fw b) as [c2 [Ho2 HR2]].
  rewrite Ho1, Ho2. unfold bind at 1. unfold bind at 1.
  assert (E : dir_list fw (sort_dedup (a ++ b)) =
              merge fw (dir_list fw (sort_dedup a)) (dir_list fw (sort_dedup b))).
  { apply (sorted_dir_unique fw).
    - apply dir_list_sorted. apply sort_dedup_sorted.
    - apply merge_sorted; apply dir_list_sorted; apply sort_dedup_sorted.
    - intro z. rewrite merge_in, !dir_list_in, !sort_dedup_in, in_app_iff. tauto. }
  rewrite E.
  eapply union_run_spec; [exact tree_sim_nn | exact tree_sim_nn | exact tree_nonnil | exact tree_nonnil | exact HR1 | exact HR2].
Qed.
