(* treeCursor enumerates the in-order sequence of ANY tree shape (the empty tree included);
   for a search tree that sequence is strictly sorted; TreeSet.Add keeps a search tree and
   the result holds exactly the added elements. *)
From Coq Require Import List NArith Bool Arith Lia Sorting.Sorted.
From Storage Require Import Base.Bytes Cursor.StrOrder Cursor.Core Cursor.CoreProofs Cursor.Filtered
  Cursor.Tree Cursor.Cases.
Import ListNotations.
Open Scope nat_scope.

Definition node_rest (n : tree) : list gobytes :=
  match n with Leaf => [] | Node _ x r => x :: inorder r end.
Definition flat (stack : list tree) : list gobytes := flat_map node_rest stack.
Definition pending (c : tcur) : list gobytes :=
  match t_cur c with Leaf => [] | Node _ x r => x :: inorder r ++ flat (t_stack c) end.
Definition stack_ok (stack : list tree) : Prop := Forall (fun n => n <> Leaf) stack.

Definition R_tree (c : tcur) (rem : list str) : Prop :=
  rem = map gb_str (pending c) /\ stack_ok (t_stack c).

Lemma descend_spec : forall node stack, node <> Leaf -> stack_ok stack ->
  exists c, t_descend node stack = Ok c /\ pending c = inorder node ++ flat stack /\ stack_ok (t_stack c).
Proof.
  induction node as [|l IHl x r _]; intros stack Hn Hs; [contradiction|].
  simpl t_descend. destruct l as [|ll lx lr].
  - eexists. split; [reflexivity|]. split; [reflexivity | exact Hs].
  - assert (Hl : Node ll lx lr <> Leaf) by discriminate.
    assert (Hs' : stack_ok (Node (Node ll lx lr) x r :: stack)) by (constructor; [discriminate | exact Hs]).
    destruct (IHl (Node (Node ll lx lr) x r :: stack) Hl Hs') as [c [E [P S]]].
    exists c. split; [exact E|]. split; [|exact S].
    rewrite P. unfold flat. simpl flat_map. change (inorder (Node (Node ll lx lr) x r)) with (inorder (Node ll lx lr) ++ x :: inorder r).
    rewrite <- app_assoc. reflexivity.
Qed.

Lemma tree_sim : sim tree_cursor R_tree.
Proof.
  constructor.
  - intros c rem [E _]. subst rem. unfold observe, pending; simpl. unfold t_valid, t_current.
    destruct (t_cur c) as [|l x r]; reflexivity.
  - intros c rem [E S]. subst rem. unfold pending. simpl s_next. unfold t_next.
    destruct (t_cur c) as [|l x r] eqn:Ec.
    + exists c. split; [reflexivity|]. split; [|exact S]. unfold pending. rewrite Ec. reflexivity.
    + simpl map. simpl tl. unfold t_next_body. destruct r as [|rl rx rr].
      * destruct (t_stack c) as [|top rest] eqn:Es.
        -- eexists. split; [reflexivity|]. split; [reflexivity | constructor].
        -- inversion S as [|? ? Htop Hrest]; subst. eexists. split; [reflexivity|]. split; [|exact Hrest].
           unfold pending. simpl t_cur. simpl t_stack. destruct top as [|tl0 tx tr]; [contradiction|].
           reflexivity.
      * assert (Hr : Node rl rx rr <> Leaf) by discriminate.
        destruct (descend_spec (Node rl rx rr) (t_stack c) Hr S) as [c' [E [P S']]].
        exists c'. split; [exact E|]. split; [|exact S'].
        fold (pending c'). rewrite P. reflexivity.
Qed.

Lemma tree_open_R : forall t, exists c, t_open t = Ok c /\ R_tree c (map gb_str (inorder t)).
Proof.
  intros [|l x r].
  - eexists. split; [reflexivity|]. split; [reflexivity | constructor].
  - assert (Hn : Node l x r <> Leaf) by discriminate.
    destruct (descend_spec (Node l x r) [] Hn (Forall_nil _)) as [c [E [P S]]].
    exists c. split; [exact E|]. split; [|exact S]. rewrite P. unfold flat. simpl. rewrite app_nil_r. reflexivity.
Qed.

Lemma tree_run_spec : forall t leb n,
  tree_run t n = rspec_run leb (map gb_str (inorder t)) (repeat CNext n).
Proof.
  intros t leb n. unfold tree_run. destruct (tree_open_R t) as [c [E HR]]. rewrite E.
  eapply srun_sim; [exact tree_sim | exact HR].
Qed.

(* ---- search trees ----------------------------------------------------------------------------- *)

Definition bst (fw : bool) (t : tree) : Prop := sorted_dir fw (tkeys t).

Lemma tkeys_node : forall l x r, tkeys (Node l x r) = tkeys l ++ gb_str x :: tkeys r.
Proof. intros. unfold tkeys. simpl. rewrite map_app. reflexivity. Qed.

Lemma dir_cmp_lt : forall fw a b, dir_cmp fw a b = Lt -> before fw a b.
Proof.
  intros [|] a b H; unfold dir_cmp in H; unfold before, str_ltb.
  - rewrite H. reflexivity.
  - rewrite (str_cmp_opp a b). destruct (str_cmp a b); simpl in *; try discriminate. reflexivity.
Qed.

Lemma dir_cmp_gt : forall fw a b, dir_cmp fw a b = Gt -> before fw b a.
Proof.
  intros [|] a b H; unfold dir_cmp in H; unfold before, str_ltb.
  - rewrite (str_cmp_opp a b), H. reflexivity.
  - destruct (str_cmp a b); simpl in *; try discriminate. reflexivity.
Qed.

Lemma dir_cmp_eq : forall fw a b, dir_cmp fw a b = Eq -> a = b.
Proof.
  intros [|] a b H; unfold dir_cmp in H.
  - apply str_cmp_eq. exact H.
  - apply str_cmp_eq. destruct (str_cmp a b); simpl in *; try discriminate. reflexivity.
Qed.

Lemma insert_in : forall fw v t z, In z (tkeys (bst_insert fw v t)) <-> z = gb_str v \/ In z (tkeys t).
Proof.
  intros fw v. induction t as [|l IHl x r IHr]; intro z.
  - simpl. intuition.
  - simpl bst_insert. destruct (dir_cmp fw (gb_str v) (gb_str x)) eqn:E.
    + apply dir_cmp_eq in E. rewrite !tkeys_node. rewrite !in_app_iff. simpl. rewrite E. intuition.
    + rewrite !tkeys_node. rewrite !in_app_iff. rewrite IHl. simpl. intuition.
    + rewrite !tkeys_node. rewrite !in_app_iff. simpl. rewrite IHr. intuition.
Qed.

Lemma insert_bst : forall fw v t, bst fw t -> bst fw (bst_insert fw v t).
Proof.
  intros fw v. induction t as [|l IHl x r IHr]; intro H.
  - unfold bst. simpl. constructor; constructor.
  - unfold bst in *. rewrite tkeys_node in H.
    destruct (sorted_dir_app_inv _ _ _ H) as [Sl [Sxr Cross]].
    pose proof (sorted_dir_tail _ _ _ Sxr) as Sr. pose proof (sorted_dir_head _ _ _ Sxr) as Fx.
    rewrite Forall_forall in Fx.
    simpl bst_insert. destruct (dir_cmp fw (gb_str v) (gb_str x)) eqn:E.
    + apply dir_cmp_eq in E. rewrite tkeys_node. rewrite E. exact H.
    + apply dir_cmp_lt in E. rewrite tkeys_node. apply sorted_dir_app; [apply IHl; exact Sl | exact Sxr |].
      intros a b Ha Hb. apply insert_in in Ha. destruct Ha as [Ha|Ha].
      * subst a. destruct Hb as [Hb|Hb]; [subst; exact E|]. eapply before_trans; [exact E | apply Fx; exact Hb].
      * apply Cross; assumption.
    + apply dir_cmp_gt in E. rewrite tkeys_node. apply sorted_dir_app; [exact Sl | |].
      * constructor; [apply IHr; exact Sr|]. apply Forall_forall. intros z Hz. apply insert_in in Hz.
        destruct Hz as [Hz|Hz]; [subst; exact E | apply Fx; exact Hz].
      * intros a b Ha Hb. destruct Hb as [Hb|Hb]; [subst; apply Cross; [exact Ha | left; reflexivity]|].
        apply insert_in in Hb. destruct Hb as [Hb|Hb].
        -- subst b. eapply before_trans; [apply Cross; [exact Ha | left; reflexivity] | exact E].
        -- apply Cross; [exact Ha | right; exact Hb].
Qed.

Lemma treeset_fold : forall fw adds t, bst fw t ->
  bst fw (fold_left (fun t v => bst_insert fw v t) adds t) /\
  forall z, In z (tkeys (fold_left (fun t v => bst_insert fw v t) adds t)) <-> In z (map gb_str adds) \/ In z (tkeys t).
Proof.
  intros fw. induction adds as [|v adds IH]; intros t H; simpl.
  - split; [exact H|]. intuition.
  - destruct (IH (bst_insert fw v t) (insert_bst fw v t H)) as [B I]. split; [exact B|].
    intro z. rewrite I. rewrite insert_in. intuition.
Qed.

Lemma treeset_bst : forall fw adds, bst fw (treeset_of fw adds).
Proof. intros. unfold treeset_of. apply treeset_fold. constructor. Qed.

Lemma treeset_in : forall fw adds z, In z (tkeys (treeset_of fw adds)) <-> In z (map gb_str adds).
Proof.
  intros. unfold treeset_of. destruct (treeset_fold fw adds Leaf (SSorted_nil _)) as [_ I].
  rewrite I. simpl. intuition.
Qed.

(* ---- sort_dedup is "the" ascending enumeration of a finite set --------------------------------- *)

Lemma sinsert_in : forall x l z, In z (sinsert x l) <-> z = x \/ In z l.
Proof.
  intros x. induction l as [|y l IH]; intro z; simpl; [intuition|].
  destruct (str_cmp x y) eqn:E.
  - apply str_cmp_eq in E. subst. simpl. intuition.
  - simpl. intuition.
  - simpl. rewrite IH. intuition.
Qed.

Lemma sinsert_sorted : forall x l, sorted_asc l -> sorted_asc (sinsert x l).
Proof.
  intros x. induction l as [|y l IH]; intro H; simpl.
  - constructor; constructor.
  - pose proof (sorted_dir_head _ _ _ H) as F. rewrite Forall_forall in F.
    destruct (str_cmp x y) eqn:E.
    + exact H.
    + constructor; [exact H|]. apply Forall_forall. intros z [Hz|Hz].
      * subst. unfold before, str_ltb. rewrite E. reflexivity.
      * eapply (before_trans true); [|apply F; exact Hz]. unfold before, str_ltb. rewrite E. reflexivity.
    + constructor; [apply IH; eapply sorted_dir_tail; exact H|].
      apply Forall_forall. intros z Hz. apply sinsert_in in Hz. destruct Hz as [Hz|Hz].
      * subst. unfold before, str_ltb. rewrite (str_cmp_opp x y), E. reflexivity.
      * apply F. exact Hz.
Qed.

Lemma sort_dedup_fold : forall l acc, sorted_asc acc ->
  sorted_asc (fold_left (fun a x => sinsert x a) l acc) /\
  forall z, In z (fold_left (fun a x => sinsert x a) l acc) <-> In z l \/ In z acc.
Proof.
  induction l as [|x l IH]; intros acc H; simpl.
  - split; [exact H | intuition].
  - destruct (IH (sinsert x acc) (sinsert_sorted x acc H)) as [S I]. split; [exact S|].
    intro z. rewrite I. rewrite sinsert_in. intuition.
Qed.

Lemma sort_dedup_sorted : forall l, sorted_asc (sort_dedup l).
Proof. intro l. apply sort_dedup_fold. constructor. Qed.

Lemma sort_dedup_in : forall l z, In z (sort_dedup l) <-> In z l.
Proof. intros l z. unfold sort_dedup. destruct (sort_dedup_fold l [] (SSorted_nil _)) as [_ I]. rewrite I. simpl. intuition. Qed.

Lemma dir_list_sorted : forall fw l, sorted_asc l -> sorted_dir fw (dir_list fw l).
Proof.
  intros [|] l H; simpl; [exact H|]. apply (sorted_dir_rev true l H).
Qed.

Lemma dir_list_in : forall fw l z, In z (dir_list fw l) <-> In z l.
Proof. intros [|] l z; simpl; [tauto|]. symmetry. apply in_rev. Qed.

(* the in-order keys of a TreeSet are the sorted duplicate-free list of what was added *)
Lemma treeset_keys : forall fw adds,
  tkeys (treeset_of fw adds) = dir_list fw (sort_dedup (map gb_str adds)).
Proof.
  intros fw adds. apply (sorted_dir_unique fw).
  - apply treeset_bst.
  - apply dir_list_sorted. apply sort_dedup_sorted.
  - intro z. rewrite treeset_in, dir_list_in, sort_dedup_in. tauto.
Qed.

Lemma treeset_run_spec : forall fw adds leb n,
  treeset_run fw adds n = rspec_run leb (dir_list fw (sort_dedup adds)) (repeat CNext n).
Proof.
  intros fw adds leb n. unfold treeset_run. rewrite (tree_run_spec _ leb).
  fold (tkeys (treeset_of fw (map Some adds))). rewrite treeset_keys.
  rewrite map_map. simpl. rewrite map_id. reflexivity.
Qed.

(* ---- trees whose elements are all non-nil slices: Current() is never nil (needed under a union) ---- *)

Lemma t_next_pending : forall c, stack_ok (t_stack c) ->
  exists c', t_next c = Ok c' /\ pending c' = tl (pending c) /\ stack_ok (t_stack c').
Proof.
  intros c S. unfold t_next, pending at 2. destruct (t_cur c) as [|l x r] eqn:Ec.
  - exists c. split; [reflexivity|]. split; [|exact S]. unfold pending. rewrite Ec. reflexivity.
  - simpl tl. unfold t_next_body. destruct r as [|rl rx rr].
    + destruct (t_stack c) as [|top rest] eqn:Es.
      * eexists. split; [reflexivity|]. split; [reflexivity | constructor].
      * inversion S as [|? ? Htop Hrest]; subst. eexists. split; [reflexivity|]. split; [|exact Hrest].
        unfold pending. simpl t_cur. simpl t_stack. destruct top as [|tl0 tx tr]; [contradiction|]. reflexivity.
    + assert (Hr : Node rl rx rr <> Leaf) by discriminate.
      destruct (descend_spec (Node rl rx rr) (t_stack c) Hr S) as [c' [E [P S']]].
      exists c'. split; [exact E|]. split; [exact P | exact S'].
Qed.

Lemma tree_open_pending : forall t, exists c, t_open t = Ok c /\ pending c = inorder t /\ stack_ok (t_stack c).
Proof.
  intros [|l x r].
  - eexists. split; [reflexivity|]. split; [reflexivity | constructor].
  - assert (Hn : Node l x r <> Leaf) by discriminate.
    destruct (descend_spec (Node l x r) [] Hn (Forall_nil _)) as [c [E [P S]]].
    exists c. split; [exact E|]. split; [|exact S]. rewrite P. unfold flat. simpl. apply app_nil_r.
Qed.

Definition all_some (l : list gobytes) : Prop := Forall (fun x => x <> None) l.

Definition R_tree_nn (c : tcur) (rem : list str) : Prop := R_tree c rem /\ all_some (pending c).

Lemma map_tl : forall (A B : Type) (f : A -> B) l, tl (map f l) = map f (tl l).
Proof. intros A B f [|x l]; reflexivity. Qed.

Lemma tree_sim_nn : sim tree_cursor R_tree_nn.
Proof.
  constructor.
  - intros c rem [H _]. apply (sim_obs _ _ tree_sim _ _ H).
  - intros c rem [[E S] A]. destruct (t_next_pending c S) as [c' [En [P S']]].
    exists c'. split; [exact En|]. split; [split; [|exact S']|].
    + rewrite P. subst rem. apply map_tl.
    + rewrite P. unfold all_some in *. destruct (pending c); simpl; [constructor | inversion A; assumption].
Qed.

Lemma tree_nonnil : nonnil tree_cursor R_tree_nn.
Proof.
  intros c x rem [[E _] A]. simpl. unfold t_current. unfold pending in E, A.
  destruct (t_cur c) as [|l p r]; [discriminate|].
  inversion A as [|? ? Hp _]; subst. destruct p as [y|]; [exists y; reflexivity | contradiction].
Qed.

Lemma insert_inorder_in : forall fw v t x, In x (inorder (bst_insert fw v t)) -> x = v \/ In x (inorder t).
Proof.
  intros fw v. induction t as [|l IHl y r IHr]; intros x H.
  - simpl in H. intuition.
  - simpl bst_insert in H. destruct (dir_cmp fw (gb_str v) (gb_str y)); simpl in *;
      rewrite in_app_iff in *; simpl in *.
    + intuition.
    + destruct H as [H|H]; [apply IHl in H|]; intuition.
    + destruct H as [H|[H|H]]; [| |apply IHr in H]; intuition.
Qed.

Lemma treeset_inorder_in : forall fw adds t x,
  In x (inorder (fold_left (fun t v => bst_insert fw v t) adds t)) -> In x adds \/ In x (inorder t).
Proof.
  intros fw. induction adds as [|v adds IH]; intros t x H; simpl in *; [right; exact H|].
  apply IH in H. destruct H as [H|H]; [left; right; exact H|].
  apply insert_inorder_in in H. intuition.
Qed.

Lemma treeset_all_some : forall fw l, all_some (inorder (treeset_of fw (map Some l))).
Proof.
  intros fw l. unfold all_some. apply Forall_forall. intros x H. unfold treeset_of in H.
  apply treeset_inorder_in in H. destruct H as [H|H]; [|contradiction].
  apply in_map_iff in H. destruct H as [y [E _]]. subst. discriminate.
Qed.

Lemma treeset_open_nn : forall fw l, exists c,
  t_open (treeset_of fw (map Some l)) = Ok c /\ R_tree_nn c (dir_list fw (sort_dedup l)).
Proof.
  intros fw l. destruct (tree_open_pending (treeset_of fw (map Some l))) as [c [E [P S]]].
  exists c. split; [exact E|]. split; [split; [|exact S]|].
  - rewrite P. fold (tkeys (treeset_of fw (map Some l))). rewrite treeset_keys.
    rewrite map_map. simpl. rewrite map_id. reflexivity.
  - rewrite P. apply treeset_all_some.
Qed.
