(* C14 - the compositions the correspondence harness exercises (one definition per case kind of
   harness/cmd/storageharness/c14.go) together with the enumeration list the specification
   assigns to each.  Only definitions; the theorems of Properties/C14.v say that every
   [..._run] below equals [spec_run] over the corresponding list. *)
From Coq Require Import List NArith Bool Arith.
From Storage Require Import Base.Bytes Cursor.StrOrder Cursor.Core Cursor.BoltCursor Cursor.Typed Cursor.Filtered
  Cursor.Union Cursor.Tree Cursor.SetSym.
Import ListNotations.
Open Scope nat_scope.

Definition mem (x : str) (l : list str) : bool := existsb (str_eqb x) l.

(* sorted duplicate-free list of a finite set given as any list *)
Fixpoint sinsert (x : str) (l : list str) : list str :=
  match l with
  | [] => [x]
  | y :: r => match str_cmp x y with Eq => l | Lt => x :: l | Gt => y :: sinsert x r end
  end.
Definition sort_dedup (l : list str) : list str := fold_left (fun acc x => sinsert x acc) l [].

(* Next-only specification trace in direction fw over the ascending list l *)
Definition spec_next (fw : bool) (l : list str) (n : nat) : list obs :=
  spec_run (dir_leb fw) (dir_list fw l) (repeat CNext n).
Definition spec_ops (fw : bool) (l : list str) (ops : list cop) : list obs :=
  spec_run (dir_leb fw) (dir_list fw l) ops.

(* filtered cursor over a typed cursor; accept = the set the predicate lets through *)
Definition filtered_typed_run (fw : bool) (tag : byte) (fuel : nat) (a accept : list str) (n : nat) : list obs :=
  let W := plain (typed_cursor fw tag (tagged tag a)) in
  srun (filtered_cursor _ W (fun x => mem x accept) fuel)
       (bind (typed_open fw (tagged tag a)) (fun s => f_open _ W (fun x => mem x accept) fuel (Some s))) n.
(* NewFilteredCursor(nil, ...) *)
Definition filtered_nil_run (n : nat) : list obs :=
  srun (filtered_cursor unit (plain empty_cursor) (fun _ => true) 0)
       (f_open unit (plain empty_cursor) (fun _ => true) 0 None) n.

Definition union_typed_run (fw : bool) (tag : byte) (a b : list str) (n : nat) : list obs :=
  let W1 := plain (typed_cursor fw tag (tagged tag a)) in
  let W2 := plain (typed_cursor fw tag (tagged tag b)) in
  srun (union_cursor _ _ W1 W2 fw)
       (bind (typed_open fw (tagged tag a)) (fun s1 =>
        bind (typed_open fw (tagged tag b)) (fun s2 => u_open _ _ W1 W2 fw s1 s2))) n.

Definition treeset_run (fw : bool) (adds : list str) (n : nat) : list obs :=
  tree_run (treeset_of fw (map Some adds)) n.
Definition treeset_run_legacy (fw : bool) (adds : list str) (n : nat) : list obs :=
  tree_run_legacy (treeset_of fw (map Some adds)) n.

Definition union_tree_run (fw : bool) (a b : list str) (n : nat) : list obs :=
  srun (union_cursor _ _ tree_cursor tree_cursor fw)
       (bind (t_open (treeset_of fw (map Some a))) (fun s1 =>
        bind (t_open (treeset_of fw (map Some b))) (fun s2 => u_open _ _ tree_cursor tree_cursor fw s1 s2))) n.

Definition union_filtered_run (fw : bool) (tag : byte) (fuel : nat) (a b : list str) (n : nat) : list obs :=
  let W := plain (typed_cursor fw tag (tagged tag a)) in
  let F := filtered_cursor _ W (fun x => mem x b) fuel in
  let W2 := plain (typed_cursor fw tag (tagged tag b)) in
  srun (union_cursor _ _ F W2 fw)
       (bind (typed_open fw (tagged tag a)) (fun s => bind (f_open _ W (fun x => mem x b) fuel (Some s)) (fun s1 =>
        bind (typed_open fw (tagged tag b)) (fun s2 => u_open _ _ F W2 fw s1 s2)))) n.

(* the set index as it mirrors the entities (id -> roles, ids ascending): role -> ids carrying it *)
Definition build_index (ents : assoc) : assoc :=
  map (fun r => (r, map fst (filter (fun e => mem r (snd e)) ents))) (sort_dedup (flat_map snd ents)).

Definition allof_ids (ents : assoc) (values : list str) : list str :=
  match values with
  | [] => []
  | _ => map fst (filter (fun e => forallb (fun v => mem v (snd e)) values) ents)
  end.
Definition anyof_ids (ents : assoc) (values : list str) : list str :=
  map fst (filter (fun e => existsb (fun v => mem v (snd e)) values) ents).

(* ---- what Properties/C14.v states about a cursor kind ----------------------------------------------

   A seekable cursor over the ascending set l in direction fw, given as its observation function
   [run ops] (observation after the constructor and after every operation):
   (1) refinement: for EVERY interleaving of Next and Seek the observations are those of the abstract
       position machine (pos : option nat into dir_list fw l);
   (2) enumeration: Next-only runs deliver exactly the elements in order, each once, then invalid
       for ever (immediately for the empty set); no panic (the trace holds only OCur / OInvalid);
   (3) Seek: right after Seek v - whatever happened before - the cursor is on the first element >= v
       (forward) resp. the largest element <= v (reverse), or invalid if there is none. *)
Definition seekable_props (run : list cop -> list obs) (fw : bool) (l : list str) : Prop :=
  (forall ops, run ops = spec_ops fw l ops) /\
  (forall n, run (repeat CNext n) = enum_trace (dir_list fw l) n) /\
  (forall ops v, last (run (ops ++ [CSeek v])) OInvalid = obs_of_option (seek_target fw l v)).

(* a cursor without Seek whose enumeration list is L: [run n] = observations of n Next calls *)
Definition nextonly_props (run : nat -> list obs) (L : list str) : Prop :=
  (forall leb n, run n = spec_run leb L (repeat CNext n)) /\ (forall n, run n = enum_trace L n).

(* a conventional (direction aware) search-tree predicate *)
Fixpoint is_bst (fw : bool) (t : tree) : Prop :=
  match t with
  | Leaf => True
  | Node l x r =>
      is_bst fw l /\ is_bst fw r /\
      (forall y, In y (tkeys l) -> before fw y (gb_str x)) /\
      (forall y, In y (tkeys r) -> before fw (gb_str x) y)
  end.
