(* C14 - several cursors alive at once: proofs (Cursor/Product.v) *)
From Coq Require Import List NArith Bool Arith Lia.
From Storage Require Import Base.Bytes Cursor.StrOrder Cursor.Core Cursor.BoltCursor Cursor.Typed Cursor.Filtered
  Cursor.Union Cursor.Tree Cursor.SetSym Cursor.Cases Cursor.Scanner Cursor.C14Lemmas Cursor.ScannerProofs Cursor.Product.
Import ListNotations.
Open Scope nat_scope.

(* ---- solo = krun / srun ------------------------------------------------------------------------------------------ *)

Lemma solo_from_panic : forall M ops, solo_from M Panic ops = repeat OPanic (length ops).
Proof. induction ops as [|o r IH]; simpl; [reflexivity | rewrite IH; reflexivity]. Qed.
Lemma solo_from_fuel : forall M ops, solo_from M OutOfFuel ops = repeat OFuel (length ops).
Proof. induction ops as [|o r IH]; simpl; [reflexivity | rewrite IH; reflexivity]. Qed.

Lemma solo_from_k : forall St (K : kcursor St) init s ops,
  solo_from (of_k K init) (Ok s) ops = krun_from K s ops.
Proof.
  intros St K init s ops. revert s. induction ops as [|o r IH]; intros s; [reflexivity|].
  cbn [solo_from krun_from res_step of_k m_step].
  destruct (kstep K s o) as [s'| |] eqn:E.
  - cbn [res_obs of_k m_obs]. rewrite IH. reflexivity.
  - cbn [res_obs fail_obs length repeat]. rewrite solo_from_panic. reflexivity.
  - cbn [res_obs fail_obs length repeat]. rewrite solo_from_fuel. reflexivity.
Qed.

Lemma solo_of_k : forall St (K : kcursor St) init ops, solo (of_k K init) ops = krun K init ops.
Proof.
  intros St K init ops. unfold solo, krun. cbn [of_k m_init]. destruct init as [s| |].
  - cbn [res_obs of_k m_obs]. rewrite solo_from_k. reflexivity.
  - cbn [res_obs fail_obs repeat]. rewrite solo_from_panic. reflexivity.
  - cbn [res_obs fail_obs repeat]. rewrite solo_from_fuel. reflexivity.
Qed.

Lemma solo_from_s : forall St (C : scursor St) init s n,
  solo_from (of_s C init) (Ok s) (repeat CNext n) = srun_from C s n.
Proof.
  intros St C init s n. revert s. induction n as [|n IH]; intros s; [reflexivity|].
  cbn [repeat solo_from srun_from res_step of_s m_step].
  destruct (s_next C s) as [s'| |] eqn:E.
  - cbn [res_obs of_s m_obs]. rewrite IH. reflexivity.
  - cbn [res_obs fail_obs]. rewrite solo_from_panic, repeat_length. reflexivity.
  - cbn [res_obs fail_obs]. rewrite solo_from_fuel, repeat_length. reflexivity.
Qed.

Lemma solo_of_s : forall St (C : scursor St) init n, solo (of_s C init) (repeat CNext n) = srun C init n.
Proof.
  intros St C init n. unfold solo, srun. cbn [of_s m_init]. destruct init as [s| |].
  - cbn [res_obs of_s m_obs]. rewrite solo_from_s. reflexivity.
  - cbn [res_obs fail_obs repeat]. rewrite solo_from_panic, repeat_length. reflexivity.
  - cbn [res_obs fail_obs repeat]. rewrite solo_from_fuel, repeat_length. reflexivity.
Qed.

Lemma solo_from_length : forall M r ops, length (solo_from M r ops) = length ops.
Proof. intros M r ops. revert r. induction ops as [|o rest IH]; intros r; simpl; [reflexivity | rewrite IH; reflexivity]. Qed.

(* ---- a slot after n turns of its own shows entry n of its solo trace -------------------------------------------------- *)

Fixpoint after (s : slot) (n : nat) : slot := match n with O => s | S k => after (slot_step s) k end.

Lemma after_done : forall M r n, after (mkSlot M (Some r) []) n = mkSlot M (Some r) [].
Proof. intros M r n. induction n as [|n IH]; [reflexivity | exact IH]. Qed.

Lemma opened_view : forall M ops r k,
  slot_view (after (mkSlot M (Some r) ops) k) = nth_error (res_obs M r :: solo_from M r ops) (Nat.min k (length ops)).
Proof.
  intros M ops. induction ops as [|o rest IH]; intros r k.
  - rewrite after_done. rewrite Nat.min_0_r. reflexivity.
  - destruct k as [|k]; [reflexivity|].
    change (after (mkSlot M (Some r) (o :: rest)) (S k)) with (after (mkSlot M (Some (res_step M r o)) rest) k).
    rewrite IH. cbn [length solo_from]. rewrite <- Nat.succ_min_distr. reflexivity.
Qed.

Lemma start_view : forall M ops n, slot_view (after (start (M, ops)) n) = trace_view (solo M ops) n.
Proof.
  intros M ops [|k]; [reflexivity|].
  change (after (start (M, ops)) (S k)) with (after (mkSlot M (Some (m_init M)) ops) k).
  rewrite opened_view. unfold trace_view, solo. cbn [length]. rewrite solo_from_length. cbn [Nat.sub]. rewrite Nat.sub_0_r. reflexivity.
Qed.

(* ---- the product ------------------------------------------------------------------------------------------------ *)

Definition rel (s : slot) (x : tc) : Prop := forall n, slot_view (after s n) = trace_view (fst x) (snd x + n).

Lemma rel_step : forall s x, rel s x -> rel (slot_step s) (tc_step x).
Proof.
  intros s x H n. specialize (H (S n)). cbn [after] in H. rewrite H. unfold tc_step. cbn [fst snd].
  f_equal. lia.
Qed.

Lemma rel_view : forall s x, rel s x -> slot_view s = tc_view x.
Proof. intros s x H. specialize (H 0). cbn [after] in H. rewrite H, Nat.add_0_r. reflexivity. Qed.

Lemma Forall2_upd : forall A B (R : A -> B -> Prop) f g j l1 l2,
  (forall a b, R a b -> R (f a) (g b)) -> Forall2 R l1 l2 -> Forall2 R (upd f j l1) (upd g j l2).
Proof.
  intros A B R f g j l1 l2 Hfg H. revert j. induction H as [|a b r1 r2 Hab Hr IH]; intros j.
  - destruct j; constructor.
  - destruct j as [|j]; cbn [upd]; constructor; auto.
Qed.

Lemma Forall2_views : forall l1 l2, Forall2 rel l1 l2 -> map slot_view l1 = map tc_view l2.
Proof. intros l1 l2 H. induction H as [|a b r1 r2 Hab Hr IH]; [reflexivity|]. cbn [map]. rewrite IH, (rel_view _ _ Hab). reflexivity. Qed.

Lemma prod_views_rel : forall sched slots tcs, Forall2 rel slots tcs -> prod_views slots sched = trace_views tcs sched.
Proof.
  induction sched as [|j rest IH]; intros slots tcs H; [reflexivity|].
  cbn [prod_views trace_views].
  assert (H' : Forall2 rel (upd slot_step j slots) (upd tc_step j tcs)) by (apply Forall2_upd; [exact rel_step | exact H]).
  rewrite (Forall2_views _ _ H'), (IH _ _ H'). reflexivity.
Qed.

Lemma non_interference : forall (progs : list (machine * list cop)) sched,
  prod_views (map start progs) sched = solo_views (map (fun p => solo (fst p) (snd p)) progs) sched.
Proof.
  intros progs sched. unfold solo_views. apply prod_views_rel.
  induction progs as [|[M ops] r IH]; [constructor|]. cbn [map fst snd]. constructor; [|exact IH].
  intros n. cbn [fst snd]. rewrite start_view. reflexivity.
Qed.

(* with the single-cursor refinement of every member: the views are those of the position machines *)
Lemma non_interference_spec : forall (progs : list (machine * list cop)) (sets : list (bool * list str)) sched,
  Forall2 (fun p fl => solo (fst p) (snd p) = spec_ops (fst fl) (snd fl) (snd p)) progs sets ->
  prod_views (map start progs) sched =
  solo_views (map (fun x => spec_ops (fst (snd x)) (snd (snd x)) (snd (fst x))) (combine progs sets)) sched.
Proof.
  intros progs sets sched H. rewrite non_interference. f_equal.
  induction H as [|p fl r1 r2 Hp Hr IH]; [reflexivity|]. cbn [map combine fst snd]. rewrite Hp, IH. reflexivity.
Qed.

(* ---- the families of the harness ------------------------------------------------------------------------------------- *)

Lemma desc_solo_spec : forall tag d ops, desc_ok d ops ->
  solo (desc_machine tag d) ops = spec_ops (desc_fw d) (desc_set d) ops.
Proof.
  intros tag d ops Hok. destruct d as [b|fw b|fw b|fw keys|fw l|fuel ids|fw adds|fw a b|fw fuel a accept];
    cbn [desc_machine desc_fw desc_set desc_ok] in *.
  - rewrite solo_of_k. exact (proj1 (setsym_props tag b) ops).
  - rewrite solo_of_k. exact (proj1 (handout_props fw tag b Hok) ops).
  - rewrite solo_of_k. exact (proj1 (rawhand_props fw b Hok) ops).
  - pose proof (proj1 (bolt_props keys fw Hok) ops) as H. unfold bolt_run in H.
    destruct fw; rewrite solo_of_k; exact H.
  - rewrite solo_of_k. exact (proj1 (typed_props fw tag l Hok) ops).
  - destruct Hok as [Hs Hf]. pose proof (proj1 (ids_props yes yes fuel ids Hs Hf) ops) as H.
    assert (Hall : filter (accept_of yes yes) (bucket_elems ids) = bucket_elems ids).
    { clear. induction (bucket_elems ids) as [|x r IH]; [reflexivity|]. cbn. rewrite IH. reflexivity. }
    rewrite Hall in H. unfold ids_run in H. destruct ids as [l0|]; rewrite solo_of_k; exact H.
  - red in Hok. rewrite Hok. rewrite solo_of_s.
    exact (proj1 (treeset_props fw adds) (dir_leb fw) (length ops)).
  - destruct Hok as (Ha & Hb & Hn). red in Hn. rewrite Hn. rewrite solo_of_s.
    exact (proj1 (union_typed_props fw tag a b Ha Hb) (dir_leb fw) (length ops)).
  - destruct Hok as (Ha & Hf & Hn). red in Hn. rewrite Hn. rewrite solo_of_s.
    exact (proj1 (filtered_typed_props fw tag fuel a accept Ha Hf) (dir_leb fw) (length ops)).
Qed.

Lemma multi_run_spec : forall tag (progs : list (cdesc * list cop)) sched,
  Forall (fun p => desc_ok (fst p) (snd p)) progs -> multi_run tag progs sched = multi_spec progs sched.
Proof.
  intros tag progs sched H. unfold multi_run, multi_spec.
  rewrite <- (map_map (fun p : cdesc * list cop => (desc_machine tag (fst p), snd p)) start).
  rewrite non_interference. f_equal. rewrite map_map. cbn [fst snd].
  induction H as [|p r Hp Hr IH]; [reflexivity|]. cbn [map]. rewrite IH. f_equal. exact (desc_solo_spec tag _ _ Hp).
Qed.

(* several cursors of ONE set symbol, any rows (the same row several times included): no side condition at all *)
Lemma setsym_family_spec : forall tag (rows : list (option (list str) * list cop)) sched,
  multi_run tag (map (fun r => (DSetsym (fst r), snd r)) rows) sched =
  solo_views (map (fun r => spec_ops true (bucket_elems (fst r)) (snd r)) rows) sched.
Proof.
  intros tag rows sched. rewrite multi_run_spec.
  - unfold multi_spec. rewrite map_map. reflexivity.
  - apply Forall_forall. intros p Hin. apply in_map_iff in Hin. destruct Hin as (r & <- & _). exact I.
Qed.

(* what "read at its own pace" means, pointwise: after the turns [firstn (S k) sched], cursor i shows the entry of its
   solo trace numbered by its own turns so far (nothing before its constructor, the last entry after its program) *)
Lemma upd_nth : forall A (f : A -> A) j l i, nth_error (upd f j l) i = if Nat.eqb i j then option_map f (nth_error l i) else nth_error l i.
Proof.
  intros A f j l. revert j. induction l as [|x r IH]; intros j i.
  - destruct j as [|j]; destruct i as [|i]; cbn [upd nth_error Nat.eqb option_map]; try reflexivity; destruct (Nat.eqb i j); reflexivity.
  - destruct j as [|j]; destruct i as [|i]; cbn [upd nth_error Nat.eqb option_map]; try reflexivity. apply IH.
Qed.

Lemma trace_views_pointwise : forall sched (tcs : list tc) k i t c,
  nth_error tcs i = Some (t, c) -> k < length sched ->
  exists v, nth_error (trace_views tcs sched) k = Some v /\
            nth_error v i = Some (trace_view t (c + count_occ Nat.eq_dec (firstn (S k) sched) i)).
Proof.
  induction sched as [|j rest IH]; intros tcs k i t c Hi Hk; [cbn in Hk; lia|].
  cbn [trace_views].
  assert (Hi' : nth_error (upd tc_step j tcs) i = Some (t, c + (if Nat.eq_dec j i then 1 else 0))).
  { rewrite upd_nth, Hi. destruct (Nat.eq_dec j i) as [->|Hne].
    - rewrite Nat.eqb_refl. cbn. unfold tc_step. cbn. f_equal. f_equal. lia.
    - destruct (Nat.eqb_spec i j) as [->|_]; [congruence|]. f_equal. f_equal. lia. }
  destruct k as [|k].
  - eexists. split; [reflexivity|]. rewrite nth_error_map, Hi'. cbn [option_map firstn count_occ].
    unfold tc_view. cbn [fst snd]. destruct (Nat.eq_dec j i); reflexivity.
  - cbn [length] in Hk. destruct (IH (upd tc_step j tcs) k i t _ Hi' ltac:(lia)) as (v & Hv & Hvi).
    exists v. split; [exact Hv|]. rewrite Hvi. change (firstn (S (S k)) (j :: rest)) with (j :: firstn (S k) rest).
    cbn [count_occ]. destruct (Nat.eq_dec j i); f_equal; f_equal; lia.
Qed.

Lemma non_interference_pointwise : forall (progs : list (machine * list cop)) sched k i M ops,
  nth_error progs i = Some (M, ops) -> k < length sched ->
  exists v, nth_error (prod_views (map start progs) sched) k = Some v /\
            nth_error v i = Some (trace_view (solo M ops) (count_occ Nat.eq_dec (firstn (S k) sched) i)).
Proof.
  intros progs sched k i M ops Hi Hk. rewrite non_interference. unfold solo_views.
  apply (trace_views_pointwise sched _ k i (solo M ops) 0); [|exact Hk].
  rewrite !nth_error_map, Hi. reflexivity.
Qed.
