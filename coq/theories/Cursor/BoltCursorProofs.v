(* The raw bolt adapters refine the suffix machine: ForwardBoltCursor over the key list,
   ReverseBoltCursor over its reversal (needs the keys strictly ascending, as bbolt keeps them). *)
From Coq Require Import List NArith Bool Arith Lia Sorting.Sorted.
From Storage Require Import Base.Bytes Cursor.StrOrder Cursor.Core Cursor.CoreProofs Cursor.BoltCursor.
Import ListNotations.
Open Scope nat_scope.

(* ---- list facts ---------------------------------------------------------------------------- *)

Lemma skipn_nil_len : forall (l : list str) i, skipn i l = [] -> length l <= i.
Proof.
  induction l as [|x l IH]; intros i H; simpl; [lia|].
  destruct i as [|i]; simpl in H; [discriminate|]. apply IH in H. lia.
Qed.

Lemma skipn_cons_lt : forall (l : list str) i x r, skipn i l = x :: r -> i < length l.
Proof.
  intros l i x r H. destruct (Nat.lt_ge_cases i (length l)) as [Hl|Hl]; [exact Hl|].
  rewrite skipn_all2 in H by exact Hl. discriminate.
Qed.

Lemma nth_error_skipn_hd : forall (l : list str) i x r, skipn i l = x :: r -> nth_error l i = Some x.
Proof. intros l i x r H. rewrite hd_skipn_nth. rewrite H. reflexivity. Qed.

Lemma firstn_S_nth : forall (l : list str) i x, nth_error l i = Some x -> firstn (S i) l = firstn i l ++ [x].
Proof.
  induction l as [|y l IH]; intros i x H; destruct i as [|i]; simpl in H; try discriminate.
  - inversion H; subst. destruct l; reflexivity.
  - change (firstn (S (S i)) (y :: l)) with (y :: firstn (S i) l). rewrite (IH _ _ H). reflexivity.
Qed.

Lemma rev_firstn_S : forall (l : list str) i x, nth_error l i = Some x ->
  rev (firstn (S i) l) = x :: rev (firstn i l).
Proof. intros l i x H. rewrite (firstn_S_nth _ _ _ H). rewrite rev_app_distr. reflexivity. Qed.

Lemma nth_error_lt_some : forall (l : list str) i, i < length l -> exists x, nth_error l i = Some x.
Proof.
  intros l i H. destruct (nth_error l i) as [x|] eqn:E; [exists x; reflexivity|].
  apply nth_error_None in E. lia.
Qed.

(* ---- lb = lower_bound; its two halves ------------------------------------------------------- *)

Lemma lb_lower_bound : forall v l, lb v l = lower_bound fwd_leb v l.
Proof. induction l as [|x l IH]; simpl; [reflexivity|]. unfold fwd_leb at 1. destruct (str_leb v x); [reflexivity|]. rewrite IH. reflexivity. Qed.

Lemma skipn_lb : forall v l, skipn (lb v l) l = drop_until fwd_leb v l.
Proof. intros. rewrite lb_lower_bound. apply skipn_lower_bound. Qed.

Lemma lb_le : forall v l, lb v l <= length l.
Proof. induction l as [|x l IH]; simpl; [lia|]. destruct (str_leb v x); lia. Qed.

Lemma lb_firstn : forall v l, Forall (fun x => str_leb v x = false) (firstn (lb v l) l).
Proof.
  induction l as [|x l IH]; simpl; [constructor|].
  destruct (str_leb v x) eqn:E; simpl; [constructor|]. constructor; assumption.
Qed.

Lemma lb_skipn_head : forall v l x r, skipn (lb v l) l = x :: r -> str_leb v x = true.
Proof.
  induction l as [|y l IH]; simpl; intros x r H; [discriminate|].
  destruct (str_leb v y) eqn:E; simpl in H.
  - inversion H; subst. exact E.
  - eapply IH; eassumption.
Qed.

Lemma drop_until_skip : forall leb v A B, Forall (fun x => leb v x = false) A ->
  drop_until leb v (A ++ B) = drop_until leb v B.
Proof.
  induction A as [|a A IH]; simpl; intros B H; [reflexivity|].
  inversion H; subst. rewrite H2. apply IH. assumption.
Qed.

Lemma drop_until_all : forall leb v l, Forall (fun x => leb v x = true) l -> drop_until leb v l = l.
Proof. intros leb v l H. destruct l as [|x l]; simpl; [reflexivity|]. inversion H; subst. rewrite H2. reflexivity. Qed.

Lemma sorted_skipn : forall fw (l : list str) i, sorted_dir fw l -> sorted_dir fw (skipn i l).
Proof.
  intros fw l i H. rewrite <- (firstn_skipn i l) in H. apply sorted_dir_app_inv in H. tauto.
Qed.

(* ---- forward ------------------------------------------------------------------------------ *)

Section Forward.
  Variable keys : list str.

  Definition R_fwd (s : bc) (rem : list str) : Prop :=
    match rem with
    | x :: _ => rem = skipn (bc_idx s) keys /\ bc_key s = Some x
    | [] => bc_key s = None /\ length keys <= S (bc_idx s)
    end.

  Lemma R_fwd_at : forall i, R_fwd (mkBc i (kv keys i)) (skipn i keys).
  Proof.
    intro i. unfold R_fwd, kv. destruct (skipn i keys) as [|x r] eqn:E; simpl.
    - split; [|apply skipn_nil_len in E; lia]. rewrite hd_skipn_nth, E. reflexivity.
    - split; [symmetry; exact E|]. eapply nth_error_skipn_hd; eassumption.
  Qed.

  Lemma fwd_obs : forall s rem, R_fwd s rem -> observe (plain (fwd_cursor keys)) s = robs rem.
  Proof.
    intros s rem H. unfold observe, plain, fwd_cursor, bc_valid, bc_current; simpl.
    destruct rem as [|x r]; simpl in H; destruct H as [H1 H2].
    - rewrite H1. reflexivity.
    - rewrite H2. reflexivity.
  Qed.

  Lemma fwd_next_R : forall s rem, R_fwd s rem -> exists s', fwd_next keys s = Ok s' /\ R_fwd s' (tl rem).
  Proof.
    intros s rem H. unfold fwd_next, b_next. eexists. split; [reflexivity|].
    destruct rem as [|x r]; simpl in H; destruct H as [H1 H2].
    - destruct (Nat.ltb (S (bc_idx s)) (length keys)) eqn:E; [apply Nat.ltb_lt in E; lia|].
      simpl. split; [reflexivity | exact H2].
    - simpl tl. assert (Hr : r = skipn (S (bc_idx s)) keys).
      { rewrite <- tl_skipn. rewrite <- H1. reflexivity. }
      destruct (Nat.ltb (S (bc_idx s)) (length keys)) eqn:E.
      + unfold bc_of; simpl. rewrite Hr. apply R_fwd_at.
      + apply Nat.ltb_ge in E. unfold bc_of; simpl. rewrite Hr. rewrite skipn_all2 by exact E.
        simpl. split; [reflexivity | lia].
  Qed.

  Lemma fwd_seek_R : forall s rem v, R_fwd s rem ->
    exists s', fwd_seek keys v s = Ok s' /\ R_fwd s' (drop_until fwd_leb v keys).
  Proof.
    intros s rem v _. unfold fwd_seek, b_seek. eexists. split; [reflexivity|].
    unfold bc_of; simpl. rewrite <- skipn_lb. apply R_fwd_at.
  Qed.

  Lemma fwd_ksim : ksim (fwd_cursor keys) fwd_leb keys R_fwd.
  Proof.
    constructor; [constructor|].
    - exact fwd_obs.
    - exact fwd_next_R.
    - exact fwd_seek_R.
  Qed.

  Lemma fwd_open_R : exists s0, fwd_open keys = Ok s0 /\ R_fwd s0 keys.
  Proof. eexists. split; [reflexivity|]. unfold b_first, bc_of; simpl. apply (R_fwd_at 0). Qed.

  Lemma fwd_nonnil : nonnil (plain (fwd_cursor keys)) R_fwd.
  Proof. intros s x rem H. simpl in H. destruct H as [_ H]. exists x. simpl. unfold bc_current. rewrite H. reflexivity. Qed.
End Forward.

(* ---- reverse -------------------------------------------------------------------------------- *)

Section Reverse.
  Variable keys : list str.
  Hypothesis keys_sorted : sorted_asc keys.

  Definition R_rev (s : bc) (rem : list str) : Prop :=
    match rem with
    | x :: _ => bc_idx s < length keys /\ rem = rev (firstn (S (bc_idx s)) keys) /\ bc_key s = Some x
    | [] => bc_key s = None /\ bc_idx s = 0
    end.

  Lemma R_rev_at : forall i, i < length keys -> R_rev (mkBc i (kv keys i)) (rev (firstn (S i) keys)).
  Proof.
    intros i Hi. destruct (nth_error_lt_some keys i Hi) as [x Hx].
    rewrite (rev_firstn_S _ _ _ Hx). unfold R_rev. cbn [bc_idx bc_key]. split; [exact Hi|].
    split; [symmetry; apply rev_firstn_S; exact Hx | exact Hx].
  Qed.

  Lemma rev_obs : forall s rem, R_rev s rem -> observe (plain (rev_cursor keys)) s = robs rem.
  Proof.
    intros s rem H. unfold observe, plain, rev_cursor, bc_valid, bc_current; simpl.
    destruct rem as [|x r]; simpl in H.
    - destruct H as [H1 _]. rewrite H1. reflexivity.
    - destruct H as [_ [_ H2]]. rewrite H2. reflexivity.
  Qed.

  (* the state reached by Prev from index i, related to the elements before i *)
  Lemma R_rev_prev : forall i, i <= length keys -> R_rev (bc_of (b_prev keys i)) (rev (firstn i keys)).
  Proof.
    intros i Hi. destruct i as [|j]; simpl.
    - unfold R_rev, bc_of; simpl. split; reflexivity.
    - unfold bc_of; simpl. apply R_rev_at. lia.
  Qed.

  Lemma rev_next_R : forall s rem, R_rev s rem -> exists s', rev_next keys s = Ok s' /\ R_rev s' (tl rem).
  Proof.
    intros s rem H. unfold rev_next. eexists. split; [reflexivity|].
    unfold R_rev in H. destruct rem as [|x r]; cbv beta iota in H.
    - destruct H as [H1 H2]. rewrite H2. simpl. unfold R_rev, bc_of; simpl. split; reflexivity.
    - destruct H as [Hi [Hr Hk]]. simpl tl.
      destruct (nth_error_lt_some keys _ Hi) as [y Hy]. rewrite (rev_firstn_S _ _ _ Hy) in Hr.
      inversion Hr; subst. apply R_rev_prev. lia.
  Qed.

  (* where Seek lands: the split of the keys at the lower bound of v *)
  Lemma rev_seek_exact : forall v, kv keys (lb v keys) = Some v ->
    drop_until rev_leb v (rev keys) = rev (firstn (S (lb v keys)) keys).
  Proof.
    intros v Hk. set (i := lb v keys) in *. unfold kv in Hk.
    rewrite (rev_firstn_S _ _ _ Hk).
    rewrite <- (firstn_skipn i keys) at 1. rewrite rev_app_distr.
    destruct (skipn i keys) as [|h t] eqn:Es; [rewrite hd_skipn_nth, Es in Hk; discriminate|].
    assert (h = v) by (rewrite hd_skipn_nth, Es in Hk; inversion Hk; reflexivity). subst h.
    simpl rev. rewrite <- app_assoc. simpl app.
    rewrite drop_until_skip.
    - simpl. unfold rev_leb at 1. rewrite str_leb_refl. reflexivity.
    - pose proof (sorted_skipn true keys i keys_sorted) as Hs. rewrite Es in Hs.
      pose proof (sorted_dir_head _ _ _ Hs) as Hf.
      apply Forall_forall. intros x Hx. apply in_rev in Hx. eapply Forall_forall in Hf; [|exact Hx].
      unfold rev_leb. apply str_ltb_leb_false. exact Hf.
  Qed.

  Lemma rev_seek_miss : forall v, kv keys (lb v keys) <> Some v ->
    drop_until rev_leb v (rev keys) = rev (firstn (lb v keys) keys).
  Proof.
    intros v Hk. set (i := lb v keys) in *. unfold kv in Hk.
    rewrite <- (firstn_skipn i keys) at 1. rewrite rev_app_distr.
    rewrite drop_until_skip.
    - apply drop_until_all. apply Forall_forall. intros x Hx. apply in_rev in Hx.
      pose proof (lb_firstn v keys) as Hf. eapply Forall_forall in Hf; [|exact Hx].
      unfold rev_leb. apply str_ltb_leb. apply str_leb_false_ltb. exact Hf.
    - destruct (skipn i keys) as [|h t] eqn:Es; [constructor|].
      assert (Hvh : str_leb v h = true) by (eapply lb_skipn_head; exact Es).
      assert (Hne : h <> v).
      { intro E. subst h. apply Hk. rewrite hd_skipn_nth, Es. reflexivity. }
      assert (Hlt : str_ltb v h = true) by (apply str_leb_neq_ltb; assumption).
      pose proof (sorted_skipn true keys i keys_sorted) as Hs. rewrite Es in Hs.
      pose proof (sorted_dir_head _ _ _ Hs) as Hf.
      apply Forall_forall. intros x Hx. apply in_rev in Hx. unfold rev_leb. apply str_ltb_leb_false.
      destruct Hx as [Hx|Hx]; [subst; exact Hlt|].
      eapply Forall_forall in Hf; [|exact Hx]. eapply str_ltb_trans; [exact Hlt | exact Hf].
  Qed.

  Lemma rev_seek_R : forall s rem v, R_rev s rem ->
    exists s', rev_seek keys v s = Ok s' /\ R_rev s' (drop_until rev_leb v (rev keys)).
  Proof.
    intros s rem v _. unfold rev_seek, b_seek. simpl snd. simpl fst.
    unfold gb_equal. simpl gb_str at 1.
    destruct (kv keys (lb v keys)) as [k|] eqn:Ek.
    - simpl gb_str. destruct (str_eqb v k) eqn:E.
      + apply str_eqb_eq in E. subst k. eexists. split; [reflexivity|].
        rewrite (rev_seek_exact v Ek). unfold bc_of; simpl. rewrite <- Ek. apply R_rev_at.
        unfold kv in Ek. apply nth_error_Some. rewrite Ek. discriminate.
      + apply str_eqb_neq in E. eexists. split; [reflexivity|].
        rewrite rev_seek_miss; [apply R_rev_prev; apply lb_le|].
        rewrite Ek. intro H. inversion H. subst. apply E. reflexivity.
    - simpl gb_str. assert (Hmiss : kv keys (lb v keys) <> Some v) by (rewrite Ek; discriminate).
      destruct (str_eqb v []) eqn:E.
      + apply str_eqb_eq in E. subst v. eexists. split; [reflexivity|].
        (* the target is empty and nothing is >= it: the bucket is empty *)
        assert (keys = []).
        { destruct keys as [|y l]; [reflexivity|]. simpl in Ek. rewrite str_leb_nil in Ek. discriminate. }
        rewrite H. simpl. unfold R_rev, bc_of; simpl. split; reflexivity.
      + eexists. split; [reflexivity|]. rewrite (rev_seek_miss v Hmiss). apply R_rev_prev. apply lb_le.
  Qed.

  Lemma rev_ksim : ksim (rev_cursor keys) rev_leb (rev keys) R_rev.
  Proof.
    constructor; [constructor|].
    - exact rev_obs.
    - exact rev_next_R.
    - exact rev_seek_R.
  Qed.

  Lemma rev_open_R : exists s0, rev_open keys = Ok s0 /\ R_rev s0 (rev keys).
  Proof.
    eexists. split; [reflexivity|]. unfold b_last. destruct keys as [|x l] eqn:E.
    - simpl. unfold R_rev, bc_of; simpl. split; reflexivity.
    - rewrite <- E. replace (rev keys) with (rev (firstn (S (length keys - 1)) keys)).
      + unfold bc_of; simpl. apply R_rev_at. subst; simpl; lia.
      + rewrite firstn_all2; [reflexivity|]. subst; simpl; lia.
  Qed.

  Lemma rev_nonnil : nonnil (plain (rev_cursor keys)) R_rev.
  Proof. intros s x rem H. simpl in H. destruct H as [_ [_ H]]. exists x. simpl. unfold bc_current. rewrite H. reflexivity. Qed.
End Reverse.

(* ---- NewBoltCursor(cursor, forward) ---------------------------------------------------------- *)

Lemma bolt_run_spec : forall keys fw ops, sorted_asc keys ->
  bolt_run keys fw ops = rspec_run (dir_leb fw) (dir_list fw keys) ops.
Proof.
  intros keys fw ops Hs. unfold bolt_run, dir_leb, dir_list. destruct fw.
  - destruct (fwd_open_R keys) as [s0 [Ho HR]]. rewrite Ho.
    eapply krun_sim; [apply fwd_ksim | exact HR].
  - destruct (rev_open_R keys Hs) as [s0 [Ho HR]]. rewrite Ho.
    eapply krun_sim; [apply rev_ksim; exact Hs | exact HR].
Qed.
