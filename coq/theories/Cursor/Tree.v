(* C14 - ast.TreeSet / ast.treeCursor (ast/cursors.go).
   An *llrb.Node is a [tree]; nil is [Leaf].  The cursor walks Left/Right pointers with an
   explicit stack, so the model quantifies over arbitrary tree shapes (llrb's balancing is not
   modelled; [bst_insert] is the executable stand-in for llrb.Tree.Insert: replace on equal).
   Elements are byteArrayComparable / reverseByteArrayComparable values, i.e. []byte (possibly nil). *)
From Coq Require Import List NArith Bool Arith.
From Storage Require Import Base.Bytes Cursor.Core Cursor.Filtered.
Import ListNotations.
Open Scope nat_scope.

Inductive tree := Leaf | Node (l : tree) (x : gobytes) (r : tree).

Fixpoint inorder (t : tree) : list gobytes :=
  match t with Leaf => [] | Node l x r => inorder l ++ x :: inorder r end.

(* the elements as strings, in order *)
Definition tkeys (t : tree) : list str := map gb_str (inorder t).

(* type treeCursor struct { stack []*llrb.Node; current *llrb.Node } ; head of [t_stack] = top *)
Record tcur := mkT { t_stack : list tree; t_cur : tree }.

(* func (cursor *treeCursor) next(node *llrb.Node) {
       if node.Left != nil { cursor.stack = append(cursor.stack, node); cursor.next(node.Left) }
       else { cursor.current = node } }            -- node.Left on a nil node panics *)
Fixpoint t_descend (node : tree) (stack : list tree) : res tcur :=
  match node with
  | Leaf => Panic
  | Node l x r =>
      match l with
      | Leaf => Ok (mkT stack node)
      | Node _ _ _ => t_descend l (node :: stack)
      end
  end.

(* repaired NewTreeCursor: result := &treeCursor{}; if tree.Root != nil { result.next(tree.Root) } *)
Definition t_open (root : tree) : res tcur :=
  match root with Leaf => Ok (mkT [] Leaf) | Node _ _ _ => t_descend root [] end.
(* pinned NewTreeCursor: result.next(tree.Root) *)
Definition t_open_legacy (root : tree) : res tcur := t_descend root [].

(* func (cursor *treeCursor) Next()  -- the pinned code evaluates cursor.current.Right on a nil current *)
Definition t_next_body (c : tcur) (r : tree) : res tcur :=
  match r with
  | Node _ _ _ => t_descend r (t_stack c)                 (* cursor.next(cursor.current.Right) *)
  | Leaf =>
      match t_stack c with
      | top :: rest => Ok (mkT rest top)                  (* pop *)
      | [] => Ok (mkT [] Leaf)                            (* cursor.current = nil *)
      end
  end.
(* repaired: if cursor.current == nil { return } first *)
Definition t_next (c : tcur) : res tcur :=
  match t_cur c with Leaf => Ok c | Node _ _ r => t_next_body c r end.
Definition t_next_legacy (c : tcur) : res tcur :=
  match t_cur c with Leaf => Panic | Node _ _ r => t_next_body c r end.

Definition t_valid (c : tcur) : bool := match t_cur c with Leaf => false | Node _ _ _ => true end.
(* Current(): cursor.current.Elem.(byteArrayWrapper).toBytes() -- panics on a nil current *)
Definition t_current (c : tcur) : res gobytes := match t_cur c with Leaf => Panic | Node _ x _ => Ok x end.

Definition tree_cursor : scursor tcur := mkS t_next t_valid t_current.
Definition tree_cursor_legacy : scursor tcur := mkS t_next_legacy t_valid t_current.

(* byteArrayComparable.Compare / reverseByteArrayComparable.Compare *)
Definition dir_cmp (fw : bool) (a b : str) : comparison :=
  if fw then str_cmp a b else CompOpp (str_cmp a b).

(* TreeSet.Add: set.tree.Insert(...) -- llrb replaces an equal element *)
Fixpoint bst_insert (fw : bool) (v : gobytes) (t : tree) : tree :=
  match t with
  | Leaf => Node Leaf v Leaf
  | Node l x r =>
      match dir_cmp fw (gb_str v) (gb_str x) with
      | Eq => Node l v r
      | Lt => Node (bst_insert fw v l) x r
      | Gt => Node l x (bst_insert fw v r)
      end
  end.

(* NewTreeSet(forward); Add each; ToCursor() *)
Definition treeset_of (fw : bool) (adds : list gobytes) : tree :=
  fold_left (fun t v => bst_insert fw v t) adds Leaf.

Definition tree_run (t : tree) (n : nat) : list obs := srun tree_cursor (t_open t) n.
Definition tree_run_legacy (t : tree) (n : nat) : list obs := srun tree_cursor_legacy (t_open_legacy t) n.
