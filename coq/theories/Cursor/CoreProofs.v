(* Generic facts: a cursor related to the suffix machine by a simulation produces exactly the
   specification trace; the suffix machine and the position machine (pos : option nat) agree;
   Next-only traces and the Seek observation in closed form. *)
From Coq Require Import List NArith Bool Arith Lia.
From Storage Require Import Base.Bytes Cursor.StrOrder Cursor.Core.
Import ListNotations.
Open Scope nat_scope.

(* ---- observe inversions --------------------------------------------------------------- *)

Lemma observe_cur_inv : forall St (C : scursor St) s x,
  observe C s = OCur x -> s_valid C s = true /\ exists b, s_current C s = Ok b /\ gb_str b = x.
Proof.
  intros S C s x H. unfold observe in H. destruct (s_valid C s); [|discriminate].
  split; [reflexivity|]. destruct (s_current C s) as [b| |]; try discriminate.
  inversion H. exists b. split; reflexivity.
Qed.

Lemma observe_invalid_inv : forall St (C : scursor St) s,
  observe C s = OInvalid -> s_valid C s = false.
Proof.
  intros S C s H. unfold observe in H. destruct (s_valid C s); [|reflexivity].
  destruct (s_current C s); discriminate.
Qed.

Lemma sim_valid_cons : forall St (C : scursor St) R s x rem,
  sim C R -> R s (x :: rem) -> s_valid C s = true /\ exists b, s_current C s = Ok b /\ gb_str b = x.
Proof. intros S C R s x rem HS HR. apply observe_cur_inv. apply (sim_obs C R HS _ _ HR). Qed.

Lemma sim_valid_nil : forall St (C : scursor St) R s,
  sim C R -> R s [] -> s_valid C s = false.
Proof. intros S C R s HS HR. apply observe_invalid_inv. apply (sim_obs C R HS _ _ HR). Qed.

(* ---- runs of simulated cursors ----------------------------------------------------------- *)

Lemma srun_from_sim : forall St (C : scursor St) R leb L, sim C R ->
  forall n s rem, R s rem -> srun_from C s n = rspec_from leb L rem (repeat CNext n).
Proof.
  intros S C R leb L HS. induction n as [|n IH]; intros s rem HR; [reflexivity|].
  simpl. destruct (sim_next C R HS _ _ HR) as [s' [Hn HR']]. rewrite Hn.
  rewrite (sim_obs C R HS _ _ HR'). f_equal. apply IH. exact HR'.
Qed.

Lemma srun_sim : forall St (C : scursor St) R leb L s0, sim C R -> R s0 L ->
  forall n, srun C (Ok s0) n = rspec_run leb L (repeat CNext n).
Proof.
  intros S C R leb L s0 HS HR n. unfold srun, rspec_run.
  rewrite (sim_obs C R HS _ _ HR). f_equal. eapply srun_from_sim; eassumption.
Qed.

Lemma krun_from_sim : forall St (K : kcursor St) leb L R, ksim K leb L R ->
  forall ops s rem, R s rem -> krun_from K s ops = rspec_from leb L rem ops.
Proof.
  intros S K leb L R HK. induction ops as [|o ops IH]; intros s rem HR; [reflexivity|].
  simpl. destruct o as [|v].
  - simpl. destruct (sim_next _ _ (ks_sim K leb L R HK) _ _ HR) as [s' [Hn HR']].
    simpl in Hn. rewrite Hn. rewrite (sim_obs _ _ (ks_sim K leb L R HK) _ _ HR'). f_equal. apply IH. exact HR'.
  - simpl. destruct (ks_seek K leb L R HK _ _ v HR) as [s' [Hn HR']]. rewrite Hn.
    rewrite (sim_obs _ _ (ks_sim K leb L R HK) _ _ HR'). f_equal. apply IH. exact HR'.
Qed.

Lemma krun_sim : forall St (K : kcursor St) leb L R s0, ksim K leb L R -> R s0 L ->
  forall ops, krun K (Ok s0) ops = rspec_run leb L ops.
Proof.
  intros S K leb L R s0 HK HR ops. unfold krun, rspec_run.
  rewrite (sim_obs _ _ (ks_sim K leb L R HK) _ _ HR). f_equal. eapply krun_from_sim; eassumption.
Qed.

(* a seekable cursor used through its plain interface *)
Lemma krun_next_only : forall St (K : kcursor St) n s,
  krun_from K s (repeat CNext n) = srun_from (plain K) s n.
Proof.
  intros S K. induction n as [|n IH]; intro s; [reflexivity|].
  simpl. destruct (k_next K s) as [s'| |]; simpl; try rewrite repeat_length; try reflexivity.
  f_equal. apply IH.
Qed.

(* ---- draining ------------------------------------------------------------------------------ *)

Lemma drain_sim : forall St (C : scursor St) R, sim C R ->
  forall fuel s rem, R s rem -> length rem < fuel -> drain C fuel s = Ok rem.
Proof.
  intros S C R HS. induction fuel as [|fuel IH]; intros s rem HR Hlen; [lia|].
  simpl. destruct rem as [|x rem].
  - rewrite (sim_valid_nil _ _ _ _ HS HR). reflexivity.
  - destruct (sim_valid_cons _ _ _ _ _ _ HS HR) as [Hv [b [Hc Hb]]]. rewrite Hv, Hc.
    destruct (sim_next C R HS _ _ HR) as [s' [Hn HR']]. rewrite Hn. simpl in HR'.
    rewrite (IH s' rem HR'); [|simpl in Hlen; lia]. rewrite Hb. reflexivity.
Qed.

(* ---- position machine = suffix machine ---------------------------------------------------- *)

Section PosSuffix.
  Variable leb : str -> str -> bool.
  Variable L : list str.

  Definition rem_of (p : apos) : list str := match p with Some i => skipn i L | None => [] end.

  Lemma rem_of_norm : forall i, rem_of (norm L i) = skipn i L.
  Proof.
    intro i. unfold norm. destruct (Nat.ltb i (length L)) eqn:E; [reflexivity|].
    apply Nat.ltb_ge in E. simpl. symmetry. apply skipn_all2. exact E.
  Qed.

  Lemma hd_skipn_nth : forall (l : list str) i, nth_error l i = hd_error (skipn i l).
  Proof.
    induction l as [|x l IH]; intro i; destruct i; simpl; try reflexivity. apply IH.
  Qed.

  Lemma tl_skipn : forall (l : list str) i, tl (skipn i l) = skipn (S i) l.
  Proof.
    intros l i. revert l. induction i as [|i IH]; intro l; destruct l as [|x l]; try reflexivity.
    change (tl (skipn i l) = skipn (S i) l). apply IH.
  Qed.

  Lemma skipn_lower_bound : forall v (l : list str), skipn (lower_bound leb v l) l = drop_until leb v l.
  Proof.
    induction l as [|x l IH]; simpl; [reflexivity|]. destruct (leb v x); [reflexivity|]. exact IH.
  Qed.

  Lemma aobs_robs : forall p, (forall i, p = Some i -> i < length L) -> aobs L p = robs (rem_of p).
  Proof.
    intros [i|] Hp; simpl; [|reflexivity]. rewrite hd_skipn_nth.
    destruct (skipn i L); reflexivity.
  Qed.

  Lemma norm_lt : forall i j, norm L i = Some j -> j < length L.
  Proof.
    intros i j H. unfold norm in H. destruct (Nat.ltb i (length L)) eqn:E; [|discriminate].
    inversion H; subst. apply Nat.ltb_lt. exact E.
  Qed.

  Lemma astep_lt : forall p o j, astep leb L p o = Some j -> j < length L.
  Proof.
    intros p o j H. destruct o as [|v]; simpl in H.
    - destruct p as [i|]; [|discriminate]. eapply norm_lt; eassumption.
    - eapply norm_lt; eassumption.
  Qed.

  Lemma rem_of_astep : forall p o, rem_of (astep leb L p o) = rstep leb L (rem_of p) o.
  Proof.
    intros p o. destruct o as [|v]; simpl.
    - destruct p as [i|]; simpl; [|reflexivity]. rewrite rem_of_norm. symmetry. apply tl_skipn.
    - rewrite rem_of_norm. apply skipn_lower_bound.
  Qed.

  Lemma spec_from_rspec : forall ops p, spec_from leb L p ops = rspec_from leb L (rem_of p) ops.
  Proof.
    induction ops as [|o ops IH]; intro p; [reflexivity|].
    simpl. rewrite <- rem_of_astep. rewrite aobs_robs; [|intros i Hi; eapply astep_lt; eassumption].
    f_equal. apply IH.
  Qed.

  Lemma spec_run_rspec : forall ops, spec_run leb L ops = rspec_run leb L ops.
  Proof.
    intro ops. unfold spec_run, rspec_run.
    rewrite aobs_robs; [|intros i Hi; eapply norm_lt; eassumption].
    rewrite spec_from_rspec. unfold afirst. rewrite rem_of_norm. reflexivity.
  Qed.
End PosSuffix.

(* ---- closed forms -------------------------------------------------------------------------- *)

Lemma firstn_repeat : forall (x : obs) k n, k <= n -> firstn k (repeat x n) = repeat x k.
Proof.
  induction k as [|k IH]; intros n H; [reflexivity|].
  destruct n as [|n]; [lia|]. simpl. f_equal. apply IH. lia.
Qed.

Lemma firstn_app_repeat : forall (A : list obs) x k n, k - length A <= n ->
  firstn k (A ++ repeat x n) = firstn k A ++ repeat x (k - length A).
Proof.
  intros A x k n H. rewrite firstn_app. f_equal. apply firstn_repeat. exact H.
Qed.

Lemma rspec_next_only : forall leb L n rem,
  robs rem :: rspec_from leb L rem (repeat CNext n) = enum_trace rem n.
Proof.
  intros leb L. unfold enum_trace. induction n as [|n IH]; intro rem.
  - destruct rem; reflexivity.
  - change (repeat CNext (S n)) with (CNext :: repeat CNext n).
    change (rspec_from leb L rem (CNext :: repeat CNext n))
      with (robs (tl rem) :: rspec_from leb L (tl rem) (repeat CNext n)).
    rewrite IH. destruct rem as [|x rem].
    + cbn [tl map app robs].
      rewrite (firstn_repeat OInvalid (S n) (S n)) by lia.
      rewrite (firstn_repeat OInvalid (S (S n)) (S (S n))) by lia. reflexivity.
    + cbn [tl map robs]. rewrite <- app_comm_cons. rewrite firstn_cons.
      f_equal. rewrite !firstn_app_repeat by lia. reflexivity.
Qed.

Lemma rspec_run_next_only : forall leb L n, rspec_run leb L (repeat CNext n) = enum_trace L n.
Proof. intros. unfold rspec_run. apply rspec_next_only. Qed.

Lemma robs_drop_until : forall leb v l, robs (drop_until leb v l) = obs_of_option (find (leb v) l).
Proof.
  induction l as [|x l IH]; simpl; [reflexivity|]. destruct (leb v x); [reflexivity|]. exact IH.
Qed.

Lemma rspec_from_app : forall leb L ops1 ops2 rem,
  rspec_from leb L rem (ops1 ++ ops2) =
  rspec_from leb L rem ops1 ++ rspec_from leb L (fold_left (rstep leb L) ops1 rem) ops2.
Proof.
  intros leb L. induction ops1 as [|o ops1 IH]; intros ops2 rem; [reflexivity|].
  simpl. f_equal. apply IH.
Qed.

(* the observation right after a Seek, whatever happened before *)
Lemma rspec_run_seek_last : forall leb L ops v,
  last (rspec_run leb L (ops ++ [CSeek v])) OInvalid = obs_of_option (find (leb v) L).
Proof.
  intros leb L ops v. unfold rspec_run. rewrite rspec_from_app. simpl rspec_from at 2.
  rewrite app_comm_cons. rewrite last_last. apply robs_drop_until.
Qed.

(* ---- the Seek specification is what the property text says --------------------------------- *)

(* forward: the result is the least element >= v ; none only if no element is >= v *)
Lemma seek_target_fwd_some : forall l v x, sorted_asc l -> seek_target true l v = Some x ->
  In x l /\ str_leb v x = true /\ forall y, In y l -> str_leb v y = true -> str_leb x y = true.
Proof.
  unfold seek_target, dir_list, dir_leb, fwd_leb.
  induction l as [|a l IH]; simpl; intros v x Hs H; [discriminate|].
  destruct (str_leb v a) eqn:E.
  - inversion H; subst x. split; [left; reflexivity|]. split; [exact E|].
    intros y [Hy|Hy] _; [subst; apply str_leb_refl|].
    pose proof (sorted_dir_head _ _ _ Hs) as Hf. eapply Forall_forall in Hf; [|exact Hy].
    apply str_ltb_leb. exact Hf.
  - destruct (IH v x (sorted_dir_tail _ _ _ Hs) H) as [I1 [I2 I3]].
    split; [right; exact I1|]. split; [exact I2|].
    intros y [Hy|Hy] Hvy; [subst; rewrite Hvy in E; discriminate | apply I3; assumption].
Qed.

Lemma seek_target_none : forall fw l v, seek_target fw l v = None ->
  forall y, In y l -> dir_leb fw v y = false.
Proof.
  intros fw l v H y Hy. unfold seek_target in H.
  apply (find_none _ _ H). destruct fw; simpl; [exact Hy | apply in_rev in Hy; exact Hy].
Qed.

(* reverse: the result is the greatest element <= v *)
Lemma seek_target_rev_some : forall l v x, sorted_asc l -> seek_target false l v = Some x ->
  In x l /\ str_leb x v = true /\ forall y, In y l -> str_leb y v = true -> str_leb y x = true.
Proof.
  intros l v x Hs. unfold seek_target, dir_list, dir_leb, rev_leb.
  pose proof (sorted_dir_rev _ _ Hs) as Hr. simpl in Hr.
  assert (G : forall m, sorted_dir false m -> find (fun x0 => str_leb x0 v) m = Some x ->
            In x m /\ str_leb x v = true /\ forall y, In y m -> str_leb y v = true -> str_leb y x = true).
  { induction m as [|a m IH]; simpl; intros Hm H; [discriminate|].
    destruct (str_leb a v) eqn:E.
    - inversion H; subst x. split; [left; reflexivity|]. split; [exact E|].
      intros y [Hy|Hy] _; [subst; apply str_leb_refl|].
      pose proof (sorted_dir_head _ _ _ Hm) as Hf. eapply Forall_forall in Hf; [|exact Hy].
      apply str_ltb_leb. exact Hf.
    - destruct (IH (sorted_dir_tail _ _ _ Hm) H) as [I1 [I2 I3]].
      split; [right; exact I1|]. split; [exact I2|].
      intros y [Hy|Hy] Hvy; [subst; rewrite Hvy in E; discriminate | apply I3; assumption]. }
  intro H. destruct (G _ Hr H) as [G1 [G2 G3]].
  split; [apply in_rev; exact G1|]. split; [exact G2|].
  intros y Hy. apply G3. apply in_rev in Hy. exact Hy.
Qed.
