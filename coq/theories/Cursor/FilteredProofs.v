(* emptyCursor, the may-be-empty hand-out wrapper, and filteredCursor refine the suffix machine:
   a filtered cursor over a cursor that enumerates L enumerates [filter f L]. *)
From Coq Require Import List NArith Bool Arith Lia.
From Storage Require Import Base.Bytes Cursor.Core Cursor.CoreProofs Cursor.Filtered.
Import ListNotations.
Open Scope nat_scope.

(* ---- emptyCursor ---------------------------------------------------------------------------- *)

Definition R_empty (s : unit) (rem : list str) : Prop := rem = [].

Lemma empty_ksim : forall leb, ksim empty_cursor leb [] R_empty.
Proof.
  intro leb. constructor; [constructor|].
  - intros s rem H. unfold R_empty in H. subst. reflexivity.
  - intros s rem H. unfold R_empty in H. subst. exists s. split; reflexivity.
  - intros s rem v H. exists s. split; reflexivity.
Qed.

(* ---- opt_cursor ----------------------------------------------------------------------------- *)

Section Opt.
  Variable St : Type.
  Variable K : kcursor St.
  Variable leb : str -> str -> bool.
  Variable L : list str.
  Variable R : St -> list str -> Prop.
  Hypothesis HK : ksim K leb L R.

  Definition R_opt (o : option St) (rem : list str) : Prop :=
    match o with None => rem = [] /\ L = [] | Some s => R s rem end.

  Lemma opt_observe : forall s, observe (plain (opt_cursor K)) (Some s) = observe (plain K) s.
  Proof. intro s. reflexivity. Qed.

  Lemma opt_ksim : ksim (opt_cursor K) leb L R_opt.
  Proof.
    constructor; [constructor|].
    - intros [s|] rem H; simpl in H.
      + rewrite opt_observe. apply (sim_obs _ _ (ks_sim _ _ _ _ HK) _ _ H).
      + destruct H as [H _]. subst. reflexivity.
    - intros [s|] rem H; simpl in H.
      + destruct (sim_next _ _ (ks_sim _ _ _ _ HK) _ _ H) as [s' [Hn HR]]. simpl in Hn.
        exists (Some s'). split; [simpl; rewrite Hn; reflexivity | exact HR].
      + destruct H as [H HL]. subst. exists None. split; [reflexivity|]. simpl. split; [reflexivity | exact HL].
    - intros [s|] rem v H; simpl in H.
      + destruct (ks_seek _ _ _ _ HK _ _ v H) as [s' [Hn HR]].
        exists (Some s'). split; [simpl; rewrite Hn; reflexivity | exact HR].
      + destruct H as [H HL]. exists None. split; [reflexivity|]. simpl. rewrite HL. simpl. split; reflexivity.
  Qed.

  Lemma opt_nonnil : nonnil (plain K) R -> nonnil (plain (opt_cursor K)) R_opt.
  Proof.
    intros HN [s|] x rem H; simpl in H.
    - apply (HN s x rem H).
    - destruct H as [H _]. discriminate.
  Qed.
End Opt.

(* ---- filteredCursor ---------------------------------------------------------------------------- *)

Section FilteredProofs.
  Variable St : Type.
  Variable W : scursor St.
  Variable f : str -> bool.
  Variable fuel : nat.
  Variable R : St -> list str -> Prop.
  Hypothesis HW : sim W R.

  Definition head_ok (rem : list str) : Prop := match rem with [] => True | x :: _ => f x = true end.

  Definition R_f (fs : fstate St) (rem' : list str) : Prop :=
    match fs with
    | FEmpty => rem' = []
    | FWrap s => exists rem, R s rem /\ length rem <= fuel /\ rem' = filter f rem /\ head_ok rem
    end.

  Lemma f_loop_spec : forall k s rem, R s rem -> length rem <= k ->
    exists s' rem2, f_loop St W f k s = Ok s' /\ R s' rem2 /\ head_ok rem2 /\
                    filter f rem2 = filter f (tl rem) /\ length rem2 <= length rem.
  Proof.
    induction k as [|k IH]; intros s rem HR Hlen.
    - destruct rem as [|x r]; [|simpl in Hlen; lia].
      exists s, []. simpl. rewrite (sim_valid_nil _ _ _ _ HW HR). repeat split; auto.
    - destruct rem as [|x r].
      + exists s, []. simpl. rewrite (sim_valid_nil _ _ _ _ HW HR). repeat split; auto.
      + destruct (sim_valid_cons _ _ _ _ _ _ HW HR) as [Hv _].
        destruct (sim_next _ _ HW _ _ HR) as [s1 [Hn HR1]]. simpl tl in HR1.
        simpl f_loop. rewrite Hv, Hn. simpl bind.
        destruct r as [|y r'].
        * rewrite (sim_valid_nil _ _ _ _ HW HR1).
          destruct (IH s1 [] HR1 (Nat.le_0_l _)) as [s' [rem2 [E [H1 [H2 [H3 H4]]]]]].
          exists s', rem2. repeat split; auto. simpl in H4. simpl. lia.
        * destruct (sim_valid_cons _ _ _ _ _ _ HW HR1) as [Hv1 [b [Hc Hb]]].
          rewrite Hv1, Hc. simpl bind. rewrite Hb.
          destruct (f y) eqn:Ef.
          -- exists s1, (y :: r'). repeat split; auto. simpl. lia.
          -- assert (Hl : length (y :: r') <= k) by (simpl in *; lia).
             destruct (IH s1 (y :: r') HR1 Hl) as [s' [rem2 [E [H1 [H2 [H3 H4]]]]]].
             exists s', rem2. repeat split; auto.
             ++ rewrite H3. simpl. rewrite Ef. reflexivity.
             ++ simpl in *. lia.
  Qed.

  Lemma filter_tl_head : forall rem, head_ok rem -> tl (filter f rem) = filter f (tl rem).
  Proof. intros [|x r] H; simpl in *; [reflexivity|]. rewrite H. reflexivity. Qed.

  Lemma filtered_sim : sim (filtered_cursor St W f fuel) R_f.
  Proof.
    constructor.
    - intros [|s] rem' H; simpl in H.
      + subst. reflexivity.
      + destruct H as [rem [HR [_ [E Hh]]]]. subst rem'.
        change (observe (filtered_cursor St W f fuel) (FWrap s)) with (observe W s).
        rewrite (sim_obs _ _ HW _ _ HR). destruct rem as [|x r]; simpl in *; [reflexivity|]. rewrite Hh. reflexivity.
    - intros [|s] rem' H; simpl in H.
      + subst. exists FEmpty. split; reflexivity.
      + destruct H as [rem [HR [Hl [E Hh]]]]. subst rem'.
        destruct (f_loop_spec fuel s rem HR Hl) as [s' [rem2 [El [H1 [H2 [H3 H4]]]]]].
        exists (FWrap s'). split; [simpl; rewrite El; reflexivity|].
        exists rem2. split; [exact H1|]. split; [lia|]. split; [|exact H2].
        rewrite filter_tl_head by exact Hh. symmetry. exact H3.
  Qed.

  Lemma filtered_open_some : forall s0 L, R s0 L -> length L <= fuel ->
    exists fs, f_open St W f fuel (Some s0) = Ok fs /\ R_f fs (filter f L).
  Proof.
    intros s0 L HR Hl. unfold f_open. destruct L as [|x r].
    - rewrite (sim_valid_nil _ _ _ _ HW HR). exists FEmpty. split; reflexivity.
    - destruct (sim_valid_cons _ _ _ _ _ _ HW HR) as [Hv [b [Hc Hb]]]. rewrite Hv, Hc. simpl bind. rewrite Hb.
      destruct (f x) eqn:Ef.
      + exists (FWrap s0). split; [reflexivity|]. exists (x :: r). repeat split; auto.
      + destruct (f_loop_spec fuel s0 (x :: r) HR Hl) as [s' [rem2 [El [H1 [H2 [H3 H4]]]]]].
        exists (FWrap s'). split; [simpl; rewrite El; reflexivity|].
        exists rem2. split; [exact H1|]. split; [simpl in *; lia|]. split; [|exact H2].
        simpl. rewrite Ef. symmetry. exact H3.
  Qed.

  Lemma filtered_open_none : exists fs, f_open St W f fuel None = Ok fs /\ R_f fs [].
  Proof. exists FEmpty. split; reflexivity. Qed.

  Lemma filtered_nonnil : nonnil W R -> nonnil (filtered_cursor St W f fuel) R_f.
  Proof.
    intros HN [|s] x rem' H; simpl in H; [discriminate|].
    destruct H as [rem [HR [_ [E Hh]]]]. destruct rem as [|y r]; simpl in E; [discriminate|].
    apply (HN s y r HR).
  Qed.
End FilteredProofs.

(* run form: a filtered cursor over anything that enumerates L yields filter f L *)
Lemma filtered_run_spec : forall St (W : scursor St) R f fuel s0 L leb n,
  sim W R -> R s0 L -> length L <= fuel ->
  srun (filtered_cursor St W f fuel) (f_open St W f fuel (Some s0)) n = rspec_run leb (filter f L) (repeat CNext n).
Proof.
  intros St W R f fuel s0 L leb n HW HR Hl.
  destruct (filtered_open_some St W f fuel R HW s0 L HR Hl) as [fs [Ho HRf]]. rewrite Ho.
  eapply srun_sim; [apply filtered_sim; exact HW | exact HRf].
Qed.
