(* GENERATED FILE: GenUnescape.v *)
(* regenerated from zitiql/util.go by translators/unescape on every run; do not edit *)
From Coq Require Import List NArith.
From Storage Require Import Base.Bytes Lang.UnescapeGen.
Import ListNotations.
Definition pairs : list (str * str) :=
  [
    ([92; 92]%N, [92]%N);
    ([92; 34]%N, [34]%N);
    ([92; 102]%N, [12]%N);
    ([92; 110]%N, [10]%N);
    ([92; 114]%N, [13]%N);
    ([92; 116]%N, [9]%N)
  ].
Definition body : list step :=
  [STrimPrefix [34]%N; STrimSuffix [34]%N; SReplacer].
