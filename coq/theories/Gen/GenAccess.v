(* GENERATED FILE: GenAccess.v *)
(* Written by translators/access from the Go source on every run - do not edit.
   For each helper: the package-level variables it may touch (through the static call graph
   inside the repository's packages), read or write, synchronised or not, and the function
   in which the access occurs. *)
From Coq Require Import List String.
From Storage Require Import Db.Access Db.LockTable Db.MemView.
Import ListNotations.
Open Scope string_scope.

Definition table : list helper := [
  {| h_name := "ast.Parse"; h_acc := [
      {| a_loc := "ast.BoolNodeTrue"; a_kind := ARead; a_sync := false; a_via := "ast.Parse" |};
      {| a_loc := "ast.EnableQueryDebug"; a_kind := ARead; a_sync := true; a_via := "ast.Parse" |};
      {| a_loc := "ast.SetFunctionNames"; a_kind := ARead; a_sync := false; a_via := "ast.SymbolValidator.VisitSetFunctionNodeEnd" |};
      {| a_loc := "ast.binaryOpNames"; a_kind := ARead; a_sync := false; a_via := "ast.BinaryBoolExprNode.String" |};
      {| a_loc := "ast.nodeTypeNames"; a_kind := ARead; a_sync := false; a_via := "ast.BinaryExprNode.invalidOpTypes" |};
      {| a_loc := "boltz.BaseStore.entityPath"; a_kind := ARead; a_sync := false; a_via := "boltz.BaseStore.GetEntitiesBucket" |};
      {| a_loc := "boltz.BaseStore.mapSymbols"; a_kind := ARead; a_sync := false; a_via := "boltz.BaseStore.GetSymbol" |};
      {| a_loc := "boltz.BaseStore.parent"; a_kind := ARead; a_sync := false; a_via := "boltz.BaseStore.GetEntitiesBucket" |};
      {| a_loc := "boltz.BaseStore.publicSymbols"; a_kind := ARead; a_sync := false; a_via := "boltz.BaseStore.IsPublicSymbol" |};
      {| a_loc := "boltz.BaseStore.symbols"; a_kind := ARead; a_sync := true; a_via := "boltz.BaseStore.GetSymbol" |};
      {| a_loc := "boltz.ExternalSymbol.impl"; a_kind := ARead; a_sync := false; a_via := "boltz.ExternalSymbol.Eval" |};
      {| a_loc := "boltz.ExternalSymbol.nodeType"; a_kind := ARead; a_sync := false; a_via := "boltz.ExternalSymbol.GetType" |};
      {| a_loc := "boltz.NewBoolFuncSymbol$f"; a_kind := ARead; a_sync := false; a_via := "boltz.NewBoolFuncSymbol$lit1" |};
      {| a_loc := "boltz.NewStringFuncSymbol$f"; a_kind := ARead; a_sync := false; a_via := "boltz.NewStringFuncSymbol$lit1" |};
      {| a_loc := "boltz.entityIdSymbol.symbolType"; a_kind := ARead; a_sync := false; a_via := "boltz.entityIdSymbol.GetType" |};
      {| a_loc := "zitiql.ZitiQlLexerLexerStaticData"; a_kind := AWrite; a_sync := true; a_via := "zitiql.zitiqllexerLexerInit" |};
      {| a_loc := "zitiql.ZitiQlLexerLexerStaticData"; a_kind := ARead; a_sync := false; a_via := "zitiql.NewZitiQlLexer" |};
      {| a_loc := "zitiql.ZitiQlLexerLexerStaticData"; a_kind := ARead; a_sync := true; a_via := "zitiql.ZitiQlLexerInit" |};
      {| a_loc := "zitiql.ZitiQlParserStaticData"; a_kind := AWrite; a_sync := true; a_via := "zitiql.zitiqlParserInit" |};
      {| a_loc := "zitiql.ZitiQlParserStaticData"; a_kind := ARead; a_sync := false; a_via := "zitiql.NewZitiQlParser" |};
      {| a_loc := "zitiql.ZitiQlParserStaticData"; a_kind := ARead; a_sync := true; a_via := "zitiql.ZitiQlParserInit" |};
      {| a_loc := "zitiql.lexerPool"; a_kind := AWrite; a_sync := true; a_via := "zitiql.parse" |};
      {| a_loc := "zitiql.lexerPool"; a_kind := ARead; a_sync := true; a_via := "zitiql.parse" |};
      {| a_loc := "zitiql.parserPool"; a_kind := AWrite; a_sync := true; a_via := "zitiql.parse" |};
      {| a_loc := "zitiql.parserPool"; a_kind := ARead; a_sync := true; a_via := "zitiql.parse" |}] |};
  {| h_name := "ast.PostProcess"; h_acc := [
      {| a_loc := "ast.SetFunctionNames"; a_kind := ARead; a_sync := false; a_via := "ast.SymbolValidator.VisitSetFunctionNodeEnd" |};
      {| a_loc := "ast.binaryOpNames"; a_kind := ARead; a_sync := false; a_via := "ast.BinaryBoolExprNode.String" |};
      {| a_loc := "ast.nodeTypeNames"; a_kind := ARead; a_sync := false; a_via := "ast.BinaryExprNode.invalidOpTypes" |};
      {| a_loc := "boltz.BaseStore.entityPath"; a_kind := ARead; a_sync := false; a_via := "boltz.BaseStore.GetEntitiesBucket" |};
      {| a_loc := "boltz.BaseStore.mapSymbols"; a_kind := ARead; a_sync := false; a_via := "boltz.BaseStore.GetSymbol" |};
      {| a_loc := "boltz.BaseStore.parent"; a_kind := ARead; a_sync := false; a_via := "boltz.BaseStore.GetEntitiesBucket" |};
      {| a_loc := "boltz.BaseStore.publicSymbols"; a_kind := ARead; a_sync := false; a_via := "boltz.BaseStore.IsPublicSymbol" |};
      {| a_loc := "boltz.BaseStore.symbols"; a_kind := ARead; a_sync := true; a_via := "boltz.BaseStore.GetSymbol" |};
      {| a_loc := "boltz.ExternalSymbol.impl"; a_kind := ARead; a_sync := false; a_via := "boltz.ExternalSymbol.Eval" |};
      {| a_loc := "boltz.ExternalSymbol.nodeType"; a_kind := ARead; a_sync := false; a_via := "boltz.ExternalSymbol.GetType" |};
      {| a_loc := "boltz.NewBoolFuncSymbol$f"; a_kind := ARead; a_sync := false; a_via := "boltz.NewBoolFuncSymbol$lit1" |};
      {| a_loc := "boltz.NewStringFuncSymbol$f"; a_kind := ARead; a_sync := false; a_via := "boltz.NewStringFuncSymbol$lit1" |};
      {| a_loc := "boltz.entityIdSymbol.symbolType"; a_kind := ARead; a_sync := false; a_via := "boltz.entityIdSymbol.GetType" |}] |};
  {| h_name := "boltz.BaseStore.FindById"; h_acc := [
      {| a_loc := "boltz.BaseStore.entityPath"; a_kind := ARead; a_sync := false; a_via := "boltz.BaseStore.GetEntitiesBucket" |};
      {| a_loc := "boltz.BaseStore.entityStrategy"; a_kind := ARead; a_sync := false; a_via := "boltz.BaseStore.FindById" |};
      {| a_loc := "boltz.BaseStore.isExtended"; a_kind := ARead; a_sync := false; a_via := "boltz.BaseStore.IsExtended" |};
      {| a_loc := "boltz.BaseStore.parent"; a_kind := ARead; a_sync := false; a_via := "boltz.BaseStore.GetEntitiesBucket" |}] |};
  {| h_name := "boltz.BaseStore.FindMatching"; h_acc := [
      {| a_loc := "boltz.BaseStore.entityPath"; a_kind := ARead; a_sync := false; a_via := "boltz.BaseStore.GetEntitiesBucket" |};
      {| a_loc := "boltz.BaseStore.parent"; a_kind := ARead; a_sync := false; a_via := "boltz.BaseStore.GetEntitiesBucket" |};
      {| a_loc := "boltz.entitySetSymbolImpl.getBucketF"; a_kind := ARead; a_sync := false; a_via := "boltz.entitySetSymbolImpl.EvalStringList" |};
      {| a_loc := "boltz.entitySetSymbolImpl.key"; a_kind := ARead; a_sync := false; a_via := "boltz.entitySetSymbolImpl.EvalStringList" |};
      {| a_loc := "boltz.entitySetSymbolImpl.store"; a_kind := ARead; a_sync := false; a_via := "boltz.entitySetSymbolImpl.EvalStringList" |};
      {| a_loc := "boltz.setIndex.indexPath"; a_kind := ARead; a_sync := false; a_via := "boltz.setIndex.Read" |};
      {| a_loc := "boltz.setIndex.symbol"; a_kind := ARead; a_sync := false; a_via := "boltz.setIndex.GetSymbol" |}] |};
  {| h_name := "boltz.BaseStore.FindMatchingAnyOf"; h_acc := [
      {| a_loc := "boltz.setIndex.indexPath"; a_kind := ARead; a_sync := false; a_via := "boltz.setIndex.Read" |}] |};
  {| h_name := "boltz.BaseStore.GetPublicSymbols"; h_acc := [
      {| a_loc := "boltz.BaseStore.publicSymbols"; a_kind := ARead; a_sync := false; a_via := "boltz.BaseStore.GetPublicSymbols" |}] |};
  {| h_name := "boltz.BaseStore.GetRelatedEntitiesCursor"; h_acc := [
      {| a_loc := "boltz.BaseStore.entityPath"; a_kind := ARead; a_sync := false; a_via := "boltz.BaseStore.GetEntitiesBucket" |};
      {| a_loc := "boltz.BaseStore.parent"; a_kind := ARead; a_sync := false; a_via := "boltz.BaseStore.GetEntitiesBucket" |}] |};
  {| h_name := "boltz.BaseStore.GetRelatedEntitiesIdList"; h_acc := [
      {| a_loc := "boltz.BaseStore.entityPath"; a_kind := ARead; a_sync := false; a_via := "boltz.BaseStore.GetEntitiesBucket" |};
      {| a_loc := "boltz.BaseStore.parent"; a_kind := ARead; a_sync := false; a_via := "boltz.BaseStore.GetEntitiesBucket" |}] |};
  {| h_name := "boltz.BaseStore.GetSetSymbolTypes"; h_acc := [
      {| a_loc := "boltz.BaseStore.entityPath"; a_kind := ARead; a_sync := false; a_via := "boltz.BaseStore.GetEntitiesBucket" |};
      {| a_loc := "boltz.BaseStore.mapSymbols"; a_kind := ARead; a_sync := false; a_via := "boltz.BaseStore.GetSymbol" |};
      {| a_loc := "boltz.BaseStore.parent"; a_kind := ARead; a_sync := false; a_via := "boltz.BaseStore.GetEntitiesBucket" |};
      {| a_loc := "boltz.BaseStore.symbols"; a_kind := ARead; a_sync := true; a_via := "boltz.BaseStore.GetSymbol" |};
      {| a_loc := "boltz.ExternalSymbol.impl"; a_kind := ARead; a_sync := false; a_via := "boltz.ExternalSymbol.Eval" |};
      {| a_loc := "boltz.ExternalSymbol.nodeType"; a_kind := ARead; a_sync := false; a_via := "boltz.ExternalSymbol.GetType" |};
      {| a_loc := "boltz.NewBoolFuncSymbol$f"; a_kind := ARead; a_sync := false; a_via := "boltz.NewBoolFuncSymbol$lit1" |};
      {| a_loc := "boltz.NewStringFuncSymbol$f"; a_kind := ARead; a_sync := false; a_via := "boltz.NewStringFuncSymbol$lit1" |};
      {| a_loc := "boltz.entityIdSymbol.symbolType"; a_kind := ARead; a_sync := false; a_via := "boltz.entityIdSymbol.GetType" |}] |};
  {| h_name := "boltz.BaseStore.GetSymbol"; h_acc := [
      {| a_loc := "boltz.BaseStore.entityPath"; a_kind := ARead; a_sync := false; a_via := "boltz.BaseStore.GetEntitiesBucket" |};
      {| a_loc := "boltz.BaseStore.mapSymbols"; a_kind := ARead; a_sync := false; a_via := "boltz.BaseStore.GetSymbol" |};
      {| a_loc := "boltz.BaseStore.parent"; a_kind := ARead; a_sync := false; a_via := "boltz.BaseStore.GetEntitiesBucket" |};
      {| a_loc := "boltz.BaseStore.symbols"; a_kind := ARead; a_sync := true; a_via := "boltz.BaseStore.GetSymbol" |};
      {| a_loc := "boltz.ExternalSymbol.impl"; a_kind := ARead; a_sync := false; a_via := "boltz.ExternalSymbol.Eval" |};
      {| a_loc := "boltz.ExternalSymbol.nodeType"; a_kind := ARead; a_sync := false; a_via := "boltz.ExternalSymbol.GetType" |};
      {| a_loc := "boltz.NewBoolFuncSymbol$f"; a_kind := ARead; a_sync := false; a_via := "boltz.NewBoolFuncSymbol$lit1" |};
      {| a_loc := "boltz.NewStringFuncSymbol$f"; a_kind := ARead; a_sync := false; a_via := "boltz.NewStringFuncSymbol$lit1" |};
      {| a_loc := "boltz.entityIdSymbol.symbolType"; a_kind := ARead; a_sync := false; a_via := "boltz.entityIdSymbol.GetType" |}] |};
  {| h_name := "boltz.BaseStore.GetSymbolType"; h_acc := [
      {| a_loc := "boltz.BaseStore.entityPath"; a_kind := ARead; a_sync := false; a_via := "boltz.BaseStore.GetEntitiesBucket" |};
      {| a_loc := "boltz.BaseStore.mapSymbols"; a_kind := ARead; a_sync := false; a_via := "boltz.BaseStore.GetSymbol" |};
      {| a_loc := "boltz.BaseStore.parent"; a_kind := ARead; a_sync := false; a_via := "boltz.BaseStore.GetEntitiesBucket" |};
      {| a_loc := "boltz.BaseStore.symbols"; a_kind := ARead; a_sync := true; a_via := "boltz.BaseStore.GetSymbol" |};
      {| a_loc := "boltz.ExternalSymbol.impl"; a_kind := ARead; a_sync := false; a_via := "boltz.ExternalSymbol.Eval" |};
      {| a_loc := "boltz.ExternalSymbol.nodeType"; a_kind := ARead; a_sync := false; a_via := "boltz.ExternalSymbol.GetType" |};
      {| a_loc := "boltz.NewBoolFuncSymbol$f"; a_kind := ARead; a_sync := false; a_via := "boltz.NewBoolFuncSymbol$lit1" |};
      {| a_loc := "boltz.NewStringFuncSymbol$f"; a_kind := ARead; a_sync := false; a_via := "boltz.NewStringFuncSymbol$lit1" |};
      {| a_loc := "boltz.entityIdSymbol.symbolType"; a_kind := ARead; a_sync := false; a_via := "boltz.entityIdSymbol.GetType" |}] |};
  {| h_name := "boltz.BaseStore.IsEntityPresent"; h_acc := [
      {| a_loc := "boltz.BaseStore.entityPath"; a_kind := ARead; a_sync := false; a_via := "boltz.BaseStore.GetEntitiesBucket" |};
      {| a_loc := "boltz.BaseStore.parent"; a_kind := ARead; a_sync := false; a_via := "boltz.BaseStore.GetEntitiesBucket" |}] |};
  {| h_name := "boltz.BaseStore.IsEntityRelated"; h_acc := [
      {| a_loc := "boltz.BaseStore.entityPath"; a_kind := ARead; a_sync := false; a_via := "boltz.BaseStore.GetEntitiesBucket" |};
      {| a_loc := "boltz.BaseStore.parent"; a_kind := ARead; a_sync := false; a_via := "boltz.BaseStore.GetEntitiesBucket" |}] |};
  {| h_name := "boltz.BaseStore.IsPublicSymbol"; h_acc := [
      {| a_loc := "boltz.BaseStore.mapSymbols"; a_kind := ARead; a_sync := false; a_via := "boltz.BaseStore.IsPublicSymbol" |};
      {| a_loc := "boltz.BaseStore.publicSymbols"; a_kind := ARead; a_sync := false; a_via := "boltz.BaseStore.IsPublicSymbol" |}] |};
  {| h_name := "boltz.BaseStore.IsSet"; h_acc := [
      {| a_loc := "boltz.BaseStore.entityPath"; a_kind := ARead; a_sync := false; a_via := "boltz.BaseStore.GetEntitiesBucket" |};
      {| a_loc := "boltz.BaseStore.mapSymbols"; a_kind := ARead; a_sync := false; a_via := "boltz.BaseStore.GetSymbol" |};
      {| a_loc := "boltz.BaseStore.parent"; a_kind := ARead; a_sync := false; a_via := "boltz.BaseStore.GetEntitiesBucket" |};
      {| a_loc := "boltz.BaseStore.symbols"; a_kind := ARead; a_sync := true; a_via := "boltz.BaseStore.GetSymbol" |};
      {| a_loc := "boltz.ExternalSymbol.impl"; a_kind := ARead; a_sync := false; a_via := "boltz.ExternalSymbol.Eval" |};
      {| a_loc := "boltz.ExternalSymbol.nodeType"; a_kind := ARead; a_sync := false; a_via := "boltz.ExternalSymbol.GetType" |};
      {| a_loc := "boltz.NewBoolFuncSymbol$f"; a_kind := ARead; a_sync := false; a_via := "boltz.NewBoolFuncSymbol$lit1" |};
      {| a_loc := "boltz.NewStringFuncSymbol$f"; a_kind := ARead; a_sync := false; a_via := "boltz.NewStringFuncSymbol$lit1" |};
      {| a_loc := "boltz.entityIdSymbol.symbolType"; a_kind := ARead; a_sync := false; a_via := "boltz.entityIdSymbol.GetType" |}] |};
  {| h_name := "boltz.BaseStore.IterateIds"; h_acc := [
      {| a_loc := "ast.EmptyCursor"; a_kind := ARead; a_sync := false; a_via := "boltz.BaseStore.IterateIds" |};
      {| a_loc := "boltz.BaseStore.entityPath"; a_kind := ARead; a_sync := false; a_via := "boltz.BaseStore.GetEntitiesBucket" |};
      {| a_loc := "boltz.BaseStore.isExtended"; a_kind := ARead; a_sync := false; a_via := "boltz.BaseStore.IsExtended" |};
      {| a_loc := "boltz.BaseStore.mapSymbols"; a_kind := ARead; a_sync := false; a_via := "boltz.BaseStore.GetSymbol" |};
      {| a_loc := "boltz.BaseStore.parent"; a_kind := ARead; a_sync := false; a_via := "boltz.BaseStore.GetEntitiesBucket" |};
      {| a_loc := "boltz.BaseStore.symbols"; a_kind := ARead; a_sync := true; a_via := "boltz.BaseStore.GetSymbol" |};
      {| a_loc := "boltz.ExternalSymbol.impl"; a_kind := ARead; a_sync := false; a_via := "boltz.ExternalSymbol.Eval" |};
      {| a_loc := "boltz.ExternalSymbol.name"; a_kind := ARead; a_sync := false; a_via := "boltz.ExternalSymbol.GetName" |};
      {| a_loc := "boltz.ExternalSymbol.nodeType"; a_kind := ARead; a_sync := false; a_via := "boltz.ExternalSymbol.GetType" |};
      {| a_loc := "boltz.NewBoolFuncSymbol$f"; a_kind := ARead; a_sync := false; a_via := "boltz.NewBoolFuncSymbol$lit1" |};
      {| a_loc := "boltz.NewStringFuncSymbol$f"; a_kind := ARead; a_sync := false; a_via := "boltz.NewStringFuncSymbol$lit1" |};
      {| a_loc := "boltz.entityIdSymbol.symbolType"; a_kind := ARead; a_sync := false; a_via := "boltz.entityIdSymbol.GetType" |};
      {| a_loc := "boltz.entitySetSymbolImpl.getBucketF"; a_kind := ARead; a_sync := false; a_via := "boltz.entitySetSymbolImpl.openBoltCursor" |};
      {| a_loc := "boltz.entitySetSymbolImpl.key"; a_kind := ARead; a_sync := false; a_via := "boltz.entitySetSymbolImpl.openBoltCursor" |};
      {| a_loc := "boltz.entitySetSymbolImpl.store"; a_kind := ARead; a_sync := false; a_via := "boltz.entitySetSymbolImpl.openBoltCursor" |}] |};
  {| h_name := "boltz.BaseStore.IterateValidIds"; h_acc := [
      {| a_loc := "ast.EmptyCursor"; a_kind := ARead; a_sync := false; a_via := "boltz.BaseStore.IterateIds" |};
      {| a_loc := "boltz.BaseStore.entityPath"; a_kind := ARead; a_sync := false; a_via := "boltz.BaseStore.GetEntitiesBucket" |};
      {| a_loc := "boltz.BaseStore.isExtended"; a_kind := ARead; a_sync := false; a_via := "boltz.BaseStore.IsExtended" |};
      {| a_loc := "boltz.BaseStore.mapSymbols"; a_kind := ARead; a_sync := false; a_via := "boltz.BaseStore.GetSymbol" |};
      {| a_loc := "boltz.BaseStore.parent"; a_kind := ARead; a_sync := false; a_via := "boltz.BaseStore.GetEntitiesBucket" |};
      {| a_loc := "boltz.BaseStore.symbols"; a_kind := ARead; a_sync := true; a_via := "boltz.BaseStore.GetSymbol" |};
      {| a_loc := "boltz.ExternalSymbol.impl"; a_kind := ARead; a_sync := false; a_via := "boltz.ExternalSymbol.Eval" |};
      {| a_loc := "boltz.ExternalSymbol.name"; a_kind := ARead; a_sync := false; a_via := "boltz.ExternalSymbol.GetName" |};
      {| a_loc := "boltz.ExternalSymbol.nodeType"; a_kind := ARead; a_sync := false; a_via := "boltz.ExternalSymbol.GetType" |};
      {| a_loc := "boltz.NewBoolFuncSymbol$f"; a_kind := ARead; a_sync := false; a_via := "boltz.NewBoolFuncSymbol$lit1" |};
      {| a_loc := "boltz.NewStringFuncSymbol$f"; a_kind := ARead; a_sync := false; a_via := "boltz.NewStringFuncSymbol$lit1" |};
      {| a_loc := "boltz.entityIdSymbol.symbolType"; a_kind := ARead; a_sync := false; a_via := "boltz.entityIdSymbol.GetType" |};
      {| a_loc := "boltz.entitySetSymbolImpl.getBucketF"; a_kind := ARead; a_sync := false; a_via := "boltz.entitySetSymbolImpl.openBoltCursor" |};
      {| a_loc := "boltz.entitySetSymbolImpl.key"; a_kind := ARead; a_sync := false; a_via := "boltz.entitySetSymbolImpl.openBoltCursor" |};
      {| a_loc := "boltz.entitySetSymbolImpl.store"; a_kind := ARead; a_sync := false; a_via := "boltz.entitySetSymbolImpl.openBoltCursor" |}] |};
  {| h_name := "boltz.BaseStore.LoadById"; h_acc := [
      {| a_loc := "boltz.BaseStore.entityPath"; a_kind := ARead; a_sync := false; a_via := "boltz.BaseStore.GetEntitiesBucket" |};
      {| a_loc := "boltz.BaseStore.entityStrategy"; a_kind := ARead; a_sync := false; a_via := "boltz.BaseStore.LoadById" |};
      {| a_loc := "boltz.BaseStore.entityType"; a_kind := ARead; a_sync := false; a_via := "boltz.BaseStore.GetEntityType" |};
      {| a_loc := "boltz.BaseStore.isExtended"; a_kind := ARead; a_sync := false; a_via := "boltz.BaseStore.IsExtended" |};
      {| a_loc := "boltz.BaseStore.parent"; a_kind := ARead; a_sync := false; a_via := "boltz.BaseStore.GetEntitiesBucket" |}] |};
  {| h_name := "boltz.BaseStore.LoadEntity"; h_acc := [
      {| a_loc := "boltz.BaseStore.entityPath"; a_kind := ARead; a_sync := false; a_via := "boltz.BaseStore.GetEntitiesBucket" |};
      {| a_loc := "boltz.BaseStore.entityStrategy"; a_kind := ARead; a_sync := false; a_via := "boltz.BaseStore.LoadEntity" |};
      {| a_loc := "boltz.BaseStore.isExtended"; a_kind := ARead; a_sync := false; a_via := "boltz.BaseStore.IsExtended" |};
      {| a_loc := "boltz.BaseStore.parent"; a_kind := ARead; a_sync := false; a_via := "boltz.BaseStore.GetEntitiesBucket" |}] |};
  {| h_name := "boltz.BaseStore.NewScanner"; h_acc := [] |};
  {| h_name := "boltz.BaseStore.QueryIds"; h_acc := [
      {| a_loc := "ast.BoolNodeTrue"; a_kind := ARead; a_sync := false; a_via := "ast.Parse" |};
      {| a_loc := "ast.EnableQueryDebug"; a_kind := ARead; a_sync := true; a_via := "ast.Parse" |};
      {| a_loc := "ast.SetFunctionNames"; a_kind := ARead; a_sync := false; a_via := "ast.SymbolValidator.VisitSetFunctionNodeEnd" |};
      {| a_loc := "ast.binaryOpNames"; a_kind := ARead; a_sync := false; a_via := "ast.BinaryBoolExprNode.String" |};
      {| a_loc := "ast.nodeTypeNames"; a_kind := ARead; a_sync := false; a_via := "ast.BinaryExprNode.invalidOpTypes" |};
      {| a_loc := "boltz.BaseStore.entityPath"; a_kind := ARead; a_sync := false; a_via := "boltz.BaseStore.GetEntitiesBucket" |};
      {| a_loc := "boltz.BaseStore.isExtended"; a_kind := ARead; a_sync := false; a_via := "boltz.BaseStore.IsExtended" |};
      {| a_loc := "boltz.BaseStore.mapSymbols"; a_kind := ARead; a_sync := false; a_via := "boltz.BaseStore.GetSymbol" |};
      {| a_loc := "boltz.BaseStore.parent"; a_kind := ARead; a_sync := false; a_via := "boltz.BaseStore.GetEntitiesBucket" |};
      {| a_loc := "boltz.BaseStore.publicSymbols"; a_kind := ARead; a_sync := false; a_via := "boltz.BaseStore.IsPublicSymbol" |};
      {| a_loc := "boltz.BaseStore.symbols"; a_kind := ARead; a_sync := true; a_via := "boltz.BaseStore.GetSymbol" |};
      {| a_loc := "boltz.ExternalSymbol.impl"; a_kind := ARead; a_sync := false; a_via := "boltz.ExternalSymbol.Eval" |};
      {| a_loc := "boltz.ExternalSymbol.name"; a_kind := ARead; a_sync := false; a_via := "boltz.ExternalSymbol.GetName" |};
      {| a_loc := "boltz.ExternalSymbol.nodeType"; a_kind := ARead; a_sync := false; a_via := "boltz.ExternalSymbol.GetType" |};
      {| a_loc := "boltz.NewBoolFuncSymbol$f"; a_kind := ARead; a_sync := false; a_via := "boltz.NewBoolFuncSymbol$lit1" |};
      {| a_loc := "boltz.NewStringFuncSymbol$f"; a_kind := ARead; a_sync := false; a_via := "boltz.NewStringFuncSymbol$lit1" |};
      {| a_loc := "boltz.entityIdSymbol.symbolType"; a_kind := ARead; a_sync := false; a_via := "boltz.entityIdSymbol.GetType" |};
      {| a_loc := "boltz.entitySetSymbolImpl.getBucketF"; a_kind := ARead; a_sync := false; a_via := "boltz.entitySetSymbolImpl.openBoltCursor" |};
      {| a_loc := "boltz.entitySetSymbolImpl.key"; a_kind := ARead; a_sync := false; a_via := "boltz.entitySetSymbolImpl.openBoltCursor" |};
      {| a_loc := "boltz.entitySetSymbolImpl.store"; a_kind := ARead; a_sync := false; a_via := "boltz.entitySetSymbolImpl.openBoltCursor" |};
      {| a_loc := "zitiql.ZitiQlLexerLexerStaticData"; a_kind := AWrite; a_sync := true; a_via := "zitiql.zitiqllexerLexerInit" |};
      {| a_loc := "zitiql.ZitiQlLexerLexerStaticData"; a_kind := ARead; a_sync := false; a_via := "zitiql.NewZitiQlLexer" |};
      {| a_loc := "zitiql.ZitiQlLexerLexerStaticData"; a_kind := ARead; a_sync := true; a_via := "zitiql.ZitiQlLexerInit" |};
      {| a_loc := "zitiql.ZitiQlParserStaticData"; a_kind := AWrite; a_sync := true; a_via := "zitiql.zitiqlParserInit" |};
      {| a_loc := "zitiql.ZitiQlParserStaticData"; a_kind := ARead; a_sync := false; a_via := "zitiql.NewZitiQlParser" |};
      {| a_loc := "zitiql.ZitiQlParserStaticData"; a_kind := ARead; a_sync := true; a_via := "zitiql.ZitiQlParserInit" |};
      {| a_loc := "zitiql.lexerPool"; a_kind := AWrite; a_sync := true; a_via := "zitiql.parse" |};
      {| a_loc := "zitiql.lexerPool"; a_kind := ARead; a_sync := true; a_via := "zitiql.parse" |};
      {| a_loc := "zitiql.parserPool"; a_kind := AWrite; a_sync := true; a_via := "zitiql.parse" |};
      {| a_loc := "zitiql.parserPool"; a_kind := ARead; a_sync := true; a_via := "zitiql.parse" |}] |};
  {| h_name := "boltz.BaseStore.QueryIdsC"; h_acc := [
      {| a_loc := "ast.nodeTypeNames"; a_kind := ARead; a_sync := false; a_via := "ast.NodeTypeName" |};
      {| a_loc := "boltz.BaseStore.entityPath"; a_kind := ARead; a_sync := false; a_via := "boltz.BaseStore.GetEntitiesBucket" |};
      {| a_loc := "boltz.BaseStore.isExtended"; a_kind := ARead; a_sync := false; a_via := "boltz.BaseStore.IsExtended" |};
      {| a_loc := "boltz.BaseStore.mapSymbols"; a_kind := ARead; a_sync := false; a_via := "boltz.BaseStore.GetSymbol" |};
      {| a_loc := "boltz.BaseStore.parent"; a_kind := ARead; a_sync := false; a_via := "boltz.BaseStore.GetEntitiesBucket" |};
      {| a_loc := "boltz.BaseStore.symbols"; a_kind := ARead; a_sync := true; a_via := "boltz.BaseStore.GetSymbol" |};
      {| a_loc := "boltz.ExternalSymbol.impl"; a_kind := ARead; a_sync := false; a_via := "boltz.ExternalSymbol.Eval" |};
      {| a_loc := "boltz.ExternalSymbol.name"; a_kind := ARead; a_sync := false; a_via := "boltz.ExternalSymbol.GetName" |};
      {| a_loc := "boltz.ExternalSymbol.nodeType"; a_kind := ARead; a_sync := false; a_via := "boltz.ExternalSymbol.GetType" |};
      {| a_loc := "boltz.NewBoolFuncSymbol$f"; a_kind := ARead; a_sync := false; a_via := "boltz.NewBoolFuncSymbol$lit1" |};
      {| a_loc := "boltz.NewStringFuncSymbol$f"; a_kind := ARead; a_sync := false; a_via := "boltz.NewStringFuncSymbol$lit1" |};
      {| a_loc := "boltz.entityIdSymbol.symbolType"; a_kind := ARead; a_sync := false; a_via := "boltz.entityIdSymbol.GetType" |};
      {| a_loc := "boltz.entitySetSymbolImpl.getBucketF"; a_kind := ARead; a_sync := false; a_via := "boltz.entitySetSymbolImpl.openBoltCursor" |};
      {| a_loc := "boltz.entitySetSymbolImpl.key"; a_kind := ARead; a_sync := false; a_via := "boltz.entitySetSymbolImpl.openBoltCursor" |};
      {| a_loc := "boltz.entitySetSymbolImpl.store"; a_kind := ARead; a_sync := false; a_via := "boltz.entitySetSymbolImpl.openBoltCursor" |}] |};
  {| h_name := "boltz.BaseStore.QueryWithCursorC"; h_acc := [
      {| a_loc := "ast.nodeTypeNames"; a_kind := ARead; a_sync := false; a_via := "ast.NodeTypeName" |};
      {| a_loc := "boltz.BaseStore.entityPath"; a_kind := ARead; a_sync := false; a_via := "boltz.BaseStore.GetEntitiesBucket" |};
      {| a_loc := "boltz.BaseStore.isExtended"; a_kind := ARead; a_sync := false; a_via := "boltz.BaseStore.IsExtended" |};
      {| a_loc := "boltz.BaseStore.mapSymbols"; a_kind := ARead; a_sync := false; a_via := "boltz.BaseStore.GetSymbol" |};
      {| a_loc := "boltz.BaseStore.parent"; a_kind := ARead; a_sync := false; a_via := "boltz.BaseStore.GetEntitiesBucket" |};
      {| a_loc := "boltz.BaseStore.symbols"; a_kind := ARead; a_sync := true; a_via := "boltz.BaseStore.GetSymbol" |};
      {| a_loc := "boltz.ExternalSymbol.impl"; a_kind := ARead; a_sync := false; a_via := "boltz.ExternalSymbol.Eval" |};
      {| a_loc := "boltz.ExternalSymbol.name"; a_kind := ARead; a_sync := false; a_via := "boltz.ExternalSymbol.GetName" |};
      {| a_loc := "boltz.ExternalSymbol.nodeType"; a_kind := ARead; a_sync := false; a_via := "boltz.ExternalSymbol.GetType" |};
      {| a_loc := "boltz.NewBoolFuncSymbol$f"; a_kind := ARead; a_sync := false; a_via := "boltz.NewBoolFuncSymbol$lit1" |};
      {| a_loc := "boltz.NewStringFuncSymbol$f"; a_kind := ARead; a_sync := false; a_via := "boltz.NewStringFuncSymbol$lit1" |};
      {| a_loc := "boltz.entityIdSymbol.symbolType"; a_kind := ARead; a_sync := false; a_via := "boltz.entityIdSymbol.GetType" |};
      {| a_loc := "boltz.entitySetSymbolImpl.getBucketF"; a_kind := ARead; a_sync := false; a_via := "boltz.entitySetSymbolImpl.openBoltCursor" |};
      {| a_loc := "boltz.entitySetSymbolImpl.key"; a_kind := ARead; a_sync := false; a_via := "boltz.entitySetSymbolImpl.openBoltCursor" |};
      {| a_loc := "boltz.entitySetSymbolImpl.store"; a_kind := ARead; a_sync := false; a_via := "boltz.entitySetSymbolImpl.openBoltCursor" |}] |};
  {| h_name := "boltz.ExternalSymbol.Eval"; h_acc := [
      {| a_loc := "boltz.ExternalSymbol.impl"; a_kind := ARead; a_sync := false; a_via := "boltz.ExternalSymbol.Eval" |};
      {| a_loc := "boltz.NewBoolFuncSymbol$f"; a_kind := ARead; a_sync := false; a_via := "boltz.NewBoolFuncSymbol$lit1" |};
      {| a_loc := "boltz.NewStringFuncSymbol$f"; a_kind := ARead; a_sync := false; a_via := "boltz.NewStringFuncSymbol$lit1" |}] |};
  {| h_name := "boltz.IsErrNotFoundErr"; h_acc := [] |};
  {| h_name := "boltz.IsReferenceExistsError"; h_acc := [] |};
  {| h_name := "boltz.IsUniqueIndexDuplicateError"; h_acc := [] |};
  {| h_name := "boltz.LinkedSetSymbol.IsLinked"; h_acc := [
      {| a_loc := "boltz.BaseStore.entityPath"; a_kind := ARead; a_sync := false; a_via := "boltz.BaseStore.GetEntitiesBucket" |};
      {| a_loc := "boltz.BaseStore.parent"; a_kind := ARead; a_sync := false; a_via := "boltz.BaseStore.GetEntitiesBucket" |}] |};
  {| h_name := "boltz.NewNotFoundError"; h_acc := [] |};
  {| h_name := "boltz.NewReferenceByIdError"; h_acc := [] |};
  {| h_name := "boltz.NewReferenceByIdsError"; h_acc := [] |};
  {| h_name := "boltz.ValidIdsCursors.IsExtendedDataPresent"; h_acc := [
      {| a_loc := "boltz.BaseStore.entityPath"; a_kind := ARead; a_sync := false; a_via := "boltz.BaseStore.GetEntitiesBucket" |};
      {| a_loc := "boltz.BaseStore.parent"; a_kind := ARead; a_sync := false; a_via := "boltz.BaseStore.GetEntitiesBucket" |}] |};
  {| h_name := "boltz.ValidIdsCursors.IsValid"; h_acc := [] |};
  {| h_name := "boltz.compositeEntitySetSymbol.Eval"; h_acc := [
      {| a_loc := "boltz.BaseStore.createCompositeEntitySymbol$last"; a_kind := ARead; a_sync := false; a_via := "boltz.BaseStore.createCompositeEntitySymbol$lit2" |};
      {| a_loc := "boltz.BaseStore.entityPath"; a_kind := ARead; a_sync := false; a_via := "boltz.BaseStore.GetEntitiesBucket" |};
      {| a_loc := "boltz.BaseStore.newEntitySymbol$prefix"; a_kind := ARead; a_sync := false; a_via := "boltz.BaseStore.newEntitySymbol$lit2" |};
      {| a_loc := "boltz.BaseStore.parent"; a_kind := ARead; a_sync := false; a_via := "boltz.BaseStore.GetEntitiesBucket" |};
      {| a_loc := "boltz.ExternalSymbol.impl"; a_kind := ARead; a_sync := false; a_via := "boltz.ExternalSymbol.Eval" |};
      {| a_loc := "boltz.NewBoolFuncSymbol$f"; a_kind := ARead; a_sync := false; a_via := "boltz.NewBoolFuncSymbol$lit1" |};
      {| a_loc := "boltz.NewStringFuncSymbol$f"; a_kind := ARead; a_sync := false; a_via := "boltz.NewStringFuncSymbol$lit1" |}] |};
  {| h_name := "boltz.compositeEntitySetSymbol.OpenCursor"; h_acc := [
      {| a_loc := "boltz.BaseStore.entityPath"; a_kind := ARead; a_sync := false; a_via := "boltz.BaseStore.GetEntitiesBucket" |};
      {| a_loc := "boltz.BaseStore.isExtended"; a_kind := ARead; a_sync := false; a_via := "boltz.BaseStore.IsExtended" |};
      {| a_loc := "boltz.BaseStore.mapSymbols"; a_kind := ARead; a_sync := false; a_via := "boltz.BaseStore.GetSymbol" |};
      {| a_loc := "boltz.BaseStore.parent"; a_kind := ARead; a_sync := false; a_via := "boltz.BaseStore.GetEntitiesBucket" |};
      {| a_loc := "boltz.BaseStore.symbols"; a_kind := ARead; a_sync := true; a_via := "boltz.BaseStore.GetSymbol" |};
      {| a_loc := "boltz.ExternalSymbol.impl"; a_kind := ARead; a_sync := false; a_via := "boltz.ExternalSymbol.Eval" |};
      {| a_loc := "boltz.ExternalSymbol.name"; a_kind := ARead; a_sync := false; a_via := "boltz.ExternalSymbol.GetName" |};
      {| a_loc := "boltz.ExternalSymbol.nodeType"; a_kind := ARead; a_sync := false; a_via := "boltz.ExternalSymbol.GetType" |};
      {| a_loc := "boltz.NewBoolFuncSymbol$f"; a_kind := ARead; a_sync := false; a_via := "boltz.NewBoolFuncSymbol$lit1" |};
      {| a_loc := "boltz.NewStringFuncSymbol$f"; a_kind := ARead; a_sync := false; a_via := "boltz.NewStringFuncSymbol$lit1" |};
      {| a_loc := "boltz.entityIdSymbol.symbolType"; a_kind := ARead; a_sync := false; a_via := "boltz.entityIdSymbol.GetType" |};
      {| a_loc := "boltz.entitySetSymbolImpl.getBucketF"; a_kind := ARead; a_sync := false; a_via := "boltz.entitySetSymbolImpl.openBoltCursor" |};
      {| a_loc := "boltz.entitySetSymbolImpl.key"; a_kind := ARead; a_sync := false; a_via := "boltz.entitySetSymbolImpl.openBoltCursor" |};
      {| a_loc := "boltz.entitySetSymbolImpl.store"; a_kind := ARead; a_sync := false; a_via := "boltz.entitySetSymbolImpl.openBoltCursor" |}] |};
  {| h_name := "boltz.entityIdSymbol.Eval"; h_acc := [] |};
  {| h_name := "boltz.entitySetSymbolImpl.Eval"; h_acc := [] |};
  {| h_name := "boltz.entitySetSymbolImpl.EvalStringList"; h_acc := [
      {| a_loc := "boltz.BaseStore.entityPath"; a_kind := ARead; a_sync := false; a_via := "boltz.BaseStore.GetEntitiesBucket" |};
      {| a_loc := "boltz.BaseStore.parent"; a_kind := ARead; a_sync := false; a_via := "boltz.BaseStore.GetEntitiesBucket" |};
      {| a_loc := "boltz.entitySetSymbolImpl.getBucketF"; a_kind := ARead; a_sync := false; a_via := "boltz.entitySetSymbolImpl.EvalStringList" |};
      {| a_loc := "boltz.entitySetSymbolImpl.key"; a_kind := ARead; a_sync := false; a_via := "boltz.entitySetSymbolImpl.EvalStringList" |};
      {| a_loc := "boltz.entitySetSymbolImpl.store"; a_kind := ARead; a_sync := false; a_via := "boltz.entitySetSymbolImpl.EvalStringList" |}] |};
  {| h_name := "boltz.entitySetSymbolRuntime.Eval"; h_acc := [] |};
  {| h_name := "boltz.entitySetSymbolRuntime.OpenCursor"; h_acc := [
      {| a_loc := "boltz.BaseStore.entityPath"; a_kind := ARead; a_sync := false; a_via := "boltz.BaseStore.GetEntitiesBucket" |};
      {| a_loc := "boltz.BaseStore.parent"; a_kind := ARead; a_sync := false; a_via := "boltz.BaseStore.GetEntitiesBucket" |};
      {| a_loc := "boltz.entitySetSymbolImpl.getBucketF"; a_kind := ARead; a_sync := false; a_via := "boltz.entitySetSymbolImpl.openBoltCursor" |};
      {| a_loc := "boltz.entitySetSymbolImpl.key"; a_kind := ARead; a_sync := false; a_via := "boltz.entitySetSymbolImpl.openBoltCursor" |};
      {| a_loc := "boltz.entitySetSymbolImpl.store"; a_kind := ARead; a_sync := false; a_via := "boltz.entitySetSymbolImpl.openBoltCursor" |}] |};
  {| h_name := "boltz.entitySymbol.Eval"; h_acc := [
      {| a_loc := "boltz.BaseStore.entityPath"; a_kind := ARead; a_sync := false; a_via := "boltz.BaseStore.GetEntitiesBucket" |};
      {| a_loc := "boltz.BaseStore.newEntitySymbol$prefix"; a_kind := ARead; a_sync := false; a_via := "boltz.BaseStore.newEntitySymbol$lit2" |};
      {| a_loc := "boltz.BaseStore.parent"; a_kind := ARead; a_sync := false; a_via := "boltz.BaseStore.GetEntitiesBucket" |}] |};
  {| h_name := "boltz.linkCollectionImpl.GetLinks"; h_acc := [
      {| a_loc := "boltz.BaseStore.entityPath"; a_kind := ARead; a_sync := false; a_via := "boltz.BaseStore.GetEntitiesBucket" |};
      {| a_loc := "boltz.BaseStore.entityType"; a_kind := ARead; a_sync := false; a_via := "boltz.BaseStore.GetEntityType" |};
      {| a_loc := "boltz.BaseStore.parent"; a_kind := ARead; a_sync := false; a_via := "boltz.BaseStore.GetEntitiesBucket" |};
      {| a_loc := "boltz.ExternalSymbol.store"; a_kind := ARead; a_sync := false; a_via := "boltz.ExternalSymbol.GetStore" |};
      {| a_loc := "boltz.entityIdSymbol.path"; a_kind := ARead; a_sync := false; a_via := "boltz.entityIdSymbol.GetPath" |};
      {| a_loc := "boltz.entityIdSymbol.store"; a_kind := ARead; a_sync := false; a_via := "boltz.entityIdSymbol.GetStore" |};
      {| a_loc := "boltz.linkCollectionImpl.field"; a_kind := ARead; a_sync := false; a_via := "boltz.linkCollectionImpl.getFieldBucket" |}] |};
  {| h_name := "boltz.linkCollectionImpl.IsLinked"; h_acc := [
      {| a_loc := "ast.EmptyCursor"; a_kind := ARead; a_sync := false; a_via := "boltz.linkCollectionImpl.IterateLinks" |};
      {| a_loc := "boltz.BaseStore.entityPath"; a_kind := ARead; a_sync := false; a_via := "boltz.BaseStore.GetEntitiesBucket" |};
      {| a_loc := "boltz.BaseStore.entityType"; a_kind := ARead; a_sync := false; a_via := "boltz.BaseStore.GetEntityType" |};
      {| a_loc := "boltz.BaseStore.isExtended"; a_kind := ARead; a_sync := false; a_via := "boltz.BaseStore.IsExtended" |};
      {| a_loc := "boltz.BaseStore.mapSymbols"; a_kind := ARead; a_sync := false; a_via := "boltz.BaseStore.GetSymbol" |};
      {| a_loc := "boltz.BaseStore.parent"; a_kind := ARead; a_sync := false; a_via := "boltz.BaseStore.GetEntitiesBucket" |};
      {| a_loc := "boltz.BaseStore.symbols"; a_kind := ARead; a_sync := true; a_via := "boltz.BaseStore.GetSymbol" |};
      {| a_loc := "boltz.ExternalSymbol.impl"; a_kind := ARead; a_sync := false; a_via := "boltz.ExternalSymbol.Eval" |};
      {| a_loc := "boltz.ExternalSymbol.name"; a_kind := ARead; a_sync := false; a_via := "boltz.ExternalSymbol.GetName" |};
      {| a_loc := "boltz.ExternalSymbol.nodeType"; a_kind := ARead; a_sync := false; a_via := "boltz.ExternalSymbol.GetType" |};
      {| a_loc := "boltz.ExternalSymbol.store"; a_kind := ARead; a_sync := false; a_via := "boltz.ExternalSymbol.GetStore" |};
      {| a_loc := "boltz.NewBoolFuncSymbol$f"; a_kind := ARead; a_sync := false; a_via := "boltz.NewBoolFuncSymbol$lit1" |};
      {| a_loc := "boltz.NewStringFuncSymbol$f"; a_kind := ARead; a_sync := false; a_via := "boltz.NewStringFuncSymbol$lit1" |};
      {| a_loc := "boltz.entityIdSymbol.path"; a_kind := ARead; a_sync := false; a_via := "boltz.entityIdSymbol.GetPath" |};
      {| a_loc := "boltz.entityIdSymbol.store"; a_kind := ARead; a_sync := false; a_via := "boltz.entityIdSymbol.GetStore" |};
      {| a_loc := "boltz.entityIdSymbol.symbolType"; a_kind := ARead; a_sync := false; a_via := "boltz.entityIdSymbol.GetType" |};
      {| a_loc := "boltz.entitySetSymbolImpl.getBucketF"; a_kind := ARead; a_sync := false; a_via := "boltz.entitySetSymbolImpl.openBoltCursor" |};
      {| a_loc := "boltz.entitySetSymbolImpl.key"; a_kind := ARead; a_sync := false; a_via := "boltz.entitySetSymbolImpl.openBoltCursor" |};
      {| a_loc := "boltz.entitySetSymbolImpl.store"; a_kind := ARead; a_sync := false; a_via := "boltz.entitySetSymbolImpl.openBoltCursor" |};
      {| a_loc := "boltz.linkCollectionImpl.field"; a_kind := ARead; a_sync := false; a_via := "boltz.linkCollectionImpl.getFieldBucket" |}] |};
  {| h_name := "boltz.linkCollectionImpl.IterateLinks"; h_acc := [
      {| a_loc := "ast.EmptyCursor"; a_kind := ARead; a_sync := false; a_via := "boltz.linkCollectionImpl.IterateLinks" |};
      {| a_loc := "boltz.BaseStore.entityPath"; a_kind := ARead; a_sync := false; a_via := "boltz.BaseStore.GetEntitiesBucket" |};
      {| a_loc := "boltz.BaseStore.entityType"; a_kind := ARead; a_sync := false; a_via := "boltz.BaseStore.GetEntityType" |};
      {| a_loc := "boltz.BaseStore.parent"; a_kind := ARead; a_sync := false; a_via := "boltz.BaseStore.GetEntitiesBucket" |};
      {| a_loc := "boltz.ExternalSymbol.store"; a_kind := ARead; a_sync := false; a_via := "boltz.ExternalSymbol.GetStore" |};
      {| a_loc := "boltz.entityIdSymbol.path"; a_kind := ARead; a_sync := false; a_via := "boltz.entityIdSymbol.GetPath" |};
      {| a_loc := "boltz.entityIdSymbol.store"; a_kind := ARead; a_sync := false; a_via := "boltz.entityIdSymbol.GetStore" |};
      {| a_loc := "boltz.linkCollectionImpl.field"; a_kind := ARead; a_sync := false; a_via := "boltz.linkCollectionImpl.getFieldBucket" |}] |};
  {| h_name := "boltz.nonSetCompositeEntitySymbol.Eval"; h_acc := [
      {| a_loc := "boltz.BaseStore.createCompositeEntitySymbol$last"; a_kind := ARead; a_sync := false; a_via := "boltz.BaseStore.createCompositeEntitySymbol$lit2" |};
      {| a_loc := "boltz.BaseStore.entityPath"; a_kind := ARead; a_sync := false; a_via := "boltz.BaseStore.GetEntitiesBucket" |};
      {| a_loc := "boltz.BaseStore.newEntitySymbol$prefix"; a_kind := ARead; a_sync := false; a_via := "boltz.BaseStore.newEntitySymbol$lit2" |};
      {| a_loc := "boltz.BaseStore.parent"; a_kind := ARead; a_sync := false; a_via := "boltz.BaseStore.GetEntitiesBucket" |};
      {| a_loc := "boltz.ExternalSymbol.impl"; a_kind := ARead; a_sync := false; a_via := "boltz.ExternalSymbol.Eval" |};
      {| a_loc := "boltz.NewBoolFuncSymbol$f"; a_kind := ARead; a_sync := false; a_via := "boltz.NewBoolFuncSymbol$lit1" |};
      {| a_loc := "boltz.NewStringFuncSymbol$f"; a_kind := ARead; a_sync := false; a_via := "boltz.NewStringFuncSymbol$lit1" |}] |};
  {| h_name := "boltz.rcLinkCollectionImpl.GetLinkCount"; h_acc := [
      {| a_loc := "boltz.BaseStore.entityPath"; a_kind := ARead; a_sync := false; a_via := "boltz.BaseStore.GetEntitiesBucket" |};
      {| a_loc := "boltz.BaseStore.entityType"; a_kind := ARead; a_sync := false; a_via := "boltz.BaseStore.GetEntityType" |};
      {| a_loc := "boltz.BaseStore.parent"; a_kind := ARead; a_sync := false; a_via := "boltz.BaseStore.GetEntitiesBucket" |};
      {| a_loc := "boltz.ExternalSymbol.store"; a_kind := ARead; a_sync := false; a_via := "boltz.ExternalSymbol.GetStore" |};
      {| a_loc := "boltz.entityIdSymbol.path"; a_kind := ARead; a_sync := false; a_via := "boltz.entityIdSymbol.GetPath" |};
      {| a_loc := "boltz.entityIdSymbol.store"; a_kind := ARead; a_sync := false; a_via := "boltz.entityIdSymbol.GetStore" |};
      {| a_loc := "boltz.rcLinkCollectionImpl.field"; a_kind := ARead; a_sync := false; a_via := "boltz.rcLinkCollectionImpl.getFieldBucket" |}] |};
  {| h_name := "boltz.rcLinkCollectionImpl.GetLinkCounts"; h_acc := [
      {| a_loc := "boltz.BaseStore.entityPath"; a_kind := ARead; a_sync := false; a_via := "boltz.BaseStore.GetEntitiesBucket" |};
      {| a_loc := "boltz.BaseStore.parent"; a_kind := ARead; a_sync := false; a_via := "boltz.BaseStore.GetEntitiesBucket" |};
      {| a_loc := "boltz.ExternalSymbol.store"; a_kind := ARead; a_sync := false; a_via := "boltz.ExternalSymbol.GetStore" |};
      {| a_loc := "boltz.entityIdSymbol.path"; a_kind := ARead; a_sync := false; a_via := "boltz.entityIdSymbol.GetPath" |};
      {| a_loc := "boltz.entityIdSymbol.store"; a_kind := ARead; a_sync := false; a_via := "boltz.entityIdSymbol.GetStore" |};
      {| a_loc := "boltz.rcLinkCollectionImpl.field"; a_kind := ARead; a_sync := false; a_via := "boltz.rcLinkCollectionImpl.GetLinkCounts" |};
      {| a_loc := "boltz.rcLinkCollectionImpl.otherField"; a_kind := ARead; a_sync := false; a_via := "boltz.rcLinkCollectionImpl.GetLinkCounts" |}] |};
  {| h_name := "boltz.rcLinkCollectionImpl.IterateLinks"; h_acc := [
      {| a_loc := "ast.EmptyCursor"; a_kind := ARead; a_sync := false; a_via := "boltz.rcLinkCollectionImpl.IterateLinks" |};
      {| a_loc := "boltz.BaseStore.entityPath"; a_kind := ARead; a_sync := false; a_via := "boltz.BaseStore.GetEntitiesBucket" |};
      {| a_loc := "boltz.BaseStore.entityType"; a_kind := ARead; a_sync := false; a_via := "boltz.BaseStore.GetEntityType" |};
      {| a_loc := "boltz.BaseStore.parent"; a_kind := ARead; a_sync := false; a_via := "boltz.BaseStore.GetEntitiesBucket" |};
      {| a_loc := "boltz.ExternalSymbol.store"; a_kind := ARead; a_sync := false; a_via := "boltz.ExternalSymbol.GetStore" |};
      {| a_loc := "boltz.entityIdSymbol.path"; a_kind := ARead; a_sync := false; a_via := "boltz.entityIdSymbol.GetPath" |};
      {| a_loc := "boltz.entityIdSymbol.store"; a_kind := ARead; a_sync := false; a_via := "boltz.entityIdSymbol.GetStore" |};
      {| a_loc := "boltz.rcLinkCollectionImpl.field"; a_kind := ARead; a_sync := false; a_via := "boltz.rcLinkCollectionImpl.getFieldBucket" |}] |};
  {| h_name := "boltz.setIndex.OpenKeyCursor"; h_acc := [
      {| a_loc := "boltz.setIndex.indexPath"; a_kind := ARead; a_sync := false; a_via := "boltz.setIndex.OpenKeyCursor" |}] |};
  {| h_name := "boltz.setIndex.OpenValueCursor"; h_acc := [
      {| a_loc := "boltz.setIndex.indexPath"; a_kind := ARead; a_sync := false; a_via := "boltz.setIndex.OpenValueCursor" |}] |};
  {| h_name := "boltz.setIndex.Read"; h_acc := [
      {| a_loc := "boltz.setIndex.indexPath"; a_kind := ARead; a_sync := false; a_via := "boltz.setIndex.Read" |}] |};
  {| h_name := "boltz.setIndex.ReadKeys"; h_acc := [
      {| a_loc := "boltz.setIndex.indexPath"; a_kind := ARead; a_sync := false; a_via := "boltz.setIndex.ReadKeys" |}] |};
  {| h_name := "boltz.uniqueIndex.Read"; h_acc := [
      {| a_loc := "boltz.uniqueIndex.indexPath"; a_kind := ARead; a_sync := false; a_via := "boltz.uniqueIndex.getIndexBucket" |}] |};
  {| h_name := "zitiql.Parse"; h_acc := [
      {| a_loc := "zitiql.ZitiQlLexerLexerStaticData"; a_kind := AWrite; a_sync := true; a_via := "zitiql.zitiqllexerLexerInit" |};
      {| a_loc := "zitiql.ZitiQlLexerLexerStaticData"; a_kind := ARead; a_sync := false; a_via := "zitiql.NewZitiQlLexer" |};
      {| a_loc := "zitiql.ZitiQlLexerLexerStaticData"; a_kind := ARead; a_sync := true; a_via := "zitiql.ZitiQlLexerInit" |};
      {| a_loc := "zitiql.ZitiQlParserStaticData"; a_kind := AWrite; a_sync := true; a_via := "zitiql.zitiqlParserInit" |};
      {| a_loc := "zitiql.ZitiQlParserStaticData"; a_kind := ARead; a_sync := false; a_via := "zitiql.NewZitiQlParser" |};
      {| a_loc := "zitiql.ZitiQlParserStaticData"; a_kind := ARead; a_sync := true; a_via := "zitiql.ZitiQlParserInit" |};
      {| a_loc := "zitiql.lexerPool"; a_kind := AWrite; a_sync := true; a_via := "zitiql.parse" |};
      {| a_loc := "zitiql.lexerPool"; a_kind := ARead; a_sync := true; a_via := "zitiql.parse" |};
      {| a_loc := "zitiql.parserPool"; a_kind := AWrite; a_sync := true; a_via := "zitiql.parse" |};
      {| a_loc := "zitiql.parserPool"; a_kind := ARead; a_sync := true; a_via := "zitiql.parse" |}] |};
  {| h_name := "zitiql.ParseWithDebug"; h_acc := [
      {| a_loc := "zitiql.ZitiQlLexerLexerStaticData"; a_kind := AWrite; a_sync := true; a_via := "zitiql.zitiqllexerLexerInit" |};
      {| a_loc := "zitiql.ZitiQlLexerLexerStaticData"; a_kind := ARead; a_sync := false; a_via := "zitiql.NewZitiQlLexer" |};
      {| a_loc := "zitiql.ZitiQlLexerLexerStaticData"; a_kind := ARead; a_sync := true; a_via := "zitiql.ZitiQlLexerInit" |};
      {| a_loc := "zitiql.ZitiQlParserStaticData"; a_kind := AWrite; a_sync := true; a_via := "zitiql.zitiqlParserInit" |};
      {| a_loc := "zitiql.ZitiQlParserStaticData"; a_kind := ARead; a_sync := false; a_via := "zitiql.NewZitiQlParser" |};
      {| a_loc := "zitiql.ZitiQlParserStaticData"; a_kind := ARead; a_sync := true; a_via := "zitiql.ZitiQlParserInit" |};
      {| a_loc := "zitiql.lexerPool"; a_kind := AWrite; a_sync := true; a_via := "zitiql.parse" |};
      {| a_loc := "zitiql.lexerPool"; a_kind := ARead; a_sync := true; a_via := "zitiql.parse" |};
      {| a_loc := "zitiql.parserPool"; a_kind := AWrite; a_sync := true; a_via := "zitiql.parse" |};
      {| a_loc := "zitiql.parserPool"; a_kind := ARead; a_sync := true; a_via := "zitiql.parse" |}] |};
  {| h_name := "zitiql.ParseZqlDatetime"; h_acc := [
      {| a_loc := "zitiql.dateTimeStripper"; a_kind := ARead; a_sync := false; a_via := "zitiql.ParseZqlDatetime" |}] |};
  {| h_name := "zitiql.ParseZqlString"; h_acc := [
      {| a_loc := "zitiql.zqlStringUnescaper"; a_kind := ARead; a_sync := false; a_via := "zitiql.ParseZqlString" |}] |}
].

(* functions that can be called with a running transaction in hand (methods of a type guarding its handle
   with a mutex, with a *bbolt.Tx / MutateContext parameter): acquisitions of that mutex on the path taken
   when the transaction is open.  Model: Db/LockTable.v *)
Definition lock_table : list lockfn := [
  {| lf_name := "boltz.DbImpl.Batch"; lf_in_tx := [] |};
  {| lf_name := "boltz.DbImpl.RootBucket"; lf_in_tx := [] |};
  {| lf_name := "boltz.DbImpl.SnapshotInTx"; lf_in_tx := [] |};
  {| lf_name := "boltz.DbImpl.Update"; lf_in_tx := [] |}
].

(* strings / slices built as views of existing memory (unsafe, reflect headers) in the repository's packages,
   and whether the memory is a fresh allocation of the same function.  Model: Db/MemView.v *)
Definition view_table : list memview := [

].
