(* GENERATED FILE: GenAccess.v *)
(* Written by translators/access from the Go source on every run - do not edit.
   For each helper: the package-level variables it may touch (through the static call graph
   inside the repository's packages), read or write, synchronised or not, and the function
   in which the access occurs. *)
From Coq Require Import List String.
From Storage Require Import Db.Access.
Import ListNotations.
Open Scope string_scope.

Definition table : list helper := [
  {| h_name := "ast.Parse"; h_acc := [
      {| a_loc := "ast.BoolNodeTrue"; a_kind := ARead; a_sync := false; a_via := "ast.Parse" |};
      {| a_loc := "ast.EnableQueryDebug"; a_kind := ARead; a_sync := true; a_via := "ast.Parse" |};
      {| a_loc := "ast.SetFunctionNames"; a_kind := ARead; a_sync := false; a_via := "ast.SymbolValidator.VisitSetFunctionNodeEnd" |};
      {| a_loc := "ast.binaryOpNames"; a_kind := ARead; a_sync := false; a_via := "ast.BinaryBoolExprNode.String" |};
      {| a_loc := "ast.nodeTypeNames"; a_kind := ARead; a_sync := false; a_via := "ast.BinaryExprNode.invalidOpTypes" |};
      {| a_loc := "boltz.BaseStore.entityPath"; a_kind := ARead; a_sync := false; a_via := "boltz.BaseStore.GetEntitiesBucket" |};
      {| a_loc := "boltz.BaseStore.mapSymbols"; a_kind := ARead; a_sync := false; a_via := "boltz.BaseStore.GetSymbol" |};
      {| a_loc := "boltz.BaseStore.parent"; a_kind := ARead; a_sync := false; a_via := "boltz.BaseStore.GetEntitiesBucket" |};
      {| a_loc := "boltz.BaseStore.publicSymbols"; a_kind := ARead; a_sync := false; a_via := "boltz.BaseStore.IsPublicSymbol" |};
      {| a_loc := "boltz.BaseStore.symbols"; a_kind := ARead; a_sync := true; a_via := "boltz.BaseStore.GetSymbol" |};
      {| a_loc := "zitiql.ZitiQlLexerLexerStaticData"; a_kind := AWrite; a_sync := true; a_via := "zitiql.zitiqllexerLexerInit" |};
      {| a_loc := "zitiql.ZitiQlLexerLexerStaticData"; a_kind := ARead; a_sync := false; a_via := "zitiql.NewZitiQlLexer" |};
      {| a_loc := "zitiql.ZitiQlLexerLexerStaticData"; a_kind := ARead; a_sync := true; a_via := "zitiql.ZitiQlLexerInit" |};
      {| a_loc := "zitiql.ZitiQlParserStaticData"; a_kind := AWrite; a_sync := true; a_via := "zitiql.zitiqlParserInit" |};
      {| a_loc := "zitiql.ZitiQlParserStaticData"; a_kind := ARead; a_sync := false; a_via := "zitiql.NewZitiQlParser" |};
      {| a_loc := "zitiql.ZitiQlParserStaticData"; a_kind := ARead; a_sync := true; a_via := "zitiql.ZitiQlParserInit" |};
      {| a_loc := "zitiql.lexerPool"; a_kind := AWrite; a_sync := true; a_via := "zitiql.parse" |};
      {| a_loc := "zitiql.lexerPool"; a_kind := ARead; a_sync := true; a_via := "zitiql.parse" |};
      {| a_loc := "zitiql.parserPool"; a_kind := AWrite; a_sync := true; a_via := "zitiql.parse" |};
      {| a_loc := "zitiql.parserPool"; a_kind := ARead; a_sync := true; a_via := "zitiql.parse" |}] |};
  {| h_name := "ast.PostProcess"; h_acc := [
      {| a_loc := "ast.SetFunctionNames"; a_kind := ARead; a_sync := false; a_via := "ast.SymbolValidator.VisitSetFunctionNodeEnd" |};
      {| a_loc := "ast.binaryOpNames"; a_kind := ARead; a_sync := false; a_via := "ast.BinaryBoolExprNode.String" |};
      {| a_loc := "ast.nodeTypeNames"; a_kind := ARead; a_sync := false; a_via := "ast.BinaryExprNode.invalidOpTypes" |};
      {| a_loc := "boltz.BaseStore.entityPath"; a_kind := ARead; a_sync := false; a_via := "boltz.BaseStore.GetEntitiesBucket" |};
      {| a_loc := "boltz.BaseStore.mapSymbols"; a_kind := ARead; a_sync := false; a_via := "boltz.BaseStore.GetSymbol" |};
      {| a_loc := "boltz.BaseStore.parent"; a_kind := ARead; a_sync := false; a_via := "boltz.BaseStore.GetEntitiesBucket" |};
      {| a_loc := "boltz.BaseStore.publicSymbols"; a_kind := ARead; a_sync := false; a_via := "boltz.BaseStore.IsPublicSymbol" |};
      {| a_loc := "boltz.BaseStore.symbols"; a_kind := ARead; a_sync := true; a_via := "boltz.BaseStore.GetSymbol" |}] |};
  {| h_name := "boltz.BaseStore.GetPublicSymbols"; h_acc := [
      {| a_loc := "boltz.BaseStore.publicSymbols"; a_kind := ARead; a_sync := false; a_via := "boltz.BaseStore.GetPublicSymbols" |}] |};
  {| h_name := "boltz.BaseStore.GetSetSymbolTypes"; h_acc := [
      {| a_loc := "boltz.BaseStore.entityPath"; a_kind := ARead; a_sync := false; a_via := "boltz.BaseStore.GetEntitiesBucket" |};
      {| a_loc := "boltz.BaseStore.mapSymbols"; a_kind := ARead; a_sync := false; a_via := "boltz.BaseStore.GetSymbol" |};
      {| a_loc := "boltz.BaseStore.parent"; a_kind := ARead; a_sync := false; a_via := "boltz.BaseStore.GetEntitiesBucket" |};
      {| a_loc := "boltz.BaseStore.symbols"; a_kind := ARead; a_sync := true; a_via := "boltz.BaseStore.GetSymbol" |}] |};
  {| h_name := "boltz.BaseStore.GetSymbol"; h_acc := [
      {| a_loc := "boltz.BaseStore.entityPath"; a_kind := ARead; a_sync := false; a_via := "boltz.BaseStore.GetEntitiesBucket" |};
      {| a_loc := "boltz.BaseStore.mapSymbols"; a_kind := ARead; a_sync := false; a_via := "boltz.BaseStore.GetSymbol" |};
      {| a_loc := "boltz.BaseStore.parent"; a_kind := ARead; a_sync := false; a_via := "boltz.BaseStore.GetEntitiesBucket" |};
      {| a_loc := "boltz.BaseStore.symbols"; a_kind := ARead; a_sync := true; a_via := "boltz.BaseStore.GetSymbol" |}] |};
  {| h_name := "boltz.BaseStore.GetSymbolType"; h_acc := [
      {| a_loc := "boltz.BaseStore.entityPath"; a_kind := ARead; a_sync := false; a_via := "boltz.BaseStore.GetEntitiesBucket" |};
      {| a_loc := "boltz.BaseStore.mapSymbols"; a_kind := ARead; a_sync := false; a_via := "boltz.BaseStore.GetSymbol" |};
      {| a_loc := "boltz.BaseStore.parent"; a_kind := ARead; a_sync := false; a_via := "boltz.BaseStore.GetEntitiesBucket" |};
      {| a_loc := "boltz.BaseStore.symbols"; a_kind := ARead; a_sync := true; a_via := "boltz.BaseStore.GetSymbol" |}] |};
  {| h_name := "boltz.BaseStore.IsPublicSymbol"; h_acc := [
      {| a_loc := "boltz.BaseStore.mapSymbols"; a_kind := ARead; a_sync := false; a_via := "boltz.BaseStore.IsPublicSymbol" |};
      {| a_loc := "boltz.BaseStore.publicSymbols"; a_kind := ARead; a_sync := false; a_via := "boltz.BaseStore.IsPublicSymbol" |}] |};
  {| h_name := "boltz.BaseStore.IsSet"; h_acc := [
      {| a_loc := "boltz.BaseStore.entityPath"; a_kind := ARead; a_sync := false; a_via := "boltz.BaseStore.GetEntitiesBucket" |};
      {| a_loc := "boltz.BaseStore.mapSymbols"; a_kind := ARead; a_sync := false; a_via := "boltz.BaseStore.GetSymbol" |};
      {| a_loc := "boltz.BaseStore.parent"; a_kind := ARead; a_sync := false; a_via := "boltz.BaseStore.GetEntitiesBucket" |};
      {| a_loc := "boltz.BaseStore.symbols"; a_kind := ARead; a_sync := true; a_via := "boltz.BaseStore.GetSymbol" |}] |};
  {| h_name := "boltz.BaseStore.IterateIds"; h_acc := [
      {| a_loc := "ast.EmptyCursor"; a_kind := ARead; a_sync := false; a_via := "boltz.BaseStore.IterateIds" |};
      {| a_loc := "boltz.BaseStore.entityPath"; a_kind := ARead; a_sync := false; a_via := "boltz.BaseStore.GetEntitiesBucket" |};
      {| a_loc := "boltz.BaseStore.isExtended"; a_kind := ARead; a_sync := false; a_via := "boltz.BaseStore.IsExtended" |};
      {| a_loc := "boltz.BaseStore.mapSymbols"; a_kind := ARead; a_sync := false; a_via := "boltz.BaseStore.GetSymbol" |};
      {| a_loc := "boltz.BaseStore.parent"; a_kind := ARead; a_sync := false; a_via := "boltz.BaseStore.GetEntitiesBucket" |};
      {| a_loc := "boltz.BaseStore.symbols"; a_kind := ARead; a_sync := true; a_via := "boltz.BaseStore.GetSymbol" |}] |};
  {| h_name := "boltz.BaseStore.IterateValidIds"; h_acc := [
      {| a_loc := "ast.EmptyCursor"; a_kind := ARead; a_sync := false; a_via := "boltz.BaseStore.IterateIds" |};
      {| a_loc := "boltz.BaseStore.entityPath"; a_kind := ARead; a_sync := false; a_via := "boltz.BaseStore.GetEntitiesBucket" |};
      {| a_loc := "boltz.BaseStore.isExtended"; a_kind := ARead; a_sync := false; a_via := "boltz.BaseStore.IsExtended" |};
      {| a_loc := "boltz.BaseStore.mapSymbols"; a_kind := ARead; a_sync := false; a_via := "boltz.BaseStore.GetSymbol" |};
      {| a_loc := "boltz.BaseStore.parent"; a_kind := ARead; a_sync := false; a_via := "boltz.BaseStore.GetEntitiesBucket" |};
      {| a_loc := "boltz.BaseStore.symbols"; a_kind := ARead; a_sync := true; a_via := "boltz.BaseStore.GetSymbol" |}] |};
  {| h_name := "boltz.BaseStore.NewScanner"; h_acc := [] |};
  {| h_name := "boltz.BaseStore.QueryIds"; h_acc := [
      {| a_loc := "ast.BoolNodeTrue"; a_kind := ARead; a_sync := false; a_via := "ast.Parse" |};
      {| a_loc := "ast.EnableQueryDebug"; a_kind := ARead; a_sync := true; a_via := "ast.Parse" |};
      {| a_loc := "ast.SetFunctionNames"; a_kind := ARead; a_sync := false; a_via := "ast.SymbolValidator.VisitSetFunctionNodeEnd" |};
      {| a_loc := "ast.binaryOpNames"; a_kind := ARead; a_sync := false; a_via := "ast.BinaryBoolExprNode.String" |};
      {| a_loc := "ast.nodeTypeNames"; a_kind := ARead; a_sync := false; a_via := "ast.BinaryExprNode.invalidOpTypes" |};
      {| a_loc := "boltz.BaseStore.entityPath"; a_kind := ARead; a_sync := false; a_via := "boltz.BaseStore.GetEntitiesBucket" |};
      {| a_loc := "boltz.BaseStore.isExtended"; a_kind := ARead; a_sync := false; a_via := "boltz.BaseStore.IsExtended" |};
      {| a_loc := "boltz.BaseStore.mapSymbols"; a_kind := ARead; a_sync := false; a_via := "boltz.BaseStore.GetSymbol" |};
      {| a_loc := "boltz.BaseStore.parent"; a_kind := ARead; a_sync := false; a_via := "boltz.BaseStore.GetEntitiesBucket" |};
      {| a_loc := "boltz.BaseStore.publicSymbols"; a_kind := ARead; a_sync := false; a_via := "boltz.BaseStore.IsPublicSymbol" |};
      {| a_loc := "boltz.BaseStore.symbols"; a_kind := ARead; a_sync := true; a_via := "boltz.BaseStore.GetSymbol" |};
      {| a_loc := "zitiql.ZitiQlLexerLexerStaticData"; a_kind := AWrite; a_sync := true; a_via := "zitiql.zitiqllexerLexerInit" |};
      {| a_loc := "zitiql.ZitiQlLexerLexerStaticData"; a_kind := ARead; a_sync := false; a_via := "zitiql.NewZitiQlLexer" |};
      {| a_loc := "zitiql.ZitiQlLexerLexerStaticData"; a_kind := ARead; a_sync := true; a_via := "zitiql.ZitiQlLexerInit" |};
      {| a_loc := "zitiql.ZitiQlParserStaticData"; a_kind := AWrite; a_sync := true; a_via := "zitiql.zitiqlParserInit" |};
      {| a_loc := "zitiql.ZitiQlParserStaticData"; a_kind := ARead; a_sync := false; a_via := "zitiql.NewZitiQlParser" |};
      {| a_loc := "zitiql.ZitiQlParserStaticData"; a_kind := ARead; a_sync := true; a_via := "zitiql.ZitiQlParserInit" |};
      {| a_loc := "zitiql.lexerPool"; a_kind := AWrite; a_sync := true; a_via := "zitiql.parse" |};
      {| a_loc := "zitiql.lexerPool"; a_kind := ARead; a_sync := true; a_via := "zitiql.parse" |};
      {| a_loc := "zitiql.parserPool"; a_kind := AWrite; a_sync := true; a_via := "zitiql.parse" |};
      {| a_loc := "zitiql.parserPool"; a_kind := ARead; a_sync := true; a_via := "zitiql.parse" |}] |};
  {| h_name := "boltz.BaseStore.QueryIdsC"; h_acc := [
      {| a_loc := "ast.nodeTypeNames"; a_kind := ARead; a_sync := false; a_via := "ast.NodeTypeName" |};
      {| a_loc := "boltz.BaseStore.entityPath"; a_kind := ARead; a_sync := false; a_via := "boltz.BaseStore.GetEntitiesBucket" |};
      {| a_loc := "boltz.BaseStore.isExtended"; a_kind := ARead; a_sync := false; a_via := "boltz.BaseStore.IsExtended" |};
      {| a_loc := "boltz.BaseStore.mapSymbols"; a_kind := ARead; a_sync := false; a_via := "boltz.BaseStore.GetSymbol" |};
      {| a_loc := "boltz.BaseStore.parent"; a_kind := ARead; a_sync := false; a_via := "boltz.BaseStore.GetEntitiesBucket" |};
      {| a_loc := "boltz.BaseStore.symbols"; a_kind := ARead; a_sync := true; a_via := "boltz.BaseStore.GetSymbol" |}] |};
  {| h_name := "boltz.BaseStore.QueryWithCursorC"; h_acc := [
      {| a_loc := "ast.nodeTypeNames"; a_kind := ARead; a_sync := false; a_via := "ast.NodeTypeName" |};
      {| a_loc := "boltz.BaseStore.entityPath"; a_kind := ARead; a_sync := false; a_via := "boltz.BaseStore.GetEntitiesBucket" |};
      {| a_loc := "boltz.BaseStore.isExtended"; a_kind := ARead; a_sync := false; a_via := "boltz.BaseStore.IsExtended" |};
      {| a_loc := "boltz.BaseStore.mapSymbols"; a_kind := ARead; a_sync := false; a_via := "boltz.BaseStore.GetSymbol" |};
      {| a_loc := "boltz.BaseStore.parent"; a_kind := ARead; a_sync := false; a_via := "boltz.BaseStore.GetEntitiesBucket" |};
      {| a_loc := "boltz.BaseStore.symbols"; a_kind := ARead; a_sync := true; a_via := "boltz.BaseStore.GetSymbol" |}] |};
  {| h_name := "boltz.IsErrNotFoundErr"; h_acc := [] |};
  {| h_name := "boltz.IsReferenceExistsError"; h_acc := [] |};
  {| h_name := "boltz.IsUniqueIndexDuplicateError"; h_acc := [] |};
  {| h_name := "boltz.NewNotFoundError"; h_acc := [] |};
  {| h_name := "boltz.NewReferenceByIdError"; h_acc := [] |};
  {| h_name := "boltz.NewReferenceByIdsError"; h_acc := [] |};
  {| h_name := "boltz.ValidIdsCursors.IsExtendedDataPresent"; h_acc := [
      {| a_loc := "boltz.BaseStore.entityPath"; a_kind := ARead; a_sync := false; a_via := "boltz.BaseStore.GetEntitiesBucket" |};
      {| a_loc := "boltz.BaseStore.parent"; a_kind := ARead; a_sync := false; a_via := "boltz.BaseStore.GetEntitiesBucket" |}] |};
  {| h_name := "boltz.ValidIdsCursors.IsValid"; h_acc := [] |};
  {| h_name := "zitiql.Parse"; h_acc := [
      {| a_loc := "zitiql.ZitiQlLexerLexerStaticData"; a_kind := AWrite; a_sync := true; a_via := "zitiql.zitiqllexerLexerInit" |};
      {| a_loc := "zitiql.ZitiQlLexerLexerStaticData"; a_kind := ARead; a_sync := false; a_via := "zitiql.NewZitiQlLexer" |};
      {| a_loc := "zitiql.ZitiQlLexerLexerStaticData"; a_kind := ARead; a_sync := true; a_via := "zitiql.ZitiQlLexerInit" |};
      {| a_loc := "zitiql.ZitiQlParserStaticData"; a_kind := AWrite; a_sync := true; a_via := "zitiql.zitiqlParserInit" |};
      {| a_loc := "zitiql.ZitiQlParserStaticData"; a_kind := ARead; a_sync := false; a_via := "zitiql.NewZitiQlParser" |};
      {| a_loc := "zitiql.ZitiQlParserStaticData"; a_kind := ARead; a_sync := true; a_via := "zitiql.ZitiQlParserInit" |};
      {| a_loc := "zitiql.lexerPool"; a_kind := AWrite; a_sync := true; a_via := "zitiql.parse" |};
      {| a_loc := "zitiql.lexerPool"; a_kind := ARead; a_sync := true; a_via := "zitiql.parse" |};
      {| a_loc := "zitiql.parserPool"; a_kind := AWrite; a_sync := true; a_via := "zitiql.parse" |};
      {| a_loc := "zitiql.parserPool"; a_kind := ARead; a_sync := true; a_via := "zitiql.parse" |}] |};
  {| h_name := "zitiql.ParseWithDebug"; h_acc := [
      {| a_loc := "zitiql.ZitiQlLexerLexerStaticData"; a_kind := AWrite; a_sync := true; a_via := "zitiql.zitiqllexerLexerInit" |};
      {| a_loc := "zitiql.ZitiQlLexerLexerStaticData"; a_kind := ARead; a_sync := false; a_via := "zitiql.NewZitiQlLexer" |};
      {| a_loc := "zitiql.ZitiQlLexerLexerStaticData"; a_kind := ARead; a_sync := true; a_via := "zitiql.ZitiQlLexerInit" |};
      {| a_loc := "zitiql.ZitiQlParserStaticData"; a_kind := AWrite; a_sync := true; a_via := "zitiql.zitiqlParserInit" |};
      {| a_loc := "zitiql.ZitiQlParserStaticData"; a_kind := ARead; a_sync := false; a_via := "zitiql.NewZitiQlParser" |};
      {| a_loc := "zitiql.ZitiQlParserStaticData"; a_kind := ARead; a_sync := true; a_via := "zitiql.ZitiQlParserInit" |};
      {| a_loc := "zitiql.lexerPool"; a_kind := AWrite; a_sync := true; a_via := "zitiql.parse" |};
      {| a_loc := "zitiql.lexerPool"; a_kind := ARead; a_sync := true; a_via := "zitiql.parse" |};
      {| a_loc := "zitiql.parserPool"; a_kind := AWrite; a_sync := true; a_via := "zitiql.parse" |};
      {| a_loc := "zitiql.parserPool"; a_kind := ARead; a_sync := true; a_via := "zitiql.parse" |}] |};
  {| h_name := "zitiql.ParseZqlDatetime"; h_acc := [
      {| a_loc := "zitiql.dateTimeStripper"; a_kind := ARead; a_sync := false; a_via := "zitiql.ParseZqlDatetime" |}] |};
  {| h_name := "zitiql.ParseZqlString"; h_acc := [
      {| a_loc := "zitiql.zqlStringUnescaper"; a_kind := ARead; a_sync := false; a_via := "zitiql.ParseZqlString" |}] |}
].
