(* GENERATED FILE: GenAstTable.v *)
(* Written by translators/asttable from <repo>/ast/*.go and <repo>/boltz/*.go on every run of
   ./check C20.  Do not edit: the committed copy only lets the project build before the first
   translator run.  53 node kinds. *)
From Coq Require Import List.
From Storage Require Import Ast.AstTable.
Import ListNotations.
Open Scope name_scope.

Definition kind_AllOfSetExprNode : kdesc := {|
  k_name := "AllOfSetExprNode"; k_ptr := true; k_file := "node_set.go";
  k_strs := [
    {| sf_name := "name"; sf_issym := true; sf_evidence := ["returned by Symbol()"; "Symbols.OpenSetCursor in EvalBool"] |} ];
  k_children := [
    {| cf_name := "predicate"; cf_shape := FSingle; cf_type := "BoolNode"; cf_hidden := false; cf_nilable := false |} ];
  k_symbol := SymOwn "name";
  k_recv_guard := false;
  k_accept := [
    ACallback "VisitAllOfSetExprNodeStart";
    AAccept "predicate";
    ACallback "VisitAllOfSetExprNodeEnd" ];
  k_unsupported := [] |}.

Definition kind_AndExprNode : kdesc := {|
  k_name := "AndExprNode"; k_ptr := true; k_file := "node_expr.go";
  k_strs := [];
  k_children := [
    {| cf_name := "left"; cf_shape := FSingle; cf_type := "BoolNode"; cf_hidden := false; cf_nilable := false |};
    {| cf_name := "right"; cf_shape := FSingle; cf_type := "BoolNode"; cf_hidden := false; cf_nilable := false |} ];
  k_symbol := SymNone;
  k_recv_guard := false;
  k_accept := [
    ACallback "VisitAndExprNodeStart";
    AAccept "left";
    AAccept "right";
    ACallback "VisitAndExprNodeEnd" ];
  k_unsupported := [] |}.

Definition kind_AnyOfSetExprNode : kdesc := {|
  k_name := "AnyOfSetExprNode"; k_ptr := true; k_file := "node_set.go";
  k_strs := [
    {| sf_name := "name"; sf_issym := true; sf_evidence := ["returned by Symbol()"; "Symbols.OpenSetCursor in EvalBool"] |} ];
  k_children := [
    {| cf_name := "predicate"; cf_shape := FSingle; cf_type := "BoolNode"; cf_hidden := false; cf_nilable := false |};
    {| cf_name := "seekablePredicate"; cf_shape := FSingle; cf_type := "SeekOptimizableBoolNode"; cf_hidden := true; cf_nilable := true |} ];
  k_symbol := SymOwn "name";
  k_recv_guard := false;
  k_accept := [
    ACallback "VisitAnyOfSetExprNodeStart";
    AAccept "predicate";
    ACallback "VisitAnyOfSetExprNodeEnd" ];
  k_unsupported := [] |}.

Definition kind_AnyTypeSymbolNode : kdesc := {|
  k_name := "AnyTypeSymbolNode"; k_ptr := true; k_file := "node_symbol.go";
  k_strs := [
    {| sf_name := "symbol"; sf_issym := true; sf_evidence := ["Symbols.EvalBool in EvalBool"; "Symbols.EvalDatetime in EvalDatetime"; "Symbols.EvalInt64 in EvalInt64"; "Symbols.EvalFloat64 in EvalFloat64"; "Symbols.EvalString in EvalString"; "returned by Symbol()"; "visitor.VisitSymbol in Accept"] |} ];
  k_children := [];
  k_symbol := SymOwn "symbol";
  k_recv_guard := false;
  k_accept := [
    AVisitSym "symbol";
    ACallback "VisitAnyTypeSymbolNode" ];
  k_unsupported := [] |}.

Definition kind_BetweenExprNode : kdesc := {|
  k_name := "BetweenExprNode"; k_ptr := true; k_file := "node_convert.go";
  k_strs := [];
  k_children := [
    {| cf_name := "left"; cf_shape := FSingle; cf_type := "Node"; cf_hidden := false; cf_nilable := false |};
    {| cf_name := "lower"; cf_shape := FSingle; cf_type := "Node"; cf_hidden := false; cf_nilable := false |};
    {| cf_name := "upper"; cf_shape := FSingle; cf_type := "Node"; cf_hidden := false; cf_nilable := false |} ];
  k_symbol := SymNone;
  k_recv_guard := false;
  k_accept := [
    ACallback "VisitBetweenExprNodeStart";
    AAccept "left";
    AAccept "lower";
    AAccept "upper";
    ACallback "VisitBetweenExprNodeEnd" ];
  k_unsupported := [] |}.

Definition kind_BinaryBoolExprNode : kdesc := {|
  k_name := "BinaryBoolExprNode"; k_ptr := true; k_file := "node_expr.go";
  k_strs := [];
  k_children := [
    {| cf_name := "left"; cf_shape := FSingle; cf_type := "BoolNode"; cf_hidden := false; cf_nilable := false |};
    {| cf_name := "right"; cf_shape := FSingle; cf_type := "BoolNode"; cf_hidden := false; cf_nilable := false |} ];
  k_symbol := SymNone;
  k_recv_guard := false;
  k_accept := [
    ACallback "VisitBinaryBoolExprNodeStart";
    AAccept "left";
    AAccept "right";
    ACallback "VisitBinaryBoolExprNodeEnd" ];
  k_unsupported := [] |}.

Definition kind_BinaryDatetimeExprNode : kdesc := {|
  k_name := "BinaryDatetimeExprNode"; k_ptr := true; k_file := "node_expr.go";
  k_strs := [];
  k_children := [
    {| cf_name := "left"; cf_shape := FSingle; cf_type := "DatetimeNode"; cf_hidden := false; cf_nilable := false |};
    {| cf_name := "right"; cf_shape := FSingle; cf_type := "DatetimeNode"; cf_hidden := false; cf_nilable := false |} ];
  k_symbol := SymNone;
  k_recv_guard := false;
  k_accept := [
    ACallback "VisitBinaryDatetimeExprNodeStart";
    AAccept "left";
    AAccept "right";
    ACallback "VisitBinaryDatetimeExprNodeEnd" ];
  k_unsupported := [] |}.

Definition kind_BinaryExprNode : kdesc := {|
  k_name := "BinaryExprNode"; k_ptr := true; k_file := "node_convert.go";
  k_strs := [];
  k_children := [
    {| cf_name := "left"; cf_shape := FSingle; cf_type := "Node"; cf_hidden := false; cf_nilable := false |};
    {| cf_name := "right"; cf_shape := FSingle; cf_type := "Node"; cf_hidden := false; cf_nilable := false |} ];
  k_symbol := SymNone;
  k_recv_guard := false;
  k_accept := [
    ACallback "VisitBinaryExprNodeStart";
    AAccept "left";
    AAccept "right";
    ACallback "VisitBinaryExprNodeEnd" ];
  k_unsupported := [] |}.

Definition kind_BinaryFloat64ExprNode : kdesc := {|
  k_name := "BinaryFloat64ExprNode"; k_ptr := true; k_file := "node_expr.go";
  k_strs := [];
  k_children := [
    {| cf_name := "left"; cf_shape := FSingle; cf_type := "Float64Node"; cf_hidden := false; cf_nilable := false |};
    {| cf_name := "right"; cf_shape := FSingle; cf_type := "Float64Node"; cf_hidden := false; cf_nilable := false |} ];
  k_symbol := SymNone;
  k_recv_guard := false;
  k_accept := [
    ACallback "VisitBinaryFloat64ExprNodeStart";
    AAccept "left";
    AAccept "right";
    ACallback "VisitBinaryFloat64ExprNodeEnd" ];
  k_unsupported := [] |}.

Definition kind_BinaryInt64ExprNode : kdesc := {|
  k_name := "BinaryInt64ExprNode"; k_ptr := true; k_file := "node_expr.go";
  k_strs := [];
  k_children := [
    {| cf_name := "left"; cf_shape := FSingle; cf_type := "Int64Node"; cf_hidden := false; cf_nilable := false |};
    {| cf_name := "right"; cf_shape := FSingle; cf_type := "Int64Node"; cf_hidden := false; cf_nilable := false |} ];
  k_symbol := SymNone;
  k_recv_guard := false;
  k_accept := [
    ACallback "VisitBinaryInt64ExprNodeStart";
    AAccept "left";
    AAccept "right";
    ACallback "VisitBinaryInt64ExprNodeEnd" ];
  k_unsupported := [] |}.

Definition kind_BinaryStringExprNode : kdesc := {|
  k_name := "BinaryStringExprNode"; k_ptr := true; k_file := "node_expr.go";
  k_strs := [];
  k_children := [
    {| cf_name := "left"; cf_shape := FSingle; cf_type := "StringNode"; cf_hidden := false; cf_nilable := false |};
    {| cf_name := "right"; cf_shape := FSingle; cf_type := "StringNode"; cf_hidden := false; cf_nilable := false |} ];
  k_symbol := SymNone;
  k_recv_guard := false;
  k_accept := [
    ACallback "VisitBinaryStringExprNodeStart";
    AAccept "left";
    AAccept "right";
    ACallback "VisitBinaryStringExprNodeEnd" ];
  k_unsupported := [] |}.

Definition kind_BoolConstNode : kdesc := {|
  k_name := "BoolConstNode"; k_ptr := true; k_file := "node_const.go";
  k_strs := [];
  k_children := [];
  k_symbol := SymNone;
  k_recv_guard := false;
  k_accept := [ACallback "VisitBoolConstNode"];
  k_unsupported := [] |}.

Definition kind_BoolSymbolNode : kdesc := {|
  k_name := "BoolSymbolNode"; k_ptr := true; k_file := "node_symbol.go";
  k_strs := [
    {| sf_name := "symbol"; sf_issym := true; sf_evidence := ["Symbols.EvalBool in EvalBool"; "returned by Symbol()"; "visitor.VisitSymbol in Accept"] |} ];
  k_children := [];
  k_symbol := SymOwn "symbol";
  k_recv_guard := false;
  k_accept := [
    AVisitSym "symbol";
    ACallback "VisitBoolSymbolNode" ];
  k_unsupported := [] |}.

Definition kind_BooleanLogicExprNode : kdesc := {|
  k_name := "BooleanLogicExprNode"; k_ptr := true; k_file := "node_convert.go";
  k_strs := [];
  k_children := [
    {| cf_name := "left"; cf_shape := FSingle; cf_type := "Node"; cf_hidden := false; cf_nilable := false |};
    {| cf_name := "right"; cf_shape := FSingle; cf_type := "Node"; cf_hidden := false; cf_nilable := false |} ];
  k_symbol := SymNone;
  k_recv_guard := false;
  k_accept := [
    ACallback "VisitBooleanLogicExprNodeStart";
    AAccept "left";
    AAccept "right";
    ACallback "VisitBooleanLogicExprNodeEnd" ];
  k_unsupported := [] |}.

Definition kind_CountSetExprNode : kdesc := {|
  k_name := "CountSetExprNode"; k_ptr := true; k_file := "node_set.go";
  k_strs := [];
  k_children := [
    {| cf_name := "symbol"; cf_shape := FSingle; cf_type := "SymbolNode"; cf_hidden := false; cf_nilable := false |};
    {| cf_name := "query"; cf_shape := FSingle; cf_type := "Query"; cf_hidden := false; cf_nilable := true |} ];
  k_symbol := SymVia "symbol";
  k_recv_guard := false;
  k_accept := [
    ACallback "VisitCountSetExprNodeStart";
    AAccept "symbol";
    AAcceptIfNonNil "query";
    ACallback "VisitCountSetExprNodeEnd" ];
  k_unsupported := [] |}.

Definition kind_DatetimeArrayNode : kdesc := {|
  k_name := "DatetimeArrayNode"; k_ptr := true; k_file := "node_arrays.go";
  k_strs := [];
  k_children := [
    {| cf_name := "values"; cf_shape := FSlice; cf_type := "[]DatetimeNode"; cf_hidden := false; cf_nilable := true |} ];
  k_symbol := SymNone;
  k_recv_guard := false;
  k_accept := [
    ACallback "VisitDatetimeArrayNodeStart";
    AAcceptEach "values";
    ACallback "VisitDatetimeArrayNodeEnd" ];
  k_unsupported := [] |}.

Definition kind_DatetimeBetweenExprNode : kdesc := {|
  k_name := "DatetimeBetweenExprNode"; k_ptr := true; k_file := "node_expr.go";
  k_strs := [];
  k_children := [
    {| cf_name := "left"; cf_shape := FSingle; cf_type := "DatetimeNode"; cf_hidden := false; cf_nilable := false |};
    {| cf_name := "lower"; cf_shape := FSingle; cf_type := "DatetimeNode"; cf_hidden := false; cf_nilable := false |};
    {| cf_name := "upper"; cf_shape := FSingle; cf_type := "DatetimeNode"; cf_hidden := false; cf_nilable := false |} ];
  k_symbol := SymNone;
  k_recv_guard := false;
  k_accept := [
    ACallback "VisitDatetimeBetweenExprNodeStart";
    AAccept "left";
    AAccept "lower";
    AAccept "upper";
    ACallback "VisitDatetimeBetweenExprNodeEnd" ];
  k_unsupported := [] |}.

Definition kind_DatetimeConstNode : kdesc := {|
  k_name := "DatetimeConstNode"; k_ptr := true; k_file := "node_const.go";
  k_strs := [];
  k_children := [];
  k_symbol := SymNone;
  k_recv_guard := false;
  k_accept := [ACallback "VisitDatetimeConstNode"];
  k_unsupported := [] |}.

Definition kind_DatetimeSymbolNode : kdesc := {|
  k_name := "DatetimeSymbolNode"; k_ptr := true; k_file := "node_symbol.go";
  k_strs := [
    {| sf_name := "symbol"; sf_issym := true; sf_evidence := ["Symbols.EvalDatetime in EvalDatetime"; "returned by Symbol()"; "visitor.VisitSymbol in Accept"] |} ];
  k_children := [];
  k_symbol := SymOwn "symbol";
  k_recv_guard := false;
  k_accept := [
    AVisitSym "symbol";
    ACallback "VisitDatetimeSymbolNode" ];
  k_unsupported := [] |}.

Definition kind_Float64ArrayNode : kdesc := {|
  k_name := "Float64ArrayNode"; k_ptr := true; k_file := "node_arrays.go";
  k_strs := [];
  k_children := [
    {| cf_name := "values"; cf_shape := FSlice; cf_type := "[]Float64Node"; cf_hidden := false; cf_nilable := true |} ];
  k_symbol := SymNone;
  k_recv_guard := false;
  k_accept := [
    ACallback "VisitFloat64ArrayNodeStart";
    AAcceptEach "values";
    ACallback "VisitFloat64ArrayNodeEnd" ];
  k_unsupported := [] |}.

Definition kind_Float64BetweenExprNode : kdesc := {|
  k_name := "Float64BetweenExprNode"; k_ptr := true; k_file := "node_expr.go";
  k_strs := [];
  k_children := [
    {| cf_name := "left"; cf_shape := FSingle; cf_type := "Float64Node"; cf_hidden := false; cf_nilable := false |};
    {| cf_name := "lower"; cf_shape := FSingle; cf_type := "Float64Node"; cf_hidden := false; cf_nilable := false |};
    {| cf_name := "upper"; cf_shape := FSingle; cf_type := "Float64Node"; cf_hidden := false; cf_nilable := false |} ];
  k_symbol := SymNone;
  k_recv_guard := false;
  k_accept := [
    ACallback "VisitFloat64BetweenExprNodeStart";
    AAccept "left";
    AAccept "lower";
    AAccept "upper";
    ACallback "VisitFloat64BetweenExprNodeEnd" ];
  k_unsupported := [] |}.

Definition kind_Float64ConstNode : kdesc := {|
  k_name := "Float64ConstNode"; k_ptr := true; k_file := "node_const.go";
  k_strs := [];
  k_children := [];
  k_symbol := SymNone;
  k_recv_guard := false;
  k_accept := [ACallback "VisitFloat64ConstNode"];
  k_unsupported := [] |}.

Definition kind_Float64SymbolNode : kdesc := {|
  k_name := "Float64SymbolNode"; k_ptr := true; k_file := "node_symbol.go";
  k_strs := [
    {| sf_name := "symbol"; sf_issym := true; sf_evidence := ["Symbols.EvalFloat64 in EvalFloat64"; "Symbols.EvalFloat64 in EvalString"; "returned by Symbol()"; "visitor.VisitSymbol in Accept"] |} ];
  k_children := [];
  k_symbol := SymOwn "symbol";
  k_recv_guard := false;
  k_accept := [
    AVisitSym "symbol";
    ACallback "VisitFloat64SymbolNode" ];
  k_unsupported := [] |}.

Definition kind_InArrayExprNode : kdesc := {|
  k_name := "InArrayExprNode"; k_ptr := true; k_file := "node_convert.go";
  k_strs := [];
  k_children := [
    {| cf_name := "left"; cf_shape := FSingle; cf_type := "Node"; cf_hidden := false; cf_nilable := false |};
    {| cf_name := "right"; cf_shape := FSingle; cf_type := "Node"; cf_hidden := false; cf_nilable := false |} ];
  k_symbol := SymNone;
  k_recv_guard := false;
  k_accept := [
    ACallback "VisitInArrayExprNodeStart";
    AAccept "left";
    AAccept "right";
    ACallback "VisitInArrayExprNodeEnd" ];
  k_unsupported := [] |}.

Definition kind_InDatetimeArrayExprNode : kdesc := {|
  k_name := "InDatetimeArrayExprNode"; k_ptr := true; k_file := "node_arrays.go";
  k_strs := [];
  k_children := [
    {| cf_name := "left"; cf_shape := FSingle; cf_type := "DatetimeNode"; cf_hidden := false; cf_nilable := false |};
    {| cf_name := "right"; cf_shape := FSingle; cf_type := "*DatetimeArrayNode"; cf_hidden := false; cf_nilable := false |} ];
  k_symbol := SymNone;
  k_recv_guard := false;
  k_accept := [
    ACallback "VisitInDatetimeArrayExprNodeStart";
    AAccept "left";
    AAccept "right";
    ACallback "VisitInDatetimeArrayExprNodeEnd" ];
  k_unsupported := [] |}.

Definition kind_InFloat64ArrayExprNode : kdesc := {|
  k_name := "InFloat64ArrayExprNode"; k_ptr := true; k_file := "node_arrays.go";
  k_strs := [];
  k_children := [
    {| cf_name := "left"; cf_shape := FSingle; cf_type := "Float64Node"; cf_hidden := false; cf_nilable := false |};
    {| cf_name := "right"; cf_shape := FSingle; cf_type := "*Float64ArrayNode"; cf_hidden := false; cf_nilable := false |} ];
  k_symbol := SymNone;
  k_recv_guard := false;
  k_accept := [
    ACallback "VisitInFloat64ArrayExprNodeStart";
    AAccept "left";
    AAccept "right";
    ACallback "VisitInFloat64ArrayExprNodeEnd" ];
  k_unsupported := [] |}.

Definition kind_InInt64ArrayExprNode : kdesc := {|
  k_name := "InInt64ArrayExprNode"; k_ptr := true; k_file := "node_arrays.go";
  k_strs := [];
  k_children := [
    {| cf_name := "left"; cf_shape := FSingle; cf_type := "Int64Node"; cf_hidden := false; cf_nilable := false |};
    {| cf_name := "right"; cf_shape := FSingle; cf_type := "*Int64ArrayNode"; cf_hidden := false; cf_nilable := false |} ];
  k_symbol := SymNone;
  k_recv_guard := false;
  k_accept := [
    ACallback "VisitInInt64ArrayExprNodeStart";
    AAccept "left";
    AAccept "right";
    ACallback "VisitInInt64ArrayExprNodeEnd" ];
  k_unsupported := [] |}.

Definition kind_InStringArrayExprNode : kdesc := {|
  k_name := "InStringArrayExprNode"; k_ptr := true; k_file := "node_arrays.go";
  k_strs := [];
  k_children := [
    {| cf_name := "left"; cf_shape := FSingle; cf_type := "StringNode"; cf_hidden := false; cf_nilable := false |};
    {| cf_name := "right"; cf_shape := FSingle; cf_type := "*StringArrayNode"; cf_hidden := false; cf_nilable := false |} ];
  k_symbol := SymNone;
  k_recv_guard := false;
  k_accept := [
    ACallback "VisitInStringArrayExprNodeStart";
    AAccept "left";
    AAccept "right";
    ACallback "VisitInStringArrayExprNodeEnd" ];
  k_unsupported := [] |}.

Definition kind_Int64ArrayNode : kdesc := {|
  k_name := "Int64ArrayNode"; k_ptr := true; k_file := "node_arrays.go";
  k_strs := [];
  k_children := [
    {| cf_name := "values"; cf_shape := FSlice; cf_type := "[]Int64Node"; cf_hidden := false; cf_nilable := true |} ];
  k_symbol := SymNone;
  k_recv_guard := false;
  k_accept := [
    ACallback "VisitInt64ArrayNodeStart";
    AAcceptEach "values";
    ACallback "VisitInt64ArrayNodeEnd" ];
  k_unsupported := [] |}.

Definition kind_Int64BetweenExprNode : kdesc := {|
  k_name := "Int64BetweenExprNode"; k_ptr := true; k_file := "node_expr.go";
  k_strs := [];
  k_children := [
    {| cf_name := "left"; cf_shape := FSingle; cf_type := "Int64Node"; cf_hidden := false; cf_nilable := false |};
    {| cf_name := "lower"; cf_shape := FSingle; cf_type := "Int64Node"; cf_hidden := false; cf_nilable := false |};
    {| cf_name := "upper"; cf_shape := FSingle; cf_type := "Int64Node"; cf_hidden := false; cf_nilable := false |} ];
  k_symbol := SymNone;
  k_recv_guard := false;
  k_accept := [
    ACallback "VisitInt64BetweenExprNodeStart";
    AAccept "left";
    AAccept "lower";
    AAccept "upper";
    ACallback "VisitInt64BetweenExprNodeEnd" ];
  k_unsupported := [] |}.

Definition kind_Int64ConstNode : kdesc := {|
  k_name := "Int64ConstNode"; k_ptr := true; k_file := "node_const.go";
  k_strs := [];
  k_children := [];
  k_symbol := SymNone;
  k_recv_guard := false;
  k_accept := [ACallback "VisitInt64ConstNode"];
  k_unsupported := [] |}.

Definition kind_Int64SymbolNode : kdesc := {|
  k_name := "Int64SymbolNode"; k_ptr := true; k_file := "node_symbol.go";
  k_strs := [
    {| sf_name := "symbol"; sf_issym := true; sf_evidence := ["Symbols.EvalInt64 in EvalInt64"; "Symbols.EvalInt64 in EvalString"; "returned by Symbol()"; "visitor.VisitSymbol in Accept"] |} ];
  k_children := [];
  k_symbol := SymOwn "symbol";
  k_recv_guard := false;
  k_accept := [
    AVisitSym "symbol";
    ACallback "VisitInt64SymbolNode" ];
  k_unsupported := [] |}.

Definition kind_Int64ToFloat64Node : kdesc := {|
  k_name := "Int64ToFloat64Node"; k_ptr := true; k_file := "node_convert.go";
  k_strs := [];
  k_children := [
    {| cf_name := "wrapped"; cf_shape := FSingle; cf_type := "Int64Node"; cf_hidden := false; cf_nilable := false |} ];
  k_symbol := SymNone;
  k_recv_guard := false;
  k_accept := [
    ACallback "VisitInt64ToFloat64NodeStart";
    AAccept "wrapped";
    ACallback "VisitInt64ToFloat64NodeEnd" ];
  k_unsupported := [] |}.

Definition kind_IsEmptySetExprNode : kdesc := {|
  k_name := "IsEmptySetExprNode"; k_ptr := true; k_file := "node_set.go";
  k_strs := [];
  k_children := [
    {| cf_name := "symbol"; cf_shape := FSingle; cf_type := "SymbolNode"; cf_hidden := false; cf_nilable := false |};
    {| cf_name := "query"; cf_shape := FSingle; cf_type := "Query"; cf_hidden := false; cf_nilable := true |} ];
  k_symbol := SymVia "symbol";
  k_recv_guard := false;
  k_accept := [
    ACallback "VisitIsEmptySetExprNodeStart";
    AAccept "symbol";
    AAcceptIfNonNil "query";
    ACallback "VisitIsEmptySetExprNodeEnd" ];
  k_unsupported := [] |}.

Definition kind_IsNilExprNode : kdesc := {|
  k_name := "IsNilExprNode"; k_ptr := true; k_file := "node_expr.go";
  k_strs := [];
  k_children := [
    {| cf_name := "symbol"; cf_shape := FSingle; cf_type := "SymbolNode"; cf_hidden := false; cf_nilable := false |} ];
  k_symbol := SymNone;
  k_recv_guard := false;
  k_accept := [
    ACallback "VisitIsNilExprNodeStart";
    AAccept "symbol";
    ACallback "VisitIsNilExprNodeEnd" ];
  k_unsupported := [] |}.

Definition kind_LimitExprNode : kdesc := {|
  k_name := "LimitExprNode"; k_ptr := true; k_file := "node_query.go";
  k_strs := [];
  k_children := [];
  k_symbol := SymNone;
  k_recv_guard := true;
  k_accept := [ACallback "VisitLimitExprNode"];
  k_unsupported := [] |}.

Definition kind_NotExprNode : kdesc := {|
  k_name := "NotExprNode"; k_ptr := true; k_file := "node_expr.go";
  k_strs := [];
  k_children := [
    {| cf_name := "expr"; cf_shape := FSingle; cf_type := "BoolNode"; cf_hidden := false; cf_nilable := false |} ];
  k_symbol := SymNone;
  k_recv_guard := false;
  k_accept := [
    ACallback "VisitNotExprNodeStart";
    AAccept "expr";
    ACallback "VisitNotExprNodeEnd" ];
  k_unsupported := [] |}.

Definition kind_NullConstNode : kdesc := {|
  k_name := "NullConstNode"; k_ptr := false; k_file := "node_const.go";
  k_strs := [];
  k_children := [];
  k_symbol := SymNone;
  k_recv_guard := false;
  k_accept := [ACallback "VisitNullConstNode"];
  k_unsupported := [] |}.

Definition kind_OrExprNode : kdesc := {|
  k_name := "OrExprNode"; k_ptr := true; k_file := "node_expr.go";
  k_strs := [];
  k_children := [
    {| cf_name := "left"; cf_shape := FSingle; cf_type := "BoolNode"; cf_hidden := false; cf_nilable := false |};
    {| cf_name := "right"; cf_shape := FSingle; cf_type := "BoolNode"; cf_hidden := false; cf_nilable := false |} ];
  k_symbol := SymNone;
  k_recv_guard := false;
  k_accept := [
    ACallback "VisitOrExprNodeStart";
    AAccept "left";
    AAccept "right";
    ACallback "VisitOrExprNodeEnd" ];
  k_unsupported := [] |}.

Definition kind_SetFunctionNode : kdesc := {|
  k_name := "SetFunctionNode"; k_ptr := true; k_file := "node_convert.go";
  k_strs := [];
  k_children := [
    {| cf_name := "symbol"; cf_shape := FSingle; cf_type := "SymbolNode"; cf_hidden := false; cf_nilable := false |} ];
  k_symbol := SymNone;
  k_recv_guard := false;
  k_accept := [
    ACallback "VisitSetFunctionNodeStart";
    AAccept "symbol";
    ACallback "VisitSetFunctionNodeEnd" ];
  k_unsupported := [] |}.

Definition kind_SkipExprNode : kdesc := {|
  k_name := "SkipExprNode"; k_ptr := true; k_file := "node_query.go";
  k_strs := [];
  k_children := [];
  k_symbol := SymNone;
  k_recv_guard := true;
  k_accept := [ACallback "VisitSkipExprNode"];
  k_unsupported := [] |}.

Definition kind_SortByNode : kdesc := {|
  k_name := "SortByNode"; k_ptr := true; k_file := "node_query.go";
  k_strs := [];
  k_children := [
    {| cf_name := "SortFields"; cf_shape := FSlice; cf_type := "[]*SortFieldNode"; cf_hidden := false; cf_nilable := true |} ];
  k_symbol := SymNone;
  k_recv_guard := true;
  k_accept := [
    AAcceptEach "SortFields";
    ACallback "VisitSortByNode" ];
  k_unsupported := [] |}.

Definition kind_SortFieldNode : kdesc := {|
  k_name := "SortFieldNode"; k_ptr := true; k_file := "node_query.go";
  k_strs := [];
  k_children := [
    {| cf_name := "symbol"; cf_shape := FSingle; cf_type := "SymbolNode"; cf_hidden := false; cf_nilable := false |} ];
  k_symbol := SymVia "symbol";
  k_recv_guard := false;
  k_accept := [
    AAccept "symbol";
    ACallback "VisitSortFieldNode" ];
  k_unsupported := [] |}.

Definition kind_StringArrayNode : kdesc := {|
  k_name := "StringArrayNode"; k_ptr := true; k_file := "node_arrays.go";
  k_strs := [];
  k_children := [
    {| cf_name := "values"; cf_shape := FSlice; cf_type := "[]StringNode"; cf_hidden := false; cf_nilable := true |} ];
  k_symbol := SymNone;
  k_recv_guard := false;
  k_accept := [
    ACallback "VisitStringArrayNodeStart";
    AAcceptEach "values";
    ACallback "VisitStringArrayNodeEnd" ];
  k_unsupported := [] |}.

Definition kind_StringConstNode : kdesc := {|
  k_name := "StringConstNode"; k_ptr := true; k_file := "node_const.go";
  k_strs := [
    {| sf_name := "value"; sf_issym := false; sf_evidence := [] |} ];
  k_children := [];
  k_symbol := SymNone;
  k_recv_guard := false;
  k_accept := [ACallback "VisitStringConstNode"];
  k_unsupported := [] |}.

Definition kind_StringFuncNode : kdesc := {|
  k_name := "StringFuncNode"; k_ptr := true; k_file := "node_convert.go";
  k_strs := [
    {| sf_name := "label"; sf_issym := false; sf_evidence := [] |} ];
  k_children := [
    {| cf_name := "expr"; cf_shape := FSingle; cf_type := "StringNode"; cf_hidden := false; cf_nilable := false |} ];
  k_symbol := SymNone;
  k_recv_guard := false;
  k_accept := [
    ACallback "VisitStringFuncNodeStart";
    AAccept "expr";
    ACallback "VisitStringFuncNodeEnd" ];
  k_unsupported := [] |}.

Definition kind_StringSymbolNode : kdesc := {|
  k_name := "StringSymbolNode"; k_ptr := true; k_file := "node_symbol.go";
  k_strs := [
    {| sf_name := "symbol"; sf_issym := true; sf_evidence := ["Symbols.EvalString in EvalString"; "returned by Symbol()"; "visitor.VisitSymbol in Accept"] |} ];
  k_children := [];
  k_symbol := SymOwn "symbol";
  k_recv_guard := false;
  k_accept := [
    AVisitSym "symbol";
    ACallback "VisitStringSymbolNode" ];
  k_unsupported := [] |}.

Definition kind_UntypedNotExprNode : kdesc := {|
  k_name := "UntypedNotExprNode"; k_ptr := true; k_file := "node_convert.go";
  k_strs := [];
  k_children := [
    {| cf_name := "expr"; cf_shape := FSingle; cf_type := "Node"; cf_hidden := false; cf_nilable := false |} ];
  k_symbol := SymNone;
  k_recv_guard := false;
  k_accept := [
    ACallback "VisitUntypedNotExprStart";
    AAccept "expr";
    ACallback "VisitUntypedNotExprEnd" ];
  k_unsupported := [] |}.

Definition kind_UntypedSubQueryNode : kdesc := {|
  k_name := "UntypedSubQueryNode"; k_ptr := true; k_file := "node_query.go";
  k_strs := [];
  k_children := [
    {| cf_name := "symbol"; cf_shape := FSingle; cf_type := "SymbolNode"; cf_hidden := false; cf_nilable := false |};
    {| cf_name := "query"; cf_shape := FSingle; cf_type := "Node"; cf_hidden := false; cf_nilable := false |} ];
  k_symbol := SymVia "symbol";
  k_recv_guard := false;
  k_accept := [
    ACallback "VisitUntypedSubQueryNodeStart";
    AAccept "symbol";
    AAccept "query";
    ACallback "VisitUntypedSubQueryNodeEnd" ];
  k_unsupported := [] |}.

Definition kind_UntypedSymbolNode : kdesc := {|
  k_name := "UntypedSymbolNode"; k_ptr := true; k_file := "node_symbol.go";
  k_strs := [
    {| sf_name := "symbol"; sf_issym := true; sf_evidence := ["Symbols.GetSymbolType in TypeTransform"; "returned by Symbol()"; "visitor.VisitSymbol in Accept"] |} ];
  k_children := [];
  k_symbol := SymOwn "symbol";
  k_recv_guard := false;
  k_accept := [
    AVisitSym "symbol";
    ACallback "VisitUntypedSymbolNode" ];
  k_unsupported := [] |}.

Definition kind_queryNode : kdesc := {|
  k_name := "queryNode"; k_ptr := true; k_file := "node_query.go";
  k_strs := [];
  k_children := [
    {| cf_name := "Predicate"; cf_shape := FSingle; cf_type := "BoolNode"; cf_hidden := false; cf_nilable := false |};
    {| cf_name := "SortBy"; cf_shape := FSingle; cf_type := "*SortByNode"; cf_hidden := false; cf_nilable := true |};
    {| cf_name := "Skip"; cf_shape := FSingle; cf_type := "*SkipExprNode"; cf_hidden := false; cf_nilable := true |};
    {| cf_name := "Limit"; cf_shape := FSingle; cf_type := "*LimitExprNode"; cf_hidden := false; cf_nilable := true |} ];
  k_symbol := SymNone;
  k_recv_guard := false;
  k_accept := [
    ACallback "VisitQueryNodeStart";
    AAccept "Predicate";
    AAccept "SortBy";
    AAccept "Skip";
    AAccept "Limit";
    ACallback "VisitQueryNodeEnd" ];
  k_unsupported := [] |}.

Definition kind_subQueryNode : kdesc := {|
  k_name := "subQueryNode"; k_ptr := true; k_file := "node_query.go";
  k_strs := [];
  k_children := [
    {| cf_name := "symbol"; cf_shape := FSingle; cf_type := "SymbolNode"; cf_hidden := false; cf_nilable := false |};
    {| cf_name := "query"; cf_shape := FSingle; cf_type := "Query"; cf_hidden := false; cf_nilable := false |} ];
  k_symbol := SymVia "symbol";
  k_recv_guard := false;
  k_accept := [
    ACallback "VisitSubQueryNodeStart";
    AAccept "symbol";
    AAccept "query";
    ACallback "VisitSubQueryNodeEnd" ];
  k_unsupported := [] |}.

Definition kind_untypedQueryNode : kdesc := {|
  k_name := "untypedQueryNode"; k_ptr := true; k_file := "node_query.go";
  k_strs := [];
  k_children := [
    {| cf_name := "predicate"; cf_shape := FSingle; cf_type := "Node"; cf_hidden := false; cf_nilable := false |};
    {| cf_name := "sortBy"; cf_shape := FSingle; cf_type := "*SortByNode"; cf_hidden := false; cf_nilable := true |};
    {| cf_name := "skip"; cf_shape := FSingle; cf_type := "*SkipExprNode"; cf_hidden := false; cf_nilable := true |};
    {| cf_name := "limit"; cf_shape := FSingle; cf_type := "*LimitExprNode"; cf_hidden := false; cf_nilable := true |} ];
  k_symbol := SymNone;
  k_recv_guard := false;
  k_accept := [
    ACallback "VisitUntypedQueryNodeStart";
    AAccept "predicate";
    AAccept "sortBy";
    AAccept "skip";
    AAccept "limit";
    ACallback "VisitUntypedQueryNodeEnd" ];
  k_unsupported := [] |}.

Definition table : list kdesc := [
  kind_AllOfSetExprNode;
  kind_AndExprNode;
  kind_AnyOfSetExprNode;
  kind_AnyTypeSymbolNode;
  kind_BetweenExprNode;
  kind_BinaryBoolExprNode;
  kind_BinaryDatetimeExprNode;
  kind_BinaryExprNode;
  kind_BinaryFloat64ExprNode;
  kind_BinaryInt64ExprNode;
  kind_BinaryStringExprNode;
  kind_BoolConstNode;
  kind_BoolSymbolNode;
  kind_BooleanLogicExprNode;
  kind_CountSetExprNode;
  kind_DatetimeArrayNode;
  kind_DatetimeBetweenExprNode;
  kind_DatetimeConstNode;
  kind_DatetimeSymbolNode;
  kind_Float64ArrayNode;
  kind_Float64BetweenExprNode;
  kind_Float64ConstNode;
  kind_Float64SymbolNode;
  kind_InArrayExprNode;
  kind_InDatetimeArrayExprNode;
  kind_InFloat64ArrayExprNode;
  kind_InInt64ArrayExprNode;
  kind_InStringArrayExprNode;
  kind_Int64ArrayNode;
  kind_Int64BetweenExprNode;
  kind_Int64ConstNode;
  kind_Int64SymbolNode;
  kind_Int64ToFloat64Node;
  kind_IsEmptySetExprNode;
  kind_IsNilExprNode;
  kind_LimitExprNode;
  kind_NotExprNode;
  kind_NullConstNode;
  kind_OrExprNode;
  kind_SetFunctionNode;
  kind_SkipExprNode;
  kind_SortByNode;
  kind_SortFieldNode;
  kind_StringArrayNode;
  kind_StringConstNode;
  kind_StringFuncNode;
  kind_StringSymbolNode;
  kind_UntypedNotExprNode;
  kind_UntypedSubQueryNode;
  kind_UntypedSymbolNode;
  kind_queryNode;
  kind_subQueryNode;
  kind_untypedQueryNode ].

Definition validator : vdesc := {|
  v_type := "publicSymbolValidator";
  v_embeds_default := true;
  v_overrides := [
    {| vm_name := "VisitSymbol"; vm_checks_public_on := (Some 0); vm_latch := true; vm_reports_param := (Some 0) |} ];
  v_entry := "ValidateSymbolsArePublic";
  v_entry_pointer := true;
  v_entry_accepts_query := true;
  v_entry_returns_err := true |}.
