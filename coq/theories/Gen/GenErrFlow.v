(* GENERATED FILE: GenErrFlow.v *)
(* regenerated from boltz/*.go by translators/errflow on every run; do not edit *)
From Coq Require Import List String.
From Storage Require Import Store.ErrFlow.
Import ListNotations.
Open Scope string_scope.
Definition table : list erow :=
  [
    mkRow "db.go" "DbImpl.GetSnapshotId" 0 DReturn "if err != nil";
    mkRow "db.go" "DbImpl.GetTimelineId" 0 DReturn "if err != nil";
    mkRow "db.go" "DbImpl.MarkAsSnapshot" 0 DReturn "if err != nil";
    mkRow "db.go" "DbImpl.MarkAsSnapshot" 1 DReturn "if err != nil";
    mkRow "db.go" "DbImpl.Open" 0 DReturn "if err != nil";
    mkRow "db.go" "DbImpl.RestoreFromReader" 0 DOther "if err != nil";
    mkRow "db.go" "DbImpl.RestoreFromReader" 1 DOther "if err != nil";
    mkRow "db.go" "DbImpl.RestoreFromReader" 2 DOther "if err != nil";
    mkRow "db.go" "DbImpl.RestoreFromReader" 3 DOther "if err != nil";
    mkRow "db.go" "DbImpl.RestoreFromReader" 4 DOther "if err != nil";
    mkRow "db.go" "DbImpl.Snapshot" 0 DReturn "if err != nil";
    mkRow "db.go" "DbImpl.SnapshotInTx" 0 DReturn "if err != nil";
    mkRow "db.go" "DbImpl.SnapshotInTx" 1 DReturn "if err != nil";
    mkRow "db.go" "DbImpl.SnapshotInTx" 2 DOther "if rmErr != nil";
    mkRow "db.go" "DbImpl.persistSnapshot" 0 DReturn "if err != nil";
    mkRow "db.go" "DbImpl.persistSnapshot" 1 DReturn "if err != nil";
    mkRow "db.go" "DbImpl.persistSnapshot" 2 DReturn "if closeErr != nil";
    mkRow "db.go" "DbImpl.persistSnapshot" 3 DReturn "if err != nil";
    mkRow "db.go" "Open" 0 DReturn "if err != nil";
    mkRow "encode.go" "DecodeStringSlice" 0 DReturn "if err != nil";
    mkRow "encode.go" "EncodeStringSlice" 0 DReturn "if err != nil";
    mkRow "indexes.go" "fkConstraint.CheckIntegrity" 0 DReturn "if err != nil";
    mkRow "indexes.go" "fkIndex.CheckIntegrity" 0 DReturn "if err != nil";
    mkRow "indexes.go" "fkIndex.CheckIntegrity" 1 DReturn "if err != nil";
    mkRow "indexes.go" "setIndex.CheckIntegrity" 0 DReturn "if err != nil";
    mkRow "indexes.go" "setIndex.CheckIntegrity" 1 DReturn "if err != nil";
    mkRow "indexes.go" "setIndex.CheckIntegrity" 2 DReturn "if err != nil";
    mkRow "indexes.go" "setIndex.CheckIntegrity" 3 DReturn "if err != nil";
    mkRow "indexes.go" "uniqueIndex.CheckIntegrity" 0 DReturn "if err != nil";
    mkRow "indexes.go" "uniqueIndex.CheckIntegrity" 1 DReturn "if err != nil";
    mkRow "indexes.go" "uniqueIndex.Read" 0 DOther "if indexBucket.Err != nil";
    mkRow "link_collection.go" "LinkedSetSymbol.AddCompoundLink" 0 DReturn "if err != nil";
    mkRow "link_collection.go" "LinkedSetSymbol.RemoveCompoundLink" 0 DReturn "if err != nil";
    mkRow "link_collection.go" "linkCollectionImpl.AddLinks" 0 DReturn "if err != nil";
    mkRow "link_collection.go" "linkCollectionImpl.CheckIntegrity" 0 DReturn "if err != nil";
    mkRow "link_collection.go" "linkCollectionImpl.CheckIntegrity" 1 DReturn "if err != nil";
    mkRow "link_collection.go" "linkCollectionImpl.EntityDeleted" 0 DReturn "if err != nil";
    mkRow "link_collection.go" "linkCollectionImpl.RemoveLinks" 0 DReturn "if err != nil";
    mkRow "link_collection.go" "linkCollectionImpl.SetLinks" 0 DReturn "if err != nil";
    mkRow "link_collection.go" "linkCollectionImpl.checkAndLink" 0 DReturn "if err != nil";
    mkRow "link_collection.go" "linkCollectionImpl.checkAndUnlink" 0 DReturn "if err != nil";
    mkRow "link_collection.go" "linkCollectionImpl.link" 0 DReturn "if fieldBucket.SetListEntry().Err != nil";
    mkRow "link_collection.go" "linkCollectionImpl.unlink" 0 DReturn "if fieldBucket.DeleteListEntry().Err != nil";
    mkRow "link_collection_rc.go" "rcLinkCollectionImpl.EntityDeleted" 0 DReturn "if err != nil";
    mkRow "link_collection_rc.go" "rcLinkCollectionImpl.decrementLinkCount" 0 DReturn "if err != nil";
    mkRow "link_collection_rc.go" "rcLinkCollectionImpl.decrementLinkCount" 1 DReturn "if err != nil";
    mkRow "link_collection_rc.go" "rcLinkCollectionImpl.incrementLinkCount" 0 DReturn "if err != nil";
    mkRow "link_collection_rc.go" "rcLinkCollectionImpl.incrementLinkCount" 1 DReturn "if err != nil";
    mkRow "link_collection_rc.go" "rcLinkCollectionImpl.setLinkCount" 0 DReturn "if err != nil";
    mkRow "link_collection_rc.go" "rcLinkCollectionImpl.setLinkCount" 1 DReturn "if err != nil";
    mkRow "paths.go" "GetOrCreatePath" 0 DOther "if err != nil";
    mkRow "paths.go" "loggingTraverseVisitor.VisitBucket" 0 DDiscard "call fmt.Printf";
    mkRow "paths.go" "loggingTraverseVisitor.VisitKeyValue" 0 DDiscard "call fmt.Printf";
    mkRow "paths.go" "loggingTraverseVisitor.VisitKeyValue" 1 DDiscard "call fmt.Printf";
    mkRow "query_scanners.go" "sortingScanner.ScanCursor" 0 DReturn "if err != nil";
    mkRow "query_symbols.go" "entitySetSymbolImpl.Map" 0 DReturn "if err != nil";
    mkRow "store.go" "EntityChangeState.fireEvents" 0 DReturn "if err != nil";
    mkRow "store.go" "EntityChangeState.processPreCommit" 0 DReturn "if err != nil";
    mkRow "store_crud.go" "BaseStore.CheckIntegrity" 0 DReturn "if err != nil";
    mkRow "store_crud.go" "BaseStore.CheckIntegrity" 1 DReturn "if err != nil";
    mkRow "store_crud.go" "BaseStore.Create" 0 DReturn "if err != nil";
    mkRow "store_crud.go" "BaseStore.Create" 1 DReturn "if err != nil";
    mkRow "store_crud.go" "BaseStore.Create" 2 DReturn "if err != nil";
    mkRow "store_crud.go" "BaseStore.DeleteById" 0 DReturn "if err != nil";
    mkRow "store_crud.go" "BaseStore.DeleteById" 1 DReturn "if err != nil";
    mkRow "store_crud.go" "BaseStore.DeleteById" 2 DReturn "if err != nil";
    mkRow "store_crud.go" "BaseStore.DeleteById" 3 DReturn "if err != nil";
    mkRow "store_crud.go" "BaseStore.DeleteById" 4 DReturn "if bucket.Err != nil";
    mkRow "store_crud.go" "BaseStore.DeleteById" 5 DReturn "if err != nil";
    mkRow "store_crud.go" "BaseStore.DeleteWhere" 0 DReturn "if err != nil";
    mkRow "store_crud.go" "BaseStore.DeleteWhere" 1 DReturn "if err != nil";
    mkRow "store_crud.go" "BaseStore.Update" 0 DReturn "if err != nil";
    mkRow "store_crud.go" "BaseStore.Update" 1 DReturn "if err != nil";
    mkRow "store_crud.go" "BaseStore.Update" 2 DReturn "if err != nil";
    mkRow "store_crud.go" "BaseStore.Update" 3 DReturn "if err != nil";
    mkRow "store_crud.go" "BaseStore.processDeleteConstraints" 0 DReturn "if err != nil";
    mkRow "store_query.go" "BaseStore.QueryIds" 0 DReturn "if err != nil";
    mkRow "system_entity_constraint.go" "systemEntityConstraint.ProcessAfterUpdate" 0 DLatch "if err != nil";
    mkRow "system_entity_constraint.go" "systemEntityConstraint.ProcessBeforeDelete" 0 DLatch "if err != nil";
    mkRow "system_entity_constraint.go" "systemEntityConstraint.ProcessBeforeUpdate" 0 DLatch "if err != nil";
    mkRow "tx_context.go" "mutateContext.runPreCommitActions" 0 DReturn "if err != nil";
    mkRow "typed_bucket.go" "BytesToDatetime" 0 DOther "if err != nil";
    mkRow "typed_bucket.go" "TypedBucket.EmptyBucket" 0 DReturn "if err != nil";
    mkRow "typed_bucket.go" "TypedBucket.EmptyBucket" 1 DReturn "if err != nil";
    mkRow "typed_bucket.go" "TypedBucket.GetAndSetStringList" 0 DLatch "if err != nil";
    mkRow "typed_bucket.go" "TypedBucket.GetAndSetStringList" 1 DLatch "if listBucket.SetListEntry().Err != nil";
    mkRow "typed_bucket.go" "TypedBucket.GetOrCreateBucket" 0 DOther "if bucket.Err != nil";
    mkRow "typed_bucket.go" "TypedBucket.GetOrCreateBucket" 1 DOther "if err != nil";
    mkRow "typed_bucket.go" "TypedBucket.GetOrCreatePath" 0 DOther "if next.Err != nil";
    mkRow "typed_bucket.go" "TypedBucket.PutList" 0 DLatch "if err != nil";
    mkRow "typed_bucket.go" "TypedBucket.PutMap" 0 DLatch "if err != nil";
    mkRow "typed_bucket.go" "TypedBucket.SetStringList" 0 DLatch "if err != nil";
    mkRow "typed_bucket.go" "TypedBucket.SetStringList" 1 DLatch "if listBucket.SetListEntry().Err != nil";
    mkRow "typed_bucket.go" "TypedBucket.copyImpl" 0 DReturn "if err != nil";
    mkRow "typed_bucket.go" "TypedBucket.copyImpl" 1 DReturn "if err != nil";
    mkRow "typed_bucket.go" "TypedBucket.setMarshaled" 0 DOther "if bucket.Err != nil"
  ].
