(* The shared store machine: an executable, schema-parametric model of boltz CRUD
   (store_crud.go, indexes.go, store.go, system_entity_constraint.go, tx glue of db.go).
   Model only - proofs live in Store/*Proofs.v.

   Data level = finite association lists (sorted by construction, but no lemma needs
   sortedness); schema level (store / field / index names) = total functions.

   An operation returns [Ok (state, events)] or [Err kind]; the enclosing transaction is
   rolled back on the first error (bbolt rollback, trusted), so the state after a failing
   operation is not modelled.  What IS modelled faithfully is *whether* an operation fails
   and with which error kind, in the order the code consults its error holder. *)
From Coq Require Import List NArith Bool.
From Storage Require Import Base.Bytes.
Import ListNotations.
Open Scope N_scope.

(* ---------------------------------------------------------------- association lists *)
Definition alist (V : Type) := list (str * V).

Fixpoint al_get {V} (k : str) (l : alist V) : option V :=
  match l with
  | [] => None
  | (k', v) :: r => if str_eqb k k' then Some v else al_get k r
  end.

Fixpoint al_put {V} (k : str) (v : V) (l : alist V) : alist V :=
  match l with
  | [] => [(k, v)]
  | (k', v') :: r =>
      match str_cmp k k' with
      | Eq => (k, v) :: r
      | Lt => (k, v) :: (k', v') :: r
      | Gt => (k', v') :: al_put k v r
      end
  end.

Fixpoint al_del {V} (k : str) (l : alist V) : alist V :=
  match l with
  | [] => []
  | (k', v) :: r => if str_eqb k k' then al_del k r else (k', v) :: al_del k r
  end.

Definition al_keys {V} (l : alist V) : list str := map fst l.

(* sorted string sets *)
Fixpoint ss_mem (x : str) (l : list str) : bool :=
  match l with [] => false | y :: r => str_eqb x y || ss_mem x r end.

Fixpoint ss_add (x : str) (l : list str) : list str :=
  match l with
  | [] => [x]
  | y :: r =>
      match str_cmp x y with
      | Eq => l
      | Lt => x :: l
      | Gt => y :: ss_add x r
      end
  end.

Fixpoint ss_del (x : str) (l : list str) : list str :=
  match l with
  | [] => []
  | y :: r => if str_eqb x y then ss_del x r else y :: ss_del x r
  end.

Definition ss_of_list (l : list str) : list str := fold_left (fun acc x => ss_add x acc) l [].

Fixpoint strs_eqb (a b : list str) : bool :=
  match a, b with
  | [], [] => true
  | x :: a', y :: b' => str_eqb x y && strs_eqb a' b'
  | _, _ => false
  end.

(* ---------------------------------------------------------------- schema *)
Definition name := str.
Definition id := str.

Inductive casc := CascNone | CascDelete.

Inductive cons :=
| CUnique (field : name) (nullable : bool)                            (* uniqueIndex *)
| CSetIdx (setf : name)                                               (* setIndex *)
| CFkIndex (field : name) (tstore : name) (backref : name) (nullable : bool)  (* fkIndex, on the referrer *)
| CFkRestrict (backref : name)                                        (* fkDeleteConstraint, on the target *)
| CFkCons (field : name) (tstore : name) (nullable : bool)            (* fkConstraint, on the referrer *)
| CFkCascade (rstore : name) (field : name) (c : casc)                (* fkDeleteCascadeConstraint, on the target *)
| CSystem.                                                            (* systemEntityConstraint *)

Record sdef := mkSdef {
  sd_name : name;
  sd_parent : option name;        (* child (extension) store of a root store *)
  sd_ext : bool;                  (* declared Extended() *)
  sd_fields : list (name * bool); (* string fields in persist order; true = pointer/nullable (SetStringP) *)
  sd_sets : list name;            (* string-list fields (SetStringList) *)
  sd_cons : list cons;            (* Indexer.constraints in registration order *)
  sd_links : list (name * name * name)  (* link collections: local set field, other store, other set field *)
}.

Definition schema := list sdef.

Fixpoint find_store (sch : schema) (s : name) : option sdef :=
  match sch with
  | [] => None
  | d :: r => if str_eqb (sd_name d) s then Some d else find_store r s
  end.

Definition root_of (sch : schema) (s : name) : name :=
  match find_store sch s with
  | Some d => match sd_parent d with Some p => p | None => s end
  | None => s
  end.

Definition is_child (sch : schema) (s : name) : bool :=
  match find_store sch s with
  | Some d => match sd_parent d with Some _ => true | None => false end
  | None => false
  end.

Definition is_ext (sch : schema) (s : name) : bool :=
  match find_store sch s with Some d => sd_ext d | None => false end.

Definition children_of (sch : schema) (r : name) : list sdef :=
  filter (fun d => match sd_parent d with Some p => str_eqb p r | None => false end) sch.

Definition declares_field (d : sdef) (f : name) : bool :=
  existsb (fun p => str_eqb (fst p) f) (sd_fields d).

(* ---------------------------------------------------------------- state *)
Inductive fval := FAbsent | FNil | FStr (s : str) | FBool (b : bool).

Definition fv_bytes (v : fval) : str :=
  match v with
  | FStr s => s
  | FBool true => [1]
  | FBool false => [0]
  | _ => []
  end.

Definition nonempty (s : str) : bool := match s with [] => false | _ => true end.

Record entity := mkEnt {
  e_f : alist fval;            (* fields of the (root) entity bucket *)
  e_s : alist (list str);      (* string-set sub-buckets: set fields, back-reference sets, link sets *)
  e_c : alist (alist fval)     (* child-store data, by child store name *)
}.

Definition ent_empty : entity := mkEnt [] [] [].

Record state := mkState {
  ents : name -> alist entity;                 (* root store -> id -> entity *)
  uidx : name -> name -> alist id;             (* root store -> field -> value -> id *)
  sidx : name -> name -> alist (list id)       (* root store -> set field -> value -> ids; a present key may hold [] *)
}.

Definition st_empty : state := mkState (fun _ => []) (fun _ _ => []) (fun _ _ => []).

Definition upd1 {V} (f : name -> V) (a : name) (v : V) : name -> V :=
  fun a' => if str_eqb a a' then v else f a'.
Definition upd2 {V} (f : name -> name -> V) (a b : name) (v : V) : name -> name -> V :=
  fun a' b' => if str_eqb a a' && str_eqb b b' then v else f a' b'.

Definition get_ent (st : state) (r : name) (i : id) : option entity := al_get i (ents st r).
Definition set_ent (st : state) (r : name) (i : id) (e : entity) : state :=
  mkState (upd1 (ents st) r (al_put i e (ents st r))) (uidx st) (sidx st).
Definition del_ent (st : state) (r : name) (i : id) : state :=
  mkState (upd1 (ents st) r (al_del i (ents st r))) (uidx st) (sidx st).
Definition set_uidx (st : state) (r f : name) (m : alist id) : state :=
  mkState (ents st) (upd2 (uidx st) r f m) (sidx st).
Definition set_sidx (st : state) (r f : name) (m : alist (list id)) : state :=
  mkState (ents st) (uidx st) (upd2 (sidx st) r f m).

Definition ent_field (e : entity) (f : name) : fval :=
  match al_get f (e_f e) with Some v => v | None => FAbsent end.
Definition ent_set (e : entity) (f : name) : list str :=
  match al_get f (e_s e) with Some l => l | None => [] end.
Definition ent_with_field (e : entity) (f : name) (v : fval) : entity :=
  mkEnt (al_put f v (e_f e)) (e_s e) (e_c e).
Definition ent_with_set (e : entity) (f : name) (l : list str) : entity :=
  mkEnt (e_f e) (al_put f l (e_s e)) (e_c e).
Definition ent_with_child (e : entity) (c : name) (d : alist fval) : entity :=
  mkEnt (e_f e) (e_s e) (al_put c d (e_c e)).

(* store.GetEntityBucket(tx, id) <> nil *)
Definition present (sch : schema) (st : state) (s : name) (i : id) : bool :=
  match get_ent st (root_of sch s) i with
  | None => false
  | Some e => if is_child sch s then match al_get s (e_c e) with Some _ => true | None => false end else true
  end.

(* getEntityBucketForLoad <> nil : extended stores fall back to the parent bucket *)
Definition loadable (sch : schema) (st : state) (s : name) (i : id) : bool :=
  present sch st s i || (is_ext sch s && present sch st (root_of sch s) i).

(* symbol.Eval for a field symbol of store [s] (own field of a child store lives in the child data) *)
Definition get_field (sch : schema) (st : state) (s : name) (i : id) (f : name) : fval :=
  match get_ent st (root_of sch s) i with
  | None => FAbsent
  | Some e =>
      match find_store sch s with
      | Some d =>
          if is_child sch s && declares_field d f then
            match al_get s (e_c e) with
            | Some cd => match al_get f cd with Some v => v | None => FAbsent end
            | None => FAbsent
            end
          else ent_field e f
      | None => ent_field e f
      end
  end.

Definition get_set (sch : schema) (st : state) (s : name) (i : id) (f : name) : list str :=
  match get_ent st (root_of sch s) i with
  | None => []
  | Some e => ent_set e f
  end.

(* ---------------------------------------------------------------- results *)
Inductive ekind :=
| EDuplicate        (* UniqueIndexDuplicateError *)
| ENotFound         (* RecordNotFoundError *)
| ERefExists        (* ReferenceExistsError *)
| EOther            (* any other error: validation, empty value in non-nullable index, system constraint, veto, storage *)
| EOutOfFuel.       (* model artefact: cascade recursion deeper than the fuel; excluded by the theorems *)

Inductive res (A : Type) := Ok (a : A) | Err (k : ekind).
Arguments Ok {A} a.
Arguments Err {A} k.

Definition bind {A B} (r : res A) (f : A -> res B) : res B :=
  match r with Ok a => f a | Err k => Err k end.
Notation "'do' x <- r ; k" := (bind r (fun x => k)) (at level 200, x pattern, r at level 100, k at level 200).

(* ---------------------------------------------------------------- events *)
Inductive change := Created | Updated | Deleted.
Definition change_eqb (a b : change) : bool :=
  match a, b with Created, Created | Updated, Updated | Deleted, Deleted => true | _, _ => false end.

Record event := mkEvent { ev_store : name; ev_change : change; ev_id : id; ev_parent : bool }.

(* entity constraints that veto in ProcessPreCommit: (store, change, id) triples configured by the harness *)
Definition veto := (name * change * id)%type.
Definition vetoed (vs : list veto) (s : name) (c : change) (i : id) : bool :=
  existsb (fun v => match v with (s', c', i') => str_eqb s s' && change_eqb c c' && str_eqb i i' end) vs.

(* fireEvents: pre-commit constraints of the store, then queue the post-commit event *)
Definition fire (vs : list veto) (evs : list event) (s : name) (c : change) (i : id) (parentEv : bool) : res (list event) :=
  if vetoed vs s c i then Err EOther else Ok (evs ++ [mkEvent s c i parentEv]).

(* ---------------------------------------------------------------- index primitives *)
Definition sidx_remove (st : state) (r f : name) (v : str) (i : id) : state :=
  (* getIndexBucket = GetOrCreateBucket(v); DeleteListEntry(i); if empty then deleteIndexKey *)
  let m := sidx st r f in
  let cur := match al_get v m with Some l => l | None => [] end in
  let l' := ss_del i cur in
  match l' with
  | [] => set_sidx st r f (al_del v m)
  | _ => set_sidx st r f (al_put v l' m)
  end.

Definition sidx_add (st : state) (r f : name) (v : str) (i : id) : state :=
  let m := sidx st r f in
  let cur := match al_get v m with Some l => l | None => [] end in
  set_sidx st r f (al_put v (ss_add i cur) m).

Definition backref_add (sch : schema) (st : state) (t : name) (ti : id) (b : name) (i : id) : state :=
  match get_ent st (root_of sch t) ti with
  | Some e => set_ent st (root_of sch t) ti (ent_with_set e b (ss_add i (ent_set e b)))
  | None => st
  end.

Definition backref_del (sch : schema) (st : state) (t : name) (ti : id) (b : name) (i : id) : state :=
  match get_ent st (root_of sch t) ti with
  | Some e => set_ent st (root_of sch t) ti (ent_with_set e b (ss_del i (ent_set e b)))
  | None => st
  end.

(* bbolt refuses empty keys / bucket names and keys longer than 32768 bytes *)
Definition key_ok (k : str) : bool := nonempty k && (N.of_nat (length k) <=? 32768).

(* ---------------------------------------------------------------- constraint hooks *)
Record ictx := mkIctx {
  ic_create : bool;
  ic_sys : bool;          (* ctx.IsSystemContext() *)
  ic_store : name;        (* the store owning the constraint list being processed *)
  ic_id : id
}.

(* AtomStates / SetStates captured by ProcessBeforeUpdate, one slot per constraint *)
Inductive saved := SvNone | SvAtom (v : str) | SvSet (l : list str).

Definition before_update_one (sch : schema) (st : state) (c : ictx) (k : cons) : res saved :=
  let s := ic_store c in
  match k with
  | CUnique f _ => Ok (SvAtom (fv_bytes (get_field sch st s (ic_id c) f)))
  | CSetIdx f => Ok (SvSet (get_set sch st s (ic_id c) f))
  | CFkIndex f _ _ _ => Ok (SvAtom (fv_bytes (get_field sch st s (ic_id c) f)))
  | CFkCons f _ _ => Ok (SvAtom (fv_bytes (get_field sch st s (ic_id c) f)))
  | CSystem =>
      if negb (ic_create c) then
        match get_field sch st s (ic_id c) [105;115;83;121;115;116;101;109] (* "isSystem" *) with
        | FBool true => if ic_sys c then Ok SvNone else Err EOther
        | _ => Ok SvNone
        end
      else Ok SvNone
  | _ => Ok SvNone
  end.

Definition sv_atom (s : saved) : str := match s with SvAtom v => v | _ => [] end.
Definition sv_set (s : saved) : list str := match s with SvSet l => l | _ => [] end.

Definition isSystemF : name := [105;115;83;121;115;116;101;109].

Definition after_update_one (sch : schema) (st : state) (c : ictx) (k : cons) (sv : saved) : res state :=
  let s := ic_store c in
  let r := root_of sch s in
  let i := ic_id c in
  match k with
  | CUnique f nullable =>
      let new := fv_bytes (get_field sch st s i f) in
      let old := sv_atom sv in
      if negb (ic_create c) && str_eqb old new then Ok st
      else
        let m := uidx st r f in
        let m1 := if nonempty old then al_del old m else m in
        if nonempty new then
          match al_get new m1 with
          | Some _ => Err EDuplicate
          | None => if key_ok new then Ok (set_uidx st r f (al_put new i m1)) else Err EOther
          end
        else if nullable then Ok (set_uidx st r f m1) else Err EOther
  | CSetIdx f =>
      let new := get_set sch st s i f in
      let old := sv_set sv in
      if strs_eqb old new then Ok st
      else
        if negb (forallb key_ok old && forallb key_ok new) then Err EOther
        else
          let st1 := fold_left (fun acc v => sidx_remove acc r f v i) old st in
          Ok (fold_left (fun acc v => sidx_add acc r f v i) new st1)
  | CFkIndex f t b nullable =>
      let new := fv_bytes (get_field sch st s i f) in
      let old := sv_atom sv in
      if negb (ic_create c) && str_eqb old new then Ok st
      else
        do st1 <- (if nonempty old then
                     if present sch st t old then Ok (backref_del sch st t old b i) else Err ENotFound
                   else Ok st);
        if nonempty new then
          if present sch st1 t new then Ok (backref_add sch st1 t new b i) else Err ENotFound
        else if nullable then Ok st1 else Err EOther
  | CFkCons f t nullable =>
      let new := fv_bytes (get_field sch st s i f) in
      let old := sv_atom sv in
      if negb (ic_create c) && str_eqb old new then Ok st
      else if nonempty new then
        if present sch st t new then Ok st else Err ENotFound
      else if nullable then Ok st else Err EOther
  | CSystem =>
      if ic_create c then
        match get_field sch st s i isSystemF with
        | FBool true => if ic_sys c then Ok st else Err EOther
        | _ => Ok st
        end
      else Ok st
  | _ => Ok st
  end.

Fixpoint before_update_all (sch : schema) (st : state) (c : ictx) (ks : list cons) : res (list saved) :=
  match ks with
  | [] => Ok []
  | k :: r => do sv <- before_update_one sch st c k; do rest <- before_update_all sch st c r; Ok (sv :: rest)
  end.

Fixpoint after_update_all (sch : schema) (st : state) (c : ictx) (ks : list cons) (svs : list saved) : res state :=
  match ks with
  | [] => Ok st
  | k :: r =>
      let sv := match svs with x :: _ => x | [] => SvNone end in
      do st1 <- after_update_one sch st c k sv;
      after_update_all sch st1 c r (match svs with _ :: t => t | [] => [] end)
  end.

Definition cons_of (sch : schema) (s : name) : list cons :=
  match find_store sch s with Some d => sd_cons d | None => [] end.

(* ---------------------------------------------------------------- persist *)
Definition fieldvals := list (name * option str).   (* the entity's value per field; None = nil pointer *)
Definition setvals := list (name * list str).
Definition checker := option (list name).           (* None = all fields ; Some l = only those named *)

Definition checked (ch : checker) (f : name) : bool :=
  match ch with None => true | Some l => ss_mem f l end.

Definition lookup_fv (fv : fieldvals) (f : name) : option (option str) :=
  match find (fun p => str_eqb (fst p) f) fv with Some p => Some (snd p) | None => None end.

Definition persist_fields (decl : list (name * bool)) (fv : fieldvals) (ch : checker) (cur : alist fval) : alist fval :=
  fold_left (fun acc (p : name * bool) =>
    let (f, ptr) := p in
    if checked ch f then
      match lookup_fv fv f with
      | Some (Some v) => al_put f (FStr v) acc
      | Some None => if ptr then al_put f FNil acc else al_put f (FStr []) acc
      | None => if ptr then al_put f FNil acc else al_put f (FStr []) acc
      end
    else acc) decl cur.

Definition persist_sets (decl : list name) (sv : setvals) (ch : checker) (cur : alist (list str)) : alist (list str) :=
  fold_left (fun acc f =>
    if checked ch f then
      let l := match find (fun p => str_eqb (fst p) f) sv with Some p => snd p | None => [] end in
      al_put f (ss_of_list l) acc
    else acc) decl cur.

(* PersistEntity for store [s] (root or child) into the entity [e] *)
Definition persist (sch : schema) (s : name) (create sys : bool) (fv : fieldvals) (sv : setvals) (ch : checker) (e : entity) : entity :=
  match find_store sch s with
  | None => e
  | Some d =>
      match sd_parent d with
      | None =>
          let f1 := persist_fields (sd_fields d) fv ch (e_f e) in
          let f2 := if create && sys then al_put isSystemF (FBool true) f1 else f1 in
          mkEnt f2 (persist_sets (sd_sets d) sv ch (e_s e)) (e_c e)
      | Some p =>
          match find_store sch p with
          | None => e
          | Some pd =>
              let f1 := persist_fields (sd_fields pd) fv ch (e_f e) in
              let f2 := if create && sys then al_put isSystemF (FBool true) f1 else f1 in
              let cd := match al_get s (e_c e) with Some x => x | None => [] end in
              mkEnt f2 (persist_sets (sd_sets pd) sv ch (e_s e))
                    (al_put s (persist_fields (sd_fields d) fv ch cd) (e_c e))
          end
      end
  end.

(* ---------------------------------------------------------------- operations *)
Record octx := mkOctx { oc_sys : bool; oc_vetoes : list veto }.

Definition st_ev := (state * list event)%type.

(* events of a create/update on store s: fireParentEvent then own fireEvents *)
Definition fire_cu (sch : schema) (oc : octx) (evs : list event) (s : name) (c : change) (i : id) : res (list event) :=
  do evs1 <- (if is_child sch s then fire (oc_vetoes oc) evs (root_of sch s) c i true else Ok evs);
  fire (oc_vetoes oc) evs1 s c i false.

(* run the indexing context chain (parent's constraints first, then the store's own) *)
Definition chain (sch : schema) (s : name) : list (name * list cons) :=
  if is_child sch s then [(root_of sch s, cons_of sch (root_of sch s)); (s, cons_of sch s)]
  else [(s, cons_of sch s)].

Fixpoint before_chain (sch : schema) (st : state) (create sys : bool) (i : id) (ch : list (name * list cons)) : res (list (list saved)) :=
  match ch with
  | [] => Ok []
  | (s, ks) :: r =>
      do svs <- before_update_all sch st (mkIctx create sys s i) ks;
      do rest <- before_chain sch st create sys i r;
      Ok (svs :: rest)
  end.

Fixpoint after_chain (sch : schema) (st : state) (create sys : bool) (i : id) (ch : list (name * list cons)) (svs : list (list saved)) : res state :=
  match ch with
  | [] => Ok st
  | (s, ks) :: r =>
      let sv := match svs with x :: _ => x | [] => [] end in
      do st1 <- after_update_all sch st (mkIctx create sys s i) ks sv;
      after_chain sch st1 create sys i r (match svs with _ :: t => t | [] => [] end)
  end.

Definition op_create (sch : schema) (oc : octx) (stev : st_ev) (s : name) (i : id) (sys : bool) (fv : fieldvals) (sv : setvals) : res st_ev :=
  let (st, evs) := stev in
  match find_store sch s with
  | None => Err EOther
  | Some _ =>
      if negb (nonempty i) then Err EOther                      (* blank id *)
      else if present sch st s i then Err EOther                (* already exists *)
      else if present sch st (root_of sch s) i then Err EOther  (* the id is taken by an entity of the parent store *)
      else if negb (key_ok i) then Err EOther                   (* CreateBucket refuses the name *)
      else
        let r := root_of sch s in
        let st1 := set_ent st r i (persist sch s true sys fv sv None ent_empty) in
        (* index errors are latched in the bucket's error holder and only returned at the very end
           (return bucket.Err); a pre-commit veto returns first *)
        do evs1 <- fire_cu sch oc evs s Created i;
        do st2 <- after_chain sch st1 true (oc_sys oc) i (chain sch s) [];
        Ok (st2, evs1)
  end.

Definition update_in (sch : schema) (oc : octx) (stev : st_ev) (s : name) (i : id) (fv : fieldvals) (sv : setvals) (ch : checker) : res st_ev :=
  let (st, evs) := stev in
  if negb (nonempty i) then Err EOther
  else if negb (loadable sch st s i) then Err ENotFound
  else if negb (present sch st s i) then Err ENotFound
  else
    let r := root_of sch s in
    (* constraint errors are latched (bucket.Err) and returned last; a pre-commit veto returns first *)
    do evs1 <- fire_cu sch oc evs s Updated i;
    do svs <- before_chain sch st false (oc_sys oc) i (chain sch s);
    let e0 := match get_ent st r i with Some e => e | None => ent_empty end in
    let st1 := set_ent st r i (persist sch s false false fv sv ch e0) in
    do st2 <- after_chain sch st1 false (oc_sys oc) i (chain sch s) svs;
    Ok (st2, evs1).

(* Update entered through store s: a root store first offers the entity to its child-store
   strategies (the harness mapper handles iff the child data exists) *)
Definition op_update (sch : schema) (oc : octx) (stev : st_ev) (s : name) (i : id) (fv : fieldvals) (sv : setvals) (ch : checker) : res st_ev :=
  match find_store sch s with
  | None => Err EOther
  | Some _ =>
      if is_child sch s then update_in sch oc stev s i fv sv ch
      else
        match find (fun d => present sch (fst stev) (sd_name d) i) (children_of sch s) with
        | Some d => update_in sch oc stev (sd_name d) i fv sv ch
        | None => update_in sch oc stev s i fv sv ch
        end
  end.

(* remove i from the other side of every link collection of store s, then nothing is left on this side
   because the entity bucket is deleted afterwards *)
Definition cleanup_links (sch : schema) (st : state) (s : name) (i : id) : state :=
  match find_store sch s with
  | None => st
  | Some d =>
      fold_left (fun acc (l : name * name * name) =>
        match l with (lf, os, of_) =>
          fold_left (fun acc2 oi => backref_del sch acc2 os oi of_ i) (get_set sch acc s i lf) acc
        end) (sd_links d) st
  end.

Definition ids_of (st : state) (r : name) : list id := al_keys (ents st r).

(* LinkCollection.AddLinks / RemoveLinks on the link collection of store s whose local field is lf *)
Definition find_link (sch : schema) (s lf : name) : option (name * name) :=
  match find_store sch s with
  | None => None
  | Some d =>
      match find (fun l : name * name * name => match l with (lf', _, _) => str_eqb lf lf' end) (sd_links d) with
      | Some (_, os, of_) => Some (os, of_)
      | None => None
      end
  end.

Definition op_add_links (sch : schema) (st : state) (s : name) (i : id) (lf : name) (targets : list id) : res state :=
  match find_link sch s lf with
  | None => Err EOther
  | Some (os, of_) =>
      if negb (present sch st s i) then Err EOther
      else
        fold_left (fun acc t =>
          do cur <- acc;
          if present sch cur os t then
            Ok (backref_add sch (backref_add sch cur s i lf t) os t of_ i)
          else Err ENotFound) targets (Ok st)
  end.

Definition op_remove_links (sch : schema) (st : state) (s : name) (i : id) (lf : name) (targets : list id) : res state :=
  match find_link sch s lf with
  | None => Err EOther
  | Some (os, of_) =>
      if negb (present sch st s i) then Err EOther
      else Ok (fold_left (fun cur t => backref_del sch (backref_del sch cur s i lf t) os t of_ i) targets st)
  end.

Section Delete.
  Variable sch : schema.
  Variable oc : octx.

  (* the filter  field = "<id>"  of the cascade constraint, over the referrer store rs *)
  Definition casc_matches (rs f : name) (i : id) (st' : state) (x : id) : bool :=
    present sch st' rs x &&
    match get_field sch st' rs x f with FStr v => str_eqb v i | _ => false end.

  (* cursor loop of fkDeleteCascadeConstraint: delete the current match, re-seek to the first
     remaining match >= it (candidates are enumerated once; matches are re-evaluated) *)
  Fixpoint cascade_loop (del : st_ev -> name -> id -> res st_ev) (rs f : name) (i : id)
           (cands : list id) (cur : st_ev) : res st_ev :=
    match cands with
    | [] => Ok cur
    | x :: rest =>
        if casc_matches rs f i (fst cur) x then
          do cur' <- del cur rs x; cascade_loop del rs f i rest cur'
        else cascade_loop del rs f i rest cur
    end.

  (* before-delete hook of one constraint; [del] is the recursive DeleteById (fuel already decreased) *)
  Definition before_delete_one (del : st_ev -> name -> id -> res st_ev) (stev : st_ev) (c : ictx) (k : cons) : res st_ev :=
    let (st, evs) := stev in
    let s := ic_store c in
    let r := root_of sch s in
    let i := ic_id c in
    match k with
    | CUnique f _ =>
        let v := fv_bytes (get_field sch st s i f) in
        if nonempty v then Ok (set_uidx st r f (al_del v (uidx st r f)), evs) else Ok stev
    | CSetIdx f =>
        let vals := get_set sch st s i f in
        if negb (forallb key_ok vals) then Err EOther
        else Ok (fold_left (fun acc v => sidx_remove acc r f v i) vals st, evs)
    | CFkIndex f t b _ =>
        let v := fv_bytes (get_field sch st s i f) in
        if nonempty v then
          if present sch st t v then Ok (backref_del sch st t v b i, evs) else Err ENotFound
        else Ok stev
    | CFkRestrict b =>
        match get_set sch st s i b with
        | [] => Ok stev
        | _ => Err ERefExists
        end
    | CFkCons _ _ _ => Ok stev
    | CFkCascade rs f cs =>
        match cs with
        | CascNone =>
            if existsb (casc_matches rs f i st) (ids_of st (root_of sch rs)) then Err ERefExists else Ok stev
        | CascDelete => cascade_loop del rs f i (ids_of st (root_of sch rs)) stev
        end
    | CSystem =>
        match get_field sch st s i isSystemF with
        | FBool true => if oc_sys oc then Ok stev else Err EOther
        | _ => Ok stev
        end
    end.

  Fixpoint before_delete_all (del : st_ev -> name -> id -> res st_ev) (stev : st_ev) (c : ictx) (ks : list cons) : res st_ev :=
    match ks with
    | [] => Ok stev
    | k :: r => do stev1 <- before_delete_one del stev c k; before_delete_all del stev1 c r
    end.

  Fixpoint before_delete_chain (del : st_ev -> name -> id -> res st_ev) (i : id)
           (ch : list (name * list cons)) (cur : st_ev) : res st_ev :=
    match ch with
    | [] => Ok cur
    | (s', ks) :: r =>
        do cur' <- before_delete_all del cur (mkIctx false (oc_sys oc) s' i) ks;
        before_delete_chain del i r cur'
    end.

  (* processDeleteConstraints for store s: the whole indexing chain, then link cleanup *)
  Definition process_delete (del : st_ev -> name -> id -> res st_ev) (stev : st_ev) (s : name) (i : id) : res st_ev :=
    do stev1 <- before_delete_chain del i (chain sch s) stev;
    Ok (cleanup_links sch (fst stev1) s i, snd stev1).

  (* child stores first: those whose FindById finds the entity (extended ones always do) *)
  Fixpoint children_delete (del : st_ev -> name -> id -> res st_ev) (i : id)
           (cs : list sdef) (cur : st_ev) (flows : list name) : res (st_ev * list name) :=
    match cs with
    | [] => Ok (cur, flows)
    | d :: rest =>
        if loadable sch (fst cur) (sd_name d) i then
          do cur' <- process_delete del cur (sd_name d) i;
          children_delete del i rest cur' (flows ++ [sd_name d])
        else children_delete del i rest cur flows
    end.

  Fixpoint fire_flows (i : id) (fs : list name) (evs : list event) : res (list event) :=
    match fs with
    | [] => Ok evs
    | c :: rest => do evs' <- fire (oc_vetoes oc) evs c Deleted i false; fire_flows i rest evs'
    end.

  Fixpoint delete_by_id (fuel : nat) (stev : st_ev) (s : name) (i : id) : res st_ev :=
    match fuel with
    | O => Err EOutOfFuel
    | S n =>
        let r := root_of sch s in
        if negb (present sch (fst stev) r i) then Err ENotFound
        else
          let del := delete_by_id n in
          do acc <- children_delete del i (children_of sch r) stev [];
          let '(stev1, flows) := acc in
          (* the root store's own FindById: the entity may have been removed by a cascade cycle *)
          if negb (present sch (fst stev1) r i) then Ok stev1
          else
            do stev2 <- process_delete del stev1 r i;
            let st3 := del_ent (fst stev2) r i in
            let hasChildren := match flows with [] => false | _ => true end in
            do evs1 <- fire (oc_vetoes oc) (snd stev2) r Deleted i hasChildren;
            do evs2 <- fire_flows i flows evs1;
            Ok (st3, evs2)
    end.
End Delete.

(* ---------------------------------------------------------------- reads (C15) *)
(* QueryIds / IterateIds with the filter "true": a plain child store shows only entities with child
   data, an extended one every parent entity (query_cursor.go: IsChildStore && !IsEntityPresent && !IsExtended) *)
Definition query_ids (sch : schema) (st : state) (s : name) : list id :=
  filter (fun i => if is_child sch s && negb (is_ext sch s) then present sch st s i else true)
         (ids_of st (root_of sch s)).

(* IterateValidIds: extended stores additionally skip entities without extension data *)
Definition valid_ids (sch : schema) (st : state) (s : name) : list id :=
  filter (fun i => if is_child sch s then present sch st s i else true) (ids_of st (root_of sch s)).

(* FindById finds the entity *)
Definition find_ids (sch : schema) (st : state) (s : name) : list id :=
  filter (fun i => loadable sch st s i) (ids_of st (root_of sch s)).

(* ---------------------------------------------------------------- transactions *)
Inductive op :=
| OCreate (s : name) (i : id) (sys : bool) (fv : fieldvals) (sv : setvals)
| OUpdate (s : name) (i : id) (fv : fieldvals) (sv : setvals) (ch : checker)
| ODelete (s : name) (i : id)
| OAddLinks (s : name) (i : id) (lf : name) (targets : list id)
| ORemoveLinks (s : name) (i : id) (lf : name) (targets : list id)
| OFail.                                  (* the caller's function returns an error here *)

Definition run_op (sch : schema) (fuel : nat) (oc : octx) (stev : st_ev) (o : op) : res st_ev :=
  match o with
  | OCreate s i sys fv sv => op_create sch oc stev s i sys fv sv
  | OUpdate s i fv sv ch => op_update sch oc stev s i fv sv ch
  | ODelete s i => delete_by_id sch oc fuel stev s i
  | OAddLinks s i lf ts => do st' <- op_add_links sch (fst stev) s i lf ts; Ok (st', snd stev)
  | ORemoveLinks s i lf ts => do st' <- op_remove_links sch (fst stev) s i lf ts; Ok (st', snd stev)
  | OFail => Err EOther
  end.

(* per-op results up to and including the first failure *)
Fixpoint run_ops (sch : schema) (fuel : nat) (oc : octx) (stev : st_ev) (ops : list op) : list (option ekind) * res st_ev :=
  match ops with
  | [] => ([], Ok stev)
  | o :: r =>
      match run_op sch fuel oc stev o with
      | Ok stev1 => let (rs, fin) := run_ops sch fuel oc stev1 r in (None :: rs, fin)
      | Err k => ([Some k], Err k)
      end
  end.

Record tx := mkTx { tx_sys : bool; tx_vetoes : list veto; tx_ops : list op; tx_precommit_fails : bool }.

(* Db.Update: all-or-nothing; events are delivered only on commit *)
Definition run_tx (sch : schema) (fuel : nat) (st : state) (t : tx) : list (option ekind) * bool * state * list event :=
  let oc := mkOctx (tx_sys t) (tx_vetoes t) in
  let (rs, fin) := run_ops sch fuel oc (st, []) (tx_ops t) in
  match fin with
  | Ok (st', evs) => if tx_precommit_fails t then (rs, false, st, []) else (rs, true, st', evs)
  | Err _ => (rs, false, st, [])
  end.

Definition run_txs (sch : schema) (fuel : nat) (st : state) (ts : list tx) : state :=
  fold_left (fun acc t => match run_tx sch fuel acc t with (_, _, st', _) => st' end) ts st.
