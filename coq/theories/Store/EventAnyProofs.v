(* C08 for schemas whose cascade wiring may contain cycles (e.g. a self-referential tree with
   cascade delete): without the rank condition of wf_events_b the delete recursion still announces
   every removed entity AT LEAST once and nothing but removed entities; "at most once" is what the
   rank condition adds (Store/EventProofs.v). *)
From Coq Require Import List NArith Bool Arith Lia.
From Storage Require Import Base.Bytes Base.BytesFacts Store.Model Store.AListFacts Store.FrameProofs
  Store.TxProofs Store.Events Store.EventProofs.
Import ListNotations.

Section AnyCascade.
  Variable sch : schema.
  Variable oc : octx.
  Hypothesis Hroots : forall x, root_of sch (root_of sch x) = root_of sch x.
  Hypothesis Hrootnc : forall x, is_child sch (root_of sch x) = false.
  Hypothesis Hchildren : forall r0 d, In d (children_of sch r0) -> root_of sch (sd_name d) = r0.

  Definition sound_ev (st st' : state) (e : event) : Prop :=
    ev_change e = Deleted /\ vanished st st' (root_of sch (ev_store e)) (ev_id e) = true /\
    In e (del_events sch st (root_of sch (ev_store e)) (ev_id e)).

  Definition Step0 (a b : st_ev) : Prop :=
    exists new, snd b = snd a ++ new /\ ents_shrink (fst a) (fst b) /\
                (forall e, (expected_delete sch (fst a) (fst b) e <= count_ev e new)%nat) /\
                (forall e, In e new -> sound_ev (fst a) (fst b) e).

  Lemma Step0_fc (st : state) (evs : list event) (st' : state) : ents_fc_eq st st' -> Step0 (st, evs) (st', evs).
  Proof.
    intros H. exists []. cbn [fst snd]. rewrite app_nil_r. split; [reflexivity|]. split; [apply ents_fc_eq_shrink; exact H|].
    split; [intros e; rewrite (expected_delete_fc sch _ _ e H); lia | intros e []].
  Qed.

  Lemma Step0_refl a : Step0 a a.
  Proof. destruct a as [st evs]. apply Step0_fc. apply ents_fc_eq_refl. Qed.

  Lemma vanished_trans_l st0 st1 st2 r i :
    ents_shrink st1 st2 -> vanished st0 st1 r i = true -> vanished st0 st2 r i = true.
  Proof.
    unfold vanished. intros S H. apply andb_prop in H as [A B]. rewrite A. cbn [andb].
    destruct (alive st2 r i) eqn:A2; [|reflexivity]. rewrite (alive_shrink _ _ _ _ S A2) in B. discriminate.
  Qed.

  Lemma vanished_trans_r st0 st1 st2 r i :
    ents_shrink st0 st1 -> vanished st1 st2 r i = true -> vanished st0 st2 r i = true.
  Proof.
    unfold vanished. intros S H. apply andb_prop in H as [A B]. rewrite (alive_shrink _ _ _ _ S A), B. reflexivity.
  Qed.

  Lemma Step0_trans a b c : Step0 a b -> Step0 b c -> Step0 a c.
  Proof.
    intros [n1 [E1 [S1 [C1 R1]]]] [n2 [E2 [S2 [C2 R2]]]]. exists (n1 ++ n2).
    split; [rewrite E2, E1, app_assoc; reflexivity|]. split; [eapply ents_shrink_trans; eauto|]. split.
    - intros e. rewrite count_ev_app, (expected_delete_trans sch Hroots Hchildren _ _ _ e S1 S2).
      specialize (C1 e). specialize (C2 e). lia.
    - intros e Hin. apply in_app_or in Hin as [Hin|Hin].
      + destruct (R1 e Hin) as [A [B C]]. split; [exact A|]. split; [eapply vanished_trans_l; eauto | exact C].
      + destruct (R2 e Hin) as [A [B C]]. split; [exact A|]. split; [eapply vanished_trans_r; eauto|].
        unfold vanished in B. apply andb_prop in B as [B _].
        rewrite <- (del_events_shrink sch Hroots Hchildren _ _ _ _ S1 B). exact C.
  Qed.

  Definition DelStep0 (del : st_ev -> name -> id -> res st_ev) : Prop :=
    forall stev s x stev', del stev s x = Ok stev' -> Step0 stev stev'.

  Lemma cons_ok_all0 ks : Forall (cons_ok Qall) ks.
  Proof. apply cons_ok_all. Qed.

  Lemma children_flows0 del x r0 :
    (forall rs, Qall rs -> forall a y b, del a rs y = Ok b -> Step0 a b) ->
    forall cs cur flows cur' flows',
    (forall d, In d cs -> root_of sch (sd_name d) = r0) ->
    children_delete sch oc del x cs cur flows = Ok (cur', flows') ->
    alive (fst cur') r0 x = true ->
    flows' = flows ++ map sd_name (filter (fun d => loadable sch (fst cur) (sd_name d) x) cs).
  Proof.
    intros Hdel. induction cs as [|d cs IH]; intros cur flows cur' flows' Hcs H Ha; cbn [children_delete] in H.
    - inversion H; subst. cbn. rewrite app_nil_r. reflexivity.
    - assert (forall d0, In d0 cs -> root_of sch (sd_name d0) = r0) as Hcs' by (intros; apply Hcs; right; assumption).
      cbn [filter]. destruct (loadable sch (fst cur) (sd_name d) x) eqn:El; [|eapply IH; eauto].
      destruct (process_delete sch oc del cur (sd_name d) x) as [cur1|e] eqn:E1; cbn [bind] in H; [|discriminate].
      pose proof (process_delete_P sch oc Step0 Qall Step0_refl Step0_trans Step0_fc del Hdel
                    _ _ _ _ (chain_ok_all sch _) E1) as [n1 [_ [S1 _]]].
      pose proof (children_delete_P sch oc Step0 Qall Step0_refl Step0_trans Step0_fc del Hdel
                    x _ _ _ _ _ (fun d0 _ => chain_ok_all sch (sd_name d0)) H) as [n2 [_ [S2 _]]].
      rewrite (IH cur1 _ cur' flows' Hcs' H Ha). cbn [map]. rewrite <- app_assoc. cbn [app]. f_equal. f_equal. f_equal.
      apply filter_ext_in. intros d0 Hd0. apply (loadable_shrink sch Hroots); [exact S1|].
      rewrite (Hcs' d0 Hd0). eapply alive_shrink; eauto.
  Qed.

  Lemma delete_step0 : forall n, DelStep0 (delete_by_id sch oc n).
  Proof.
    induction n as [|n IH]; intros stev s x stev' H; cbn [delete_by_id] in H; [discriminate|].
    destruct stev as [st evs]. cbn [fst] in H.
    rewrite (present_root_alive sch Hroots Hrootnc st s x) in H.
    assert (Hpr : forall st1, present sch st1 (root_of sch s) x = alive st1 (root_of sch s) x)
      by (intros; apply (present_root_alive sch Hroots Hrootnc)).
    set (r0 := root_of sch s) in *.
    assert (Hr0 : root_of sch r0 = r0) by apply Hroots.
    destruct (alive st r0 x) eqn:A0; cbn [negb] in H; [|discriminate].
    assert (Hdel : forall rs, Qall rs -> forall a y b, delete_by_id sch oc n a rs y = Ok b -> Step0 a b)
      by (intros rs _ a y b Hab; exact (IH a rs y b Hab)).
    destruct (children_delete sch oc (delete_by_id sch oc n) x (children_of sch r0) (st, evs) [])
      as [[[st1 evs1] flows]|e] eqn:Ech; cbn [bind] in H; [|discriminate].
    pose proof (children_delete_P sch oc Step0 Qall Step0_refl Step0_trans Step0_fc _ Hdel
                  x _ _ _ _ _ (fun d _ => chain_ok_all sch (sd_name d)) Ech) as H1.
    cbn [fst] in H. rewrite (Hpr st1) in H.
    destruct (alive st1 r0 x) eqn:A1; cbn [negb] in H; [|inversion H; subst; exact H1].
    destruct (process_delete sch oc (delete_by_id sch oc n) (st1, evs1) r0 x) as [[st2 evs2]|e] eqn:Epd; cbn [bind] in H; [|discriminate].
    pose proof (process_delete_P sch oc Step0 Qall Step0_refl Step0_trans Step0_fc _ Hdel
                  _ _ _ _ (chain_ok_all sch _) Epd) as H2.
    pose proof (Step0_trans _ _ _ H1 H2) as H12.
    pose proof (children_flows0 _ x r0 Hdel _ _ _ _ _ (Hchildren r0) Ech A1) as Hfl. cbn [app fst] in Hfl.
    change (map sd_name (filter (fun d => loadable sch st (sd_name d) x) (children_of sch r0))) with (flows_of sch st r0 x) in Hfl.
    cbn [fst snd] in H.
    destruct (fire (oc_vetoes oc) evs2 r0 Deleted x _) as [evs3|e] eqn:Ef; cbn [bind] in H; [|discriminate].
    destruct (fire_flows oc x flows evs3) as [evs4|e] eqn:Eff; cbn [bind] in H; [|discriminate].
    inversion H; subst stev'. clear H.
    apply fire_spec in Ef as [_ ->]. apply fire_flows_spec in Eff. subst evs4.
    destruct H12 as [n12 [E12 [S02 [C02 R02]]]]. cbn [fst snd] in *.
    exists (n12 ++ del_events sch st r0 x). cbn [fst snd]. split; [|split; [|split]].
    - rewrite E12. unfold del_events. rewrite <- Hfl. rewrite <- !app_assoc. reflexivity.
    - eapply ents_shrink_trans; [exact S02 | apply del_ent_shrink].
    - intros e. rewrite count_ev_app.
      rewrite (expected_delete_trans sch Hroots Hchildren st st2 (del_ent st2 r0 x) e S02 (del_ent_shrink _ _ _)).
      specialize (C02 e).
      assert (expected_delete sch st2 (del_ent st2 r0 x) e <= count_ev e (del_events sch st r0 x))%nat; [|lia].
      unfold expected_delete. destruct (ev_change e); try lia.
      unfold vanished. rewrite alive_del_ent.
      destruct (str_eqb r0 (root_of sch (ev_store e)) && str_eqb x (ev_id e)) eqn:E.
      + apply andb_prop in E as [E1 E2]. apply str_eqb_eq in E1, E2. rewrite <- E1, <- E2.
        destruct (alive st2 r0 x) eqn:A2; cbn [andb negb]; [|lia].
        rewrite (del_events_shrink sch Hroots Hchildren st st2 r0 x S02 A2). lia.
      + rewrite andb_negb_r. lia.
    - intros e Hin. apply in_app_or in Hin as [Hin|Hin].
      + destruct (R02 e Hin) as [A [B C]]. split; [exact A|]. split; [|exact C].
        eapply vanished_trans_l; [apply del_ent_shrink | exact B].
      + destruct (del_events_in sch Hchildren st r0 x e Hr0 Hin) as [A [B C]].
        split; [exact A|]. rewrite C, B. split; [|exact Hin].
        unfold vanished. rewrite A0, alive_del_ent, !str_eqb_refl. reflexivity.
  Qed.
End AnyCascade.

(* ---- operations, bodies, transactions ---- *)
Section AnyCascadeTx.
  Variable sch : schema.
  Hypothesis Hroots : forall x, root_of sch (root_of sch x) = root_of sch x.
  Hypothesis Hrootnc : forall x, is_child sch (root_of sch x) = false.
  Hypothesis Hchildren : forall r0 d, In d (children_of sch r0) -> root_of sch (sd_name d) = r0.

  Lemma run_op_events0 fuel oc st evs o st' evs' :
    run_op sch fuel oc (st, evs) o = Ok (st', evs') ->
    exists new, evs' = evs ++ new /\
                (forall e, (expected_op sch st st' o e <= count_ev e new)%nat) /\
                (forall e, In e new -> (0 < expected_op sch st st' o e)%nat).
  Proof.
    destruct o as [s i sys fv sv|s i fv sv ch|s i|s i lf ts|s i lf ts|]; cbn [run_op]; intros H.
    - apply op_create_events in H. eexists. split; [exact H|]. split; [intros e; cbn [expected_op]; lia|].
      intros e Hin. cbn [expected_op]. apply count_ev_pos. exact Hin.
    - apply op_update_events in H. eexists. split; [exact H|]. split; [intros e; cbn [expected_op]; lia|].
      intros e Hin. cbn [expected_op]. apply count_ev_pos. exact Hin.
    - destruct (delete_step0 sch oc Hroots Hrootnc Hchildren fuel _ _ _ _ H) as [new [E [_ [C R]]]].
      exists new. split; [exact E|]. split; [exact C|]. intros e Hin.
      apply (expected_op_in sch st st' (ODelete s i) e). exact (R e Hin).
    - cbn [fst snd] in H. destruct (op_add_links sch st s i lf ts); cbn [bind] in H; [|discriminate]. inversion H; subst.
      exists []. rewrite app_nil_r. split; [reflexivity|]. split; [intros; cbn; lia | intros e []].
    - cbn [fst snd] in H. destruct (op_remove_links sch st s i lf ts); cbn [bind] in H; [|discriminate]. inversion H; subst.
      exists []. rewrite app_nil_r. split; [reflexivity|]. split; [intros; cbn; lia | intros e []].
    - discriminate.
  Qed.

  Lemma run_ops_events0 fuel oc : forall ops st evs rs st' evs',
    run_ops sch fuel oc (st, evs) ops = (rs, Ok (st', evs')) ->
    exists new, evs' = evs ++ new /\
      (forall e, (expected_events sch (op_trace sch fuel oc (st, evs) ops) e <= count_ev e new)%nat) /\
      (forall e, In e new -> exists st0 o st1, In (st0, o, st1) (op_trace sch fuel oc (st, evs) ops) /\
                                                 (0 < expected_op sch st0 st1 o e)%nat).
  Proof.
    induction ops as [|o ops IH]; intros st evs rs st' evs' H; cbn [run_ops op_trace] in *.
    - inversion H; subst. exists []. rewrite app_nil_r. split; [reflexivity|]. split; [intros; cbn; lia | intros e []].
    - destruct (run_op sch fuel oc (st, evs) o) as [[st1 evs1]|k] eqn:Ho; [|inversion H].
      destruct (run_ops sch fuel oc (st1, evs1) ops) as [rs1 fin1] eqn:Hr. inversion H; subst. clear H.
      destruct (run_op_events0 _ _ _ _ _ _ _ Ho) as [n1 [-> [C1 R1]]].
      destruct (IH _ _ _ _ _ Hr) as [n2 [-> [C2 R2]]].
      exists (n1 ++ n2). split; [rewrite app_assoc; reflexivity|]. split.
      + intros e. rewrite count_ev_app. cbn [expected_events fold_right fst]. specialize (C1 e). specialize (C2 e).
        change (fold_right _ 0%nat (op_trace sch fuel oc (st1, evs ++ n1) ops)) with
               (expected_events sch (op_trace sch fuel oc (st1, evs ++ n1) ops) e). lia.
      + intros e Hin. apply in_app_or in Hin as [Hin|Hin].
        * exists st, o, st1. split; [left; reflexivity | exact (R1 e Hin)].
        * destruct (R2 e Hin) as [a [b [c [Hi Hp]]]]. exists a, b, c. split; [right; exact Hi | exact Hp].
  Qed.

  Lemma events_any_cascade_lemma fuel st t rs st' evs :
    run_tx sch fuel st t = (rs, true, st', evs) ->
    (forall e, (expected_events sch (tx_trace sch fuel st t) e <= count_ev e evs)%nat) /\
    (forall e, In e evs -> exists st0 o st1, In (st0, o, st1) (tx_trace sch fuel st t) /\
                                             (0 < expected_op sch st0 st1 o e)%nat).
  Proof.
    intros H. apply run_tx_commit_lemma in H as [_ H]. unfold tx_trace.
    destruct (run_ops sch fuel _ (st, []) (tx_ops t)) as [rs0 fin] eqn:Hr. cbn [snd] in H. subst fin.
    destruct (run_ops_events0 _ _ _ _ _ _ _ _ Hr) as [new [E [C R]]]. cbn [app] in E. subst new. split; assumption.
  Qed.
End AnyCascadeTx.

(* unique store names, parents are root stores - no condition on the cascade wiring *)
Definition wf_events0_b (sch : schema) : bool :=
  names_nodup (map sd_name sch) &&
  forallb (fun d => match sd_parent d with Some p => negb (is_child sch p) | None => true end) sch.

Lemma wf_events0_b_sound sch : wf_events0_b sch = true ->
  (forall x, root_of sch (root_of sch x) = root_of sch x) /\
  (forall x, is_child sch (root_of sch x) = false) /\
  (forall r0 d, In d (children_of sch r0) -> root_of sch (sd_name d) = r0).
Proof.
  unfold wf_events0_b. intros H. apply andb_prop in H as [H1 H2].
  assert (Hcase : forall x, (root_of sch x = x /\ is_child sch x = false) \/
                            (exists p, root_of sch x = p /\ is_child sch p = false)).
  { intros x. unfold root_of, is_child. destruct (find_store sch x) as [d|] eqn:Ef; [|left; split; reflexivity].
    destruct (sd_parent d) as [p|] eqn:Ep; [|left; split; reflexivity].
    right. exists p. split; [reflexivity|]. destruct (find_store_some_in _ _ _ Ef) as [Hin _].
    rewrite forallb_forall in H2. specialize (H2 d Hin). rewrite Ep in H2. apply negb_true_iff in H2. exact H2. }
  assert (Hnc : forall p, is_child sch p = false -> root_of sch p = p).
  { intros p Hp. unfold is_child in Hp. unfold root_of. destruct (find_store sch p) as [dp|]; [|reflexivity].
    destruct (sd_parent dp); [discriminate | reflexivity]. }
  split; [|split].
  - intros x. destruct (Hcase x) as [[Hx _]|[p [Hx Hp]]]; rewrite Hx; [exact Hx | apply Hnc; exact Hp].
  - intros x. destruct (Hcase x) as [[Hx Hc]|[p [Hx Hp]]]; rewrite Hx; assumption.
  - intros r0 d Hin. unfold children_of in Hin. apply filter_In in Hin as [Hin Hp].
    destruct (sd_parent d) as [p|] eqn:Ep; [|discriminate]. apply str_eqb_eq in Hp. subst p.
    unfold root_of. rewrite (names_nodup_find _ _ H1 Hin), Ep. reflexivity.
Qed.

Lemma events_any_cascade_wf sch : wf_events0_b sch = true ->
  forall fuel st t rs st' evs,
  run_tx sch fuel st t = (rs, true, st', evs) ->
  (forall e, (expected_events sch (tx_trace sch fuel st t) e <= count_ev e evs)%nat) /\
  (forall e, In e evs -> exists st0 o st1, In (st0, o, st1) (tx_trace sch fuel st t) /\
                                           (0 < expected_op sch st0 st1 o e)%nat).
Proof.
  intros Hwf. destruct (wf_events0_b_sound sch Hwf) as [A [B C]]. exact (events_any_cascade_lemma sch A B C).
Qed.
