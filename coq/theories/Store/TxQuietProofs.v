(* Proofs about Store/TxQuiet.v: ctx_update_q is ctx_update plus the tx-complete listeners; a failed transaction is
   silent for every kind of hook; a committed one tells each of them once. *)
From Coq Require Import List NArith Bool Arith Lia.
From Storage Require Import Base.Bytes Store.Model Store.XOps Store.XOpsProofs Store.Events Store.TxCtx Store.TxCtxProofs
  Store.TxQuiet.
Import ListNotations.

(* ---------------------------------------------------------------- projections of a handler list *)
Definition ev_of (b : bhandler) : list event := match b with BPostCommit e => [e] | _ => [] end.
Definition is_tc (b : bhandler) : bool := match b with BTxComplete => true | _ => false end.

Lemma flat_map_app2 {A B} (f : A -> list B) (l1 l2 : list A) : flat_map f (l1 ++ l2) = flat_map f l1 ++ flat_map f l2.
Proof. induction l1 as [|x l1 IH]; [reflexivity|]. cbn. rewrite IH, app_assoc. reflexivity. Qed.

Lemma events_of_handle_commit : forall l, flat_map ev_of (map BHandleCommit l) = [].
Proof. induction l as [|x l IH]; [reflexivity|]. cbn. exact IH. Qed.

Lemma events_of_post_commit : forall evs, flat_map ev_of (map BPostCommit evs) = evs.
Proof. induction evs as [|e evs IH]; [reflexivity|]. cbn. rewrite IH. reflexivity. Qed.

Lemma tc_of_handle_commit : forall l, filter is_tc (map BHandleCommit l) = [].
Proof. induction l as [|x l IH]; [reflexivity|]. cbn. exact IH. Qed.

Lemma tc_of_post_commit : forall evs, filter is_tc (map BPostCommit evs) = [].
Proof. induction evs as [|e evs IH]; [reflexivity|]. cbn. exact IH. Qed.

Definition runs_of (h : heap) (b : bhandler) : list nat :=
  match b with BHandleCommit q => m_commit (get q h) | _ => [] end.

Lemma runs_of_post_commit h : forall evs, flat_map (runs_of h) (map BPostCommit evs) = [].
Proof. induction evs as [|e evs IH]; [reflexivity|]. cbn. exact IH. Qed.

(* handleCommit of every object, in creation order = the commit actions of the heap, object by object *)
Lemma runs_of_objects : forall h pre,
  flat_map (runs_of (pre ++ h)) (map BHandleCommit (seq (length pre) (length h))) = flat_map m_commit h.
Proof.
  induction h as [|m h IH]; intros pre; [reflexivity|].
  cbn [length seq map flat_map runs_of]. f_equal.
  - unfold get. rewrite app_nth2, Nat.sub_diag; [reflexivity|lia].
  - specialize (IH (pre ++ [m])). rewrite <- app_assoc in IH. cbn [app] in IH.
    rewrite app_length in IH. cbn [length] in IH. rewrite Nat.add_1_r in IH. exact IH.
Qed.

Lemma runs_of_heap h : flat_map (runs_of h) (map BHandleCommit (seq 0 (length h))) = flat_map m_commit h.
Proof. exact (runs_of_objects h []). Qed.

Lemma fired_events_commit h evs :
  flat_map ev_of (registered_handlers h evs ++ [BTxComplete]) = evs.
Proof.
  unfold registered_handlers. rewrite !flat_map_app2, events_of_handle_commit, events_of_post_commit. cbn.
  apply app_nil_r.
Qed.

Lemma fired_runs_commit h evs :
  flat_map (runs_of h) (registered_handlers h evs ++ [BTxComplete]) = flat_map m_commit h.
Proof.
  unfold registered_handlers. rewrite !flat_map_app2, runs_of_heap, runs_of_post_commit. cbn.
  rewrite !app_nil_r. reflexivity.
Qed.

Lemma fired_tc_commit h evs :
  filter is_tc (registered_handlers h evs ++ [BTxComplete]) = [BTxComplete].
Proof.
  unfold registered_handlers. rewrite !filter_app, tc_of_handle_commit, tc_of_post_commit. reflexivity.
Qed.

(* ---------------------------------------------------------------- ctx_update_q extends ctx_update *)
Lemma ctx_update_q_refines sch fuel st sys vetoes p :
  let o := ctx_update_q sch fuel st sys vetoes p in
  let c := ctx_update sch fuel st sys vetoes p in
  q_results o = co_results c /\ q_committed o = co_committed c /\ q_state o = co_state c /\
  q_events o = co_events c /\ q_commit_runs o = co_commit_runs c.
Proof.
  unfold ctx_update_q, ctx_update, q_events, q_commit_runs.
  destruct (run_citems sch fuel (mkOctx sys vetoes) (opened_ctx p) (cp_body p) (heap_before p) (st, []))
    as [[rs fin] h1].
  destruct fin as [[st' evs]|k]; [|cbn; auto].
  destruct (run_pre_ok (pre_actions_of (opened_ctx p) h1)); cbn [q_results q_committed q_state q_heap q_fired
    co_results co_committed co_state co_events co_commit_runs]; [|cbn; auto].
  repeat split.
  - exact (fired_events_commit h1 evs).
  - exact (fired_runs_commit h1 evs).
Qed.

(* whatever is registered - store-level listener of any style for any change types, commit action on any context of
   the transaction, tx-complete listener - a transaction that fails runs none of it, and leaves the database alone *)
Lemma no_handler_is_silent st o : q_state o = st -> q_fired o = [] -> silent st o.
Proof.
  intros Hs Hf. unfold silent, q_delivered, q_events, q_commit_runs, q_tx_complete. rewrite Hf. cbn.
  repeat split; auto.
Qed.

Lemma failed_tx_is_silent_lemma sch fuel st sys vetoes p :
  let o := ctx_update_q sch fuel st sys vetoes p in
  q_committed o = false -> silent st o.
Proof.
  unfold ctx_update_q.
  destruct (run_citems sch fuel (mkOctx sys vetoes) (opened_ctx p) (cp_body p) (heap_before p) (st, []))
    as [[rs fin] h1].
  destruct fin as [[st' evs]|k].
  - destruct (run_pre_ok (pre_actions_of (opened_ctx p) h1)); cbn [q_committed]; [discriminate|].
    intros _. apply no_handler_is_silent; reflexivity.
  - intros _. apply no_handler_is_silent; reflexivity.
Qed.

Lemma tx_fails_iff_lemma sch fuel st sys vetoes p :
  let o := ctx_update_q sch fuel st sys vetoes p in
  q_committed o = false <-> (ctx_precommit_fails p = true \/ exists k, In (Some k) (q_results o)).
Proof.
  cbn zeta. destruct (ctx_update_q_refines sch fuel st sys vetoes p) as (Hr & Hc & _). cbn zeta in Hr, Hc.
  rewrite Hr, Hc. exact (ctx_update_error_iff sch fuel st sys vetoes p).
Qed.

(* the failure kinds, each at any position *)
Lemma failing_operation_is_silent_lemma sch fuel st sys vetoes p k :
  let o := ctx_update_q sch fuel st sys vetoes p in
  In (Some k) (q_results o) -> q_committed o = false /\ silent st o.
Proof.
  intros o Hin.
  assert (Hc : q_committed o = false).
  { apply (tx_fails_iff_lemma sch fuel st sys vetoes p). right. exists k. exact Hin. }
  split; [exact Hc|]. exact (failed_tx_is_silent_lemma sch fuel st sys vetoes p Hc).
Qed.

(* ... in particular the failure at the very end: every operation of the function succeeded (all results nil) and a
   pre-commit action registered through a context of the transaction fails *)
Lemma failing_precommit_is_silent_lemma sch fuel st sys vetoes p :
  let o := ctx_update_q sch fuel st sys vetoes p in
  ctx_precommit_fails p = true -> q_committed o = false /\ silent st o.
Proof.
  intros o Hp.
  assert (Hc : q_committed o = false).
  { apply (tx_fails_iff_lemma sch fuel st sys vetoes p). left. exact Hp. }
  split; [exact Hc|]. exact (failed_tx_is_silent_lemma sch fuel st sys vetoes p Hc).
Qed.

Lemma failing_precommit_in_body_is_silent_lemma sch fuel st sys vetoes p path k :
  In (IReg path (APre k true)) (cp_body p) -> belongs path = true ->
  let o := ctx_update_q sch fuel st sys vetoes p in
  q_committed o = false /\ silent st o.
Proof.
  intros Hin Hb. apply failing_precommit_is_silent_lemma. exact (live_fail_in_body p path k Hin Hb).
Qed.

Lemma failing_precommit_before_is_silent_lemma sch fuel st sys vetoes p w k :
  cp_nil p = false -> In (w, APre k true) (cp_before p) ->
  let o := ctx_update_q sch fuel st sys vetoes p in
  q_committed o = false /\ silent st o.
Proof.
  intros Hn Hin. apply failing_precommit_is_silent_lemma. exact (live_fail_before p w k Hn Hin).
Qed.

(* ---------------------------------------------------------------- the committed side (non-vacuity of the hooks) *)
Lemma committed_tx_notifies_lemma sch fuel st sys vetoes p :
  let o := ctx_update_q sch fuel st sys vetoes p in
  let c := ctx_update sch fuel st sys vetoes p in
  q_committed o = true ->
  (forall hk, q_tx_complete hk o = hk_tx_complete hk) /\
  (forall l, q_delivered l o = delivered_to l (co_events c)) /\
  q_commit_runs o = co_commit_runs c.
Proof.
  cbn zeta. intros Hc.
  destruct (ctx_update_q_refines sch fuel st sys vetoes p) as (_ & _ & _ & He & Hr). cbn zeta in He, Hr.
  split; [|split; [intros l; unfold q_delivered; rewrite He; reflexivity|exact Hr]].
  intros hk. revert Hc. unfold ctx_update_q, q_tx_complete.
  destruct (run_citems sch fuel (mkOctx sys vetoes) (opened_ctx p) (cp_body p) (heap_before p) (st, []))
    as [[rs fin] h1].
  destruct fin as [[st' evs]|k]; [|cbn; discriminate].
  destruct (run_pre_ok (pre_actions_of (opened_ctx p) h1)); cbn [q_committed q_fired]; [|discriminate].
  intros _. change (fun b : bhandler => match b with BTxComplete => true | _ => false end) with is_tc.
  rewrite fired_tc_commit. cbn [length]. lia.
Qed.

(* what the correspondence check prints (hook_counts of commit flag and delivered events) is what ctx_update_q's
   handlers did *)
Lemma hook_counts_spec sch fuel st sys vetoes p hk :
  let o := ctx_update_q sch fuel st sys vetoes p in
  hook_counts hk (q_committed o) (q_events o) =
  (map (fun l => (l, length (q_delivered l o))) (hk_listeners hk), q_tx_complete hk o).
Proof.
  cbn zeta. unfold hook_counts.
  destruct (q_committed (ctx_update_q sch fuel st sys vetoes p)) eqn:Hc.
  - destruct (committed_tx_notifies_lemma sch fuel st sys vetoes p Hc) as (Ht & _ & _).
    rewrite Ht. reflexivity.
  - destruct (failed_tx_is_silent_lemma sch fuel st sys vetoes p Hc) as (_ & _ & _ & Hd & _ & Ht).
    rewrite Ht. f_equal. apply map_ext. intros l. rewrite Hd. reflexivity.
Qed.

(* a failed transaction prints nothing but zeros *)
Lemma hook_counts_failed hk evs :
  hook_counts hk false evs = (map (fun l => (l, 0%nat)) (hk_listeners hk), 0%nat).
Proof. reflexivity. Qed.
