(* Proofs about event delivery of the store machine (C08): Store/Model.v + Store/Events.v. *)
From Coq Require Import List NArith Bool Arith Lia Permutation.
From Storage Require Import Base.Bytes Base.BytesFacts Store.Model Store.AListFacts Store.FrameProofs
  Store.TxProofs Store.Events.
Import ListNotations.

(* ================================================================ events as a multiset *)
Lemma change_eqb_eq a b : change_eqb a b = true <-> a = b.
Proof. destruct a, b; cbn; split; intros H; try reflexivity; try discriminate. Qed.

Lemma change_eqb_refl a : change_eqb a a = true.
Proof. destruct a; reflexivity. Qed.

Lemma event_eqb_eq a b : event_eqb a b = true <-> a = b.
Proof.
  unfold event_eqb. destruct a as [s c i p], b as [s' c' i' p']. cbn [ev_store ev_change ev_id ev_parent]. split; intros H.
  - apply andb_prop in H as [H H4]. apply andb_prop in H as [H H3]. apply andb_prop in H as [H1 H2].
    apply str_eqb_eq in H1, H3. apply change_eqb_eq in H2. apply Bool.eqb_prop in H4. subst. reflexivity.
  - inversion H; subst. rewrite !str_eqb_refl, change_eqb_refl, Bool.eqb_reflx. reflexivity.
Qed.

Lemma event_eqb_refl a : event_eqb a a = true.
Proof. apply event_eqb_eq. reflexivity. Qed.

Lemma event_eq_dec (a b : event) : {a = b} + {a <> b}.
Proof.
  destruct (event_eqb a b) eqn:E; [left; apply event_eqb_eq; exact E | right].
  intros H. apply event_eqb_eq in H. congruence.
Defined.

Lemma count_ev_nil e : count_ev e [] = 0%nat.
Proof. reflexivity. Qed.

Lemma count_ev_app e l1 l2 : count_ev e (l1 ++ l2) = (count_ev e l1 + count_ev e l2)%nat.
Proof. unfold count_ev. rewrite filter_app, app_length. reflexivity. Qed.

Lemma count_ev_cons e x l : count_ev e (x :: l) = ((if event_eqb e x then 1 else 0) + count_ev e l)%nat.
Proof. unfold count_ev. cbn [filter]. destruct (event_eqb e x); reflexivity. Qed.

Lemma count_ev_pos e l : (0 < count_ev e l)%nat <-> In e l.
Proof.
  induction l as [|x l IH]; [cbn; split; [lia | contradiction]|].
  rewrite count_ev_cons. destruct (event_eqb e x) eqn:E.
  - apply event_eqb_eq in E. subst x. split; [intros _; left; reflexivity | intros _; lia].
  - cbn [plus]. rewrite IH. split; [intros H; right; exact H|]. intros [H|H]; [|exact H].
    subst x. rewrite event_eqb_refl in E. discriminate.
Qed.

Lemma count_ev_zero e l : ~ In e l -> count_ev e l = 0%nat.
Proof. intros H. destruct (count_ev e l) eqn:E; [reflexivity|]. exfalso. apply H. apply count_ev_pos. lia. Qed.

Lemma count_ev_count_occ e l : count_ev e l = count_occ event_eq_dec l e.
Proof.
  induction l as [|x l IH]; [reflexivity|]. rewrite count_ev_cons. cbn [count_occ].
  destruct (event_eq_dec x e) as [->|Hne].
  - rewrite event_eqb_refl, IH. reflexivity.
  - destruct (event_eqb e x) eqn:E; [apply event_eqb_eq in E; congruence|]. rewrite IH. reflexivity.
Qed.

(* two event lists with the same counts are permutations of each other *)
Lemma count_ev_permutation l1 l2 : (forall e, count_ev e l1 = count_ev e l2) <-> Permutation l1 l2.
Proof.
  rewrite (Permutation_count_occ event_eq_dec). split; intros H e; specialize (H e).
  - rewrite <- !count_ev_count_occ. exact H.
  - rewrite !count_ev_count_occ. exact H.
Qed.

(* ================================================================ the event queue only grows *)
Definition ext (evs evs' : list event) : Prop := exists new, evs' = evs ++ new.

Lemma ext_refl evs : ext evs evs.
Proof. exists []. rewrite app_nil_r. reflexivity. Qed.

Lemma ext_trans a b c : ext a b -> ext b c -> ext a c.
Proof. intros [n1 ->] [n2 ->]. exists (n1 ++ n2). rewrite app_assoc. reflexivity. Qed.

Lemma fire_spec vs evs s c i p evs' :
  fire vs evs s c i p = Ok evs' -> vetoed vs s c i = false /\ evs' = evs ++ [mkEvent s c i p].
Proof. unfold fire. destruct (vetoed vs s c i); [discriminate|]. intros H; inversion H; subst. split; reflexivity. Qed.

Lemma fire_cu_spec sch oc evs s c i evs' :
  fire_cu sch oc evs s c i = Ok evs' -> evs' = evs ++ ev_cu sch s c i.
Proof.
  unfold fire_cu, ev_cu. destruct (is_child sch s).
  - destruct (fire (oc_vetoes oc) evs (root_of sch s) c i true) as [evs1|k] eqn:E1; cbn [bind]; [|discriminate].
    apply fire_spec in E1 as [_ ->]. intros H. apply fire_spec in H as [_ ->]. rewrite <- app_assoc. reflexivity.
  - cbn [bind app]. intros H. apply fire_spec in H as [_ ->]. reflexivity.
Qed.

Lemma fire_flows_spec oc x : forall fs evs evs',
  fire_flows oc x fs evs = Ok evs' -> evs' = evs ++ map (fun c => mkEvent c Deleted x false) fs.
Proof.
  induction fs as [|c fs IH]; intros evs evs' H; cbn [fire_flows] in H.
  - inversion H; subst. cbn. rewrite app_nil_r. reflexivity.
  - destruct (fire (oc_vetoes oc) evs c Deleted x false) as [evs1|k] eqn:E1; cbn [bind] in H; [|discriminate].
    apply fire_spec in E1 as [_ ->]. apply IH in H. subst. rewrite <- app_assoc. reflexivity.
Qed.

(* ---- create / update: the exact events, in order ---- *)
Lemma op_create_events sch oc st evs s i sys fv sv st' evs' :
  op_create sch oc (st, evs) s i sys fv sv = Ok (st', evs') -> evs' = evs ++ ev_cu sch s Created i.
Proof.
  unfold op_create. destruct (find_store sch s); [|discriminate].
  destruct (negb (nonempty i)); [discriminate|]. destruct (present sch st s i); [discriminate|].
  destruct (present sch st (root_of sch s) i); [discriminate|]. destruct (negb (key_ok i)); [discriminate|].
  destruct (fire_cu sch oc evs s Created i) as [evs1|k] eqn:E1; cbn [bind]; [|discriminate].
  destruct (after_chain sch _ true (oc_sys oc) i (chain sch s) []) as [st2|k]; cbn [bind]; [|discriminate].
  intros H; inversion H; subst. apply fire_cu_spec in E1. exact E1.
Qed.

Lemma update_in_events sch oc st evs s i fv sv ch st' evs' :
  update_in sch oc (st, evs) s i fv sv ch = Ok (st', evs') -> evs' = evs ++ ev_cu sch s Updated i.
Proof.
  unfold update_in. destruct (negb (nonempty i)); [discriminate|]. destruct (negb (loadable sch st s i)); [discriminate|].
  destruct (negb (present sch st s i)); [discriminate|].
  destruct (fire_cu sch oc evs s Updated i) as [evs1|k] eqn:E1; cbn [bind]; [|discriminate].
  destruct (before_chain sch st false (oc_sys oc) i (chain sch s)) as [svs|k]; cbn [bind]; [|discriminate].
  destruct (after_chain sch _ false (oc_sys oc) i (chain sch s) svs) as [st2|k]; cbn [bind]; [|discriminate].
  intros H; inversion H; subst. apply fire_cu_spec in E1. exact E1.
Qed.

Lemma op_update_events sch oc st evs s i fv sv ch st' evs' :
  op_update sch oc (st, evs) s i fv sv ch = Ok (st', evs') ->
  evs' = evs ++ ev_cu sch (update_target sch st s i) Updated i.
Proof.
  unfold op_update, update_target. destruct (find_store sch s); [|discriminate].
  destruct (is_child sch s); [apply update_in_events|]. cbn [fst].
  destruct (find (fun d => present sch st (sd_name d) i) (children_of sch s)) as [d|]; apply update_in_events.
Qed.

(* ================================================================ the delete recursion, generically *)
(* [P] relates the (state, queue) before and after a step; [Q rs] says for which referrer stores the
   recursive DeleteById is known to satisfy P.  Every hook of the delete path that is not a cascade
   leaves the entities' fields and child data alone and does not touch the queue. *)
Section Skeleton.
  Variable sch : schema.
  Variable oc : octx.
  Variable P : st_ev -> st_ev -> Prop.
  Variable Q : name -> Prop.
  Hypothesis P_refl : forall a, P a a.
  Hypothesis P_trans : forall a b c, P a b -> P b c -> P a c.
  Hypothesis P_fc : forall st evs st', ents_fc_eq st st' -> P (st, evs) (st', evs).
  Variable del : st_ev -> name -> id -> res st_ev.
  Hypothesis Hdel : forall rs, Q rs -> forall stev x stev', del stev rs x = Ok stev' -> P stev stev'.

  Definition cons_ok (k : cons) : Prop :=
    match k with CFkCascade rs _ CascDelete => Q rs | _ => True end.

  Lemma cascade_loop_P rs f i : Q rs -> forall cands cur cur',
    cascade_loop sch del rs f i cands cur = Ok cur' -> P cur cur'.
  Proof.
    intros Hq. induction cands as [|c0 cands IH]; intros cur cur' H; cbn [cascade_loop] in H.
    - inversion H; subst. apply P_refl.
    - destruct (casc_matches sch rs f i (fst cur) c0).
      + destruct (del cur rs c0) as [cur1|e] eqn:Ed; cbn [bind] in H; [|discriminate].
        eapply P_trans; [eapply Hdel; eauto | apply IH; exact H].
      + apply IH; exact H.
  Qed.

  Lemma fold_sidx_remove_fc r f i l st : ents_fc_eq st (fold_left (fun acc v => sidx_remove acc r f v i) l st).
  Proof. apply ents_eq_fc. apply fold_sidx_remove_ents. Qed.

  Lemma before_delete_one_P stev c k stev' :
    cons_ok k -> before_delete_one sch oc del stev c k = Ok stev' -> P stev stev'.
  Proof.
    intros Hk. destruct stev as [st evs]. destruct k as [f0 nl|f0|f0 t b nl|b|f0 t nl|rs f0 cs|]; cbn [before_delete_one]; intros H.
    - destruct (nonempty _); inversion H; subst; [apply P_fc; apply ents_eq_fc; reflexivity | apply P_refl].
    - destruct (negb _); [discriminate|]. inversion H; subst. apply P_fc. apply fold_sidx_remove_fc.
    - destruct (nonempty _); [|inversion H; subst; apply P_refl].
      destruct (present sch st t _); [|discriminate]. inversion H; subst. apply P_fc. apply backref_del_fc.
    - destruct (get_set sch st (ic_store c) (ic_id c) b); [|discriminate]. inversion H; subst. apply P_refl.
    - inversion H; subst. apply P_refl.
    - destruct cs.
      + destruct (existsb _ _); [discriminate|]. inversion H; subst. apply P_refl.
      + eapply cascade_loop_P; [exact Hk | exact H].
    - destruct (get_field sch st (ic_store c) (ic_id c) isSystemF) as [| |x|[|]]; try (inversion H; subst; apply P_refl).
      destruct (oc_sys oc); [|discriminate]. inversion H; subst. apply P_refl.
  Qed.

  Lemma before_delete_all_P c : forall ks stev stev',
    Forall cons_ok ks -> before_delete_all sch oc del stev c ks = Ok stev' -> P stev stev'.
  Proof.
    induction ks as [|k ks IH]; intros stev stev' Hks H; cbn [before_delete_all] in H.
    - inversion H; subst. apply P_refl.
    - inversion Hks; subst. destruct (before_delete_one sch oc del stev c k) as [stev1|e] eqn:E1; cbn [bind] in H; [|discriminate].
      eapply P_trans; [eapply before_delete_one_P; eauto | eapply IH; eauto].
  Qed.

  Lemma before_delete_chain_P i : forall ch cur cur',
    Forall (fun p => Forall cons_ok (snd p)) ch -> before_delete_chain sch oc del i ch cur = Ok cur' -> P cur cur'.
  Proof.
    induction ch as [|[s' ks] ch IH]; intros cur cur' Hch H; cbn [before_delete_chain] in H.
    - inversion H; subst. apply P_refl.
    - inversion Hch; subst. destruct (before_delete_all sch oc del cur _ ks) as [cur1|e] eqn:E1; cbn [bind] in H; [|discriminate].
      eapply P_trans; [eapply before_delete_all_P; eauto | eapply IH; eauto].
  Qed.

  Lemma fold_backref_del_fc os of_ x : forall ms st,
    ents_fc_eq st (fold_left (fun acc2 oi => backref_del sch acc2 os oi of_ x) ms st).
  Proof.
    induction ms as [|m ms IHm]; intros st; cbn [fold_left]; [apply ents_fc_eq_refl|].
    eapply ents_fc_eq_trans; [apply backref_del_fc | apply IHm].
  Qed.

  Lemma cleanup_links_fc st s0 x : ents_fc_eq st (cleanup_links sch st s0 x).
  Proof.
    unfold cleanup_links. destruct (find_store sch s0) as [d|]; [|apply ents_fc_eq_refl].
    generalize (sd_links d). intros ls. revert st. induction ls as [|[[lf os] of_] ls IH]; intros st; cbn [fold_left].
    - apply ents_fc_eq_refl.
    - eapply ents_fc_eq_trans; [apply fold_backref_del_fc | apply IH].
  Qed.

  Definition chain_ok (s : name) : Prop := Forall (fun p : name * list cons => Forall cons_ok (snd p)) (chain sch s).

  Lemma process_delete_P stev s i stev' :
    chain_ok s -> process_delete sch oc del stev s i = Ok stev' -> P stev stev'.
  Proof.
    intros Hc H. unfold process_delete in H.
    destruct (before_delete_chain sch oc del i (chain sch s) stev) as [[st1 evs1]|e] eqn:E1; cbn [bind] in H; [|discriminate].
    inversion H; subst. cbn [fst snd]. eapply P_trans; [eapply before_delete_chain_P; eauto|].
    apply P_fc. apply cleanup_links_fc.
  Qed.

  Lemma children_delete_P i : forall cs cur flows cur' flows',
    (forall d, In d cs -> chain_ok (sd_name d)) ->
    children_delete sch oc del i cs cur flows = Ok (cur', flows') -> P cur cur'.
  Proof.
    induction cs as [|d cs IH]; intros cur flows cur' flows' Hcs H; cbn [children_delete] in H.
    - inversion H; subst. apply P_refl.
    - assert (forall d0, In d0 cs -> chain_ok (sd_name d0)) as Hcs' by (intros; apply Hcs; right; assumption).
      destruct (loadable sch (fst cur) (sd_name d) i); [|eapply IH; eauto].
      destruct (process_delete sch oc del cur (sd_name d) i) as [cur1|e] eqn:E1; cbn [bind] in H; [|discriminate].
      eapply P_trans; [eapply process_delete_P; [apply Hcs; left; reflexivity | exact E1] | eapply IH; eauto].
  Qed.
End Skeleton.

(* ---- instance 1: for every schema, DeleteById only appends to the queue ---- *)
Section QueueGrows.
  Variable sch : schema.
  Variable oc : octx.

  Definition Pext (a b : st_ev) : Prop := ext (snd a) (snd b).
  Definition Qall (_ : name) : Prop := True.

  Lemma Pext_refl a : Pext a a.
  Proof. apply ext_refl. Qed.
  Lemma Pext_trans a b c : Pext a b -> Pext b c -> Pext a c.
  Proof. apply ext_trans. Qed.
  Lemma Pext_fc (st : state) (evs : list event) (st' : state) : ents_fc_eq st st' -> Pext (st, evs) (st', evs).
  Proof. intros _. apply ext_refl. Qed.

  Lemma cons_ok_all ks : Forall (cons_ok Qall) ks.
  Proof. apply Forall_forall. intros k _. destruct k; try exact I. destruct c; exact I. Qed.

  Lemma chain_ok_all s : chain_ok sch Qall s.
  Proof. unfold chain_ok. apply Forall_forall. intros p _. apply cons_ok_all. Qed.

  Lemma delete_ext : forall n stev s x stev',
    delete_by_id sch oc n stev s x = Ok stev' -> ext (snd stev) (snd stev').
  Proof.
    induction n as [|n IH]; intros stev s x stev' H; cbn [delete_by_id] in H; [discriminate|].
    destruct (negb (present sch (fst stev) (root_of sch s) x)); [discriminate|].
    assert (Hdel : forall rs, Qall rs -> forall a y b, delete_by_id sch oc n a rs y = Ok b -> Pext a b)
      by (intros rs _ a y b Hab; exact (IH a rs y b Hab)).
    destruct (children_delete sch oc (delete_by_id sch oc n) x (children_of sch (root_of sch s)) stev [])
      as [[stev1 flows]|e] eqn:Ech; cbn [bind] in H; [|discriminate].
    pose proof (children_delete_P sch oc Pext Qall Pext_refl Pext_trans Pext_fc _ Hdel x _ _ _ _ _
                  (fun d _ => chain_ok_all (sd_name d)) Ech) as H1.
    destruct (negb (present sch (fst stev1) (root_of sch s) x)).
    - inversion H; subst. exact H1.
    - destruct (process_delete sch oc (delete_by_id sch oc n) stev1 (root_of sch s) x) as [stev2|e] eqn:Epd; cbn [bind] in H; [|discriminate].
      pose proof (process_delete_P sch oc Pext Qall Pext_refl Pext_trans Pext_fc _ Hdel _ _ _ _ (chain_ok_all _) Epd) as H2.
      destruct (fire (oc_vetoes oc) (snd stev2) (root_of sch s) Deleted x _) as [evs1|e] eqn:Ef; cbn [bind] in H; [|discriminate].
      destruct (fire_flows oc x flows evs1) as [evs2|e] eqn:Eff; cbn [bind] in H; [|discriminate].
      inversion H; subst. cbn [snd]. apply fire_spec in Ef as [_ ->]. apply fire_flows_spec in Eff. subst evs2.
      eapply ext_trans; [exact H1|]. eapply ext_trans; [exact H2|].
      eexists. rewrite <- app_assoc. reflexivity.
  Qed.

  Lemma run_op_ext fuel st evs o st' evs' :
    run_op sch fuel oc (st, evs) o = Ok (st', evs') -> ext evs evs'.
  Proof.
    destruct o as [s i sys fv sv|s i fv sv ch|s i|s i lf ts|s i lf ts|]; cbn [run_op]; intros H.
    - apply op_create_events in H. eexists; exact H.
    - apply op_update_events in H. eexists; exact H.
    - apply delete_ext in H. exact H.
    - cbn [fst snd] in H. destruct (op_add_links sch st s i lf ts); cbn [bind] in H; [|discriminate]. inversion H; subst. apply ext_refl.
    - cbn [fst snd] in H. destruct (op_remove_links sch st s i lf ts); cbn [bind] in H; [|discriminate]. inversion H; subst. apply ext_refl.
    - discriminate.
  Qed.
End QueueGrows.

Lemma skipn_app_length {A} (l new : list A) : skipn (length l) (l ++ new) = new.
Proof. induction l as [|x l IH]; [reflexivity | exact IH]. Qed.

(* ================================================================ the instrumented run is the plain run *)
Lemma run_ops_v_spec sch fuel oc : forall ops stev acc,
  let '(rs, fin) := run_ops sch fuel oc stev ops in
  match fin with
  | Ok stev' =>
      exists sevs, run_ops_v sch fuel oc stev ops acc = (rs, Ok (stev', acc ++ sevs)) /\
                   snd stev' = snd stev ++ map se_ev sevs
  | Err k => run_ops_v sch fuel oc stev ops acc = (rs, Err k)
  end.
Proof.
  induction ops as [|o ops IH]; intros stev acc; cbn [run_ops run_ops_v].
  - exists []. rewrite !app_nil_r. split; reflexivity.
  - destruct (run_op sch fuel oc stev o) as [stev1|k] eqn:Ho; [|reflexivity].
    destruct stev as [st evs], stev1 as [st1 evs1]. cbn [fst snd].
    destruct (run_op_ext sch oc fuel st evs o st1 evs1 Ho) as [new ->].
    rewrite skipn_app_length.
    specialize (IH (st1, evs ++ new) (acc ++ map (attach sch st st1) new)).
    destruct (run_ops sch fuel oc (st1, evs ++ new) ops) as [rs fin].
    destruct fin as [stev'|k].
    + destruct IH as [sevs [Hv Hs]]. rewrite Hv. exists (map (attach sch st st1) new ++ sevs).
      split; [rewrite app_assoc; reflexivity|]. rewrite Hs. cbn [snd]. rewrite map_app, map_map. cbn [attach se_ev].
      rewrite map_id, app_assoc. reflexivity.
    + rewrite IH. reflexivity.
Qed.

(* run_tx_v delivers exactly what run_tx delivers (results, commit flag, state, events) *)
Lemma run_tx_v_events_lemma sch fuel st t :
  let o := run_tx_v sch fuel st t in
  run_tx sch fuel st t = (to_results o, to_committed o, to_state o, map se_ev (to_events o)).
Proof.
  unfold run_tx_v, run_tx.
  pose proof (run_ops_v_spec sch fuel (mkOctx (tx_sys t) (tx_vetoes t)) (tx_ops t) (st, []) []) as H.
  destruct (run_ops sch fuel _ (st, []) (tx_ops t)) as [rs fin]. destruct fin as [[st' evs]|k].
  - destruct H as [sevs [Hv Hs]]. rewrite Hv. cbn [app snd] in *. destruct (tx_precommit_fails t); cbn; [reflexivity|].
    rewrite Hs. reflexivity.
  - rewrite H. reflexivity.
Qed.

(* commit actions and tx-complete listeners run once iff the transaction commits *)
Lemma commit_hooks_once_lemma sch fuel st t :
  let o := run_tx_v sch fuel st t in
  to_commit_actions o = (if to_committed o then 1 else 0)%nat /\
  to_tx_complete o = (if to_committed o then 1 else 0)%nat /\
  (to_committed o = false -> to_events o = [] /\ to_state o = st).
Proof.
  unfold run_tx_v. destruct (run_ops_v sch fuel _ (st, []) (tx_ops t) []) as [rs fin].
  destruct fin as [[[st' evs] sevs]|k]; [destruct (tx_precommit_fails t)|]; cbn; repeat split; try reflexivity; discriminate.
Qed.

(* ================================================================ exactly once: the delete recursion *)
Lemma alive_shrink st st' r i : ents_shrink st st' -> alive st' r i = true -> alive st r i = true.
Proof.
  intros H. specialize (H r i). unfold alive. destruct (get_ent st' r i) as [e'|]; [|discriminate].
  destruct H as [e0 [-> _]]. reflexivity.
Qed.

Lemma alive_fc st st' r i : ents_fc_eq st st' -> alive st' r i = alive st r i.
Proof.
  intros H. specialize (H r i). unfold alive, ent_fc_eq in *.
  destruct (get_ent st' r i), (get_ent st r i); try contradiction; reflexivity.
Qed.

Lemma del_ent_shrink st r i : ents_shrink st (del_ent st r i).
Proof.
  intros r0 i0. rewrite get_ent_del_ent. destruct (str_eqb r r0 && str_eqb i i0); [exact I|].
  destruct (get_ent st r0 i0) as [e|]; [|exact I]. exists e. repeat split; reflexivity.
Qed.

Lemma alive_del_ent st r i r0 i0 :
  alive (del_ent st r i) r0 i0 = if str_eqb r r0 && str_eqb i i0 then false else alive st r0 i0.
Proof. unfold alive. rewrite get_ent_del_ent. destruct (str_eqb r r0 && str_eqb i i0); reflexivity. Qed.

Section Ranked.
  Variable sch : schema.
  Variable oc : octx.
  Variable rk : name -> nat.
  Hypothesis Hroots : forall x, root_of sch (root_of sch x) = root_of sch x.
  Hypothesis Hrootnc : forall x, is_child sch (root_of sch x) = false.
  Hypothesis Hchildren : forall r0 d, In d (children_of sch r0) -> root_of sch (sd_name d) = r0.
  Hypothesis Hrank : forall s' rs f, In (CFkCascade rs f CascDelete) (cons_of sch s') ->
                                     (rk (root_of sch s') < rk (root_of sch rs))%nat.

  Lemma present_root_alive st s x : present sch st (root_of sch s) x = alive st (root_of sch s) x.
  Proof. unfold present, alive. rewrite Hroots, Hrootnc. destruct (get_ent st (root_of sch s) x); reflexivity. Qed.

  Lemma loadable_shrink st st' c x :
    ents_shrink st st' -> alive st' (root_of sch c) x = true -> loadable sch st' c x = loadable sch st c x.
  Proof.
    intros H Ha. specialize (H (root_of sch c) x). unfold alive in Ha. unfold loadable, present. rewrite Hroots.
    destruct (get_ent st' (root_of sch c) x) as [e'|]; [|discriminate].
    destruct H as [e [-> [_ Hc]]]. rewrite Hc. reflexivity.
  Qed.

  Lemma flows_of_shrink st st' r x :
    ents_shrink st st' -> alive st' r x = true -> flows_of sch st' r x = flows_of sch st r x.
  Proof.
    intros H Ha. unfold flows_of. f_equal. apply filter_ext_in. intros d Hd.
    apply loadable_shrink; [exact H|]. rewrite (Hchildren r d Hd). exact Ha.
  Qed.

  Lemma del_events_shrink st st' r x :
    ents_shrink st st' -> alive st' r x = true -> del_events sch st' r x = del_events sch st r x.
  Proof. intros H Ha. unfold del_events. rewrite (flows_of_shrink st st' r x H Ha). reflexivity. Qed.

  Lemma del_events_in st r x e : root_of sch r = r -> In e (del_events sch st r x) ->
    ev_change e = Deleted /\ ev_id e = x /\ root_of sch (ev_store e) = r.
  Proof.
    intros Hr [<-|Hin]; [cbn; repeat split; exact Hr|].
    apply in_map_iff in Hin as [c [<- Hc]]. cbn. repeat split.
    unfold flows_of in Hc. apply in_map_iff in Hc as [d [<- Hd]]. apply filter_In in Hd as [Hd _].
    apply Hchildren. exact Hd.
  Qed.

  (* ---- the multiset of a two-step removal is the sum of the steps ---- *)
  Lemma expected_delete_trans st0 st1 st2 e :
    ents_shrink st0 st1 -> ents_shrink st1 st2 ->
    expected_delete sch st0 st2 e = (expected_delete sch st0 st1 e + expected_delete sch st1 st2 e)%nat.
  Proof.
    intros H01 H12. unfold expected_delete. destruct (ev_change e); try reflexivity.
    generalize (root_of sch (ev_store e)) (ev_id e). intros r i. unfold vanished.
    destruct (alive st2 r i) eqn:A2.
    - rewrite (alive_shrink _ _ _ _ H12 A2). rewrite !andb_false_r. reflexivity.
    - destruct (alive st1 r i) eqn:A1.
      + rewrite (alive_shrink _ _ _ _ H01 A1). cbn [andb negb plus]. rewrite (del_events_shrink st0 st1 r i H01 A1). reflexivity.
      + destruct (alive st0 r i); cbn [andb negb]; lia.
  Qed.

  Lemma expected_delete_fc st st' e : ents_fc_eq st st' -> expected_delete sch st st' e = 0%nat.
  Proof.
    intros H. unfold expected_delete, vanished. destruct (ev_change e); try reflexivity.
    rewrite (alive_fc st st' _ _ H). destruct (alive st _ _); reflexivity.
  Qed.

  (* ---- the step relation ---- *)
  Definition RankFrame (k : nat) (st st' : state) : Prop :=
    forall r i, alive st r i = true -> alive st' r i = false -> (k <= rk r)%nat.

  Definition Step (k : nat) (a b : st_ev) : Prop :=
    exists new, snd b = snd a ++ new /\ ents_shrink (fst a) (fst b) /\
                (forall e, count_ev e new = expected_delete sch (fst a) (fst b) e) /\
                RankFrame k (fst a) (fst b).

  Lemma Step_fc k (st : state) (evs : list event) (st' : state) : ents_fc_eq st st' -> Step k (st, evs) (st', evs).
  Proof.
    intros H. exists []. cbn [fst snd]. rewrite app_nil_r. split; [reflexivity|]. split; [apply ents_fc_eq_shrink; exact H|].
    split; [intros e; rewrite (expected_delete_fc _ _ e H); reflexivity|].
    intros r i A A'. rewrite (alive_fc _ _ _ _ H) in A'. congruence.
  Qed.

  Lemma Step_refl k a : Step k a a.
  Proof. destruct a as [st evs]. apply Step_fc. apply ents_fc_eq_refl. Qed.

  Lemma Step_trans k a b c : Step k a b -> Step k b c -> Step k a c.
  Proof.
    intros [n1 [E1 [S1 [C1 R1]]]] [n2 [E2 [S2 [C2 R2]]]]. exists (n1 ++ n2).
    split; [rewrite E2, E1, app_assoc; reflexivity|]. split; [eapply ents_shrink_trans; eauto|]. split.
    - intros e. rewrite count_ev_app, C1, C2. symmetry. apply expected_delete_trans; assumption.
    - intros r i A0 A2. destruct (alive (fst b) r i) eqn:A1; [eapply R2; eauto | eapply R1; eauto].
  Qed.

  Lemma Step_weaken k k' a b : (k' <= k)%nat -> Step k a b -> Step k' a b.
  Proof.
    intros Hk [n [E [S [C R]]]]. exists n. repeat split; try assumption.
    intros r i A A'. specialize (R r i A A'). lia.
  Qed.

  Definition DelStep (del : st_ev -> name -> id -> res st_ev) : Prop :=
    forall stev s x stev', del stev s x = Ok stev' -> Step (rk (root_of sch s)) stev stev'.

  Definition Qrank (k0 : nat) (rs : name) : Prop := (S k0 <= rk (root_of sch rs))%nat.

  Lemma chain_ok_rank s : chain_ok sch (Qrank (rk (root_of sch s))) s.
  Proof.
    assert (forall s', root_of sch s' = root_of sch s -> Forall (cons_ok (Qrank (rk (root_of sch s)))) (cons_of sch s')) as Hc.
    { intros s' Hs'. apply Forall_forall. intros k Hk. destruct k; try exact I. destruct c; [exact I|].
      cbn. unfold Qrank. specialize (Hrank s' rstore field Hk). rewrite Hs' in Hrank. lia. }
    unfold chain_ok, chain. destruct (is_child sch s).
    - constructor; [cbn; apply Hc; apply Hroots|]. constructor; [cbn; apply Hc; reflexivity | constructor].
    - constructor; [cbn; apply Hc; reflexivity | constructor].
  Qed.

  (* the child flows of a removal are those of the state the removal started from *)
  Lemma children_flows k0 del x r0 :
    (forall rs, Qrank k0 rs -> forall a y b, del a rs y = Ok b -> Step (S k0) a b) ->
    forall cs cur flows cur' flows',
    (forall d, In d cs -> root_of sch (sd_name d) = r0 /\ chain_ok sch (Qrank k0) (sd_name d)) ->
    children_delete sch oc del x cs cur flows = Ok (cur', flows') ->
    alive (fst cur') r0 x = true ->
    flows' = flows ++ map sd_name (filter (fun d => loadable sch (fst cur) (sd_name d) x) cs).
  Proof.
    intros Hdel. induction cs as [|d cs IH]; intros cur flows cur' flows' Hcs H Ha; cbn [children_delete] in H.
    - inversion H; subst. cbn. rewrite app_nil_r. reflexivity.
    - assert (forall d0, In d0 cs -> root_of sch (sd_name d0) = r0 /\ chain_ok sch (Qrank k0) (sd_name d0)) as Hcs'
        by (intros; apply Hcs; right; assumption).
      cbn [filter]. destruct (loadable sch (fst cur) (sd_name d) x) eqn:El; [|eapply IH; eauto].
      destruct (process_delete sch oc del cur (sd_name d) x) as [cur1|e] eqn:E1; cbn [bind] in H; [|discriminate].
      pose proof (process_delete_P sch oc (Step (S k0)) (Qrank k0) (Step_refl _) (Step_trans _) (Step_fc _) del Hdel
                    _ _ _ _ (proj2 (Hcs d (or_introl eq_refl))) E1) as [n1 [_ [S1 _]]].
      pose proof (children_delete_P sch oc (Step (S k0)) (Qrank k0) (Step_refl _) (Step_trans _) (Step_fc _) del Hdel
                    x _ _ _ _ _ (fun d0 Hd0 => proj2 (Hcs' d0 Hd0)) H) as [n2 [_ [S2 _]]].
      rewrite (IH cur1 _ cur' flows' Hcs' H Ha). cbn [map]. rewrite <- app_assoc. cbn [app]. f_equal. f_equal. f_equal.
      apply filter_ext_in. intros d0 Hd0. apply loadable_shrink; [exact S1|].
      rewrite (proj1 (Hcs' d0 Hd0)). eapply alive_shrink; eauto.
  Qed.

  Lemma delete_step : forall n, DelStep (delete_by_id sch oc n).
  Proof.
    induction n as [|n IH]; intros stev s x stev' H; cbn [delete_by_id] in H; [discriminate|].
    destruct stev as [st evs]. cbn [fst] in H.
    rewrite (present_root_alive st s x) in H.
    assert (Hpr : forall st1, present sch st1 (root_of sch s) x = alive st1 (root_of sch s) x)
      by (intros; apply present_root_alive).
    set (r0 := root_of sch s) in *. set (k0 := rk r0).
    assert (Hr0 : root_of sch r0 = r0) by apply Hroots.
    destruct (alive st r0 x) eqn:A0; cbn [negb] in H; [|discriminate].
    assert (Hdel : forall rs, Qrank k0 rs -> forall a y b, delete_by_id sch oc n a rs y = Ok b -> Step (S k0) a b).
    { intros rs Hq a y b Hab. eapply Step_weaken; [|exact (IH a rs y b Hab)]. exact Hq. }
    destruct (children_delete sch oc (delete_by_id sch oc n) x (children_of sch r0) (st, evs) [])
      as [[[st1 evs1] flows]|e] eqn:Ech; cbn [bind] in H; [|discriminate].
    assert (Hcs : forall d, In d (children_of sch r0) -> root_of sch (sd_name d) = r0 /\ chain_ok sch (Qrank k0) (sd_name d)).
    { intros d Hd. pose proof (Hchildren r0 d Hd) as Hrd. split; [exact Hrd|].
      pose proof (chain_ok_rank (sd_name d)) as Hc. rewrite Hrd in Hc. exact Hc. }
    pose proof (children_delete_P sch oc (Step (S k0)) (Qrank k0) (Step_refl _) (Step_trans _) (Step_fc _) _ Hdel
                  x _ _ _ _ _ (fun d Hd => proj2 (Hcs d Hd)) Ech) as H1.
    assert (A1 : alive st1 r0 x = true).
    { destruct (alive st1 r0 x) eqn:A1; [reflexivity|]. destruct H1 as [_ [_ [_ [_ R1]]]].
      specialize (R1 r0 x A0 A1). unfold k0 in R1. lia. }
    cbn [fst] in H. rewrite (Hpr st1) in H. rewrite A1 in H. cbn [negb] in H.
    destruct (process_delete sch oc (delete_by_id sch oc n) (st1, evs1) r0 x) as [[st2 evs2]|e] eqn:Epd; cbn [bind] in H; [|discriminate].
    assert (Hc0 : chain_ok sch (Qrank k0) r0).
    { pose proof (chain_ok_rank r0) as Hc. rewrite Hr0 in Hc. exact Hc. }
    pose proof (process_delete_P sch oc (Step (S k0)) (Qrank k0) (Step_refl _) (Step_trans _) (Step_fc _) _ Hdel
                  _ _ _ _ Hc0 Epd) as H2.
    pose proof (Step_trans _ _ _ _ H1 H2) as H12.
    assert (A2 : alive st2 r0 x = true).
    { destruct (alive st2 r0 x) eqn:A2; [reflexivity|]. destruct H12 as [_ [_ [_ [_ R]]]].
      specialize (R r0 x A0 A2). unfold k0 in R. lia. }
    pose proof (children_flows k0 _ x r0 Hdel _ _ _ _ _ Hcs Ech A1) as Hfl. cbn [app fst] in Hfl.
    change (map sd_name (filter (fun d => loadable sch st (sd_name d) x) (children_of sch r0))) with (flows_of sch st r0 x) in Hfl.
    cbn [fst snd] in H.
    destruct (fire (oc_vetoes oc) evs2 r0 Deleted x _) as [evs3|e] eqn:Ef; cbn [bind] in H; [|discriminate].
    destruct (fire_flows oc x flows evs3) as [evs4|e] eqn:Eff; cbn [bind] in H; [|discriminate].
    inversion H; subst stev'. clear H.
    apply fire_spec in Ef as [_ ->]. apply fire_flows_spec in Eff. subst evs4.
    eapply Step_trans; [eapply Step_weaken; [|exact H12]; lia|].
    destruct H12 as [_ [_ [S02 _]]]. cbn [fst] in S02.
    exists (del_events sch st r0 x). cbn [fst snd]. split; [|split; [|split]].
    - unfold del_events. rewrite <- Hfl. rewrite <- app_assoc. reflexivity.
    - apply del_ent_shrink.
    - intros e. unfold expected_delete. destruct (ev_change e) eqn:Ec.
      + apply count_ev_zero. intros Hin. apply (del_events_in st r0 x e Hr0) in Hin as [Hd _]. congruence.
      + apply count_ev_zero. intros Hin. apply (del_events_in st r0 x e Hr0) in Hin as [Hd _]. congruence.
      + unfold vanished. rewrite alive_del_ent.
        destruct (str_eqb r0 (root_of sch (ev_store e)) && str_eqb x (ev_id e)) eqn:E.
        * apply andb_prop in E as [E1 E2]. apply str_eqb_eq in E1, E2. rewrite <- E1, <- E2, A2. cbn [andb negb].
          rewrite (del_events_shrink st st2 r0 x S02 A2). reflexivity.
        * rewrite andb_negb_r. apply count_ev_zero. intros Hin.
          apply (del_events_in st r0 x e Hr0) in Hin as [_ [Hi Hr]]. rewrite Hr, Hi, !str_eqb_refl in E. discriminate.
    - intros r i A A'. rewrite alive_del_ent in A'.
      destruct (str_eqb r0 r && str_eqb x i) eqn:E; [|congruence].
      apply andb_prop in E as [E1 _]. apply str_eqb_eq in E1. subst r. unfold k0. lia.
  Qed.
End Ranked.
