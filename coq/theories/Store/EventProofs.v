(* Proofs about event delivery of the store machine (C08): Store/Model.v + Store/Events.v. *)
From Coq Require Import List NArith Bool Arith Lia Permutation.
From Storage Require Import Base.Bytes Base.BytesFacts Store.Model Store.AListFacts Store.FrameProofs
  Store.TxProofs Store.Events.
Import ListNotations.

(* ================================================================ events as a multiset *)
Lemma change_eqb_eq a b : change_eqb a b = true <-> a = b.
Proof. destruct a, b; cbn; split; intros H; try reflexivity; try discriminate. Qed.

Lemma change_eqb_refl a : change_eqb a a = true.
Proof. destruct a; reflexivity. Qed.

Lemma event_eqb_eq a b : event_eqb a b = true <-> a = b.
Proof.
  unfold event_eqb. destruct a as [s c i p], b as [s' c' i' p']. cbn [ev_store ev_change ev_id ev_parent]. split; intros H.
  - apply andb_prop in H as [H H4]. apply andb_prop in H as [H H3]. apply andb_prop in H as [H1 H2].
    apply str_eqb_eq in H1, H3. apply change_eqb_eq in H2. apply Bool.eqb_prop in H4. subst. reflexivity.
  - inversion H; subst. rewrite !str_eqb_refl, change_eqb_refl, Bool.eqb_reflx. reflexivity.
Qed.

Lemma event_eqb_refl a : event_eqb a a = true.
Proof. apply event_eqb_eq. reflexivity. Qed.

Lemma event_eq_dec (a b : event) : {a = b} + {a <> b}.
Proof.
  destruct (event_eqb a b) eqn:E; [left; apply event_eqb_eq; exact E | right].
  intros H. apply event_eqb_eq in H. congruence.
Defined.

Lemma count_ev_nil e : count_ev e [] = 0%nat.
Proof. reflexivity. Qed.

Lemma count_ev_app e l1 l2 : count_ev e (l1 ++ l2) = (count_ev e l1 + count_ev e l2)%nat.
Proof. unfold count_ev. rewrite filter_app, app_length. reflexivity. Qed.

Lemma count_ev_cons e x l : count_ev e (x :: l) = ((if event_eqb e x then 1 else 0) + count_ev e l)%nat.
Proof. unfold count_ev. cbn [filter]. destruct (event_eqb e x); reflexivity. Qed.

Lemma count_ev_pos e l : (0 < count_ev e l)%nat <-> In e l.
Proof.
  induction l as [|x l IH]; [cbn; split; [lia | contradiction]|].
  rewrite count_ev_cons. destruct (event_eqb e x) eqn:E.
  - apply event_eqb_eq in E. subst x. split; [intros _; left; reflexivity | intros _; lia].
  - cbn [plus]. rewrite IH. split; [intros H; right; exact H|]. intros [H|H]; [|exact H].
    subst x. rewrite event_eqb_refl in E. discriminate.
Qed.

Lemma count_ev_zero e l : ~ In e l -> count_ev e l = 0%nat.
Proof. intros H. destruct (count_ev e l) eqn:E; [reflexivity|]. exfalso. apply H. apply count_ev_pos. lia. Qed.

Lemma count_ev_count_occ e l : count_ev e l = count_occ event_eq_dec l e.
Proof.
  induction l as [|x l IH]; [reflexivity|]. rewrite count_ev_cons. cbn [count_occ].
  destruct (event_eq_dec x e) as [->|Hne].
  - rewrite event_eqb_refl, IH. reflexivity.
  - destruct (event_eqb e x) eqn:E; [apply event_eqb_eq in E; congruence|]. rewrite IH. reflexivity.
Qed.

(* two event lists with the same counts are permutations of each other *)
Lemma count_ev_permutation l1 l2 : (forall e, count_ev e l1 = count_ev e l2) <-> Permutation l1 l2.
Proof.
  rewrite (Permutation_count_occ event_eq_dec). split; intros H e; specialize (H e).
  - rewrite <- !count_ev_count_occ. exact H.
  - rewrite !count_ev_count_occ. exact H.
Qed.

(* ================================================================ the event queue only grows *)
Definition ext (evs evs' : list event) : Prop := exists new, evs' = evs ++ new.

Lemma ext_refl evs : ext evs evs.
Proof. exists []. rewrite app_nil_r. reflexivity. Qed.

Lemma ext_trans a b c : ext a b -> ext b c -> ext a c.
Proof. intros [n1 ->] [n2 ->]. exists (n1 ++ n2). rewrite app_assoc. reflexivity. Qed.

Lemma fire_spec vs evs s c i p evs' :
  fire vs evs s c i p = Ok evs' -> vetoed vs s c i = false /\ evs' = evs ++ [mkEvent s c i p].
Proof. unfold fire. destruct (vetoed vs s c i); [discriminate|]. intros H; inversion H; subst. split; reflexivity. Qed.

Lemma fire_cu_spec sch oc evs s c i evs' :
  fire_cu sch oc evs s c i = Ok evs' -> evs' = evs ++ ev_cu sch s c i.
Proof.
  unfold fire_cu, ev_cu. destruct (is_child sch s).
  - destruct (fire (oc_vetoes oc) evs (root_of sch s) c i true) as [evs1|k] eqn:E1; cbn [bind]; [|discriminate].
    apply fire_spec in E1 as [_ ->]. intros H. apply fire_spec in H as [_ ->]. rewrite <- app_assoc. reflexivity.
  - cbn [bind app]. intros H. apply fire_spec in H as [_ ->]. reflexivity.
Qed.

Lemma fire_flows_spec oc x : forall fs evs evs',
  fire_flows oc x fs evs = Ok evs' -> evs' = evs ++ map (fun c => mkEvent c Deleted x false) fs.
Proof.
  induction fs as [|c fs IH]; intros evs evs' H; cbn [fire_flows] in H.
  - inversion H; subst. cbn. rewrite app_nil_r. reflexivity.
  - destruct (fire (oc_vetoes oc) evs c Deleted x false) as [evs1|k] eqn:E1; cbn [bind] in H; [|discriminate].
    apply fire_spec in E1 as [_ ->]. apply IH in H. subst. rewrite <- app_assoc. reflexivity.
Qed.

(* ---- create / update: the exact events, in order ---- *)
Lemma op_create_events sch oc st evs s i sys fv sv st' evs' :
  op_create sch oc (st, evs) s i sys fv sv = Ok (st', evs') -> evs' = evs ++ ev_cu sch s Created i.
Proof.
  unfold op_create. destruct (find_store sch s); [|discriminate].
  destruct (negb (nonempty i)); [discriminate|]. destruct (present sch st s i); [discriminate|].
  destruct (present sch st (root_of sch s) i); [discriminate|]. destruct (negb (key_ok i)); [discriminate|].
  destruct (fire_cu sch oc evs s Created i) as [evs1|k] eqn:E1; cbn [bind]; [|discriminate].
  destruct (after_chain sch _ true (oc_sys oc) i (chain sch s) []) as [st2|k]; cbn [bind]; [|discriminate].
  intros H; inversion H; subst. apply fire_cu_spec in E1. exact E1.
Qed.

Lemma update_in_events sch oc st evs s i fv sv ch st' evs' :
  update_in sch oc (st, evs) s i fv sv ch = Ok (st', evs') -> evs' = evs ++ ev_cu sch s Updated i.
Proof.
  unfold update_in. destruct (negb (nonempty i)); [discriminate|]. destruct (negb (loadable sch st s i)); [discriminate|].
  destruct (negb (present sch st s i)); [discriminate|].
  destruct (fire_cu sch oc evs s Updated i) as [evs1|k] eqn:E1; cbn [bind]; [|discriminate].
  destruct (before_chain sch st false (oc_sys oc) i (chain sch s)) as [svs|k]; cbn [bind]; [|discriminate].
  destruct (after_chain sch _ false (oc_sys oc) i (chain sch s) svs) as [st2|k]; cbn [bind]; [|discriminate].
  intros H; inversion H; subst. apply fire_cu_spec in E1. exact E1.
Qed.

Lemma op_update_events sch oc st evs s i fv sv ch st' evs' :
  op_update sch oc (st, evs) s i fv sv ch = Ok (st', evs') ->
  evs' = evs ++ ev_cu sch (update_target sch st s i) Updated i.
Proof.
  unfold op_update, update_target. destruct (find_store sch s); [|discriminate].
  destruct (is_child sch s); [apply update_in_events|]. cbn [fst].
  destruct (find (fun d => present sch st (sd_name d) i) (children_of sch s)) as [d|]; apply update_in_events.
Qed.

(* ================================================================ the delete recursion, generically *)
(* [P] relates the (state, queue) before and after a step; [Q rs] says for which referrer stores the
   recursive DeleteById is known to satisfy P.  Every hook of the delete path that is not a cascade
   leaves the entities' fields and child data alone and does not touch the queue. *)
Section Skeleton.
  Variable sch : schema.
  Variable oc : octx.
  Variable P : st_ev -> st_ev -> Prop.
  Variable Q : name -> Prop.
  Hypothesis P_refl : forall a, P a a.
  Hypothesis P_trans : forall a b c, P a b -> P b c -> P a c.
  Hypothesis P_fc : forall st evs st', ents_fc_eq st st' -> P (st, evs) (st', evs).
  Variable del : st_ev -> name -> id -> res st_ev.
  Hypothesis Hdel : forall rs, Q rs -> forall stev x stev', del stev rs x = Ok stev' -> P stev stev'.

  Definition cons_ok (k : cons) : Prop :=
    match k with CFkCascade rs _ CascDelete => Q rs | _ => True end.

  Lemma cascade_loop_P rs f i : Q rs -> forall cands cur cur',
    cascade_loop sch del rs f i cands cur = Ok cur' -> P cur cur'.
  Proof.
    intros Hq. induction cands as [|c0 cands IH]; intros cur cur' H; cbn [cascade_loop] in H.
    - inversion H; subst. apply P_refl.
    - destruct (casc_matches sch rs f i (fst cur) c0).
      + destruct (del cur rs c0) as [cur1|e] eqn:Ed; cbn [bind] in H; [|discriminate].
        eapply P_trans; [eapply Hdel; eauto | apply IH; exact H].
      + apply IH; exact H.
  Qed.

  Lemma fold_sidx_remove_fc r f i l st : ents_fc_eq st (fold_left (fun acc v => sidx_remove acc r f v i) l st).
  Proof. apply ents_eq_fc. apply fold_sidx_remove_ents. Qed.

  Lemma before_delete_one_P stev c k stev' :
    cons_ok k -> before_delete_one sch oc del stev c k = Ok stev' -> P stev stev'.
  Proof.
    intros Hk. destruct stev as [st evs]. destruct k as [f0 nl|f0|f0 t b nl|b|f0 t nl|rs f0 cs|]; cbn [before_delete_one]; intros H.
    - destruct (nonempty _); inversion H; subst; [apply P_fc; apply ents_eq_fc; reflexivity | apply P_refl].
    - destruct (negb _); [discriminate|]. inversion H; subst. apply P_fc. apply fold_sidx_remove_fc.
    - destruct (nonempty _); [|inversion H; subst; apply P_refl].
      destruct (present sch st t _); [|discriminate]. inversion H; subst. apply P_fc. apply backref_del_fc.
    - destruct (get_set sch st (ic_store c) (ic_id c) b); [|discriminate]. inversion H; subst. apply P_refl.
    - inversion H; subst. apply P_refl.
    - destruct cs.
      + destruct (existsb _ _); [discriminate|]. inversion H; subst. apply P_refl.
      + eapply cascade_loop_P; [exact Hk | exact H].
    - destruct (get_field sch st (ic_store c) (ic_id c) isSystemF) as [| |x|[|]]; try (inversion H; subst; apply P_refl).
      destruct (oc_sys oc); [|discriminate]. inversion H; subst. apply P_refl.
  Qed.

  Lemma before_delete_all_P c : forall ks stev stev',
    Forall cons_ok ks -> before_delete_all sch oc del stev c ks = Ok stev' -> P stev stev'.
  Proof.
    induction ks as [|k ks IH]; intros stev stev' Hks H; cbn [before_delete_all] in H.
    - inversion H; subst. apply P_refl.
    - inversion Hks; subst. destruct (before_delete_one sch oc del stev c k) as [stev1|e] eqn:E1; cbn [bind] in H; [|discriminate].
      eapply P_trans; [eapply before_delete_one_P; eauto | eapply IH; eauto].
  Qed.

  Lemma before_delete_chain_P i : forall ch cur cur',
    Forall (fun p => Forall cons_ok (snd p)) ch -> before_delete_chain sch oc del i ch cur = Ok cur' -> P cur cur'.
  Proof.
    induction ch as [|[s' ks] ch IH]; intros cur cur' Hch H; cbn [before_delete_chain] in H.
    - inversion H; subst. apply P_refl.
    - inversion Hch; subst. destruct (before_delete_all sch oc del cur _ ks) as [cur1|e] eqn:E1; cbn [bind] in H; [|discriminate].
      eapply P_trans; [eapply before_delete_all_P; eauto | eapply IH; eauto].
  Qed.

  Lemma fold_backref_del_fc os of_ x : forall ms st,
    ents_fc_eq st (fold_left (fun acc2 oi => backref_del sch acc2 os oi of_ x) ms st).
  Proof.
    induction ms as [|m ms IHm]; intros st; cbn [fold_left]; [apply ents_fc_eq_refl|].
    eapply ents_fc_eq_trans; [apply backref_del_fc | apply IHm].
  Qed.

  Lemma cleanup_links_fc st s0 x : ents_fc_eq st (cleanup_links sch st s0 x).
  Proof.
    unfold cleanup_links. destruct (find_store sch s0) as [d|]; [|apply ents_fc_eq_refl].
    generalize (sd_links d). intros ls. revert st. induction ls as [|[[lf os] of_] ls IH]; intros st; cbn [fold_left].
    - apply ents_fc_eq_refl.
    - eapply ents_fc_eq_trans; [apply fold_backref_del_fc | apply IH].
  Qed.

  Definition chain_ok (s : name) : Prop := Forall (fun p : name * list cons => Forall cons_ok (snd p)) (chain sch s).

  Lemma process_delete_P stev s i stev' :
    chain_ok s -> process_delete sch oc del stev s i = Ok stev' -> P stev stev'.
  Proof.
    intros Hc H. unfold process_delete in H.
    destruct (before_delete_chain sch oc del i (chain sch s) stev) as [[st1 evs1]|e] eqn:E1; cbn [bind] in H; [|discriminate].
    inversion H; subst. cbn [fst snd]. eapply P_trans; [eapply before_delete_chain_P; eauto|].
    apply P_fc. apply cleanup_links_fc.
  Qed.

  Lemma children_delete_P i : forall cs cur flows cur' flows',
    (forall d, In d cs -> chain_ok (sd_name d)) ->
    children_delete sch oc del i cs cur flows = Ok (cur', flows') -> P cur cur'.
  Proof.
    induction cs as [|d cs IH]; intros cur flows cur' flows' Hcs H; cbn [children_delete] in H.
    - inversion H; subst. apply P_refl.
    - assert (forall d0, In d0 cs -> chain_ok (sd_name d0)) as Hcs' by (intros; apply Hcs; right; assumption).
      destruct (loadable sch (fst cur) (sd_name d) i); [|eapply IH; eauto].
      destruct (process_delete sch oc del cur (sd_name d) i) as [cur1|e] eqn:E1; cbn [bind] in H; [|discriminate].
      eapply P_trans; [eapply process_delete_P; [apply Hcs; left; reflexivity | exact E1] | eapply IH; eauto].
  Qed.
End Skeleton.

(* ---- instance 1: for every schema, DeleteById only appends to the queue ---- *)
Section QueueGrows.
  Variable sch : schema.
  Variable oc : octx.

  Definition Pext (a b : st_ev) : Prop := ext (snd a) (snd b).
  Definition Qall (_ : name) : Prop := True.

  Lemma Pext_refl a : Pext a a.
  Proof. apply ext_refl. Qed.
  Lemma Pext_trans a b c : Pext a b -> Pext b c -> Pext a c.
  Proof. apply ext_trans. Qed.
  Lemma Pext_fc (st : state) (evs : list event) (st' : state) : ents_fc_eq st st' -> Pext (st, evs) (st', evs).
  Proof. intros _. apply ext_refl. Qed.

  Lemma cons_ok_all ks : Forall (cons_ok Qall) ks.
  Proof. apply Forall_forall. intros k _. destruct k; try exact I. destruct c; exact I. Qed.

  Lemma chain_ok_all s : chain_ok sch Qall s.
  Proof. unfold chain_ok. apply Forall_forall. intros p _. apply cons_ok_all. Qed.

  Lemma delete_ext : forall n stev s x stev',
    delete_by_id sch oc n stev s x = Ok stev' -> ext (snd stev) (snd stev').
  Proof.
    induction n as [|n IH]; intros stev s x stev' H; cbn [delete_by_id] in H; [discriminate|].
    destruct (negb (present sch (fst stev) (root_of sch s) x)); [discriminate|].
    assert (Hdel : forall rs, Qall rs -> forall a y b, delete_by_id sch oc n a rs y = Ok b -> Pext a b)
      by (intros rs _ a y b Hab; exact (IH a rs y b Hab)).
    destruct (children_delete sch oc (delete_by_id sch oc n) x (children_of sch (root_of sch s)) stev [])
      as [[stev1 flows]|e] eqn:Ech; cbn [bind] in H; [|discriminate].
    pose proof (children_delete_P sch oc Pext Qall Pext_refl Pext_trans Pext_fc _ Hdel x _ _ _ _ _
                  (fun d _ => chain_ok_all (sd_name d)) Ech) as H1.
    destruct (negb (present sch (fst stev1) (root_of sch s) x)).
    - inversion H; subst. exact H1.
    - destruct (process_delete sch oc (delete_by_id sch oc n) stev1 (root_of sch s) x) as [stev2|e] eqn:Epd; cbn [bind] in H; [|discriminate].
      pose proof (process_delete_P sch oc Pext Qall Pext_refl Pext_trans Pext_fc _ Hdel _ _ _ _ (chain_ok_all _) Epd) as H2.
      destruct (fire (oc_vetoes oc) (snd stev2) (root_of sch s) Deleted x _) as [evs1|e] eqn:Ef; cbn [bind] in H; [|discriminate].
      destruct (fire_flows oc x flows evs1) as [evs2|e] eqn:Eff; cbn [bind] in H; [|discriminate].
      inversion H; subst. cbn [snd]. apply fire_spec in Ef as [_ ->]. apply fire_flows_spec in Eff. subst evs2.
      eapply ext_trans; [exact H1|]. eapply ext_trans; [exact H2|].
      eexists. rewrite <- app_assoc. reflexivity.
  Qed.

  Lemma run_op_ext fuel st evs o st' evs' :
    run_op sch fuel oc (st, evs) o = Ok (st', evs') -> ext evs evs'.
  Proof.
    destruct o as [s i sys fv sv|s i fv sv ch|s i|s i lf ts|s i lf ts|]; cbn [run_op]; intros H.
    - apply op_create_events in H. eexists; exact H.
    - apply op_update_events in H. eexists; exact H.
    - apply delete_ext in H. exact H.
    - cbn [fst snd] in H. destruct (op_add_links sch st s i lf ts); cbn [bind] in H; [|discriminate]. inversion H; subst. apply ext_refl.
    - cbn [fst snd] in H. destruct (op_remove_links sch st s i lf ts); cbn [bind] in H; [|discriminate]. inversion H; subst. apply ext_refl.
    - discriminate.
  Qed.
End QueueGrows.

Lemma skipn_app_length {A} (l new : list A) : skipn (length l) (l ++ new) = new.
Proof. induction l as [|x l IH]; [reflexivity | exact IH]. Qed.

(* ================================================================ the instrumented run is the plain run *)
Lemma run_ops_v_spec sch fuel oc : forall ops stev acc,
  let '(rs, fin) := run_ops sch fuel oc stev ops in
  match fin with
  | Ok stev' =>
      exists sevs, run_ops_v sch fuel oc stev ops acc = (rs, Ok (stev', acc ++ sevs)) /\
                   snd stev' = snd stev ++ map se_ev sevs
  | Err k => run_ops_v sch fuel oc stev ops acc = (rs, Err k)
  end.
Proof.
  induction ops as [|o ops IH]; intros stev acc; cbn [run_ops run_ops_v].
  - exists []. rewrite !app_nil_r. split; reflexivity.
  - destruct (run_op sch fuel oc stev o) as [stev1|k] eqn:Ho; [|reflexivity].
    destruct stev as [st evs], stev1 as [st1 evs1]. cbn [fst snd].
    destruct (run_op_ext sch oc fuel st evs o st1 evs1 Ho) as [new ->].
    rewrite skipn_app_length.
    specialize (IH (st1, evs ++ new) (acc ++ map (attach sch st st1) new)).
    destruct (run_ops sch fuel oc (st1, evs ++ new) ops) as [rs fin].
    destruct fin as [stev'|k].
    + destruct IH as [sevs [Hv Hs]]. rewrite Hv. exists (map (attach sch st st1) new ++ sevs).
      split; [rewrite app_assoc; reflexivity|]. rewrite Hs. cbn [snd]. rewrite map_app, map_map. cbn [attach se_ev].
      rewrite map_id, app_assoc. reflexivity.
    + rewrite IH. reflexivity.
Qed.

(* run_tx_v delivers exactly what run_tx delivers (results, commit flag, state, events) *)
Lemma run_tx_v_events_lemma sch fuel st t :
  let o := run_tx_v sch fuel st t in
  run_tx sch fuel st t = (to_results o, to_committed o, to_state o, map se_ev (to_events o)).
Proof.
  unfold run_tx_v, run_tx.
  pose proof (run_ops_v_spec sch fuel (mkOctx (tx_sys t) (tx_vetoes t)) (tx_ops t) (st, []) []) as H.
  destruct (run_ops sch fuel _ (st, []) (tx_ops t)) as [rs fin]. destruct fin as [[st' evs]|k].
  - destruct H as [sevs [Hv Hs]]. rewrite Hv. cbn [app snd] in *. destruct (tx_precommit_fails t); cbn; [reflexivity|].
    rewrite Hs. reflexivity.
  - rewrite H. reflexivity.
Qed.

(* commit actions and tx-complete listeners run once iff the transaction commits *)
Lemma commit_hooks_once_lemma sch fuel st t :
  let o := run_tx_v sch fuel st t in
  to_commit_actions o = (if to_committed o then 1 else 0)%nat /\
  to_tx_complete o = (if to_committed o then 1 else 0)%nat /\
  (to_committed o = false -> to_events o = [] /\ to_state o = st).
Proof.
  unfold run_tx_v. destruct (run_ops_v sch fuel _ (st, []) (tx_ops t) []) as [rs fin].
  destruct fin as [[[st' evs] sevs]|k]; [destruct (tx_precommit_fails t)|]; cbn; repeat split; try reflexivity; discriminate.
Qed.

(* ================================================================ exactly once: the delete recursion *)
Lemma alive_shrink st st' r i : ents_shrink st st' -> alive st' r i = true -> alive st r i = true.
Proof.
  intros H. specialize (H r i). unfold alive. destruct (get_ent st' r i) as [e'|]; [|discriminate].
  destruct H as [e0 [-> _]]. reflexivity.
Qed.

Lemma alive_fc st st' r i : ents_fc_eq st st' -> alive st' r i = alive st r i.
Proof.
  intros H. specialize (H r i). unfold alive, ent_fc_eq in *.
  destruct (get_ent st' r i), (get_ent st r i); try contradiction; reflexivity.
Qed.

Lemma del_ent_shrink st r i : ents_shrink st (del_ent st r i).
Proof.
  intros r0 i0. rewrite get_ent_del_ent. destruct (str_eqb r r0 && str_eqb i i0); [exact I|].
  destruct (get_ent st r0 i0) as [e|]; [|exact I]. exists e. repeat split; reflexivity.
Qed.

Lemma alive_del_ent st r i r0 i0 :
  alive (del_ent st r i) r0 i0 = if str_eqb r r0 && str_eqb i i0 then false else alive st r0 i0.
Proof. unfold alive. rewrite get_ent_del_ent. destruct (str_eqb r r0 && str_eqb i i0); reflexivity. Qed.

Section Ranked.
  Variable sch : schema.
  Variable oc : octx.
  Variable rk : name -> nat.
  Hypothesis Hroots : forall x, root_of sch (root_of sch x) = root_of sch x.
  Hypothesis Hrootnc : forall x, is_child sch (root_of sch x) = false.
  Hypothesis Hchildren : forall r0 d, In d (children_of sch r0) -> root_of sch (sd_name d) = r0.
  Hypothesis Hrank : forall s' rs f, In (CFkCascade rs f CascDelete) (cons_of sch s') ->
                                     (rk (root_of sch s') < rk (root_of sch rs))%nat.

  Lemma present_root_alive st s x : present sch st (root_of sch s) x = alive st (root_of sch s) x.
  Proof. unfold present, alive. rewrite Hroots, Hrootnc. destruct (get_ent st (root_of sch s) x); reflexivity. Qed.

  Lemma loadable_shrink st st' c x :
    ents_shrink st st' -> alive st' (root_of sch c) x = true -> loadable sch st' c x = loadable sch st c x.
  Proof.
    intros H Ha. specialize (H (root_of sch c) x). unfold alive in Ha. unfold loadable, present. rewrite Hroots.
    destruct (get_ent st' (root_of sch c) x) as [e'|]; [|discriminate].
    destruct H as [e [-> [_ Hc]]]. rewrite Hc. reflexivity.
  Qed.

  Lemma flows_of_shrink st st' r x :
    ents_shrink st st' -> alive st' r x = true -> flows_of sch st' r x = flows_of sch st r x.
  Proof.
    intros H Ha. unfold flows_of. f_equal. apply filter_ext_in. intros d Hd.
    apply loadable_shrink; [exact H|]. rewrite (Hchildren r d Hd). exact Ha.
  Qed.

  Lemma del_events_shrink st st' r x :
    ents_shrink st st' -> alive st' r x = true -> del_events sch st' r x = del_events sch st r x.
  Proof. intros H Ha. unfold del_events. rewrite (flows_of_shrink st st' r x H Ha). reflexivity. Qed.

  Lemma del_events_in st r x e : root_of sch r = r -> In e (del_events sch st r x) ->
    ev_change e = Deleted /\ ev_id e = x /\ root_of sch (ev_store e) = r.
  Proof.
    intros Hr [<-|Hin]; [cbn; repeat split; exact Hr|].
    apply in_map_iff in Hin as [c [<- Hc]]. cbn. repeat split.
    unfold flows_of in Hc. apply in_map_iff in Hc as [d [<- Hd]]. apply filter_In in Hd as [Hd _].
    apply Hchildren. exact Hd.
  Qed.

  (* ---- the multiset of a two-step removal is the sum of the steps ---- *)
  Lemma expected_delete_trans st0 st1 st2 e :
    ents_shrink st0 st1 -> ents_shrink st1 st2 ->
    expected_delete sch st0 st2 e = (expected_delete sch st0 st1 e + expected_delete sch st1 st2 e)%nat.
  Proof.
    intros H01 H12. unfold expected_delete. destruct (ev_change e); try reflexivity.
    generalize (root_of sch (ev_store e)) (ev_id e). intros r i. unfold vanished.
    destruct (alive st2 r i) eqn:A2.
    - rewrite (alive_shrink _ _ _ _ H12 A2). rewrite !andb_false_r. reflexivity.
    - destruct (alive st1 r i) eqn:A1.
      + rewrite (alive_shrink _ _ _ _ H01 A1). cbn [andb negb plus]. rewrite (del_events_shrink st0 st1 r i H01 A1). reflexivity.
      + destruct (alive st0 r i); cbn [andb negb]; lia.
  Qed.

  Lemma expected_delete_fc st st' e : ents_fc_eq st st' -> expected_delete sch st st' e = 0%nat.
  Proof.
    intros H. unfold expected_delete, vanished. destruct (ev_change e); try reflexivity.
    rewrite (alive_fc st st' _ _ H). destruct (alive st _ _); reflexivity.
  Qed.

  (* ---- the step relation ---- *)
  Definition RankFrame (k : nat) (st st' : state) : Prop :=
    forall r i, alive st r i = true -> alive st' r i = false -> (k <= rk r)%nat.

  Definition Step (k : nat) (a b : st_ev) : Prop :=
    exists new, snd b = snd a ++ new /\ ents_shrink (fst a) (fst b) /\
                (forall e, count_ev e new = expected_delete sch (fst a) (fst b) e) /\
                RankFrame k (fst a) (fst b).

  Lemma Step_fc k (st : state) (evs : list event) (st' : state) : ents_fc_eq st st' -> Step k (st, evs) (st', evs).
  Proof.
    intros H. exists []. cbn [fst snd]. rewrite app_nil_r. split; [reflexivity|]. split; [apply ents_fc_eq_shrink; exact H|].
    split; [intros e; rewrite (expected_delete_fc _ _ e H); reflexivity|].
    intros r i A A'. rewrite (alive_fc _ _ _ _ H) in A'. congruence.
  Qed.

  Lemma Step_refl k a : Step k a a.
  Proof. destruct a as [st evs]. apply Step_fc. apply ents_fc_eq_refl. Qed.

  Lemma Step_trans k a b c : Step k a b -> Step k b c -> Step k a c.
  Proof.
    intros [n1 [E1 [S1 [C1 R1]]]] [n2 [E2 [S2 [C2 R2]]]]. exists (n1 ++ n2).
    split; [rewrite E2, E1, app_assoc; reflexivity|]. split; [eapply ents_shrink_trans; eauto|]. split.
    - intros e. rewrite count_ev_app, C1, C2. symmetry. apply expected_delete_trans; assumption.
    - intros r i A0 A2. destruct (alive (fst b) r i) eqn:A1; [eapply R2; eauto | eapply R1; eauto].
  Qed.

  Lemma Step_weaken k k' a b : (k' <= k)%nat -> Step k a b -> Step k' a b.
  Proof.
    intros Hk [n [E [S [C R]]]]. exists n. repeat split; try assumption.
    intros r i A A'. specialize (R r i A A'). lia.
  Qed.

  Definition DelStep (del : st_ev -> name -> id -> res st_ev) : Prop :=
    forall stev s x stev', del stev s x = Ok stev' -> Step (rk (root_of sch s)) stev stev'.

  Definition Qrank (k0 : nat) (rs : name) : Prop := (S k0 <= rk (root_of sch rs))%nat.

  Lemma chain_ok_rank s : chain_ok sch (Qrank (rk (root_of sch s))) s.
  Proof.
    assert (forall s', root_of sch s' = root_of sch s -> Forall (cons_ok (Qrank (rk (root_of sch s)))) (cons_of sch s')) as Hc.
    { intros s' Hs'. apply Forall_forall. intros k Hk. destruct k; try exact I. destruct c; [exact I|].
      cbn. unfold Qrank. specialize (Hrank s' rstore field Hk). rewrite Hs' in Hrank. lia. }
    unfold chain_ok, chain. destruct (is_child sch s).
    - constructor; [cbn; apply Hc; apply Hroots|]. constructor; [cbn; apply Hc; reflexivity | constructor].
    - constructor; [cbn; apply Hc; reflexivity | constructor].
  Qed.

  (* the child flows of a removal are those of the state the removal started from *)
  Lemma children_flows k0 del x r0 :
    (forall rs, Qrank k0 rs -> forall a y b, del a rs y = Ok b -> Step (S k0) a b) ->
    forall cs cur flows cur' flows',
    (forall d, In d cs -> root_of sch (sd_name d) = r0 /\ chain_ok sch (Qrank k0) (sd_name d)) ->
    children_delete sch oc del x cs cur flows = Ok (cur', flows') ->
    alive (fst cur') r0 x = true ->
    flows' = flows ++ map sd_name (filter (fun d => loadable sch (fst cur) (sd_name d) x) cs).
  Proof.
    intros Hdel. induction cs as [|d cs IH]; intros cur flows cur' flows' Hcs H Ha; cbn [children_delete] in H.
    - inversion H; subst. cbn. rewrite app_nil_r. reflexivity.
    - assert (forall d0, In d0 cs -> root_of sch (sd_name d0) = r0 /\ chain_ok sch (Qrank k0) (sd_name d0)) as Hcs'
        by (intros; apply Hcs; right; assumption).
      cbn [filter]. destruct (loadable sch (fst cur) (sd_name d) x) eqn:El; [|eapply IH; eauto].
      destruct (process_delete sch oc del cur (sd_name d) x) as [cur1|e] eqn:E1; cbn [bind] in H; [|discriminate].
      pose proof (process_delete_P sch oc (Step (S k0)) (Qrank k0) (Step_refl _) (Step_trans _) (Step_fc _) del Hdel
                    _ _ _ _ (proj2 (Hcs d (or_introl eq_refl))) E1) as [n1 [_ [S1 _]]].
      pose proof (children_delete_P sch oc (Step (S k0)) (Qrank k0) (Step_refl _) (Step_trans _) (Step_fc _) del Hdel
                    x _ _ _ _ _ (fun d0 Hd0 => proj2 (Hcs' d0 Hd0)) H) as [n2 [_ [S2 _]]].
      rewrite (IH cur1 _ cur' flows' Hcs' H Ha). cbn [map]. rewrite <- app_assoc. cbn [app]. f_equal. f_equal. f_equal.
      apply filter_ext_in. intros d0 Hd0. apply loadable_shrink; [exact S1|].
      rewrite (proj1 (Hcs' d0 Hd0)). eapply alive_shrink; eauto.
  Qed.

  Lemma delete_step : forall n, DelStep (delete_by_id sch oc n).
  Proof.
    induction n as [|n IH]; intros stev s x stev' H; cbn [delete_by_id] in H; [discriminate|].
    destruct stev as [st evs]. cbn [fst] in H.
    rewrite (present_root_alive st s x) in H.
    assert (Hpr : forall st1, present sch st1 (root_of sch s) x = alive st1 (root_of sch s) x)
      by (intros; apply present_root_alive).
    set (r0 := root_of sch s) in *. set (k0 := rk r0).
    assert (Hr0 : root_of sch r0 = r0) by apply Hroots.
    destruct (alive st r0 x) eqn:A0; cbn [negb] in H; [|discriminate].
    assert (Hdel : forall rs, Qrank k0 rs -> forall a y b, delete_by_id sch oc n a rs y = Ok b -> Step (S k0) a b).
    { intros rs Hq a y b Hab. eapply Step_weaken; [|exact (IH a rs y b Hab)]. exact Hq. }
    destruct (children_delete sch oc (delete_by_id sch oc n) x (children_of sch r0) (st, evs) [])
      as [[[st1 evs1] flows]|e] eqn:Ech; cbn [bind] in H; [|discriminate].
    assert (Hcs : forall d, In d (children_of sch r0) -> root_of sch (sd_name d) = r0 /\ chain_ok sch (Qrank k0) (sd_name d)).
    { intros d Hd. pose proof (Hchildren r0 d Hd) as Hrd. split; [exact Hrd|].
      pose proof (chain_ok_rank (sd_name d)) as Hc. rewrite Hrd in Hc. exact Hc. }
    pose proof (children_delete_P sch oc (Step (S k0)) (Qrank k0) (Step_refl _) (Step_trans _) (Step_fc _) _ Hdel
                  x _ _ _ _ _ (fun d Hd => proj2 (Hcs d Hd)) Ech) as H1.
    assert (A1 : alive st1 r0 x = true).
    { destruct (alive st1 r0 x) eqn:A1; [reflexivity|]. destruct H1 as [_ [_ [_ [_ R1]]]].
      specialize (R1 r0 x A0 A1). unfold k0 in R1. lia. }
    cbn [fst] in H. rewrite (Hpr st1) in H. rewrite A1 in H. cbn [negb] in H.
    destruct (process_delete sch oc (delete_by_id sch oc n) (st1, evs1) r0 x) as [[st2 evs2]|e] eqn:Epd; cbn [bind] in H; [|discriminate].
    assert (Hc0 : chain_ok sch (Qrank k0) r0).
    { pose proof (chain_ok_rank r0) as Hc. rewrite Hr0 in Hc. exact Hc. }
    pose proof (process_delete_P sch oc (Step (S k0)) (Qrank k0) (Step_refl _) (Step_trans _) (Step_fc _) _ Hdel
                  _ _ _ _ Hc0 Epd) as H2.
    pose proof (Step_trans _ _ _ _ H1 H2) as H12.
    assert (A2 : alive st2 r0 x = true).
    { destruct (alive st2 r0 x) eqn:A2; [reflexivity|]. destruct H12 as [_ [_ [_ [_ R]]]].
      specialize (R r0 x A0 A2). unfold k0 in R. lia. }
    pose proof (children_flows k0 _ x r0 Hdel _ _ _ _ _ Hcs Ech A1) as Hfl. cbn [app fst] in Hfl.
    change (map sd_name (filter (fun d => loadable sch st (sd_name d) x) (children_of sch r0))) with (flows_of sch st r0 x) in Hfl.
    cbn [fst snd] in H.
    destruct (fire (oc_vetoes oc) evs2 r0 Deleted x _) as [evs3|e] eqn:Ef; cbn [bind] in H; [|discriminate].
    destruct (fire_flows oc x flows evs3) as [evs4|e] eqn:Eff; cbn [bind] in H; [|discriminate].
    inversion H; subst stev'. clear H.
    apply fire_spec in Ef as [_ ->]. apply fire_flows_spec in Eff. subst evs4.
    eapply Step_trans; [eapply Step_weaken; [|exact H12]; lia|].
    destruct H12 as [_ [_ [S02 _]]]. cbn [fst] in S02.
    exists (del_events sch st r0 x). cbn [fst snd]. split; [|split; [|split]].
    - unfold del_events. rewrite <- Hfl. rewrite <- app_assoc. reflexivity.
    - apply del_ent_shrink.
    - intros e. unfold expected_delete. destruct (ev_change e) eqn:Ec.
      + apply count_ev_zero. intros Hin. apply (del_events_in st r0 x e Hr0) in Hin as [Hd _]. congruence.
      + apply count_ev_zero. intros Hin. apply (del_events_in st r0 x e Hr0) in Hin as [Hd _]. congruence.
      + unfold vanished. rewrite alive_del_ent.
        destruct (str_eqb r0 (root_of sch (ev_store e)) && str_eqb x (ev_id e)) eqn:E.
        * apply andb_prop in E as [E1 E2]. apply str_eqb_eq in E1, E2. rewrite <- E1, <- E2, A2. cbn [andb negb].
          rewrite (del_events_shrink st st2 r0 x S02 A2). reflexivity.
        * rewrite andb_negb_r. apply count_ev_zero. intros Hin.
          apply (del_events_in st r0 x e Hr0) in Hin as [_ [Hi Hr]]. rewrite Hr, Hi, !str_eqb_refl in E. discriminate.
    - intros r i A A'. rewrite alive_del_ent in A'.
      destruct (str_eqb r0 r && str_eqb x i) eqn:E; [|congruence].
      apply andb_prop in E as [E1 _]. apply str_eqb_eq in E1. subst r. unfold k0. lia.
  Qed.
End Ranked.

(* ================================================================ operations, bodies, transactions *)
Section Transactions.
  Variable sch : schema.
  Variable rk : name -> nat.
  Hypothesis Hroots : forall x, root_of sch (root_of sch x) = root_of sch x.
  Hypothesis Hrootnc : forall x, is_child sch (root_of sch x) = false.
  Hypothesis Hchildren : forall r0 d, In d (children_of sch r0) -> root_of sch (sd_name d) = r0.
  Hypothesis Hrank : forall s' rs f, In (CFkCascade rs f CascDelete) (cons_of sch s') ->
                                     (rk (root_of sch s') < rk (root_of sch rs))%nat.

  (* every successful operation appends exactly its expected multiset *)
  Lemma run_op_events fuel oc st evs o st' evs' :
    run_op sch fuel oc (st, evs) o = Ok (st', evs') ->
    exists new, evs' = evs ++ new /\ forall e, count_ev e new = expected_op sch st st' o e.
  Proof.
    destruct o as [s i sys fv sv|s i fv sv ch|s i|s i lf ts|s i lf ts|]; cbn [run_op]; intros H.
    - apply op_create_events in H. eexists. split; [exact H | reflexivity].
    - apply op_update_events in H. eexists. split; [exact H | reflexivity].
    - destruct (delete_step sch oc rk Hroots Hrootnc Hchildren Hrank fuel _ _ _ _ H) as [new [E [_ [C _]]]].
      exists new. split; [exact E | exact C].
    - cbn [fst snd] in H. destruct (op_add_links sch st s i lf ts); cbn [bind] in H; [|discriminate]. inversion H; subst.
      exists []. rewrite app_nil_r. split; reflexivity.
    - cbn [fst snd] in H. destruct (op_remove_links sch st s i lf ts); cbn [bind] in H; [|discriminate]. inversion H; subst.
      exists []. rewrite app_nil_r. split; reflexivity.
    - discriminate.
  Qed.

  Lemma run_ops_events fuel oc : forall ops st evs rs st' evs',
    run_ops sch fuel oc (st, evs) ops = (rs, Ok (st', evs')) ->
    exists new, evs' = evs ++ new /\
                forall e, count_ev e new = expected_events sch (op_trace sch fuel oc (st, evs) ops) e.
  Proof.
    induction ops as [|o ops IH]; intros st evs rs st' evs' H; cbn [run_ops op_trace] in *.
    - inversion H; subst. exists []. rewrite app_nil_r. split; reflexivity.
    - destruct (run_op sch fuel oc (st, evs) o) as [[st1 evs1]|k] eqn:Ho; [|inversion H].
      destruct (run_ops sch fuel oc (st1, evs1) ops) as [rs1 fin1] eqn:Hr. inversion H; subst. clear H.
      destruct (run_op_events _ _ _ _ _ _ _ Ho) as [n1 [-> C1]].
      destruct (IH _ _ _ _ _ Hr) as [n2 [-> C2]].
      exists (n1 ++ n2). split; [rewrite app_assoc; reflexivity|].
      intros e. rewrite count_ev_app, C1, C2. cbn [expected_events fold_right fst]. reflexivity.
  Qed.

  Lemma events_exactly_once_lemma fuel st t rs st' evs :
    run_tx sch fuel st t = (rs, true, st', evs) ->
    forall e, count_ev e evs = expected_events sch (tx_trace sch fuel st t) e.
  Proof.
    intros H. apply run_tx_commit_lemma in H as [_ H]. unfold tx_trace.
    destruct (run_ops sch fuel _ (st, []) (tx_ops t)) as [rs0 fin] eqn:Hr. cbn [snd] in H. subst fin.
    destruct (run_ops_events _ _ _ _ _ _ _ _ Hr) as [new [E C]]. cbn [app] in E. subst new. exact C.
  Qed.

  (* ---- what a positive expectation means ---- *)
  Lemma expected_op_in st st' o e :
    (0 < expected_op sch st st' o e)%nat <->
    match o with
    | OCreate s i _ _ _ => In e (ev_cu sch s Created i)
    | OUpdate s i _ _ _ => In e (ev_cu sch (update_target sch st s i) Updated i)
    | ODelete _ _ => ev_change e = Deleted /\ vanished st st' (root_of sch (ev_store e)) (ev_id e) = true /\
                     In e (del_events sch st (root_of sch (ev_store e)) (ev_id e))
    | _ => False
    end.
  Proof.
    destruct o; cbn [expected_op]; try apply count_ev_pos; try (split; [lia | contradiction]).
    unfold expected_delete. destruct (ev_change e); try (split; [lia | intros [H _]; discriminate]).
    destruct (vanished st st' _ _).
    - rewrite count_ev_pos. split; [intros H; repeat split; exact H | intros [_ [_ H]]; exact H].
    - split; [lia | intros [_ [H _]]; discriminate].
  Qed.

  Lemma expected_events_pos tr e :
    (0 < expected_events sch tr e)%nat -> exists st o st', In (st, o, st') tr /\ (0 < expected_op sch st st' o e)%nat.
  Proof.
    induction tr as [|[[st o] st'] tr IH]; cbn [expected_events fold_right]; [lia|]. intros H.
    destruct (expected_op sch st st' o e) eqn:E.
    - destruct (IH H) as [a [b [c [Hin Hp]]]]. exists a, b, c. split; [right; exact Hin | exact Hp].
    - exists st, o, st'. split; [left; reflexivity | lia].
  Qed.

  Lemma op_trace_in fuel oc : forall ops stev st o st',
    In (st, o, st') (op_trace sch fuel oc stev ops) ->
    In o ops /\ exists evs evs', run_op sch fuel oc (st, evs) o = Ok (st', evs').
  Proof.
    induction ops as [|o0 ops IH]; intros stev st o st' H; cbn [op_trace] in H; [contradiction|].
    destruct (run_op sch fuel oc stev o0) as [stev1|k] eqn:Ho; [|contradiction].
    destruct H as [H|H].
    - inversion H; subst. split; [left; reflexivity|]. exists (snd stev), (snd stev1).
      destruct stev, stev1. exact Ho.
    - destruct (IH _ _ _ _ H) as [A B]. split; [right; exact A | exact B].
  Qed.

  (* every delivered event stems from a successful operation of that transaction *)
  Lemma events_only_from_ops_lemma fuel st t rs st' evs e :
    run_tx sch fuel st t = (rs, true, st', evs) -> In e evs ->
    exists st0 o st1, In o (tx_ops t) /\ In (st0, o, st1) (tx_trace sch fuel st t) /\
                      (exists q q', run_op sch fuel (mkOctx (tx_sys t) (tx_vetoes t)) (st0, q) o = Ok (st1, q')) /\
                      (0 < expected_op sch st0 st1 o e)%nat.
  Proof.
    intros H Hin. pose proof (events_exactly_once_lemma _ _ _ _ _ _ H e) as C.
    apply count_ev_pos in Hin. rewrite C in Hin.
    destruct (expected_events_pos _ _ Hin) as [st0 [o [st1 [Ht Hp]]]].
    unfold tx_trace in Ht. destruct (op_trace_in _ _ _ _ _ _ _ Ht) as [Ho Hrun].
    exists st0, o, st1. repeat split; assumption.
  Qed.

  (* ---- child and parent stores ---- *)
  Lemma update_in_present oc st evs s i fv sv ch st' evs' :
    update_in sch oc (st, evs) s i fv sv ch = Ok (st', evs') -> present sch st s i = true.
  Proof.
    unfold update_in. destruct (negb (nonempty i)); [discriminate|]. destruct (negb (loadable sch st s i)); [discriminate|].
    destruct (present sch st s i); [reflexivity | discriminate].
  Qed.

  Lemma ev_cu_in s c i e : In e (ev_cu sch s c i) ->
    e = mkEvent s c i false \/ (is_child sch s = true /\ e = mkEvent (root_of sch s) c i true).
  Proof.
    unfold ev_cu. destruct (is_child sch s); cbn; intros [H|H]; try contradiction; subst; auto.
    destruct H as [H|[]]. subst. auto.
  Qed.

  (* an event on a plain (not extended) child store: the entity has that store's data, or is being
     created through that store - a plain parent entity never produces one *)
  Lemma plain_child_event_needs_data fuel oc st evs o st' new e :
    run_op sch fuel oc (st, evs) o = Ok (st', evs ++ new) -> In e new ->
    is_child sch (ev_store e) = true -> is_ext sch (ev_store e) = false ->
    (exists sys fv sv, o = OCreate (ev_store e) (ev_id e) sys fv sv) \/ present sch st (ev_store e) (ev_id e) = true.
  Proof.
    intros H Hin Hc Hx.
    destruct (run_op_events _ _ _ _ _ _ _ H) as [new' [E C]]. apply app_inv_head in E. subst new'.
    apply count_ev_pos in Hin. rewrite C in Hin. apply expected_op_in in Hin.
    destruct o as [s i sys fv sv|s i fv sv ch|s i|s i lf ts|s i lf ts|]; try contradiction.
    - apply ev_cu_in in Hin as [->|[_ ->]]; cbn [ev_store ev_id] in *.
      + left. exists sys, fv, sv. reflexivity.
      + rewrite Hrootnc in Hc. discriminate.
    - right. apply ev_cu_in in Hin as [->|[_ ->]]; cbn [ev_store ev_id] in *.
      + cbn [run_op] in H. unfold op_update in H. unfold update_target in *.
        destruct (find_store sch s); [|discriminate]. destruct (is_child sch s) eqn:Ecs.
        * eapply update_in_present; eauto.
        * cbn [fst] in H. destruct (find (fun d => present sch st (sd_name d) i) (children_of sch s)) as [d|] eqn:Ef.
          -- eapply update_in_present; eauto.
          -- congruence.
      + rewrite Hrootnc in Hc. discriminate.
    - right. destruct Hin as [_ [_ Hin]]. destruct Hin as [Heq|Hin].
      + apply (f_equal ev_store) in Heq. cbn [ev_store] in Heq. rewrite <- Heq, Hrootnc in Hc. discriminate.
      + apply in_map_iff in Hin as [c [Heq Hfl]]. apply (f_equal ev_store) in Heq. cbn [ev_store] in Heq. subst c.
        unfold flows_of in Hfl. apply in_map_iff in Hfl as [d [Hn Hd]]. apply filter_In in Hd as [Hd Hl].
        rewrite Hn in Hl. unfold loadable in Hl. rewrite Hx in Hl. cbn [andb] in Hl. rewrite orb_false_r in Hl. exact Hl.
  Qed.
End Transactions.

(* ================================================================ the boolean schema check *)
Lemma find_store_some_in sch x d : find_store sch x = Some d -> In d sch /\ sd_name d = x.
Proof.
  induction sch as [|d0 sch IH]; cbn; [discriminate|].
  destruct (str_eqb (sd_name d0) x) eqn:E.
  - intros H; inversion H; subst. apply str_eqb_eq in E. split; [left; reflexivity | exact E].
  - intros H. destruct (IH H) as [A B]. split; [right; exact A | exact B].
Qed.

Lemma names_nodup_find sch d : names_nodup (map sd_name sch) = true -> In d sch -> find_store sch (sd_name d) = Some d.
Proof.
  induction sch as [|d0 sch IH]; cbn; intros Hn Hin; [contradiction|].
  apply andb_prop in Hn as [Hn1 Hn2]. destruct Hin as [->|Hin].
  - rewrite str_eqb_refl. reflexivity.
  - destruct (str_eqb (sd_name d0) (sd_name d)) eqn:E; [|apply IH; assumption].
    exfalso. apply negb_true_iff in Hn1.
    assert (existsb (str_eqb (sd_name d0)) (map sd_name sch) = true) as Hm.
    { apply existsb_exists. exists (sd_name d). split; [apply in_map; exact Hin | exact E]. }
    congruence.
Qed.

Theorem wf_events_b_sound sch rkl : wf_events_b sch rkl = true ->
  (forall x, root_of sch (root_of sch x) = root_of sch x) /\
  (forall x, is_child sch (root_of sch x) = false) /\
  (forall r0 d, In d (children_of sch r0) -> root_of sch (sd_name d) = r0) /\
  (forall s' rs f, In (CFkCascade rs f CascDelete) (cons_of sch s') ->
                   (rank_of rkl (root_of sch s') < rank_of rkl (root_of sch rs))%nat) /\
  (forall r0 d, In d (children_of sch r0) -> is_child sch (sd_name d) = true).
Proof.
  unfold wf_events_b. intros H. apply andb_prop in H as [H H3]. apply andb_prop in H as [H1 H2].
  assert (Hcase : forall x, (root_of sch x = x /\ is_child sch x = false) \/
                            (exists p, root_of sch x = p /\ is_child sch p = false)).
  { intros x. unfold root_of, is_child. destruct (find_store sch x) as [d|] eqn:Ef; [|left; split; reflexivity].
    destruct (sd_parent d) as [p|] eqn:Ep; [|left; split; reflexivity].
    right. exists p. split; [reflexivity|]. destruct (find_store_some_in _ _ _ Ef) as [Hin _].
    rewrite forallb_forall in H2. specialize (H2 d Hin). rewrite Ep in H2. apply negb_true_iff in H2. exact H2. }
  assert (Hnc : forall p, is_child sch p = false -> root_of sch p = p).
  { intros p Hp. unfold is_child in Hp. unfold root_of. destruct (find_store sch p) as [dp|]; [|reflexivity].
    destruct (sd_parent dp); [discriminate | reflexivity]. }
  split; [|split; [|split; [|split]]].
  - intros x. destruct (Hcase x) as [[Hx _]|[p [Hx Hp]]]; rewrite Hx; [exact Hx | apply Hnc; exact Hp].
  - intros x. destruct (Hcase x) as [[Hx Hc]|[p [Hx Hp]]]; rewrite Hx; assumption.
  - intros r0 d Hin. unfold children_of in Hin. apply filter_In in Hin as [Hin Hp].
    destruct (sd_parent d) as [p|] eqn:Ep; [|discriminate]. apply str_eqb_eq in Hp. subst p.
    unfold root_of. rewrite (names_nodup_find _ _ H1 Hin), Ep. reflexivity.
  - intros s' rs f Hin. unfold cons_of in Hin. destruct (find_store sch s') as [d|] eqn:Ef; [|contradiction].
    destruct (find_store_some_in _ _ _ Ef) as [Hd Hn]. rewrite forallb_forall in H3. specialize (H3 d Hd).
    rewrite forallb_forall in H3. specialize (H3 _ Hin). cbn in H3. rewrite Hn in H3. apply Nat.ltb_lt in H3. exact H3.
  - intros r0 d Hin. unfold children_of in Hin. apply filter_In in Hin as [Hin Hp].
    destruct (sd_parent d) as [p|] eqn:Ep; [|discriminate].
    unfold is_child. rewrite (names_nodup_find _ _ H1 Hin), Ep. reflexivity.
Qed.

(* ================================================================ listeners *)
Lemma adapter_fires_spec t c : adapter_fires t c = change_eqb (et_change t) c.
Proof. destruct t, c; reflexivity. Qed.

Lemma invocations_single l t c :
  style_filters (l_style l) = true -> l_types l = [t] ->
  invocations l c = if change_eqb (et_change t) c then [et_is_async t] else [].
Proof.
  intros Hs Ht. unfold invocations. rewrite Hs, Ht. cbn [filter]. rewrite adapter_fires_spec.
  destruct (change_eqb (et_change t) c); reflexivity.
Qed.

(* a listener registered for one change type receives exactly the events of that type on its store,
   each once, all in the mode (sync / async) it asked for *)
Lemma delivered_to_single l t evs :
  style_filters (l_style l) = true -> l_types l = [t] ->
  delivered_to l evs =
  map (fun e => (e, et_is_async t))
      (filter (fun e => str_eqb (ev_store e) (l_store l) && change_eqb (et_change t) (ev_change e)) evs).
Proof.
  intros Hs Ht. unfold delivered_to. induction evs as [|e evs IH]; [reflexivity|]. cbn [flat_map filter].
  rewrite IH, (invocations_single l t _ Hs Ht). destruct (str_eqb (ev_store e) (l_store l)); [|reflexivity].
  cbn [andb]. destruct (change_eqb (et_change t) (ev_change e)); reflexivity.
Qed.

(* a constraint sees every event of its store, synchronously *)
Lemma delivered_to_constraint l evs :
  style_filters (l_style l) = false ->
  delivered_to l evs = map (fun e => (e, false)) (filter (fun e => str_eqb (ev_store e) (l_store l)) evs).
Proof.
  intros Hs. unfold delivered_to, invocations. rewrite Hs. induction evs as [|e evs IH]; [reflexivity|]. cbn [flat_map filter].
  rewrite IH. destruct (str_eqb (ev_store e) (l_store l)); reflexivity.
Qed.

Lemma count_ev_filter e p l : count_ev e (filter p l) = if p e then count_ev e l else 0%nat.
Proof.
  induction l as [|x l IH]; [destruct (p e); reflexivity|]. cbn [filter]. destruct (p x) eqn:Px.
  - rewrite !count_ev_cons, IH. destruct (event_eqb e x) eqn:E.
    + apply event_eqb_eq in E. subst x. rewrite Px. reflexivity.
    + destruct (p e); reflexivity.
  - rewrite IH, count_ev_cons. destruct (event_eqb e x) eqn:E.
    + apply event_eqb_eq in E. subst x. rewrite Px. reflexivity.
    + reflexivity.
Qed.

Lemma listener_count_lemma l t evs e :
  style_filters (l_style l) = true -> l_types l = [t] ->
  count_ev e (map fst (delivered_to l evs)) =
  if str_eqb (ev_store e) (l_store l) && change_eqb (et_change t) (ev_change e) then count_ev e evs else 0%nat.
Proof.
  intros Hs Ht. rewrite (delivered_to_single l t evs Hs Ht), map_map. cbn [fst]. rewrite map_id. apply count_ev_filter.
Qed.

Lemma constraint_count_lemma l evs e :
  style_filters (l_style l) = false ->
  count_ev e (map fst (delivered_to l evs)) = if str_eqb (ev_store e) (l_store l) then count_ev e evs else 0%nat.
Proof.
  intros Hs. rewrite (delivered_to_constraint l evs Hs), map_map. cbn [fst]. rewrite map_id. apply count_ev_filter.
Qed.

(* ================================================================ the state a listener receives *)
Lemma run_ops_v_views sch fuel oc : forall ops stev acc rs stev' sevs,
  run_ops_v sch fuel oc stev ops acc = (rs, Ok (stev', sevs)) ->
  exists added, sevs = acc ++ added /\
    Forall (fun se => exists st0 o st1, In (st0, o, st1) (op_trace sch fuel oc stev ops) /\ se = attach sch st0 st1 (se_ev se)) added.
Proof.
  induction ops as [|o ops IH]; intros stev acc rs stev' sevs H; cbn [run_ops_v op_trace] in *.
  - inversion H; subst. exists []. rewrite app_nil_r. split; [reflexivity | constructor].
  - destruct (run_op sch fuel oc stev o) as [stev1|k] eqn:Ho; [|inversion H].
    destruct (run_ops_v sch fuel oc stev1 ops _) as [rs1 fin1] eqn:Hr. inversion H; subst. clear H.
    destruct (IH _ _ _ _ _ Hr) as [added [-> Hall]].
    exists (map (attach sch (fst stev) (fst stev1)) (skipn (length (snd stev)) (snd stev1)) ++ added).
    split; [rewrite app_assoc; reflexivity|]. apply Forall_app. split.
    + apply Forall_forall. intros se Hin. apply in_map_iff in Hin as [e [<- _]].
      exists (fst stev), o, (fst stev1). split; [left; reflexivity | reflexivity].
    + eapply Forall_impl; [|exact Hall]. intros se [st0 [o0 [st1 [Hin Hse]]]].
      exists st0, o0, st1. split; [right; exact Hin | exact Hse].
Qed.

(* every delivered entity state is the state right after the operation that caused the event
   (create / update: FinalState) or right before it (delete: InitialState = last state) *)
Lemma delivered_state_lemma sch fuel st t se :
  In se (to_events (run_tx_v sch fuel st t)) ->
  exists st0 o st1, In (st0, o, st1) (tx_trace sch fuel st t) /\
    se_view se = ent_view sch (match ev_change (se_ev se) with Deleted => st0 | _ => st1 end)
                          (ev_store (se_ev se)) (ev_id (se_ev se)).
Proof.
  unfold run_tx_v, tx_trace.
  destruct (run_ops_v sch fuel _ (st, []) (tx_ops t) []) as [rs fin] eqn:Hr.
  destruct fin as [[[st' evs] sevs]|k]; [|cbn; contradiction].
  destruct (tx_precommit_fails t); cbn [to_events]; [contradiction|]. intros Hin.
  destruct (run_ops_v_views _ _ _ _ _ _ _ _ _ Hr) as [added [E Hall]]. cbn [app] in E. subst added.
  rewrite Forall_forall in Hall. destruct (Hall se Hin) as [st0 [o [st1 [Ht Hse]]]].
  exists st0, o, st1. split; [exact Ht|]. rewrite Hse at 1. reflexivity.
Qed.

(* ================================================================ statements for well-formed schemas *)
Section WellFormed.
  Variable sch : schema.
  Variable rkl : list (name * nat).
  Hypothesis Hwf : wf_events_b sch rkl = true.

  Let H1 := proj1 (wf_events_b_sound sch rkl Hwf).
  Let H2 := proj1 (proj2 (wf_events_b_sound sch rkl Hwf)).
  Let H3 := proj1 (proj2 (proj2 (wf_events_b_sound sch rkl Hwf))).
  Let H4 := proj1 (proj2 (proj2 (proj2 (wf_events_b_sound sch rkl Hwf)))).
  Let H5 := proj2 (proj2 (proj2 (proj2 (wf_events_b_sound sch rkl Hwf)))).

  Lemma events_exactly_once_wf fuel st t rs st' evs :
    run_tx sch fuel st t = (rs, true, st', evs) ->
    forall e, count_ev e evs = expected_events sch (tx_trace sch fuel st t) e.
  Proof. exact (events_exactly_once_lemma sch (rank_of rkl) H1 H2 H3 H4 fuel st t rs st' evs). Qed.

  (* as a multiset: a list is a permutation of the delivered events iff it has the expected counts *)
  Lemma events_exactly_once_perm_wf fuel st t rs st' evs l :
    run_tx sch fuel st t = (rs, true, st', evs) ->
    (Permutation evs l <-> forall e, count_ev e l = expected_events sch (tx_trace sch fuel st t) e).
  Proof.
    intros H. pose proof (events_exactly_once_wf _ _ _ _ _ _ H) as C. rewrite <- count_ev_permutation. split.
    - intros Hp e. rewrite <- Hp. apply C.
    - intros Hl e. rewrite Hl. apply C.
  Qed.

  Lemma events_only_from_ops_wf fuel st t rs st' evs e :
    run_tx sch fuel st t = (rs, true, st', evs) -> In e evs ->
    exists st0 o st1, In o (tx_ops t) /\ In (st0, o, st1) (tx_trace sch fuel st t) /\
                      (exists q q', run_op sch fuel (mkOctx (tx_sys t) (tx_vetoes t)) (st0, q) o = Ok (st1, q')) /\
                      (0 < expected_op sch st0 st1 o e)%nat.
  Proof. exact (events_only_from_ops_lemma sch (rank_of rkl) H1 H2 H3 H4 fuel st t rs st' evs e). Qed.

  Lemma run_op_events_wf fuel oc st evs o st' evs' :
    run_op sch fuel oc (st, evs) o = Ok (st', evs') ->
    exists new, evs' = evs ++ new /\ forall e, count_ev e new = expected_op sch st st' o e.
  Proof. exact (run_op_events sch (rank_of rkl) H1 H2 H3 H4 fuel oc st evs o st' evs'). Qed.

  Lemma no_child_event_for_plain_parent_wf fuel oc st evs o st' new c i :
    is_child sch c = true -> is_ext sch c = false ->
    present sch st c i = false -> (forall sys fv sv, o <> OCreate c i sys fv sv) ->
    run_op sch fuel oc (st, evs) o = Ok (st', evs ++ new) ->
    forall e, In e new -> ~ (ev_store e = c /\ ev_id e = i).
  Proof.
    intros Hc Hx Hp Ho H e Hin [Es Ei]. subst c i.
    destruct (plain_child_event_needs_data sch (rank_of rkl) H1 H2 H3 H4 fuel oc st evs o st' new e H Hin Hc Hx)
      as [[sys [fv [sv Heq]]]|Hpr]; [exact (Ho _ _ _ Heq) | congruence].
  Qed.

  (* the root event of a removal is there exactly once *)
  Lemma del_events_root_count st r i :
    root_of sch r = r ->
    count_ev (mkEvent r Deleted i (match flows_of sch st r i with [] => false | _ => true end)) (del_events sch st r i) = 1%nat.
  Proof.
    intros Hr. unfold del_events. rewrite count_ev_cons, event_eqb_refl.
    rewrite count_ev_zero; [reflexivity|]. intros Hin. apply in_map_iff in Hin as [c [Heq Hc]].
    inversion Heq; subst c. unfold flows_of in Hc. apply in_map_iff in Hc as [d [Hn Hd]]. apply filter_In in Hd as [Hd _].
    pose proof (H5 r d Hd) as Hcc. rewrite Hn in Hcc. pose proof (H2 r) as Hnc. rewrite Hr in Hnc. congruence.
  Qed.

  (* (d) a delete - with every cascade it triggers - notifies the root store of EVERY entity that
     disappeared, exactly once, and of no entity that is still there *)
  Lemma cascade_delete_events_wf fuel oc st evs s x st' evs' :
    run_op sch fuel oc (st, evs) (ODelete s x) = Ok (st', evs') ->
    exists new, evs' = evs ++ new /\
      (forall r i, root_of sch r = r -> vanished st st' r i = true ->
         count_ev (mkEvent r Deleted i (match flows_of sch st r i with [] => false | _ => true end)) new = 1%nat) /\
      (forall e, In e new -> ev_change e = Deleted /\ vanished st st' (root_of sch (ev_store e)) (ev_id e) = true).
  Proof.
    intros H. destruct (run_op_events_wf _ _ _ _ _ _ _ H) as [new [E C]]. exists new. split; [exact E|]. split.
    - intros r i Hr Hv. rewrite C. cbn [expected_op]. unfold expected_delete. cbn [ev_change ev_store ev_id].
      rewrite Hr, Hv. apply del_events_root_count. exact Hr.
    - intros e Hin. apply count_ev_pos in Hin. rewrite C in Hin.
      apply (expected_op_in sch st st' (ODelete s x) e) in Hin. destruct Hin as [A [B _]]. split; assumption.
  Qed.
End WellFormed.

(* ---- parent events (every schema) ---- *)
Lemma parent_event_create_lemma sch oc st evs s i sys fv sv st' evs' :
  is_child sch s = true ->
  op_create sch oc (st, evs) s i sys fv sv = Ok (st', evs') ->
  evs' = evs ++ [mkEvent (root_of sch s) Created i true; mkEvent s Created i false].
Proof. intros Hc H. apply op_create_events in H. unfold ev_cu in H. rewrite Hc in H. exact H. Qed.

Lemma parent_event_update_lemma sch oc st evs s i fv sv ch st' evs' :
  is_child sch (update_target sch st s i) = true ->
  op_update sch oc (st, evs) s i fv sv ch = Ok (st', evs') ->
  evs' = evs ++ [mkEvent (root_of sch (update_target sch st s i)) Updated i true;
                 mkEvent (update_target sch st s i) Updated i false].
Proof. intros Hc H. apply op_update_events in H. unfold ev_cu in H. rewrite Hc in H. exact H. Qed.

Lemma root_change_single_event_lemma sch oc st evs s i sys fv sv st' evs' :
  is_child sch s = false ->
  op_create sch oc (st, evs) s i sys fv sv = Ok (st', evs') -> evs' = evs ++ [mkEvent s Created i false].
Proof. intros Hc H. apply op_create_events in H. unfold ev_cu in H. rewrite Hc in H. exact H. Qed.

(* ---- listener x transaction: the number of invocations of a listener for an event ---- *)
Lemma listener_invoked_exactly_once_lemma sch rkl fuel st t rs st' evs l ty e :
  wf_events_b sch rkl = true ->
  run_tx sch fuel st t = (rs, true, st', evs) ->
  style_filters (l_style l) = true -> l_types l = [ty] ->
  count_ev e (map fst (delivered_to l evs)) =
  (if str_eqb (ev_store e) (l_store l) && change_eqb (et_change ty) (ev_change e)
   then expected_events sch (tx_trace sch fuel st t) e else 0%nat) /\
  Forall (fun p => snd p = et_is_async ty) (delivered_to l evs).
Proof.
  intros Hwf H Hs Ht. split.
  - rewrite (listener_count_lemma l ty evs e Hs Ht), (events_exactly_once_wf sch rkl Hwf _ _ _ _ _ _ H). reflexivity.
  - rewrite (delivered_to_single l ty evs Hs Ht). apply Forall_forall. intros p Hin.
    apply in_map_iff in Hin as [x [<- _]]. reflexivity.
Qed.

Lemma constraint_invoked_exactly_once_lemma sch rkl fuel st t rs st' evs l e :
  wf_events_b sch rkl = true ->
  run_tx sch fuel st t = (rs, true, st', evs) ->
  style_filters (l_style l) = false ->
  count_ev e (map fst (delivered_to l evs)) =
  (if str_eqb (ev_store e) (l_store l) then expected_events sch (tx_trace sch fuel st t) e else 0%nat).
Proof.
  intros Hwf H Hs. rewrite (constraint_count_lemma l evs e Hs), (events_exactly_once_wf sch rkl Hwf _ _ _ _ _ _ H). reflexivity.
Qed.

Lemma no_deliveries_for_undone_work_lemma sch fuel st t rs st' evs l :
  run_tx sch fuel st t = (rs, false, st', evs) -> delivered_to l evs = [] /\ st' = st.
Proof. intros H. apply run_tx_all_or_nothing_lemma in H as [-> ->]. split; reflexivity. Qed.
