(* C16 (second strengthening): the system-entity constraint registered on a CHILD store only.

   boltz: NewSystemEntityEnforcementConstraint(child) looks the isSystem symbol up on the child store; with
   GrantSymbols that is the parent's symbol, so the flag is read from the ROOT entity bucket (where
   BaseExtEntity.SetBaseValues of the root strategy wrote it) - [get_field sch st c i isSystemF] for a child store
   that does not declare the field itself.  The constraint sits in the CHILD's constraint list, so it is consulted
   * on create / update entered through the child store (chain = parent's constraints, then the child's),
   * on update entered through the root store when the entity is routed to this child store,
   * on DeleteById - entered through ANY store of the family or by a cascade - in the child-store fan-out of the
     root's DeleteById, for every entity the child store can load (has child data, or the child store is Extended).
   What it therefore protects are the system entities OF THE CHILD STORE; a flagged entity of the root store that the
   child store does not hold is outside its reach (and an ordinary context may create one through the root store).

   Fixed: child store [c] with parent [r] (a root store), CSystem in the constraint list of [c], [c] does not declare
   a field named isSystem.  Boolean check [wf_system_child_b] at the end. *)
From Coq Require Import List NArith Bool Lia.
From Storage Require Import Base.Bytes Base.BytesFacts Store.Model Store.AListFacts Store.FrameProofs
  Store.TxProofs Store.DeleteFrame Store.SystemProofs Store.UniqueProofs Store.WfSchema.
Import ListNotations.

Lemma present_shrink_eq sch st st' s i :
  ents_shrink st st' -> get_ent st' (root_of sch s) i <> None -> present sch st' s i = present sch st s i.
Proof.
  intros H Hp. specialize (H (root_of sch s) i). unfold present.
  destruct (get_ent st' (root_of sch s) i) as [e'|]; [|congruence].
  destruct H as [e [-> [_ Hc]]]. rewrite Hc. reflexivity.
Qed.

Section ChildSystem.
  Variable sch : schema.
  Variable c r : name.
  Variable cd pd : sdef.
  Hypothesis Hfind : find_store sch c = Some cd.
  Hypothesis Hparent : sd_parent cd = Some r.
  Hypothesis Hrfind : find_store sch r = Some pd.
  Hypothesis Hrroot : sd_parent pd = None.
  Hypothesis Hsys : In CSystem (sd_cons cd).
  Hypothesis Hnofield : declares_field cd isSystemF = false.

  Lemma root_c : root_of sch c = r.
  Proof. unfold root_of. rewrite Hfind, Hparent. reflexivity. Qed.
  Lemma root_r : root_of sch r = r.
  Proof. unfold root_of. rewrite Hrfind, Hrroot. reflexivity. Qed.
  Lemma child_c : is_child sch c = true.
  Proof. unfold is_child. rewrite Hfind, Hparent. reflexivity. Qed.
  Lemma child_r : is_child sch r = false.
  Proof. unfold is_child. rewrite Hrfind, Hrroot. reflexivity. Qed.
  Lemma cons_c : cons_of sch c = sd_cons cd.
  Proof. unfold cons_of. rewrite Hfind. reflexivity. Qed.
  Lemma chain_c : chain sch c = [(r, cons_of sch r); (c, cons_of sch c)].
  Proof. unfold chain. rewrite child_c, root_c. reflexivity. Qed.
  Lemma sys_in_c : In CSystem (cons_of sch c).
  Proof. rewrite cons_c. exact Hsys. Qed.

  Lemma cd_child : In cd (children_of sch r) /\ sd_name cd = c.
  Proof.
    destruct (find_store_in _ _ _ Hfind) as [Hin Hn]. split; [|exact Hn].
    unfold children_of. apply filter_In. split; [exact Hin|]. rewrite Hparent. apply str_eqb_refl.
  Qed.

  (* the flag the constraint of c reads, and the two protected classes *)
  Definition cflagged (st : state) (i : id) : Prop := get_field sch st c i isSystemF = FBool true.
  Definition uprot (st : state) (i : id) : Prop := cflagged st i /\ present sch st c i = true.
  Definition dprot (st : state) (i : id) : Prop := cflagged st i /\ loadable sch st c i = true.

  Lemma cflag_unfold st i :
    get_field sch st c i isSystemF = match get_ent st r i with Some e => ent_field e isSystemF | None => FAbsent end.
  Proof.
    unfold get_field. rewrite root_c, Hfind, child_c, Hnofield. cbn [andb]. reflexivity.
  Qed.

  Lemma cflagged_get_ent st i : cflagged st i -> get_ent st r i <> None.
  Proof. unfold cflagged. rewrite cflag_unfold. destruct (get_ent st r i); [congruence | discriminate]. Qed.

  Lemma uprot_dprot st i : uprot st i -> dprot st i.
  Proof. intros [H1 H2]. split; [exact H1|]. unfold loadable. rewrite H2. reflexivity. Qed.

  Lemma loadable_c st i : loadable sch st c i = present sch st c i || (is_ext sch c && present sch st r i).
  Proof. unfold loadable. rewrite root_c. reflexivity. Qed.

  (* everything [dprot] reads lives in the root entity (r, i) *)
  Lemma dprot_ent_eq st st' i : get_ent st' r i = get_ent st r i -> (dprot st' i <-> dprot st i).
  Proof.
    intros E. unfold dprot, cflagged. rewrite !cflag_unfold, !loadable_c.
    assert (Hpc : present sch st' c i = present sch st c i) by (unfold present; rewrite root_c, E; reflexivity).
    assert (Hpr : present sch st' r i = present sch st r i) by (unfold present; rewrite root_r, E; reflexivity).
    rewrite E, Hpc, Hpr. tauto.
  Qed.

  Lemma dprot_fc st st' i : ents_fc_eq st st' -> dprot st i -> dprot st' i.
  Proof.
    intros H [Hf Hl]. pose proof (H r i) as Hri.
    split.
    - unfold cflagged. rewrite (get_field_fc sch st st' c i isSystemF); [exact Hf | rewrite root_c; exact Hri].
    - rewrite loadable_c in *. rewrite (present_fc sch st st' c i) by (rewrite root_c; exact Hri).
      rewrite (present_fc sch st st' r i) by (rewrite root_r; exact Hri). exact Hl.
  Qed.

  Lemma dprot_shrink_back st st' i : ents_shrink st st' -> get_ent st' r i <> None -> dprot st' i -> dprot st i.
  Proof.
    intros H Hp [Hf Hl]. split.
    - unfold cflagged. rewrite <- (get_field_shrink sch st st' c i isSystemF H); [exact Hf | rewrite root_c; exact Hp].
    - rewrite loadable_c in *.
      rewrite <- (present_shrink_eq sch st st' c i H) by (rewrite root_c; exact Hp).
      rewrite <- (present_shrink_eq sch st st' r i H) by (rewrite root_r; exact Hp). exact Hl.
  Qed.

  (* entities only disappear, survivors keep fields and child data, and no protected entity disappears *)
  Definition SKc (st st' : state) : Prop := ents_shrink st st' /\ (forall i, dprot st i -> dprot st' i).

  Lemma SKc_refl a : SKc a a.
  Proof. split; [apply ents_shrink_refl | intros i H; exact H]. Qed.
  Lemma SKc_trans a b d : SKc a b -> SKc b d -> SKc a d.
  Proof. intros [A1 A2] [B1 B2]. split; [eapply ents_shrink_trans; eauto | intros i H; apply B2, A2, H]. Qed.
  Lemma SKc_fc a b : ents_fc_eq a b -> SKc a b.
  Proof. intros H. split; [apply ents_fc_eq_shrink; exact H | intros i; apply dprot_fc; exact H]. Qed.

  Section Ordinary.
    Variable oc : octx.
    Hypothesis Hord : oc_sys oc = false.

    Definition DelSysC (del : st_ev -> name -> id -> res st_ev) : Prop :=
      forall stev s0 x stev', del stev s0 x = Ok stev' ->
        SKc (fst stev) (fst stev') /\ (root_of sch s0 = r -> ~ dprot (fst stev) x).

    Lemma DelSysC_DelR del : DelSysC del -> DelR SKc del.
    Proof. intros H stev s0 x stev' E. apply (H _ _ _ _ E). Qed.

    Lemma bd_all_sysc del ctx : DelR SKc del -> ic_store ctx = c -> forall ks st evs st' evs',
      In CSystem ks -> before_delete_all sch oc del (st, evs) ctx ks = Ok (st', evs') -> ~ dprot st (ic_id ctx).
    Proof.
      intros Hdel Hs. induction ks as [|k ks IH]; intros st evs st' evs' Hin H; [contradiction|].
      cbn [before_delete_all] in H.
      destruct (before_delete_one sch oc del (st, evs) ctx k) as [[st1 evs1]|e] eqn:E1; cbn [bind] in H; [|discriminate].
      intros Hf. destruct (cons_eq_sys k) as [->|Hk].
      - cbn [before_delete_one] in E1. rewrite Hs in E1. destruct Hf as [Hf _]. unfold cflagged in Hf.
        rewrite Hf, Hord in E1. discriminate.
      - destruct Hin as [->|Hin]; [congruence|].
        apply (IH st1 evs1 st' evs' Hin H).
        apply (bd_one_R sch oc SKc SKc_refl SKc_trans SKc_fc del st evs ctx k st1 evs1 Hdel E1). exact Hf.
    Qed.

    Lemma process_delete_sysc del st evs x st' evs' : DelR SKc del ->
      process_delete sch oc del (st, evs) c x = Ok (st', evs') -> ~ dprot st x.
    Proof.
      intros Hdel H. unfold process_delete in H. rewrite chain_c in H. cbn [before_delete_chain] in H.
      destruct (before_delete_all sch oc del (st, evs) _ (cons_of sch r)) as [[st1 evs1]|e] eqn:E1; cbn [bind] in H; [|discriminate].
      destruct (before_delete_all sch oc del (st1, evs1) _ (cons_of sch c)) as [[st2 evs2]|e] eqn:E2; cbn [bind] in H; [|discriminate].
      intros Hf.
      apply (bd_all_sysc del (mkIctx false (oc_sys oc) c x) Hdel eq_refl _ _ _ _ _ sys_in_c E2).
      apply (bd_all_R sch oc SKc SKc_refl SKc_trans SKc_fc del _ Hdel _ _ _ _ _ E1). exact Hf.
    Qed.

    (* the child-store fan-out of DeleteById does not get past c for a protected entity *)
    Lemma children_delete_sysc del x : DelR SKc del -> forall cs cur flows cur' flows',
      In cd cs -> children_delete sch oc del x cs cur flows = Ok (cur', flows') -> ~ dprot (fst cur) x.
    Proof.
      intros Hdel. induction cs as [|d cs IH]; intros cur flows cur' flows' Hin H; [contradiction|].
      cbn [children_delete] in H. intros Hf.
      destruct (loadable sch (fst cur) (sd_name d) x) eqn:El.
      - destruct cur as [st evs]. cbn [fst] in *.
        destruct (process_delete sch oc del (st, evs) (sd_name d) x) as [[st1 evs1]|e] eqn:E1; cbn [bind] in H; [|discriminate].
        destruct Hin as [->|Hin].
        + rewrite (proj2 cd_child) in E1. apply (process_delete_sysc del _ _ _ _ _ Hdel E1). exact Hf.
        + apply (IH _ _ _ _ Hin H). cbn [fst].
          apply (process_delete_R sch oc SKc SKc_refl SKc_trans SKc_fc del _ _ _ _ _ _ Hdel E1). exact Hf.
      - destruct Hin as [->|Hin].
        + rewrite (proj2 cd_child) in El. destruct Hf as [_ Hl]. congruence.
        + apply (IH _ _ _ _ Hin H). exact Hf.
    Qed.

    Lemma get_ent_del_other st r' x i : (r' <> r \/ x <> i) -> get_ent (del_ent st r' x) r i = get_ent st r i.
    Proof.
      intros Hne. rewrite get_ent_del_ent.
      destruct (str_eqb r' r) eqn:E1; destruct (str_eqb x i) eqn:E2; cbn [andb]; try reflexivity.
      apply str_eqb_eq in E1, E2. destruct Hne; contradiction.
    Qed.

    Lemma delete_sysc : forall n, DelSysC (delete_by_id sch oc n).
    Proof.
      induction n as [|n IH]; intros stev s0 x stev' H; cbn [delete_by_id] in H; [discriminate|].
      pose proof (DelSysC_DelR _ IH) as IHR.
      destruct stev as [st evs]. cbn [fst] in *.
      set (r' := root_of sch s0) in *.
      destruct (present sch st r' x) eqn:Epx; cbn [negb] in H; [|discriminate].
      destruct (children_delete sch oc (delete_by_id sch oc n) x (children_of sch r') (st, evs) [])
        as [[[st1 evs1] flows]|e] eqn:Ech; cbn [bind] in H; [|discriminate].
      pose proof (children_delete_R sch oc SKc SKc_refl SKc_trans SKc_fc _ x IHR _ _ _ _ _ Ech) as H1. cbn [fst] in H1, H.
      assert (Hnot : r' = r -> ~ dprot st x).
      { intros Hrr. rewrite Hrr in Ech.
        apply (children_delete_sysc _ x IHR _ _ _ _ _ (proj1 cd_child) Ech). }
      destruct (present sch st1 r' x) eqn:Epx1; cbn [negb] in H.
      - destruct (process_delete sch oc (delete_by_id sch oc n) (st1, evs1) r' x) as [[st2 evs2]|e] eqn:Epd;
          cbn [bind] in H; [|discriminate].
        pose proof (process_delete_R sch oc SKc SKc_refl SKc_trans SKc_fc _ _ _ _ _ _ _ IHR Epd) as H2.
        cbn [fst snd] in H.
        destruct (fire (oc_vetoes oc) evs2 r' Deleted x _) as [evs3|e]; cbn [bind] in H; [|discriminate].
        destruct (fire_flows oc x flows evs3) as [evs4|e]; cbn [bind] in H; [|discriminate].
        inversion H; subst stev'. cbn [fst]. split; [|exact Hnot].
        eapply SKc_trans; [exact H1|]. eapply SKc_trans; [exact H2|]. split; [apply del_ent_shrink|].
        intros i Hf.
        destruct (str_eq_dec r' r) as [Hrr|Hrr]; [destruct (str_eq_dec x i) as [<-|Hxi]|].
        + exfalso. apply (Hnot Hrr).
          apply (dprot_shrink_back st st2 x); [eapply ents_shrink_trans; [exact (proj1 H1) | exact (proj1 H2)] | | exact Hf].
          apply cflagged_get_ent. exact (proj1 Hf).
        + apply (dprot_ent_eq st2 (del_ent st2 r' x) i); [apply get_ent_del_other; right; exact Hxi | exact Hf].
        + apply (dprot_ent_eq st2 (del_ent st2 r' x) i); [apply get_ent_del_other; left; exact Hrr | exact Hf].
      - inversion H; subst stev'. cbn [fst]. split; [exact H1 | exact Hnot].
    Qed.

    Lemma delete_refuses_c n st evs s0 x :
      root_of sch s0 = r -> dprot st x -> exists k, delete_by_id sch oc n (st, evs) s0 x = Err k.
    Proof.
      intros Hr Hf. destruct (delete_by_id sch oc n (st, evs) s0 x) as [stev'|k] eqn:E; [|eexists; reflexivity].
      exfalso. destruct (delete_sysc n _ _ _ _ E) as [_ Hn]. apply (Hn Hr). exact Hf.
    Qed.

    (* ---- update entered through c ---- *)
    Lemma before_update_all_ro st ctx ks : (exists svs, before_update_all sch st ctx ks = Ok svs) \/
                                             (exists k, before_update_all sch st ctx ks = Err k).
    Proof. destruct (before_update_all sch st ctx ks); [left | right]; eexists; reflexivity. Qed.

    Lemma update_in_refuses_c st evs i fv sv ch :
      cflagged st i -> exists k, update_in sch oc (st, evs) c i fv sv ch = Err k.
    Proof.
      intros Hf. unfold update_in.
      destruct (negb (nonempty i)); [eexists; reflexivity|].
      destruct (negb (loadable sch st c i)); [eexists; reflexivity|].
      destruct (negb (present sch st c i)); [eexists; reflexivity|].
      destruct (fire_cu sch oc evs c Updated i) as [evs1|e]; cbn [bind]; [|eexists; reflexivity].
      rewrite chain_c. cbn [before_chain].
      destruct (before_update_all sch st (mkIctx false (oc_sys oc) r i) (cons_of sch r)) as [svs|e]; cbn [bind];
        [|eexists; reflexivity].
      destruct (before_all_refuses sch c st (mkIctx false (oc_sys oc) c i) (cons_of sch c)) as [k ->];
        try reflexivity; try assumption; [exact sys_in_c|].
      cbn [bind]. eexists; reflexivity.
    Qed.

    (* ... and through the root store, which routes the entity to the child store that holds it *)
    Definition only_child (st : state) (i : id) : Prop :=
      forall d, In d (children_of sch r) -> present sch st (sd_name d) i = true -> sd_name d = c.

    Lemma op_update_refuses_c st evs s0 i fv sv ch :
      uprot st i -> (s0 = c \/ (s0 = r /\ only_child st i)) ->
      exists k, op_update sch oc (st, evs) s0 i fv sv ch = Err k.
    Proof.
      intros [Hf Hp] [->|[-> Honly]]; unfold op_update.
      - rewrite Hfind, child_c. apply update_in_refuses_c. exact Hf.
      - rewrite Hrfind, child_r. cbn [fst].
        destruct (find (fun d => present sch st (sd_name d) i) (children_of sch r)) as [d|] eqn:Efind.
        + apply find_some in Efind as [Hin Hpd]. rewrite (Honly d Hin Hpd). apply update_in_refuses_c. exact Hf.
        + exfalso. pose proof (find_none _ _ Efind cd (proj1 cd_child)) as Hn. cbn beta in Hn.
          rewrite (proj2 cd_child) in Hn. congruence.
    Qed.

    (* ---- create with the flag, entered through c ---- *)
    Lemma persist_c_flag fv sv ch e :
      ent_field (persist sch c true true fv sv ch e) isSystemF = FBool true.
    Proof.
      unfold persist. rewrite Hfind, Hparent, Hrfind. unfold ent_field. cbn [e_f andb].
      rewrite al_get_put_same. reflexivity.
    Qed.

    Lemma op_create_refuses_c st evs i fv sv :
      exists k, op_create sch oc (st, evs) c i true fv sv = Err k.
    Proof.
      unfold op_create. rewrite Hfind.
      destruct (negb (nonempty i)); [eexists; reflexivity|].
      destruct (present sch st c i); [eexists; reflexivity|].
      destruct (present sch st (root_of sch c) i); [eexists; reflexivity|].
      destruct (negb (key_ok i)); [eexists; reflexivity|].
      destruct (fire_cu sch oc evs c Created i) as [evs1|e]; cbn [bind]; [|eexists; reflexivity].
      rewrite chain_c, root_c. cbn [after_chain].
      set (st1 := set_ent st r i (persist sch c true true fv sv None ent_empty)).
      destruct (after_update_all sch st1 (mkIctx true (oc_sys oc) r i) (cons_of sch r) []) as [st2|e] eqn:E1; cbn [bind];
        [|eexists; reflexivity].
      destruct (after_all_refuses sch c (mkIctx true (oc_sys oc) c i) (cons_of sch c) [] st2) as [k ->];
        try reflexivity; try assumption; [exact sys_in_c| |cbn [bind]; eexists; reflexivity].
      unfold flagged, flag. cbn [ic_id].
      rewrite (get_field_fc sch st1 st2 c i isSystemF).
      - rewrite cflag_unfold. unfold st1. rewrite get_ent_set_ent, !str_eqb_refl. cbn [andb]. apply persist_c_flag.
      - rewrite root_c. apply (after_all_fc sch _ _ _ _ _ E1).
    Qed.
  End Ordinary.
End ChildSystem.

(* ================================================================ the boolean check of the schema *)
Definition wf_system_child_b (sch : schema) (c : name) : bool :=
  match find_store sch c with
  | Some cd =>
      match sd_parent cd with
      | Some r =>
          match find_store sch r with
          | Some pd =>
              match sd_parent pd with
              | None => nodupb (map sd_name sch) && existsb is_sys (sd_cons cd) && negb (declares_field cd isSystemF)
              | Some _ => false
              end
          | None => false
          end
      | None => false
      end
  | None => false
  end.

(* an operation aimed at a system entity OF THE CHILD STORE c:
   create with the flag through c; update - through c, or through the root store when c is the only child store holding
   the entity - of an entity whose stored flag is set and which has data in c; DeleteById through any store of the
   family of an entity whose stored flag is set and which c can load *)
Definition child_sys_target (sch : schema) (c : name) (st : state) (o : op) : Prop :=
  match o with
  | OCreate s0 _ sys _ _ => s0 = c /\ sys = true
  | OUpdate s0 i _ _ _ =>
      get_field sch st c i isSystemF = FBool true /\ present sch st c i = true /\
      (s0 = c \/ (s0 = root_of sch c /\
                  forall d, In d (children_of sch (root_of sch c)) -> present sch st (sd_name d) i = true -> sd_name d = c))
  | ODelete s0 i =>
      root_of sch s0 = root_of sch c /\ get_field sch st c i isSystemF = FBool true /\ loadable sch st c i = true
  | _ => False
  end.

Lemma child_run_op_refuses_lemma sch c fuel oc stev o :
  wf_system_child_b sch c = true -> oc_sys oc = false -> child_sys_target sch c (fst stev) o ->
  exists k, run_op sch fuel oc stev o = Err k.
Proof.
  intros Hwf Hy Ht. unfold wf_system_child_b in Hwf.
  destruct (find_store sch c) as [cd|] eqn:Hfind; [|discriminate].
  destruct (sd_parent cd) as [r|] eqn:Hparent; [|discriminate].
  destruct (find_store sch r) as [pd|] eqn:Hrfind; [|discriminate].
  destruct (sd_parent pd) eqn:Hrroot; [discriminate|].
  apply andb_prop in Hwf as [Hwf H3]. apply andb_prop in Hwf as [H1 H2]. apply negb_true_iff in H3.
  assert (Hsys : In CSystem (sd_cons cd)).
  { apply existsb_exists in H2 as [k [Hin Hk]]. destruct k; try discriminate. exact Hin. }
  assert (Hrc : root_of sch c = r) by (apply (root_c sch c r cd Hfind Hparent)).
  destruct stev as [st evs]. cbn [fst] in Ht.
  destruct o as [s0 i sys fv sv|s0 i fv sv ch|s0 i|s0 i lf ts|s0 i lf ts|]; cbn [child_sys_target] in Ht; try contradiction;
    cbn [run_op].
  - destruct Ht as [-> ->]. apply (op_create_refuses_c sch c r cd pd Hfind Hparent Hrfind Hsys H3 oc Hy).
  - destruct Ht as [Hf [Hp Hroute]]. rewrite Hrc in Hroute.
    apply (op_update_refuses_c sch c r cd pd Hfind Hparent Hrfind Hrroot Hsys oc Hy st evs s0 i fv sv ch).
    + split; assumption.
    + exact Hroute.
  - destruct Ht as [Hr [Hf Hl]]. rewrite Hrc in Hr.
    apply (delete_refuses_c sch c r cd pd Hfind Hparent Hrfind Hrroot Hsys H3 oc Hy fuel st evs s0 i Hr).
    split; assumption.
Qed.

Lemma child_system_requires_system_ctx_lemma sch c fuel st t pre o post stev' :
  wf_system_child_b sch c = true -> tx_sys t = false ->
  tx_ops t = pre ++ o :: post ->
  snd (run_ops sch fuel (mkOctx (tx_sys t) (tx_vetoes t)) (st, []) pre) = Ok stev' ->
  child_sys_target sch c (fst stev') o ->
  (exists k, run_op sch fuel (mkOctx (tx_sys t) (tx_vetoes t)) stev' o = Err k) /\
  (exists rs, run_tx sch fuel st t = (rs, false, st, [])).
Proof.
  intros Hwf Hy Hops Hpre Ht.
  destruct (child_run_op_refuses_lemma sch c fuel (mkOctx (tx_sys t) (tx_vetoes t)) stev' o Hwf Hy Ht) as [k Hk].
  split; [exists k; exact Hk|].
  pose proof (run_ops_failure_propagates _ _ _ pre o post _ _ _ Hpre Hk) as Hfail.
  unfold run_tx. rewrite Hops.
  destruct (run_ops sch fuel _ (st, []) (pre ++ o :: post)) as [rs fin]. cbn [snd] in Hfail. subst fin.
  exists rs. reflexivity.
Qed.
