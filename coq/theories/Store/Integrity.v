(* C09 - the integrity checker of boltz (indexes.go: uniqueIndex / setIndex / fkIndex / fkConstraint
   .CheckIntegrity, link_collection.go: linkCollectionImpl.CheckIntegrity, store_crud.go:
   BaseStore.CheckIntegrity) over the state of the shared store machine (Store/Model.v).
   Model only - proofs live in Store/IntegrityProofs.v.

   The states the checker runs on are ARBITRARY values of [state]: any unique-index, set-index,
   back-reference or link component may disagree with the entities.

   Every checker is the code's sequence of cursor loops.  A loop body returns the reports it sends to
   the errorSink and the state after its writes; all writes are guarded by [fx] (the fix flag) exactly where the
   (repaired) code guards them.  A bolt bucket is a finite map: the cursor over an index bucket
   enumerates [al_view m] - every key once, with the value [al_get] finds.  Deleting the entry under
   the cursor does not disturb the rest of the scan (bbolt's skip-after-delete quirk only concerns keys
   written earlier in the same transaction; corruptions are committed before the checker runs).

   The model mirrors the code WITH the three C09 repairs (fixes/C09-*.patch); the behaviour of the
   pinned tree is kept as [*_legacy] for the refutation examples:
   (a) setIndex scan 2 looked the key bucket up with GetOrCreateBucket also when fx = false,
   (b) (not representable in [state]: a non-bucket key in the set-index bucket was deleted without fx),
   (c) uniqueIndex scan 2 only skipped TypeNil, so the typed empty string was reported missing forever. *)
From Coq Require Import List NArith Bool.
From Storage Require Import Base.Bytes Store.Model.
Import ListNotations.
Open Scope N_scope.

(* ---------------------------------------------------------------- reports *)
Inductive rkind :=
| KUStale          (* unique index entry whose entity does not exist *)
| KUWrong          (* unique index entry whose entity holds another value *)
| KUMissing        (* entity value without unique index entry *)
| KUConflict       (* two entities hold the same unique value - unfixable *)
| KNil             (* nil / empty value in a non-nullable unique index, fk index or fk constraint - unfixable *)
| KSMissingEntity  (* set index entry for an entity that does not exist *)
| KSStale          (* set index entry for an entity that does not hold the value *)
| KSEmptyKey       (* set index key without entries *)
| KSMissing        (* entity set value without set index entry *)
| KBDangling       (* back-reference from an entity that does not exist *)
| KBWrong          (* back-reference from an entity whose fk field holds something else *)
| KFkDangling      (* fk field references a missing entity - fixable (field cleared) only if nullable *)
| KBMissing        (* fk field without back-reference on the target *)
| KLOneSided       (* link whose reverse entry is missing *)
| KLDangling.      (* link to an entity that does not exist *)

Record report := mkReport { r_kind : rkind; r_fixed : bool }.

(* kinds that a fx run cannot repair: genuine data conflicts *)
Definition unfixable (k : rkind) : bool :=
  match k with KUConflict | KNil | KFkDangling => true | _ => false end.

Definition rkind_eqb (a b : rkind) : bool :=
  match a, b with
  | KUStale, KUStale | KUWrong, KUWrong | KUMissing, KUMissing | KUConflict, KUConflict | KNil, KNil
  | KSMissingEntity, KSMissingEntity | KSStale, KSStale | KSEmptyKey, KSEmptyKey | KSMissing, KSMissing
  | KBDangling, KBDangling | KBWrong, KBWrong | KFkDangling, KFkDangling | KBMissing, KBMissing
  | KLOneSided, KLOneSided | KLDangling, KLDangling => true
  | _, _ => false
  end.

(* ---------------------------------------------------------------- loops *)
Definition outcome := (list report * state)%type.

(* for x := range l { body(x) } : reports are concatenated, the state is threaded *)
Fixpoint run_list {A} (body : A -> state -> outcome) (l : list A) (st : state) : outcome :=
  match l with
  | [] => ([], st)
  | x :: r =>
      let (r1, st1) := body x st in
      let (r2, st2) := run_list body r st1 in
      (r1 ++ r2, st2)
  end.

Definition seq2 (a b : state -> outcome) (st : state) : outcome :=
  let (r1, st1) := a st in
  let (r2, st2) := b st1 in
  (r1 ++ r2, st2).

(* a bucket is a map: enumerate every key once, with the value al_get finds (first binding) *)
Fixpoint al_first {V} (seen : list str) (l : alist V) : alist V :=
  match l with
  | [] => []
  | (k, v) :: r => if ss_mem k seen then al_first seen r else (k, v) :: al_first (k :: seen) r
  end.
Definition al_view {V} (l : alist V) : alist V := al_first [] l.

Definition islnil {A} (l : list A) : bool := match l with [] => true | _ => false end.

(* ---------------------------------------------------------------- uniqueIndex.CheckIntegrity *)
(* scan 1: cursor over the index bucket *)
Definition uniq_scan1_step (sch : schema) (fx : bool) (s f : name) (e : str * id) (st : state) : outcome :=
  let r := root_of sch s in
  let (v, i) := e in
  if negb (present sch st s i) then
    ([mkReport KUStale fx], if fx then set_uidx st r f (al_del v (uidx st r f)) else st)
  else if negb (str_eqb v (fv_bytes (get_field sch st s i f))) then
    ([mkReport KUWrong fx], if fx then set_uidx st r f (al_del v (uidx st r f)) else st)
  else ([], st).

(* scan 2: IterateValidIds; index.Read; processIntegrityFix = ProcessAfterUpdate with no old value *)
Definition uniq_scan2_step (sch : schema) (fx : bool) (s f : name) (nullable : bool) (i : id) (st : state) : outcome :=
  let r := root_of sch s in
  let v := fv_bytes (get_field sch st s i f) in
  if negb (nonempty v) then                      (* TypeNil or (repair c) the empty string *)
    (if nullable then [] else [mkReport KNil false], st)
  else
    match al_get v (uidx st r f) with
    | None => ([mkReport KUMissing fx], if fx then set_uidx st r f (al_put v i (uidx st r f)) else st)
    | Some j => if str_eqb j i then ([], st) else ([mkReport KUConflict false], st)
    end.

Definition check_unique (sch : schema) (fx : bool) (s f : name) (nullable : bool) : state -> outcome :=
  seq2 (fun st => run_list (uniq_scan1_step sch fx s f) (al_view (uidx st (root_of sch s) f)) st)
       (fun st => run_list (uniq_scan2_step sch fx s f nullable) (valid_ids sch st s) st).

(* pinned tree: only fieldType == TypeNil is skipped; the typed empty string goes to Read(nil), which
   finds nothing, and the "fx" returns early because old = new = empty *)
Definition nil_typed (v : fval) : bool := match v with FAbsent | FNil => true | _ => false end.

Definition uniq_scan2_step_legacy (sch : schema) (fx : bool) (s f : name) (nullable : bool) (i : id) (st : state) : outcome :=
  let r := root_of sch s in
  let fvl := get_field sch st s i f in
  let v := fv_bytes fvl in
  if nil_typed fvl then (if nullable then [] else [mkReport KNil false], st)
  else
    match (if nonempty v then al_get v (uidx st r f) else None) with
    | None => ([mkReport KUMissing fx], if fx && nonempty v then set_uidx st r f (al_put v i (uidx st r f)) else st)
    | Some j => if str_eqb j i then ([], st) else ([mkReport KUConflict false], st)
    end.

Definition check_unique_legacy (sch : schema) (fx : bool) (s f : name) (nullable : bool) : state -> outcome :=
  seq2 (fun st => run_list (uniq_scan1_step sch fx s f) (al_view (uidx st (root_of sch s) f)) st)
       (fun st => run_list (uniq_scan2_step_legacy sch fx s f nullable) (valid_ids sch st s) st).

(* ---------------------------------------------------------------- setIndex.CheckIntegrity *)
Definition sidx_ids (st : state) (r f : name) (v : str) : list id :=
  match al_get v (sidx st r f) with Some l => l | None => [] end.

(* idsCursor.Delete(): the id leaves the key bucket, the (possibly empty) bucket stays *)
Definition sidx_del_id (st : state) (r f : name) (v : str) (i : id) : state :=
  match al_get v (sidx st r f) with
  | Some l => set_sidx st r f (al_put v (ss_del i l) (sidx st r f))
  | None => st
  end.

Definition set_scan1_id (sch : schema) (fx : bool) (s f : name) (v : str) (i : id) (st : state) : outcome :=
  let r := root_of sch s in
  if negb (present sch st s i) then
    ([mkReport KSMissingEntity fx], if fx then sidx_del_id st r f v i else st)
  else if negb (ss_mem v (get_set sch st s i f)) then
    ([mkReport KSStale fx], if fx then sidx_del_id st r f v i else st)
  else ([], st).

(* one key of the base bucket: referenceCount = 0 <-> no id is left in the key bucket *)
Definition set_scan1_key (sch : schema) (fx : bool) (s f : name) (e : str * list id) (st : state) : outcome :=
  let r := root_of sch s in
  let (v, l) := e in
  let (rs, st1) := run_list (set_scan1_id sch fx s f v) l st in
  (if islnil l then rs ++ [mkReport KSEmptyKey fx] else rs, st1).

(* toDelete: keys whose reference count dropped to zero, removed after the cursor loop (fx only) *)
Definition set_drop_empty (fx : bool) (r f : name) (keys : list str) (st : state) : state :=
  if fx then
    fold_left (fun acc v => if islnil (sidx_ids acc r f v) then set_sidx acc r f (al_del v (sidx acc r f)) else acc) keys st
  else st.

Definition set_scan1 (sch : schema) (fx : bool) (s f : name) (st : state) : outcome :=
  let r := root_of sch s in
  let view := al_view (sidx st r f) in
  let (rs, st1) := run_list (set_scan1_key sch fx s f) view st in
  (rs, set_drop_empty fx r f (map fst view) st1).

(* scan 2: every value of every entity must be in the index; (repair a) the key bucket is looked up
   read-only, a missing bucket counts as "not present"; getIndexBucket (get-or-create) only under fx *)
Definition set_scan2_val (sch : schema) (fx : bool) (s f : name) (i : id) (v : str) (st : state) : outcome :=
  let r := root_of sch s in
  if ss_mem i (sidx_ids st r f v) then ([], st)
  else ([mkReport KSMissing fx], if fx then sidx_add st r f v i else st).

Definition set_scan2_id (sch : schema) (fx : bool) (s f : name) (i : id) (st : state) : outcome :=
  run_list (set_scan2_val sch fx s f i) (get_set sch st s i f) st.

Definition check_setidx (sch : schema) (fx : bool) (s f : name) : state -> outcome :=
  seq2 (set_scan1 sch fx s f)
       (fun st => run_list (set_scan2_id sch fx s f) (valid_ids sch st s) st).

(* pinned tree: getIndexBucket = GetOrCreateBucket in both modes - check-only creates the key bucket *)
Definition sidx_touch (st : state) (r f : name) (v : str) : state :=
  match al_get v (sidx st r f) with
  | Some _ => st
  | None => set_sidx st r f (al_put v [] (sidx st r f))
  end.

Definition set_scan2_val_legacy (sch : schema) (fx : bool) (s f : name) (i : id) (v : str) (st : state) : outcome :=
  let r := root_of sch s in
  if ss_mem i (sidx_ids st r f v) then ([], sidx_touch st r f v)
  else ([mkReport KSMissing fx], if fx then sidx_add st r f v i else sidx_touch st r f v).

Definition check_setidx_legacy (sch : schema) (fx : bool) (s f : name) : state -> outcome :=
  seq2 (set_scan1 sch fx s f)
       (fun st => run_list (fun i st' => run_list (set_scan2_val_legacy sch fx s f i) (get_set sch st' s i f) st')
                           (valid_ids sch st s) st).

(* ---------------------------------------------------------------- fkIndex.CheckIntegrity *)
(* entityBucket.Put(field, nil) on the bucket of store s: the field reads as nil afterwards *)
Definition clear_field (sch : schema) (st : state) (s : name) (i : id) (f : name) : state :=
  let r := root_of sch s in
  match get_ent st r i with
  | None => st
  | Some e =>
      match find_store sch s with
      | Some d =>
          if is_child sch s && declares_field d f then
            match al_get s (e_c e) with
            | Some cd => set_ent st r i (ent_with_child e s (al_put f FAbsent cd))
            | None => st
            end
          else set_ent st r i (ent_with_field e f FAbsent)
      | None => set_ent st r i (ent_with_field e f FAbsent)
      end
  end.

(* scan 1: the back-reference sets of the target store *)
Definition fki_scan1_ref (sch : schema) (fx : bool) (s f t b : name) (ti x : id) (st : state) : outcome :=
  if negb (present sch st s x) then
    ([mkReport KBDangling fx], if fx then backref_del sch st t ti b x else st)
  else
    let key := fv_bytes (get_field sch st s x f) in
    if negb (nonempty key) || negb (str_eqb key ti) then
      ([mkReport KBWrong fx], if fx then backref_del sch st t ti b x else st)
    else ([], st).

Definition fki_scan1_id (sch : schema) (fx : bool) (s f t b : name) (ti : id) (st : state) : outcome :=
  run_list (fki_scan1_ref sch fx s f t b ti) (get_set sch st t ti b) st.

(* scan 2: the fk fields of the referring store *)
Definition fki_scan2_id (sch : schema) (fx : bool) (s f t b : name) (nullable : bool) (i : id) (st : state) : outcome :=
  let key := fv_bytes (get_field sch st s i f) in
  if negb (nonempty key) then (if nullable then [] else [mkReport KNil false], st)
  else if negb (present sch st t key) then
    let tryfix := nullable && fx in
    ([mkReport KFkDangling tryfix], if tryfix then clear_field sch st s i f else st)
  else if ss_mem i (get_set sch st t key b) then ([], st)
  else ([mkReport KBMissing fx], if fx then backref_add sch st t key b i else st).

Definition check_fkindex (sch : schema) (fx : bool) (s f t b : name) (nullable : bool) : state -> outcome :=
  seq2 (fun st => run_list (fki_scan1_id sch fx s f t b) (valid_ids sch st t) st)
       (fun st => run_list (fki_scan2_id sch fx s f t b nullable) (valid_ids sch st s) st).

(* ---------------------------------------------------------------- fkConstraint.CheckIntegrity *)
Definition fkc_id (sch : schema) (fx : bool) (s f t : name) (nullable : bool) (i : id) (st : state) : outcome :=
  let key := fv_bytes (get_field sch st s i f) in
  if negb (nonempty key) then (if nullable then [] else [mkReport KNil false], st)
  else if negb (present sch st t key) then
    let tryfix := nullable && fx in
    ([mkReport KFkDangling tryfix], if tryfix then clear_field sch st s i f else st)
  else ([], st).

Definition check_fkcons (sch : schema) (fx : bool) (s f t : name) (nullable : bool) (st : state) : outcome :=
  run_list (fkc_id sch fx s f t nullable) (valid_ids sch st s) st.

(* ---------------------------------------------------------------- linkCollectionImpl.CheckIntegrity *)
(* one link x of entity i of store s; the collection is (local set lf, other store os, other set of_).
   RemoveLink(id, linkId) deletes the local entry (the other entity does not exist: nothing there);
   otherField.AddLink(linkId, id) adds the reverse entry *)
Definition link_step (sch : schema) (fx : bool) (s lf os of_ : name) (i x : id) (st : state) : outcome :=
  if negb (present sch st os x) then
    ([mkReport KLDangling fx], if fx then backref_del sch st s i lf x else st)
  else if ss_mem i (get_set sch st os x of_) then ([], st)
  else ([mkReport KLOneSided fx], if fx then backref_add sch st os x of_ i else st).

Definition link_id (sch : schema) (fx : bool) (s lf os of_ : name) (i : id) (st : state) : outcome :=
  run_list (link_step sch fx s lf os of_ i) (get_set sch st s i lf) st.

Definition check_link (sch : schema) (fx : bool) (s : name) (l : name * name * name) (st : state) : outcome :=
  match l with (lf, os, of_) => run_list (link_id sch fx s lf os of_) (valid_ids sch st s) st end.

Definition check_links (sch : schema) (fx : bool) (s : name) (st : state) : outcome :=
  match find_store sch s with
  | Some d => run_list (check_link sch fx s) (sd_links d) st
  | None => ([], st)
  end.

(* ---------------------------------------------------------------- BaseStore.CheckIntegrity *)
Definition check_cons (sch : schema) (fx : bool) (s : name) (k : cons) (st : state) : outcome :=
  match k with
  | CUnique f nullable => check_unique sch fx s f nullable st
  | CSetIdx f => check_setidx sch fx s f st
  | CFkIndex f t b nullable => check_fkindex sch fx s f t b nullable st
  | CFkCons f t nullable => check_fkcons sch fx s f t nullable st
  | CFkRestrict _ | CFkCascade _ _ _ | CSystem => ([], st)       (* return nil *)
  end.

(* links first, then the constraints in registration order *)
Definition check_store (sch : schema) (fx : bool) (s : name) : state -> outcome :=
  seq2 (check_links sch fx s) (run_list (check_cons sch fx s) (cons_of sch s)).

(* "the check": CheckIntegrity of every store of the schema, in schema order *)
Definition check_all (sch : schema) (fx : bool) (st : state) : outcome :=
  run_list (fun d => check_store sch fx (sd_name d)) sch st.

(* the pinned tree, for the refutation examples *)
Definition check_cons_legacy (sch : schema) (fx : bool) (s : name) (k : cons) (st : state) : outcome :=
  match k with
  | CUnique f nullable => check_unique_legacy sch fx s f nullable st
  | CSetIdx f => check_setidx_legacy sch fx s f st
  | _ => check_cons sch fx s k st
  end.
Definition check_all_legacy (sch : schema) (fx : bool) (st : state) : outcome :=
  run_list (fun d => seq2 (check_links sch fx (sd_name d))
                          (run_list (check_cons_legacy sch fx (sd_name d)) (cons_of sch (sd_name d)))) sch st.

(* ---------------------------------------------------------------- corruptions *)
(* raw writes below the API, as the harness performs them through *bbolt.Tx *)
Inductive corruption :=
| XUDel (r f : name) (v : str)                 (* unique index: drop the entry of value v *)
| XUPut (r f : name) (v : str) (i : id)        (* unique index: (over)write v -> i *)
| XSDelId (r f : name) (v : str) (i : id)      (* set index: drop i from key bucket v (the bucket stays) *)
| XSDelKey (r f : name) (v : str)              (* set index: drop the key bucket v *)
| XSAddId (r f : name) (v : str) (i : id)      (* set index: add i to key bucket v (created if needed) *)
| XSAddKey (r f : name) (v : str)              (* set index: create an empty key bucket v *)
| XSetDel (r : name) (i : id) (b : name) (x : id)   (* entity i of root store r: drop x from string set b *)
| XSetAdd (r : name) (i : id) (b : name) (x : id)   (* ... add x to string set b (back-references, links) *)
| XField (r : name) (i : id) (f : name) (v : str)   (* overwrite root field f of entity i with the string v *)
| XFieldNil (r : name) (i : id) (f : name)          (* overwrite root field f of entity i with nil *)
(* whole-bucket corruptions.  [state] does not distinguish an ABSENT bucket from an EMPTY one (a string set is a
   list, an index is a map): the harness reaches each of the following states both by deleting the bucket and by
   emptying it, and the real checker must treat the two alike - check_complete / fix_convergent quantify over
   every [state], so they cover both. *)
| XSetClear (r : name) (i : id) (b : name)          (* entity i: the whole string set b (back-reference / link / set-field bucket) gone or empty *)
| XSClearKey (r f : name) (v : str)                 (* set index: key bucket v emptied (the bucket stays) *)
| XSClearIdx (r f : name)                           (* set index: the whole index bucket of the symbol gone or empty *)
| XUClearIdx (r f : name)                           (* unique index: the whole index bucket of the symbol gone or empty *)
(* a field that a child store c keeps in its own bucket inside the entity bucket (no-op when the entity has no data of c) *)
| XCField (r : name) (i : id) (c f : name) (v : str)   (* overwrite field f of the child data with the string v *)
| XCFieldNil (r : name) (i : id) (c f : name).         (* ... with nil *)

Definition set_child_field (st : state) (r : name) (i : id) (c f : name) (v : fval) : state :=
  match get_ent st r i with
  | Some e =>
      match al_get c (e_c e) with
      | Some cd => set_ent st r i (ent_with_child e c (al_put f v cd))
      | None => st
      end
  | None => st
  end.

Definition corrupt (st : state) (c : corruption) : state :=
  match c with
  | XUDel r f v => set_uidx st r f (al_del v (uidx st r f))
  | XUPut r f v i => set_uidx st r f (al_put v i (uidx st r f))
  | XSDelId r f v i => sidx_del_id st r f v i
  | XSDelKey r f v => set_sidx st r f (al_del v (sidx st r f))
  | XSAddId r f v i => sidx_add st r f v i
  | XSAddKey r f v => sidx_touch st r f v
  | XSetDel r i b x =>
      match get_ent st r i with
      | Some e => set_ent st r i (ent_with_set e b (ss_del x (ent_set e b)))
      | None => st
      end
  | XSetAdd r i b x =>
      match get_ent st r i with
      | Some e => set_ent st r i (ent_with_set e b (ss_add x (ent_set e b)))
      | None => st
      end
  | XField r i f v =>
      match get_ent st r i with
      | Some e => set_ent st r i (ent_with_field e f (FStr v))
      | None => st
      end
  | XFieldNil r i f =>
      match get_ent st r i with
      | Some e => set_ent st r i (ent_with_field e f FNil)
      | None => st
      end
  | XSetClear r i b =>
      match get_ent st r i with
      | Some e => set_ent st r i (ent_with_set e b [])
      | None => st
      end
  | XSClearKey r f v =>
      match al_get v (sidx st r f) with
      | Some _ => set_sidx st r f (al_put v [] (sidx st r f))
      | None => st
      end
  | XSClearIdx r f => set_sidx st r f []
  | XUClearIdx r f => set_uidx st r f []
  | XCField r i c f v => set_child_field st r i c f (FStr v)
  | XCFieldNil r i c f => set_child_field st r i c f FNil
  end.

Definition corrupt_all (st : state) (cs : list corruption) : state := fold_left corrupt cs st.
