(* C09 proofs, part 7: completeness and repair, entry by entry, for entries that must NOT be there - the mirror
   image of the missing_*_reported lemmas of IntegrityProofs.v.

   An index entry / back-reference / link is right iff a byte-string EQUALITY holds (the key is a value of the
   entity, the fk field is the owner of the set, the id is the id of a present entity).  The statements below have
   no hypothesis on what ELSE the entity holds or which other keys the bucket has: in particular an entry whose
   key (or id) is a proper prefix or an extension of a legitimate one - "admin" -> e while e holds
   "administrator"; e1 next to e10 - is reported by check-only and gone after one fix run (instances:
   Examples/C09PrefixExamples.v). *)
From Coq Require Import List NArith Bool Lia.
From Storage Require Import Base.Bytes Base.BytesFacts Store.Model Store.AListFacts Store.FrameProofs
  Store.Integrity Store.IntegrityLoops Store.IntegrityUnique Store.IntegritySet Store.IntegrityFk Store.IntegrityLinks
  Store.IntegrityProofs.
Import ListNotations.

(* ---------------------------------------------------------------- check-only reports them *)

(* set index: an entry v -> i whose entity is gone or does not hold EXACTLY v *)
Lemma stale_set_entry_reported_lemma sch st s f v i :
  In (JCons s (CSetIdx f)) (jobs sch) ->
  In i (sidx_ids st (root_of sch s) f v) ->
  ~ (present sch st s i = true /\ In v (get_set sch st s i f)) ->
  fst (check_all sch false st) <> [].
Proof.
  intros Hj Hi Hn H. apply check_complete_lemma in H.
  destruct (consistent_setidx_mirror sch st H s f Hj) as [A _]. apply Hn, A, Hi.
Qed.

(* unique index: an entry v -> i whose entity is gone or holds another value *)
Lemma stale_unique_entry_reported_lemma sch st s f nl v i :
  In (JCons s (CUnique f nl)) (jobs sch) ->
  al_get v (uidx st (root_of sch s) f) = Some i ->
  ~ (present sch st s i = true /\ fv_bytes (get_field sch st s i f) = v) ->
  fst (check_all sch false st) <> [].
Proof.
  intros Hj Hi Hn H. apply check_complete_lemma in H. pose proof (H _ Hj) as G. cbn in G.
  destruct G as [A _]. apply Hn. exact (A v i Hi).
Qed.

(* back-references: x in the set of the present target ti, but x is gone or its fk field is not EXACTLY ti *)
Lemma extra_backref_reported_lemma sch st s f t b nl ti x :
  In (JCons s (CFkIndex f t b nl)) (jobs sch) ->
  present sch st t ti = true -> In x (get_set sch st t ti b) ->
  ~ (present sch st s x = true /\ fv_bytes (get_field sch st s x f) = ti) ->
  fst (check_all sch false st) <> [].
Proof.
  intros Hj Ht Hx Hn H. apply check_complete_lemma in H. pose proof (H _ Hj) as G. cbn in G.
  destruct G as [A _]. destruct (A ti Ht x Hx) as [P [_ E]]. apply Hn. split; [exact P | exact E].
Qed.

(* fk field: a non-empty reference to an id that is not EXACTLY the id of a present target *)
Lemma dangling_reference_reported_lemma sch st s f t b nl i :
  In (JCons s (CFkIndex f t b nl)) (jobs sch) ->
  present sch st s i = true -> nonempty (fv_bytes (get_field sch st s i f)) = true ->
  present sch st t (fv_bytes (get_field sch st s i f)) = false ->
  fst (check_all sch false st) <> [].
Proof.
  intros Hj Hp Hne Hd H. apply check_complete_lemma in H. pose proof (H _ Hj) as G. cbn in G.
  destruct G as [_ [_ [T _]]]. pose proof (T i Hp Hne) as E. unfold fkey in E. rewrite E in Hd. discriminate.
Qed.

(* links: a link to an entity that does not exist *)
Lemma dangling_link_reported_lemma sch st s lf os of_ i x :
  In (JLink s (lf, os, of_)) (jobs sch) ->
  present sch st s i = true -> In x (get_set sch st s i lf) -> present sch st os x = false ->
  fst (check_all sch false st) <> [].
Proof.
  intros Hj Hp Hx Hd H. apply check_complete_lemma in H. pose proof (H _ Hj) as G. cbn in G.
  destruct (G i Hp x Hx) as [P _]. rewrite P in Hd. discriminate.
Qed.

(* ---------------------------------------------------------------- one fix run removes them *)

Lemma fix_removes_stale_set_entries_lemma sch st s f v i :
  wf_c09 sch = true -> In (JCons s (CSetIdx f)) (jobs sch) ->
  let st' := snd (check_all sch true st) in
  In i (sidx_ids st' (root_of sch s) f v) -> present sch st' s i = true /\ In v (get_set sch st' s i f).
Proof.
  intros Hwf Hj st' Hi. destruct (fix_convergent_lemma sch st Hwf) as [_ M].
  pose proof (M _ Hj) as G. cbn in G. destruct G as [A _].
  unfold sidx_ids in Hi. fold st' in A.
  destruct (al_get v (sidx st' (root_of sch s) f)) as [l|] eqn:E; [|destruct Hi].
  exact (proj2 (A v l E) i Hi).
Qed.

Lemma fix_removes_stale_unique_entries_lemma sch st s f nl v i :
  wf_c09 sch = true -> In (JCons s (CUnique f nl)) (jobs sch) ->
  let st' := snd (check_all sch true st) in
  al_get v (uidx st' (root_of sch s) f) = Some i ->
  present sch st' s i = true /\ fv_bytes (get_field sch st' s i f) = v.
Proof.
  intros Hwf Hj st' Hi. destruct (fix_convergent_lemma sch st Hwf) as [_ M].
  pose proof (M _ Hj) as G. cbn in G. destruct G as [A _]. exact (A v i Hi).
Qed.

Lemma fix_removes_extra_backrefs_lemma sch st s f t b nl ti x :
  wf_c09 sch = true -> In (JCons s (CFkIndex f t b nl)) (jobs sch) ->
  let st' := snd (check_all sch true st) in
  present sch st' t ti = true -> In x (get_set sch st' t ti b) ->
  present sch st' s x = true /\ fv_bytes (get_field sch st' s x f) = ti.
Proof.
  intros Hwf Hj st' Ht Hx. destruct (fix_convergent_lemma sch st Hwf) as [_ M].
  pose proof (M _ Hj) as G. cbn in G. destruct G as [A _].
  destruct (A ti Ht x Hx) as [P [_ E]]. split; [exact P | exact E].
Qed.
