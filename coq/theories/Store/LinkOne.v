(* The single-link API of a link collection (model only, proofs in Store/LinkOneProofs.v).

   Store/Model.v and Store/XOps.v are not changed: every operation defined here EXPANDS, at the state in which it is
   reached, to a list of plain operations of the store machine, so every theorem about [run_ops] / [run_tx] covers
   histories that contain them (LinkOneProofs.run_ltx_is_run_tx).

   boltz/link_collection.go:
   * [LAddLink s i lf ts]     one call  LinkCollection.AddLink(tx, i, t)  per target, in order.  AddLink = checkAndLink:
       changed := CheckAndSetListEntry(t) on the local set  (puts the entry when TypedBucket.IsKeyPresent says it is absent),
       then otherField.AddLink(t, i)  (RecordNotFoundError when t does not exist).
     The database it leaves is the one  AddLinks(tx, i, t)  leaves; the bool it returns next to a nil error is
     "t was NOT a member of the local set lf(i) when the call started" - whatever wrote the entry: an earlier
     transaction or an earlier operation of the SAME transaction.
   * [LRemoveLink s i lf ts]  one call  LinkCollection.RemoveLink(tx, i, t)  per target.  RemoveLink = checkAndUnlink:
       changed := CheckAndDeleteListEntry(t)  (deletes the entry when IsKeyPresent says it is there), then
       otherField.RemoveLink(t, i)  (unconditional; nothing to do when t does not exist).
     Database: as  RemoveLinks(tx, i, t) ; bool: "t WAS a member of lf(i) when the call started".
   * [LIsLinked s i f ts]     read-only probes inside the transaction: is t a member of the set f of entity i of store s
     (LinkCollection.IsLinked, LinkedSetSymbol.IsLinked, BaseStore.IsEntityRelated, GetLinks; f may also be a
     back-reference set or a string list: IsEntityRelated).  No effect on the database.
   The bools are observations: they do not influence the run. *)
From Coq Require Import List NArith Bool.
From Storage Require Import Base.Bytes Store.Model Store.XOps.
Import ListNotations.
Open Scope N_scope.

(* t is a member of the set f kept in the bucket of entity i of store s (false when that bucket does not exist) *)
Definition link_member (sch : schema) (st : state) (s : name) (i : id) (f : name) (t : id) : bool :=
  present sch st s i && ss_mem t (get_set sch st s i f).

Inductive lop :=
| LBase (x : xop)
| LAddLink (s : name) (i : id) (lf : name) (ts : list id)
| LRemoveLink (s : name) (i : id) (lf : name) (ts : list id)
| LIsLinked (s : name) (i : id) (f : name) (ts : list id).

Definition add1 (s : name) (i : id) (lf : name) (t : id) : op := OAddLinks s i lf [t].
Definition remove1 (s : name) (i : id) (lf : name) (t : id) : op := ORemoveLinks s i lf [t].

(* the bool AddLink / RemoveLink returns, in the state the call starts in *)
Definition add1_reports (sch : schema) (s : name) (i : id) (lf : name) (st : state) (t : id) : bool :=
  negb (link_member sch st s i lf t).
Definition remove1_reports (sch : schema) (s : name) (i : id) (lf : name) (st : state) (t : id) : bool :=
  link_member sch st s i lf t.

(* one call per target; the bool of every call that returned a nil error; stops at the first error *)
Fixpoint link_calls (sch : schema) (fuel : nat) (oc : octx) (mk : id -> op) (reports : state -> id -> bool)
         (stev : st_ev) (ts : list id) : list bool * res st_ev :=
  match ts with
  | [] => ([], Ok stev)
  | t :: r =>
      let b := reports (fst stev) t in
      match run_op sch fuel oc stev (mk t) with
      | Ok stev1 => let (bs, fin) := link_calls sch fuel oc mk reports stev1 r in (b :: bs, fin)
      | Err k => ([], Err k)
      end
  end.

(* the plain operations an operation performs when it is reached in state [st] *)
Definition lexpand (sch : schema) (st : state) (l : lop) : list op :=
  match l with
  | LBase x => xexpand sch st x
  | LAddLink s i lf ts => map (add1 s i lf) ts
  | LRemoveLink s i lf ts => map (remove1 s i lf) ts
  | LIsLinked _ _ _ _ => []
  end.

(* observed bools, resulting state *)
Definition run_lop (sch : schema) (fuel : nat) (oc : octx) (stev : st_ev) (l : lop) : list bool * res st_ev :=
  match l with
  | LBase x => ([], run_xop sch fuel oc stev x)
  | LAddLink s i lf ts => link_calls sch fuel oc (add1 s i lf) (add1_reports sch s i lf) stev ts
  | LRemoveLink s i lf ts => link_calls sch fuel oc (remove1 s i lf) (remove1_reports sch s i lf) stev ts
  | LIsLinked s i f ts => (map (link_member sch (fst stev) s i f) ts, Ok stev)
  end.

(* one result and one list of observed bools per operation, up to and including the first failure *)
Fixpoint run_lops (sch : schema) (fuel : nat) (oc : octx) (stev : st_ev) (ls : list lop)
  : list (option ekind) * list (list bool) * res st_ev :=
  match ls with
  | [] => ([], [], Ok stev)
  | l :: r =>
      match run_lop sch fuel oc stev l with
      | (bs, Ok stev1) => match run_lops sch fuel oc stev1 r with (rs, bss, fin) => (None :: rs, bs :: bss, fin) end
      | (bs, Err k) => ([Some k], [bs], Err k)
      end
  end.

(* the plain operations a body performs: each operation expanded at the state it is reached in; nothing is expanded
   after the first failure *)
Fixpoint lflatten (sch : schema) (fuel : nat) (oc : octx) (stev : st_ev) (ls : list lop) : list op :=
  match ls with
  | [] => []
  | l :: r =>
      let ops := lexpand sch (fst stev) l in
      match snd (run_ops sch fuel oc stev ops) with
      | Ok stev1 => ops ++ lflatten sch fuel oc stev1 r
      | Err _ => ops
      end
  end.

Record ltx := mkLtx { ltx_sys : bool; ltx_vetoes : list veto; ltx_ops : list lop; ltx_precommit_fails : bool }.

(* Db.Update over such a body: results, observed bools, committed, database, delivered events *)
Definition run_ltx (sch : schema) (fuel : nat) (st : state) (t : ltx)
  : list (option ekind) * list (list bool) * bool * state * list event :=
  let oc := mkOctx (ltx_sys t) (ltx_vetoes t) in
  match run_lops sch fuel oc (st, []) (ltx_ops t) with
  | (rs, bss, Ok (st', evs)) => if ltx_precommit_fails t then (rs, bss, false, st, []) else (rs, bss, true, st', evs)
  | (rs, bss, Err _) => (rs, bss, false, st, [])
  end.

(* the plain transaction it performs *)
Definition ltx_flat (sch : schema) (fuel : nat) (st : state) (t : ltx) : tx :=
  mkTx (ltx_sys t) (ltx_vetoes t)
       (lflatten sch fuel (mkOctx (ltx_sys t) (ltx_vetoes t)) (st, []) (ltx_ops t))
       (ltx_precommit_fails t).

Definition ltx_state (sch : schema) (fuel : nat) (st : state) (t : ltx) : state :=
  match run_ltx sch fuel st t with (_, _, _, st', _) => st' end.

(* a history *)
Definition run_ltxs (sch : schema) (fuel : nat) (st : state) (ts : list ltx) : state :=
  fold_left (ltx_state sch fuel) ts st.

(* the plain history it performs *)
Fixpoint ltxs_flat (sch : schema) (fuel : nat) (st : state) (ts : list ltx) : list tx :=
  match ts with
  | [] => []
  | t :: r => ltx_flat sch fuel st t :: ltxs_flat sch fuel (ltx_state sch fuel st t) r
  end.
