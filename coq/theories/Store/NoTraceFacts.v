(* C06 - how the primitives of the store machine change what [mentions] looks at:
   string sets inside entities ([eset]), set-index buckets ([sbucket]), entities, fields. *)
From Coq Require Import List NArith Bool Lia.
From Storage Require Import Base.Bytes Base.BytesFacts Store.Model Store.AListFacts Store.FrameProofs Store.NoTrace.
Import ListNotations.

Lemma ent_set_with_set e b l f : ent_set (ent_with_set e b l) f = if str_eqb b f then l else ent_set e f.
Proof. unfold ent_set, ent_with_set. cbn. rewrite al_get_put. destruct (str_eqb b f); reflexivity. Qed.

Lemma str_eqb_false_ne a b : a <> b -> str_eqb a b = false.
Proof. intros H. apply str_eqb_neq. exact H. Qed.

(* ---- back-reference primitives ---- *)
Lemma get_ent_backref_add sch st t ti b i r j :
  get_ent (backref_add sch st t ti b i) r j =
  match get_ent st (root_of sch t) ti with
  | Some e => if str_eqb (root_of sch t) r && str_eqb ti j
              then Some (ent_with_set e b (ss_add i (ent_set e b))) else get_ent st r j
  | None => get_ent st r j
  end.
Proof. unfold backref_add. destruct (get_ent st (root_of sch t) ti); [apply get_ent_set_ent | reflexivity]. Qed.

Lemma get_ent_backref_del sch st t ti b i r j :
  get_ent (backref_del sch st t ti b i) r j =
  match get_ent st (root_of sch t) ti with
  | Some e => if str_eqb (root_of sch t) r && str_eqb ti j
              then Some (ent_with_set e b (ss_del i (ent_set e b))) else get_ent st r j
  | None => get_ent st r j
  end.
Proof. unfold backref_del. destruct (get_ent st (root_of sch t) ti); [apply get_ent_set_ent | reflexivity]. Qed.

Lemma eset_backref_add sch st t ti b i r j f z :
  In z (eset (backref_add sch st t ti b i) r j f) <->
  In z (eset st r j f) \/ (r = root_of sch t /\ j = ti /\ f = b /\ z = i /\ get_ent st r j <> None).
Proof.
  unfold eset. rewrite get_ent_backref_add.
  destruct (get_ent st (root_of sch t) ti) as [e|] eqn:E.
  - destruct (str_eqb (root_of sch t) r && str_eqb ti j) eqn:Eb.
    + apply andb_prop in Eb as [E1 E2]. apply str_eqb_eq in E1, E2. subst r j. rewrite E.
      rewrite ent_set_with_set. destruct (str_eqb b f) eqn:Ef.
      * apply str_eqb_eq in Ef. subst f. rewrite ss_add_in. split.
        -- intros [->|H]; [right; repeat split; congruence | left; exact H].
        -- intros [H|[_ [_ [_ [-> _]]]]]; [right; exact H | left; reflexivity].
      * apply str_eqb_neq in Ef. split; [intros H; left; exact H|].
        intros [H|[_ [_ [Hf _]]]]; [exact H | congruence].
    + split; [intros H; left; exact H|]. intros [H|[-> [-> _]]]; [exact H|].
      rewrite !str_eqb_refl in Eb. discriminate.
  - split; [intros H; left; exact H|]. intros [H|[-> [-> [_ [_ Hn]]]]]; [exact H | congruence].
Qed.

Lemma eset_backref_del sch st t ti b i r j f z :
  In z (eset (backref_del sch st t ti b i) r j f) <->
  In z (eset st r j f) /\ ~ (r = root_of sch t /\ j = ti /\ f = b /\ z = i).
Proof.
  unfold eset. rewrite get_ent_backref_del.
  destruct (get_ent st (root_of sch t) ti) as [e|] eqn:E.
  - destruct (str_eqb (root_of sch t) r && str_eqb ti j) eqn:Eb.
    + apply andb_prop in Eb as [E1 E2]. apply str_eqb_eq in E1, E2. subst r j. rewrite E.
      rewrite ent_set_with_set. destruct (str_eqb b f) eqn:Ef.
      * apply str_eqb_eq in Ef. subst f. rewrite ss_del_in. split.
        -- intros [Hz H]. split; [exact H|]. intros [_ [_ [_ Hzi]]]. contradiction.
        -- intros [H Hn]. split; [|exact H]. intros ->. apply Hn. repeat split.
      * apply str_eqb_neq in Ef. split; [intros H; split; [exact H|]; intros [_ [_ [Hf _]]]; congruence|].
        intros [H _]. exact H.
    + split; [|intros [H _]; exact H]. intros H. split; [exact H|]. intros [-> [-> _]].
      rewrite !str_eqb_refl in Eb. discriminate.
  - split; [|intros [H _]; exact H]. intros H. split; [exact H|]. intros [-> [-> _]].
    rewrite E in H. cbn in H. exact H.
Qed.

Lemma get_ent_none_fc st st' r j : ents_fc_eq st st' -> (get_ent st' r j = None <-> get_ent st r j = None).
Proof.
  intros H. specialize (H r j). unfold ent_fc_eq in H.
  destruct (get_ent st' r j), (get_ent st r j); try contradiction; split; congruence.
Qed.

Lemma present_backref_add sch st t ti b i s j : present sch (backref_add sch st t ti b i) s j = present sch st s j.
Proof. apply present_fc. apply backref_add_fc. Qed.
Lemma present_backref_del sch st t ti b i s j : present sch (backref_del sch st t ti b i) s j = present sch st s j.
Proof. apply present_fc. apply backref_del_fc. Qed.
Lemma get_field_backref_add sch st t ti b i s j f : get_field sch (backref_add sch st t ti b i) s j f = get_field sch st s j f.
Proof. apply get_field_fc. apply backref_add_fc. Qed.
Lemma get_field_backref_del sch st t ti b i s j f : get_field sch (backref_del sch st t ti b i) s j f = get_field sch st s j f.
Proof. apply get_field_fc. apply backref_del_fc. Qed.

(* ---- set-index primitives ---- *)
Lemma sidx_set_sidx st r f m r' f' :
  sidx (set_sidx st r f m) r' f' = if str_eqb r r' && str_eqb f f' then m else sidx st r' f'.
Proof. reflexivity. Qed.

Lemma sbucket_sidx_remove st r f v i r' f' v' z :
  In z (sbucket (sidx_remove st r f v i) r' f' v') <->
  In z (sbucket st r' f' v') /\ ~ (r' = r /\ f' = f /\ v' = v /\ z = i).
Proof.
  unfold sbucket, sidx_remove.
  set (cur := match al_get v (sidx st r f) with Some l => l | None => [] end).
  assert (Hgoal : forall m, (forall w, al_get w m = if str_eqb v w then (match ss_del i cur with [] => None | l => Some l end) else al_get w (sidx st r f)) ->
     (In z (match al_get v' (sidx (set_sidx st r f m) r' f') with Some l => l | None => [] end) <->
      In z (match al_get v' (sidx st r' f') with Some l => l | None => [] end) /\ ~ (r' = r /\ f' = f /\ v' = v /\ z = i))).
  { intros m Hm. rewrite sidx_set_sidx. destruct (str_eqb r r' && str_eqb f f') eqn:Eb.
    - apply andb_prop in Eb as [E1 E2]. apply str_eqb_eq in E1, E2. subst r' f'. rewrite Hm.
      destruct (str_eqb v v') eqn:Ev.
      + apply str_eqb_eq in Ev. subst v'. fold cur.
        assert (In z (match (match ss_del i cur with [] => None | l => Some l end) with Some l => l | None => [] end) <-> In z (ss_del i cur)) as ->
          by (destruct (ss_del i cur); cbn; tauto).
        rewrite ss_del_in. split.
        * intros [Hz H]. split; [exact H|]. intros [_ [_ [_ Hzi]]]. contradiction.
        * intros [H Hn]. split; [|exact H]. intros ->. apply Hn. repeat split.
      + apply str_eqb_neq in Ev. split; [|intros [H _]; exact H]. intros H. split; [exact H|]. intros [_ [_ [Hv _]]]. congruence.
    - split; [|intros [H _]; exact H]. intros H. split; [exact H|]. intros [-> [-> _]].
      rewrite !str_eqb_refl in Eb. discriminate. }
  destruct (ss_del i cur) as [|y l'] eqn:El.
  - apply Hgoal. intros w. rewrite al_get_del. reflexivity.
  - apply Hgoal. intros w. rewrite al_get_put. reflexivity.
Qed.

Lemma sbucket_sidx_add st r f v i r' f' v' z :
  In z (sbucket (sidx_add st r f v i) r' f' v') <->
  In z (sbucket st r' f' v') \/ (r' = r /\ f' = f /\ v' = v /\ z = i).
Proof.
  unfold sbucket, sidx_add. rewrite sidx_set_sidx.
  destruct (str_eqb r r' && str_eqb f f') eqn:Eb.
  - apply andb_prop in Eb as [E1 E2]. apply str_eqb_eq in E1, E2. subst r' f'. rewrite al_get_put.
    destruct (str_eqb v v') eqn:Ev.
    + apply str_eqb_eq in Ev. subst v'. rewrite ss_add_in. split.
      * intros [->|H]; [right; repeat split | left; exact H].
      * intros [H|[_ [_ [_ ->]]]]; [right; exact H | left; reflexivity].
    + apply str_eqb_neq in Ev. split; [intros H; left; exact H|]. intros [H|[_ [_ [Hv _]]]]; [exact H | congruence].
  - split; [intros H; left; exact H|]. intros [H|[-> [-> _]]]; [exact H|].
    rewrite !str_eqb_refl in Eb. discriminate.
Qed.

Lemma sbucket_fold_remove r f i r' f' v' z : forall vals st,
  In z (sbucket (fold_left (fun acc v => sidx_remove acc r f v i) vals st) r' f' v') <->
  In z (sbucket st r' f' v') /\ ~ (r' = r /\ f' = f /\ In v' vals /\ z = i).
Proof.
  induction vals as [|v vals IH]; intros st; cbn [fold_left].
  - split; [intros H; split; [exact H | intros [_ [_ [[] _]]]] | intros [H _]; exact H].
  - rewrite IH, sbucket_sidx_remove. cbn [In]. split.
    + intros [[H Hn1] Hn2]. split; [exact H|]. intros [A [B [[C|C] D]]]; [apply Hn1 | apply Hn2]; repeat split; auto.
    + intros [H Hn]. split; [split; [exact H|]|]; intros [A [B [C D]]]; apply Hn; repeat split; auto.
Qed.

Lemma sbucket_fold_add r f i r' f' v' z : forall vals st,
  In z (sbucket (fold_left (fun acc v => sidx_add acc r f v i) vals st) r' f' v') <->
  In z (sbucket st r' f' v') \/ (r' = r /\ f' = f /\ In v' vals /\ z = i).
Proof.
  induction vals as [|v vals IH]; intros st; cbn [fold_left].
  - split; [intros H; left; exact H | intros [H|[_ [_ [[] _]]]]; exact H].
  - rewrite IH, sbucket_sidx_add. cbn [In]. split.
    + intros [[H|[A [B [C D]]]]|[A [B [C D]]]]; [left; exact H | right; repeat split; auto | right; repeat split; auto].
    + intros [H|[A [B [[C|C] D]]]]; [left; left; exact H | left; right; repeat split; auto | right; repeat split; auto].
Qed.

Lemma sidx_remove_sidx_uidx st r f v i : uidx (sidx_remove st r f v i) = uidx st.
Proof. apply sidx_remove_uidx. Qed.

Lemma get_ent_ents_eq st st' r j : ents st' = ents st -> get_ent st' r j = get_ent st r j.
Proof. intros H. unfold get_ent. rewrite H. reflexivity. Qed.

Lemma eset_ents_eq st st' r j f : ents st' = ents st -> eset st' r j f = eset st r j f.
Proof. intros H. unfold eset. rewrite (get_ent_ents_eq _ _ _ _ H). reflexivity. Qed.

Lemma present_ents_eq sch st st' s j : ents st' = ents st -> present sch st' s j = present sch st s j.
Proof. intros H. unfold present. rewrite (get_ent_ents_eq _ _ _ _ H). reflexivity. Qed.

Lemma get_field_ents_eq sch st st' s j f : ents st' = ents st -> get_field sch st' s j f = get_field sch st s j f.
Proof. intros H. unfold get_field. rewrite (get_ent_ents_eq _ _ _ _ H). reflexivity. Qed.

Lemma sbucket_sidx_eq st st' r f v : sidx st' = sidx st -> sbucket st' r f v = sbucket st r f v.
Proof. intros H. unfold sbucket. rewrite H. reflexivity. Qed.

(* ---- roots ---- *)
Lemma is_rootb_root sch s : is_rootb sch s = true -> root_of sch s = s /\ is_child sch s = false.
Proof.
  unfold is_rootb, root_of, is_child. destruct (find_store sch s) as [d|]; [|discriminate].
  destruct (sd_parent d); [discriminate|]. intros _. split; reflexivity.
Qed.

Lemma present_root sch st s j : is_child sch s = false -> root_of sch s = s ->
  present sch st s j = match get_ent st s j with Some _ => true | None => false end.
Proof. intros Hc Hr. unfold present. rewrite Hr, Hc. destruct (get_ent st s j); reflexivity. Qed.

Lemma present_true_ent sch st s j : present sch st s j = true -> get_ent st (root_of sch s) j <> None.
Proof. apply present_get_ent. Qed.

Lemma eset_in_ent st r j f z : In z (eset st r j f) -> get_ent st r j <> None.
Proof. unfold eset. destruct (get_ent st r j); [congruence | contradiction]. Qed.
