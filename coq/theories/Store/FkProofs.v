(* C04, foreign keys: in every reachable state of the store machine, for a foreign-key edge
   (referrer root store [s], field [f]) -> (target root store [t]) wired as an fk index with
   back-reference set [b] ([ob = Some b]) or as an fk constraint ([ob = None]), with a delete guard on
   the target store (restrict or cascade):
     - every present referrer's non-empty [f] names a present target,
     - the back-reference set of a target lists exactly the present referrers naming it.
   Template: Store/UniqueProofs.v (invariant, its weakened form [FDInv G] while the entities in [G]
   are in the middle of a delete, monotonicity of delete steps, induction over fuel / ops / txs). *)
From Coq Require Import List NArith Bool Lia.
From Storage Require Import Base.Bytes Base.BytesFacts Store.Model Store.AListFacts Store.FrameProofs Store.UniqueProofs.
Import ListNotations.

(* ================================================================ general facts *)
Lemma root_of_root sch s : is_child sch s = false -> root_of sch s = s.
Proof.
  unfold is_child, root_of. destruct (find_store sch s) as [d|]; [|reflexivity].
  destruct (sd_parent d); [discriminate | reflexivity].
Qed.

Lemma present_root sch st s i : is_child sch s = false ->
  present sch st s i = match get_ent st s i with Some _ => true | None => false end.
Proof.
  intros H. unfold present. rewrite (root_of_root _ _ H), H. destruct (get_ent st s i); reflexivity.
Qed.

Lemma get_field_root sch st s i f : is_child sch s = false ->
  get_field sch st s i f = match get_ent st s i with Some e => ent_field e f | None => FAbsent end.
Proof.
  intros H. unfold get_field. rewrite (root_of_root _ _ H), H. destruct (get_ent st s i); [|reflexivity].
  destruct (find_store sch s); reflexivity.
Qed.

Lemma get_set_root sch st s i f : is_child sch s = false ->
  get_set sch st s i f = match get_ent st s i with Some e => ent_set e f | None => [] end.
Proof. intros H. unfold get_set. rewrite (root_of_root _ _ H). reflexivity. Qed.

Lemma ent_set_with_set e b0 l b : ent_set (ent_with_set e b0 l) b = if str_eqb b0 b then l else ent_set e b.
Proof. unfold ent_set, ent_with_set. cbn. rewrite al_get_put. destruct (str_eqb b0 b); reflexivity. Qed.

Lemma In_backref_add sch st t0 ti0 b0 i0 t ti b j :
  In j (get_set sch (backref_add sch st t0 ti0 b0 i0) t ti b) <->
  In j (get_set sch st t ti b) \/
  (root_of sch t0 = root_of sch t /\ ti0 = ti /\ b0 = b /\ j = i0 /\ get_ent st (root_of sch t) ti <> None).
Proof.
  unfold backref_add. destruct (get_ent st (root_of sch t0) ti0) as [e|] eqn:Ee.
  - unfold get_set. rewrite get_ent_set_ent.
    destruct (str_eqb (root_of sch t0) (root_of sch t) && str_eqb ti0 ti) eqn:E.
    + apply andb_prop in E as [E1 E2]. apply str_eqb_eq in E1, E2. subst ti0. rewrite <- E1, Ee.
      rewrite ent_set_with_set. destruct (str_eqb b0 b) eqn:Eb.
      * apply str_eqb_eq in Eb. subst b0. rewrite ss_add_in. split.
        -- intros [->|H]; [right; repeat split; congruence | left; exact H].
        -- intros [H|[_ [_ [_ [-> _]]]]]; [right; exact H | left; reflexivity].
      * apply str_eqb_neq in Eb. split; [intros H; left; exact H | intros [H|[_ [_ [Hb _]]]]; [exact H | contradiction]].
    + split; [intros H; left; exact H|]. intros [H|[H1 [H2 _]]]; [exact H|].
      subst. rewrite H1 in E. rewrite !str_eqb_refl in E. discriminate.
  - split; [intros H; left; exact H|]. intros [H|[H1 [H2 [_ [_ H5]]]]]; [exact H|].
    subst. rewrite H1 in Ee. congruence.
Qed.

Lemma In_backref_del sch st t0 ti0 b0 i0 t ti b j :
  In j (get_set sch (backref_del sch st t0 ti0 b0 i0) t ti b) <->
  In j (get_set sch st t ti b) /\
  ~ (root_of sch t0 = root_of sch t /\ ti0 = ti /\ b0 = b /\ j = i0).
Proof.
  unfold backref_del. destruct (get_ent st (root_of sch t0) ti0) as [e|] eqn:Ee.
  - unfold get_set. rewrite get_ent_set_ent.
    destruct (str_eqb (root_of sch t0) (root_of sch t) && str_eqb ti0 ti) eqn:E.
    + apply andb_prop in E as [E1 E2]. apply str_eqb_eq in E1, E2. subst ti0. rewrite <- E1, Ee.
      rewrite ent_set_with_set. destruct (str_eqb b0 b) eqn:Eb.
      * apply str_eqb_eq in Eb. subst b0. rewrite ss_del_in. split.
        -- intros [H1 H2]. split; [exact H2 | intros [_ [_ [_ H]]]; contradiction].
        -- intros [H1 H2]. split; [intros ->; apply H2; repeat split; reflexivity | exact H1].
      * apply str_eqb_neq in Eb. split; [intros H; split; [exact H | intros [_ [_ [Hb _]]]; contradiction] | intros [H _]; exact H].
    + split; [|intros [H _]; exact H]. intros H. split; [exact H|]. intros [H1 [H2 _]].
      subst. rewrite H1 in E. rewrite !str_eqb_refl in E. discriminate.
  - split; [|intros [H _]; exact H]. intros H. split; [exact H|]. intros [H1 [H2 [H3 H4]]]. subst.
    unfold get_set in H. rewrite <- H1, Ee in H. contradiction.
Qed.

(* persist: only declared fields / sets are written *)
Lemma persist_fields_get decl fv ch : forall cur g,
  al_get g (persist_fields decl fv ch cur) = al_get g cur \/
  (exists v, al_get g (persist_fields decl fv ch cur) = Some (FStr v)) \/
  al_get g (persist_fields decl fv ch cur) = Some FNil.
Proof.
  unfold persist_fields. induction decl as [|[f0 ptr] decl IH]; intros cur g; cbn [fold_left]; [left; reflexivity|].
  match goal with |- context [fold_left ?F decl ?A] => specialize (IH A g) end.
  destruct IH as [IH|IH]; [|right; exact IH]. rewrite IH. clear IH.
  destruct (checked ch f0); [|left; reflexivity].
  destruct (lookup_fv fv f0) as [[v|]|]; try destruct ptr; rewrite al_get_put;
    destruct (str_eqb f0 g); try (left; reflexivity); try (right; left; eexists; reflexivity); right; right; reflexivity.
Qed.

Lemma persist_sets_get decl sv ch b : ~ In b decl -> forall cur,
  al_get b (persist_sets decl sv ch cur) = al_get b cur.
Proof.
  unfold persist_sets. induction decl as [|f0 decl IH]; intros Hn cur; cbn [fold_left]; [reflexivity|].
  rewrite IH by (intros H; apply Hn; right; exact H).
  destruct (checked ch f0); [|reflexivity]. apply al_get_put_other. intros ->. apply Hn. left. reflexivity.
Qed.

Definition not_bool (v : fval) : Prop := forall b0, v <> FBool b0.

Lemma persist_field_not_bool sch s0 cr sys fv sv ch e g :
  g <> isSystemF -> not_bool (ent_field e g) -> not_bool (ent_field (persist sch s0 cr sys fv sv ch e) g).
Proof.
  intros Hg Hn. unfold persist.
  assert (Hpf : forall decl, not_bool (match al_get g (persist_fields decl fv ch (e_f e)) with Some v => v | None => FAbsent end)).
  { intros decl. destruct (persist_fields_get decl fv ch (e_f e) g) as [H|[[v H]|H]]; rewrite H;
      [exact Hn | intros b0; discriminate | intros b0; discriminate]. }
  assert (Hsys : forall decl, not_bool (ent_field (mkEnt (if cr && sys then al_put isSystemF (FBool true) (persist_fields decl fv ch (e_f e))
                                                          else persist_fields decl fv ch (e_f e)) [] []) g)).
  { intros decl. unfold ent_field. cbn [e_f]. destruct (cr && sys); [|apply Hpf].
    rewrite al_get_put_other by congruence. apply Hpf. }
  destruct (find_store sch s0) as [d|]; [|exact Hn]. destruct (sd_parent d) as [p|].
  - destruct (find_store sch p) as [pd|]; [|exact Hn]. exact (Hsys (sd_fields pd)).
  - exact (Hsys (sd_fields d)).
Qed.

(* ================================================================ the edge (s.f -> t) *)
Section Fk.
  Variable sch : schema.
  Variable s f t : name.
  Variable ob : option name.     (* Some b: fk index with back-reference set b ; None: fk constraint *)

  Definition pres_s (st : state) (i : id) : bool := present sch st s i.
  Definition pres_t (st : state) (x : id) : bool := present sch st t x.
  Definition fld (st : state) (i : id) : fval := get_field sch st s i f.
  Definition fb (st : state) (i : id) : str := fv_bytes (fld st i).
  Definition bs (b : name) (st : state) (ti : id) : list id := get_set sch st t ti b.

  (* targets exist (except for referrers in G, which are in the middle of their delete) *)
  Definition TE (G : id -> Prop) (st : state) : Prop :=
    forall i, pres_s st i = true -> ~ G i -> nonempty (fb st i) = true -> pres_t st (fb st i) = true.
  (* back-references: no stale entry ; every referrer outside G is listed *)
  Definition BSound (b : name) (st : state) : Prop :=
    forall ti i, In i (bs b st ti) -> pres_s st i = true /\ fb st i = ti /\ nonempty ti = true.
  Definition BComplete (b : name) (G : id -> Prop) (st : state) : Prop :=
    forall i, pres_s st i = true -> ~ G i -> nonempty (fb st i) = true -> In i (bs b st (fb st i)).
  (* the fk field holds a string or nothing *)
  Definition NoBool (st : state) : Prop := forall i, not_bool (fld st i).

  Definition FDInv (G : id -> Prop) (st : state) : Prop :=
    NoBool st /\ match ob with Some b => BSound b st /\ BComplete b G st | None => TE G st end.
  Definition FInv (st : state) : Prop := FDInv (fun _ => False) st.

  (* same view of the state *)
  Definition sview (st st' : state) : Prop :=
    (forall i, pres_s st' i = pres_s st i) /\ (forall i, fld st' i = fld st i) /\
    (forall x, pres_t st' x = pres_t st x) /\
    (forall b ti j, ob = Some b -> (In j (bs b st' ti) <-> In j (bs b st ti))).

  (* delete steps only remove *)
  Definition fmono (st st' : state) : Prop :=
    (forall i, pres_s st' i = true -> pres_s st i = true /\ fld st' i = fld st i) /\
    (forall x, pres_t st' x = true -> pres_t st x = true) /\
    (forall b ti j, ob = Some b -> In j (bs b st' ti) -> In j (bs b st ti)).

  Lemma sview_refl st : sview st st.
  Proof. repeat split; auto. Qed.

  Lemma sview_trans a b c : sview a b -> sview b c -> sview a c.
  Proof.
    intros [A1 [A2 [A3 A4]]] [B1 [B2 [B3 B4]]]. repeat split; intros; try congruence.
    - apply (A4 _ _ _ H). apply (B4 _ _ _ H). assumption.
    - apply (B4 _ _ _ H). apply (A4 _ _ _ H). assumption.
  Qed.

  Lemma fmono_refl st : fmono st st.
  Proof. repeat split; auto. Qed.

  Lemma fmono_trans a b c : fmono a b -> fmono b c -> fmono a c.
  Proof.
    intros [A1 [A2 A3]] [B1 [B2 B3]]. split; [|split].
    - intros i H. destruct (B1 i H) as [Hb Hfb]. destruct (A1 i Hb) as [Ha Hfa]. split; [exact Ha | congruence].
    - intros x H. apply A2, B2, H.
    - intros b0 ti j Hb H. eapply A3; [exact Hb|]. eapply B3; eauto.
  Qed.

  Lemma sview_fmono st st' : sview st st' -> fmono st st'.
  Proof.
    intros [H1 [H2 [H3 H4]]]. split; [|split].
    - intros i H. rewrite H1 in H. split; [exact H | apply H2].
    - intros x H. rewrite H3 in H. exact H.
    - intros b0 ti j Hb H. apply (H4 _ _ _ Hb). exact H.
  Qed.

  Lemma fb_fld st st' i : fld st' i = fld st i -> fb st' i = fb st i.
  Proof. unfold fb. intros ->. reflexivity. Qed.

  Lemma FDInv_sview G st st' : sview st st' -> FDInv G st -> FDInv G st'.
  Proof.
    intros [H1 [H2 [H3 H4]]] [HN HI]. split.
    - intros i. rewrite H2. apply HN.
    - destruct ob as [b|].
      + destruct HI as [HS HC]. split.
        * intros ti i Hin. apply (H4 b ti i eq_refl) in Hin. rewrite H1, (fb_fld _ _ _ (H2 i)). apply HS. exact Hin.
        * intros i Hp HG Hne. rewrite H1 in Hp. rewrite (fb_fld _ _ _ (H2 i)) in *. apply (H4 b _ i eq_refl). apply HC; assumption.
      + intros i Hp HG Hne. rewrite H1 in Hp. rewrite (fb_fld _ _ _ (H2 i)) in *. rewrite H3. apply HI; assumption.
  Qed.

  Lemma FDInv_weaken (G G' : id -> Prop) st : (forall i, G i -> G' i) -> FDInv G st -> FDInv G' st.
  Proof.
    intros Hsub [HN HI]. split; [exact HN|]. destruct ob as [b|].
    - destruct HI as [HS HC]. split; [exact HS|]. intros i Hp Hn. apply HC; [exact Hp | intros Hg; apply Hn, Hsub, Hg].
    - intros i Hp Hn. apply HI; [exact Hp | intros Hg; apply Hn, Hsub, Hg].
  Qed.

  (* ---- well-formedness of the schema around the edge ---- *)
  Hypothesis Hs : is_child sch s = false.
  Hypothesis Ht : is_child sch t = false.
  Hypothesis Hroots : forall x, root_of sch (root_of sch x) = root_of sch x.
  Hypothesis Hrc : forall x, is_child sch (root_of sch x) = false.

  Lemma froot_s : root_of sch s = s. Proof. apply root_of_root, Hs. Qed.
  Lemma froot_t : root_of sch t = t. Proof. apply root_of_root, Ht. Qed.

  Lemma pres_s_get st i : pres_s st i = match get_ent st s i with Some _ => true | None => false end.
  Proof. apply present_root, Hs. Qed.
  Lemma pres_t_get st x : pres_t st x = match get_ent st t x with Some _ => true | None => false end.
  Proof. apply present_root, Ht. Qed.
  Lemma fld_get st i : fld st i = match get_ent st s i with Some e => ent_field e f | None => FAbsent end.
  Proof. apply get_field_root, Hs. Qed.
  Lemma bs_get b st ti : bs b st ti = match get_ent st t ti with Some e => ent_set e b | None => [] end.
  Proof. apply get_set_root, Ht. Qed.

  Lemma bs_in_pres b st ti j : In j (bs b st ti) -> pres_t st ti = true.
  Proof. rewrite bs_get, pres_t_get. destruct (get_ent st t ti); [reflexivity | contradiction]. Qed.

  Lemma fb_nonempty_pres st i : nonempty (fb st i) = true -> pres_s st i = true.
  Proof. unfold fb. rewrite fld_get, pres_s_get. destruct (get_ent st s i); [reflexivity | discriminate]. Qed.

  Lemma FDInv_TE G st : FDInv G st -> TE G st.
  Proof.
    intros [_ HI]. destruct ob as [b|]; [|exact HI]. destruct HI as [_ HC].
    intros i Hp HG Hne. eapply bs_in_pres. apply HC; eassumption.
  Qed.

  (* a state change that keeps entities, fields and child data, and our back-reference sets *)
  Lemma fc_sview st st' : ents_fc_eq st st' ->
    (forall b ti j, ob = Some b -> (In j (bs b st' ti) <-> In j (bs b st ti))) -> sview st st'.
  Proof.
    intros H Hb. split; [|split; [|split]].
    - intros i. apply present_fc. apply H.
    - intros i. apply get_field_fc. apply H.
    - intros x. apply present_fc. apply H.
    - exact Hb.
  Qed.

  Lemma ents_eq_sview st st' : ents st' = ents st -> sview st st'.
  Proof.
    intros H. apply fc_sview; [apply ents_eq_fc; exact H|].
    intros b ti j _. unfold bs, get_set, get_ent. rewrite H. tauto.
  Qed.

  Lemma backref_add_other_sview st t0 ti0 b0 i0 :
    (root_of sch t0 <> t \/ Some b0 <> ob) -> sview st (backref_add sch st t0 ti0 b0 i0).
  Proof.
    intros Hne. apply fc_sview; [apply backref_add_fc|]. intros b ti j Hb. unfold bs. rewrite In_backref_add, froot_t.
    split; [|intros H; left; exact H]. intros [H|[H1 [_ [H3 _]]]]; [exact H|]. subst. destruct Hne; congruence.
  Qed.

  Lemma backref_del_other_sview st t0 ti0 b0 i0 :
    (root_of sch t0 <> t \/ Some b0 <> ob) -> sview st (backref_del sch st t0 ti0 b0 i0).
  Proof.
    intros Hne. apply fc_sview; [apply backref_del_fc|]. intros b ti j Hb. unfold bs. rewrite In_backref_del, froot_t.
    split; [intros [H _]; exact H|]. intros H. split; [exact H|]. intros [H1 [_ [H3 _]]]. subst. destruct Hne; congruence.
  Qed.

  (* ---- which constraint maintains the edge ---- *)
  Definition is_maint (k : cons) : Prop :=
    match ob with Some b => exists nl, k = CFkIndex f t b nl | None => exists nl, k = CFkCons f t nl end.

  (* every fk index writing the back-reference set (t, b) is the one of the edge, in store s *)
  Hypothesis Hown : forall s' f' t' b nl, ob = Some b -> In (CFkIndex f' t' b nl) (cons_of sch s') -> root_of sch t' = t ->
    s' = s /\ f' = f /\ t' = t.

  Definition fnot_ours (store : name) (k : cons) : Prop := ~ (store = s /\ is_maint k).

  Lemma fkindex_other store f0 t0 b0 nl :
    In (CFkIndex f0 t0 b0 nl) (cons_of sch store) -> fnot_ours store (CFkIndex f0 t0 b0 nl) ->
    root_of sch t0 <> t \/ Some b0 <> ob.
  Proof.
    intros Hin Hn. destruct (str_eq_dec (root_of sch t0) t) as [Hr|Hr]; [|left; exact Hr]. right.
    intros Hb. symmetry in Hb. destruct (Hown store f0 t0 b0 nl Hb Hin Hr) as [-> [-> ->]].
    apply Hn. split; [reflexivity|]. unfold is_maint. rewrite Hb. exists nl. reflexivity.
  Qed.

  (* a create/update hook that is not the maintaining constraint leaves the view unchanged *)
  Lemma after_one_sview st c k sv st' :
    after_update_one sch st c k sv = Ok st' -> In k (cons_of sch (ic_store c)) -> fnot_ours (ic_store c) k -> sview st st'.
  Proof.
    intros H Hin Hn. destruct k as [f0 nl|f0|f0 t0 b0 nl|b0|f0 t0 nl|rs f0 cs|]; cbn [after_update_one] in H.
    - destruct (negb (ic_create c) && _); [inversion H; subst; apply sview_refl|].
      destruct (nonempty _).
      + destruct (al_get _ _); [discriminate|]. destruct (key_ok _); [|discriminate].
        inversion H; subst. apply ents_eq_sview. reflexivity.
      + destruct nl; [|discriminate]. inversion H; subst. apply ents_eq_sview. reflexivity.
    - destruct (strs_eqb _ _); [inversion H; subst; apply sview_refl|].
      destruct (negb _); [discriminate|]. inversion H; subst. apply ents_eq_sview.
      rewrite fold_sidx_add_ents, fold_sidx_remove_ents. reflexivity.
    - pose proof (fkindex_other _ _ _ _ _ Hin Hn) as Hne.
      destruct (negb (ic_create c) && _); [inversion H; subst; apply sview_refl|].
      destruct (nonempty (sv_atom sv)).
      + destruct (present sch st t0 (sv_atom sv)); [|discriminate]. cbn [bind] in H.
        destruct (nonempty (fv_bytes _)).
        * destruct (present sch _ t0 _); [|discriminate]. inversion H; subst.
          eapply sview_trans; [apply backref_del_other_sview; exact Hne | apply backref_add_other_sview; exact Hne].
        * destruct nl; [|discriminate]. inversion H; subst. apply backref_del_other_sview; exact Hne.
      + cbn [bind] in H. destruct (nonempty (fv_bytes _)).
        * destruct (present sch st t0 _); [|discriminate]. inversion H; subst. apply backref_add_other_sview; exact Hne.
        * destruct nl; [|discriminate]. inversion H; subst. apply sview_refl.
    - inversion H; subst. apply sview_refl.
    - destruct (negb (ic_create c) && _); [inversion H; subst; apply sview_refl|].
      destruct (nonempty _).
      + destruct (present sch st t0 _); [|discriminate]. inversion H; subst. apply sview_refl.
      + destruct nl; [|discriminate]. inversion H; subst. apply sview_refl.
    - inversion H; subst. apply sview_refl.
    - destruct (ic_create c); [|inversion H; subst; apply sview_refl].
      destruct (get_field sch st (ic_store c) (ic_id c) isSystemF) as [| |x|[|]]; try (inversion H; subst; apply sview_refl).
      destruct (ic_sys c); [|discriminate]. inversion H; subst. apply sview_refl.
  Qed.

  Lemma after_all_sview c : forall ks svs st st',
    incl ks (cons_of sch (ic_store c)) -> Forall (fnot_ours (ic_store c)) ks ->
    after_update_all sch st c ks svs = Ok st' -> sview st st'.
  Proof.
    induction ks as [|k ks IH]; intros svs st st' Hincl Hall H; cbn [after_update_all] in H.
    - inversion H; subst. apply sview_refl.
    - inversion Hall as [|? ? Hk Hks]; subst.
      destruct (after_update_one sch st c k _) as [st1|e] eqn:E1; cbn [bind] in H; [|discriminate].
      eapply sview_trans.
      + eapply after_one_sview; [exact E1 | apply Hincl; left; reflexivity | exact Hk].
      + eapply IH; [|exact Hks|exact H]. intros y Hy. apply Hincl. right. exact Hy.
  Qed.

  (* ---- the state between persisting entity i of store s and the maintaining hook ---- *)
  Definition FMid (old : str) (i : id) (st : state) : Prop :=
    pres_s st i = true /\ NoBool st /\
    match ob with
    | Some b =>
        (forall ti j, In j (bs b st ti) ->
           pres_s st j = true /\ nonempty ti = true /\ (j <> i -> fb st j = ti) /\ (j = i -> ti = old)) /\
        (forall j, j <> i -> pres_s st j = true -> nonempty (fb st j) = true -> In j (bs b st (fb st j))) /\
        (nonempty old = true -> In i (bs b st old))
    | None =>
        (forall j, j <> i -> pres_s st j = true -> nonempty (fb st j) = true -> pres_t st (fb st j) = true) /\
        (nonempty old = true -> pres_t st old = true)
    end.

  Lemma ob_cases : (exists b, ob = Some b) \/ ob = None.
  Proof. destruct ob; eauto. Qed.

  Lemma FMid_sview old i st st' : sview st st' -> FMid old i st -> FMid old i st'.
  Proof.
    intros [H1 [H2 [H3 H4]]] [M1 [MN M]]. split; [rewrite H1; exact M1|]. split; [intros j; rewrite H2; apply MN|].
    destruct ob as [b|].
    - destruct M as [M2 [M3 M4]]. split; [|split].
      + intros ti j Hin. apply (H4 b ti j eq_refl) in Hin. rewrite H1, (fb_fld _ _ _ (H2 j)). apply M2. exact Hin.
      + intros j Hj Hp Hne. rewrite H1 in Hp. rewrite (fb_fld _ _ _ (H2 j)) in *. apply (H4 b _ j eq_refl). apply M3; assumption.
      + intros Hne. apply (H4 b _ i eq_refl). apply M4. exact Hne.
    - destruct M as [M3 M4]. split.
      + intros j Hj Hp Hne. rewrite H1 in Hp. rewrite (fb_fld _ _ _ (H2 j)) in *. rewrite H3. apply M3; assumption.
      + intros Hne. rewrite H3. apply M4. exact Hne.
  Qed.

  Lemma ours_del st b v i :
    (forall j, pres_s (backref_del sch st t v b i) j = pres_s st j) /\
    (forall j, fld (backref_del sch st t v b i) j = fld st j) /\
    (forall x, pres_t (backref_del sch st t v b i) x = pres_t st x) /\
    (forall ti j, In j (bs b (backref_del sch st t v b i) ti) <-> In j (bs b st ti) /\ ~ (v = ti /\ j = i)).
  Proof.
    pose proof (backref_del_fc sch st t v b i) as Hfc. split; [|split; [|split]].
    - intros j. apply present_fc. apply Hfc.
    - intros j. apply get_field_fc. apply Hfc.
    - intros x. apply present_fc. apply Hfc.
    - intros ti j. unfold bs. rewrite In_backref_del. split; intros [A B]; (split; [exact A|]); intros C; apply B; tauto.
  Qed.

  Lemma ours_add st b v i : pres_t st v = true ->
    (forall j, pres_s (backref_add sch st t v b i) j = pres_s st j) /\
    (forall j, fld (backref_add sch st t v b i) j = fld st j) /\
    (forall x, pres_t (backref_add sch st t v b i) x = pres_t st x) /\
    (forall ti j, In j (bs b (backref_add sch st t v b i) ti) <-> In j (bs b st ti) \/ (v = ti /\ j = i)).
  Proof.
    intros Hp. pose proof (backref_add_fc sch st t v b i) as Hfc. split; [|split; [|split]].
    - intros j. apply present_fc. apply Hfc.
    - intros j. apply get_field_fc. apply Hfc.
    - intros x. apply present_fc. apply Hfc.
    - intros ti j. unfold bs. rewrite In_backref_add, froot_t. split; intros [A|B]; try (left; exact A).
      + right. tauto.
      + right. destruct B as [<- ->]. repeat split. rewrite pres_t_get in Hp. destruct (get_ent st t v); [discriminate | discriminate].
  Qed.

  (* common end of the fk-index hook: the hook moved i from the set of [old] to the set of its value *)
  Lemma index_hook_final b old i st st' : ob = Some b -> FMid old i st ->
    (forall j, pres_s st' j = pres_s st j) -> (forall j, fld st' j = fld st j) ->
    (forall ti j, In j (bs b st' ti) <->
        (In j (bs b st ti) /\ ~ (nonempty old = true /\ old = ti /\ j = i)) \/
        (nonempty (fb st i) = true /\ fb st i = ti /\ j = i)) ->
    FInv st'.
  Proof.
    intros Hob [M1 [MN M]] H1 H2 HM. unfold FInv, FDInv. rewrite Hob in *. destruct M as [M2 [M3 M4]].
    split; [intros j; rewrite H2; apply MN|]. split.
    - intros ti j Hin. apply HM in Hin. rewrite H1, (fb_fld _ _ _ (H2 j)). destruct Hin as [[Hin Hn]|[Hne [Hv ->]]].
      + destruct (M2 ti j Hin) as [A [B [C D]]]. destruct (str_eq_dec j i) as [->|Hji].
        * exfalso. apply Hn. specialize (D eq_refl). subst ti. tauto.
        * tauto.
      + subst ti. tauto.
    - intros j Hp _ Hne. rewrite H1 in Hp. rewrite (fb_fld _ _ _ (H2 j)) in *. apply HM.
      destruct (str_eq_dec j i) as [->|Hji]; [right; tauto|]. left. split; [apply M3; assumption | tauto].
  Qed.

  (* the maintaining hook re-establishes the invariant *)
  Lemma maint_hook_restores old i st c k sv st' :
    FMid old i st -> ic_store c = s -> ic_id c = i -> sv_atom sv = old -> is_maint k ->
    after_update_one sch st c k sv = Ok st' -> FInv st'.
  Proof.
    intros HM Hst Hi Hsv Hk H. unfold is_maint in Hk. destruct ob_cases as [[b Hob]|Hob]; rewrite Hob in Hk.
    - destruct Hk as [nl ->]. cbn [after_update_one] in H. rewrite Hst, Hi, Hsv in H.
      fold (fld st i) in H. fold (fb st i) in H. set (new := fb st i) in *.
      assert (Hfin : forall st2, (forall j, pres_s st2 j = pres_s st j) -> (forall j, fld st2 j = fld st j) ->
                (forall ti j, In j (bs b st2 ti) <->
                   (In j (bs b st ti) /\ ~ (nonempty old = true /\ old = ti /\ j = i)) \/
                   (nonempty new = true /\ new = ti /\ j = i)) -> FInv st2).
      { intros st2 A B C. eapply index_hook_final; eauto. }
      destruct (negb (ic_create c) && str_eqb old new) eqn:Eshort.
      + inversion H; subst st'. apply andb_prop in Eshort as [_ Eq]. apply str_eqb_eq in Eq.
        apply Hfin; [reflexivity | reflexivity|]. intros ti j. destruct HM as [_ [_ HM]]. rewrite Hob in HM. destruct HM as [M2 [_ M4]].
        split.
        * intros Hin. destruct (M2 ti j Hin) as [_ [Hne [_ D]]]. destruct (str_eq_dec j i) as [->|Hji].
          -- right. specialize (D eq_refl). subst ti. rewrite <- Eq. tauto.
          -- left. tauto.
        * intros [[Hin _]|[Hne [Hv ->]]]; [exact Hin|]. subst ti. rewrite <- Eq in *. apply M4. exact Hne.
      + destruct (nonempty old) eqn:Eo.
        * destruct (present sch st t old) eqn:Epo; [|discriminate]. cbn [bind] in H.
          destruct (ours_del st b old i) as [D1 [D2 [D3 D4]]]. set (st1 := backref_del sch st t old b i) in *.
          destruct (nonempty new) eqn:En.
          -- destruct (present sch st1 t new) eqn:Epn; [|discriminate]. inversion H; subst st'.
             destruct (ours_add st1 b new i Epn) as [A1 [A2 [A3 A4]]].
             apply Hfin; [intros; rewrite A1; apply D1 | intros; rewrite A2; apply D2|].
             intros ti j. rewrite A4, D4. split.
             ++ intros [[X Y]|[X Y]]; [left; split; [exact X | intros [_ [Z W]]; apply Y; tauto] | right; tauto].
             ++ intros [[X Y]|[_ [X Y]]]; [left; split; [exact X | intros [Z W]; apply Y; tauto] | right; tauto].
          -- destruct nl; [|discriminate]. inversion H; subst st'.
             apply Hfin; [exact D1 | exact D2|]. intros ti j. rewrite D4. split.
             ++ intros [X Y]. left. split; [exact X | intros [_ [Z W]]; apply Y; tauto].
             ++ intros [[X Y]|[X _]]; [split; [exact X | intros [Z W]; apply Y; tauto] | discriminate].
        * cbn [bind] in H. destruct (nonempty new) eqn:En.
          -- destruct (present sch st t new) eqn:Epn; [|discriminate]. inversion H; subst st'.
             destruct (ours_add st b new i Epn) as [A1 [A2 [A3 A4]]].
             apply Hfin; [exact A1 | exact A2|]. intros ti j. rewrite A4. split.
             ++ intros [X|[X Y]]; [left; split; [exact X | intros [Z _]; discriminate] | right; tauto].
             ++ intros [[X _]|[_ [X Y]]]; [left; exact X | right; tauto].
          -- destruct nl; [|discriminate]. inversion H; subst st'.
             apply Hfin; [reflexivity | reflexivity|]. intros ti j. split.
             ++ intros X. left. split; [exact X | intros [Z _]; discriminate].
             ++ intros [[X _]|[X _]]; [exact X | discriminate].
    - destruct Hk as [nl ->]. cbn [after_update_one] in H. rewrite Hst, Hi, Hsv in H.
      fold (fld st i) in H. fold (fb st i) in H. set (new := fb st i) in *.
      destruct HM as [M1 [MN HM]]. rewrite Hob in HM. destruct HM as [M3 M4].
      assert (Hfin : (nonempty new = true -> pres_t st new = true) -> FInv st).
      { intros Hn. unfold FInv, FDInv. rewrite Hob. split; [exact MN|]. intros j Hp _ Hne.
        destruct (str_eq_dec j i) as [->|Hji]; [apply Hn; exact Hne | apply M3; assumption]. }
      destruct (negb (ic_create c) && str_eqb old new) eqn:Eshort.
      + inversion H; subst st'. apply andb_prop in Eshort as [_ Eq]. apply str_eqb_eq in Eq.
        apply Hfin. rewrite <- Eq. exact M4.
      + destruct (nonempty new) eqn:En.
        * destruct (present sch st t new) eqn:Epn; [|discriminate]. inversion H; subst st'. apply Hfin. intros _. exact Epn.
        * destruct nl; [|discriminate]. inversion H; subst st'. apply Hfin. discriminate.
  Qed.

  (* ---- running the whole constraint list of s ---- *)
  (* the maintaining constraint occurs exactly once in the constraint list of s *)
  Hypothesis Honce : exists k pre post,
    cons_of sch s = pre ++ k :: post /\ is_maint k /\
    Forall (fun k => ~ is_maint k) pre /\ Forall (fun k => ~ is_maint k) post.

  Lemma fnot_ours_of_not_maint store ks : Forall (fun k => ~ is_maint k) ks -> Forall (fnot_ours store) ks.
  Proof. intros H. eapply Forall_impl; [|exact H]. intros k Hk [_ Ho]. apply Hk. exact Ho. Qed.

  Lemma after_all_pre c old i : forall pre rest svs st st',
    incl pre (cons_of sch (ic_store c)) -> Forall (fnot_ours (ic_store c)) pre -> FMid old i st ->
    after_update_all sch st c (pre ++ rest) svs = Ok st' ->
    exists st1, FMid old i st1 /\ after_update_all sch st1 c rest (skipn (length pre) svs) = Ok st'.
  Proof.
    induction pre as [|k pre IH]; intros rest svs st st' Hincl Hall HM H.
    - exists st. split; [exact HM | exact H].
    - inversion Hall as [|? ? Hk Hks]; subst. cbn [app after_update_all] in H.
      destruct (after_update_one sch st c k _) as [st1|e] eqn:E1; cbn [bind] in H; [|discriminate].
      assert (FMid old i st1) as HM1.
      { eapply FMid_sview; [|exact HM]. eapply after_one_sview; [exact E1 | apply Hincl; left; reflexivity | exact Hk]. }
      assert (incl pre (cons_of sch (ic_store c))) as Hincl' by (intros y Hy; apply Hincl; right; exact Hy).
      destruct (IH rest _ st1 st' Hincl' Hks HM1 H) as [st2 [HM2 H2]]. exists st2. split; [exact HM2|].
      destruct svs as [|x svs]; cbn [length skipn]; [destruct (length pre); exact H2 | exact H2].
  Qed.

  (* the constraint list of s, run after entity i was persisted, re-establishes the invariant *)
  Lemma after_all_restores c old i svs st st' :
    ic_store c = s -> ic_id c = i -> FMid old i st ->
    (forall pre k post, cons_of sch s = pre ++ k :: post -> is_maint k ->
        sv_atom (hd SvNone (skipn (length pre) svs)) = old) ->
    after_update_all sch st c (cons_of sch s) svs = Ok st' -> FInv st'.
  Proof.
    intros Hst Hi HM Hsv H. destruct Honce as [k [pre [post [Hc [Hk [Hpre Hpost]]]]]].
    assert (incl pre (cons_of sch (ic_store c)) /\ incl post (cons_of sch (ic_store c))) as [Hipre Hipost].
    { rewrite Hst, Hc. split; intros y Hy; apply in_or_app; [left; exact Hy | right; right; exact Hy]. }
    rewrite Hc in H.
    destruct (after_all_pre c old i pre _ svs st st' Hipre (fnot_ours_of_not_maint _ _ Hpre) HM H) as [st1 [HM1 H1]].
    cbn [after_update_all] in H1.
    destruct (after_update_one sch st1 c k _) as [st2|e] eqn:E2; cbn [bind] in H1; [|discriminate].
    assert (FInv st2) as HU.
    { eapply maint_hook_restores; [exact HM1 | exact Hst | exact Hi | | exact Hk | exact E2].
      specialize (Hsv pre k post Hc Hk). destruct (skipn (length pre) svs); exact Hsv. }
    eapply FDInv_sview; [|exact HU]. eapply after_all_sview; [exact Hipost | | exact H1].
    apply fnot_ours_of_not_maint. exact Hpost.
  Qed.

  (* ---- chains ---- *)
  Lemma after_chain_sview i create sys : forall ch svs st st',
    (forall s' ks, In (s', ks) ch -> ks = cons_of sch s' /\ s' <> s) ->
    after_chain sch st create sys i ch svs = Ok st' -> sview st st'.
  Proof.
    induction ch as [|[s' ks] ch IH]; intros svs st st' Hall H; cbn [after_chain] in H.
    - inversion H; subst. apply sview_refl.
    - destruct (after_update_all sch st _ ks _) as [st1|e] eqn:E1; cbn [bind] in H; [|discriminate].
      destruct (Hall s' ks (or_introl eq_refl)) as [-> Hne].
      eapply sview_trans.
      + eapply (after_all_sview (mkIctx create sys s' i)); [apply incl_refl | | exact E1]. cbn.
        apply Forall_forall. intros k _ [Heq _]. contradiction.
      + eapply IH; [|exact H]. intros s2 ks2 Hin. apply Hall. right. exact Hin.
  Qed.

  Lemma not_child_root_eq s0 : is_child sch s0 = false -> root_of sch s0 = s -> s0 = s.
  Proof. intros Hc Hr. rewrite (root_of_root _ _ Hc) in Hr. exact Hr. Qed.

  Lemma child_ne_s s0 : is_child sch s0 = true -> s0 <> s.
  Proof. intros Hc ->. rewrite Hs in Hc. discriminate. Qed.

  (* ---- effect of writing / removing one entity ---- *)
  Lemma pres_s_set_ent st r0 i e j :
    pres_s (set_ent st r0 i e) j = if str_eqb r0 s && str_eqb i j then true else pres_s st j.
  Proof. rewrite !pres_s_get, get_ent_set_ent. destruct (str_eqb r0 s && str_eqb i j); reflexivity. Qed.

  Lemma pres_t_set_ent st r0 i e x :
    pres_t (set_ent st r0 i e) x = if str_eqb r0 t && str_eqb i x then true else pres_t st x.
  Proof. rewrite !pres_t_get, get_ent_set_ent. destruct (str_eqb r0 t && str_eqb i x); reflexivity. Qed.

  Lemma fld_set_ent st r0 i e j :
    fld (set_ent st r0 i e) j = if str_eqb r0 s && str_eqb i j then ent_field e f else fld st j.
  Proof. rewrite !fld_get, get_ent_set_ent. destruct (str_eqb r0 s && str_eqb i j); reflexivity. Qed.

  Lemma bs_set_ent b st r0 i e ti :
    bs b (set_ent st r0 i e) ti = if str_eqb r0 t && str_eqb i ti then ent_set e b else bs b st ti.
  Proof. rewrite !bs_get, get_ent_set_ent. destruct (str_eqb r0 t && str_eqb i ti); reflexivity. Qed.

  Lemma pres_s_del_ent st r0 i j :
    pres_s (del_ent st r0 i) j = if str_eqb r0 s && str_eqb i j then false else pres_s st j.
  Proof. rewrite !pres_s_get, get_ent_del_ent. destruct (str_eqb r0 s && str_eqb i j); reflexivity. Qed.

  Lemma pres_t_del_ent st r0 i x :
    pres_t (del_ent st r0 i) x = if str_eqb r0 t && str_eqb i x then false else pres_t st x.
  Proof. rewrite !pres_t_get, get_ent_del_ent. destruct (str_eqb r0 t && str_eqb i x); reflexivity. Qed.

  Lemma fld_del_ent st r0 i j :
    fld (del_ent st r0 i) j = if str_eqb r0 s && str_eqb i j then FAbsent else fld st j.
  Proof. rewrite !fld_get, get_ent_del_ent. destruct (str_eqb r0 s && str_eqb i j); reflexivity. Qed.

  Lemma bs_del_ent b st r0 i ti :
    bs b (del_ent st r0 i) ti = if str_eqb r0 t && str_eqb i ti then [] else bs b st ti.
  Proof. rewrite !bs_get, get_ent_del_ent. destruct (str_eqb r0 t && str_eqb i ti); reflexivity. Qed.

  (* ---- persist ---- *)
  Hypothesis Hfsys : f <> isSystemF.
  (* the back-reference set is not a declared set field of the target store *)
  Hypothesis Hsets : forall b d, ob = Some b -> find_store sch t = Some d -> ~ In b (sd_sets d).

  Lemma persist_keeps_bs b s0 cr sys fv sv ch e :
    ob = Some b -> root_of sch s0 = t -> ent_set (persist sch s0 cr sys fv sv ch e) b = ent_set e b.
  Proof.
    intros Hob Hr. unfold persist, root_of in *. destruct (find_store sch s0) as [d|] eqn:Ef; [|reflexivity].
    destruct (sd_parent d) as [p|].
    - subst p. destruct (find_store sch t) as [pd|] eqn:Ep; [|reflexivity].
      unfold ent_set. cbn [e_s]. rewrite persist_sets_get; [reflexivity | eapply Hsets; eauto].
    - subst s0. unfold ent_set. cbn [e_s]. rewrite persist_sets_get; [reflexivity | eapply Hsets; eauto].
  Qed.

  (* writing entity i of root r0 (fields of i change, its back-reference set does not) *)
  Definition WriteOk (st : state) (r0 : name) (i : id) (e' : entity) : Prop :=
    (r0 = s -> not_bool (ent_field e' f)) /\
    (forall b, ob = Some b -> r0 = t -> ent_set e' b = bs b st i).

  Lemma bs_write b st r0 i e' ti : ob = Some b -> WriteOk st r0 i e' -> bs b (set_ent st r0 i e') ti = bs b st ti.
  Proof.
    intros Hob [_ W]. rewrite bs_set_ent. destruct (str_eqb r0 t && str_eqb i ti) eqn:E; [|reflexivity].
    apply andb_prop in E as [E1 E2]. apply str_eqb_eq in E1, E2. subst. apply W; [exact Hob | reflexivity].
  Qed.

  Lemma write_other_root st r0 i e' : r0 <> s -> WriteOk st r0 i e' -> FInv st -> FInv (set_ent st r0 i e').
  Proof.
    intros Hne HW [HN HI]. assert (str_eqb r0 s = false) as Er by (apply str_eqb_neq; exact Hne).
    assert (Hp : forall j, pres_s (set_ent st r0 i e') j = pres_s st j) by (intros j; rewrite pres_s_set_ent, Er; reflexivity).
    assert (Hf : forall j, fld (set_ent st r0 i e') j = fld st j) by (intros j; rewrite fld_set_ent, Er; reflexivity).
    assert (Hpt : forall x, pres_t st x = true -> pres_t (set_ent st r0 i e') x = true).
    { intros x H. rewrite pres_t_set_ent. destruct (_ && _); [reflexivity | exact H]. }
    split; [intros j; rewrite Hf; apply HN|]. destruct ob_cases as [[b Hob]|Hob]; rewrite Hob in *.
    - destruct HI as [HS HC]. split.
      + intros ti j Hin. rewrite (bs_write b st r0 i e' ti Hob HW) in Hin. rewrite Hp, (fb_fld _ _ _ (Hf j)). apply HS. exact Hin.
      + intros j Hpj HG Hn. rewrite Hp in Hpj. rewrite (fb_fld _ _ _ (Hf j)) in *. rewrite (bs_write b st r0 i e' _ Hob HW).
        apply HC; assumption.
    - intros j Hpj HG Hn. rewrite Hp in Hpj. rewrite (fb_fld _ _ _ (Hf j)) in *. apply Hpt. apply HI; assumption.
  Qed.

  Lemma write_mid st i e' : WriteOk st s i e' -> FInv st -> FMid (fb st i) i (set_ent st s i e').
  Proof.
    intros HW [HN HI]. set (st1 := set_ent st s i e').
    assert (Hp : forall j, pres_s st1 j = if str_eqb i j then true else pres_s st j).
    { intros j. unfold st1. rewrite pres_s_set_ent, str_eqb_refl. reflexivity. }
    assert (Hf : forall j, j <> i -> fb st1 j = fb st j).
    { intros j Hj. apply fb_fld. unfold st1. rewrite fld_set_ent, str_eqb_refl. cbn [andb].
      assert (str_eqb i j = false) as -> by (apply str_eqb_neq; congruence). reflexivity. }
    assert (Hpt : forall x, pres_t st x = true -> pres_t st1 x = true).
    { intros x H. unfold st1. rewrite pres_t_set_ent. destruct (_ && _); [reflexivity | exact H]. }
    split; [rewrite Hp, str_eqb_refl; reflexivity|]. split.
    { intros j. unfold st1. rewrite fld_set_ent, str_eqb_refl. cbn [andb]. destruct (str_eqb i j); [apply HW; reflexivity | apply HN]. }
    destruct ob_cases as [[b Hob]|Hob]; rewrite Hob in *.
    - destruct HI as [HS HC]. split; [|split].
      + intros ti j Hin. unfold st1 in Hin. rewrite (bs_write b st s i e' ti Hob HW) in Hin.
        destruct (HS ti j Hin) as [A [B C]]. split; [rewrite Hp; destruct (str_eqb i j); [reflexivity | exact A]|].
        split; [exact C|]. split; [intros Hj; rewrite Hf by exact Hj; exact B | intros ->; symmetry; exact B].
      + intros j Hj Hpj Hn. rewrite Hp in Hpj. assert (str_eqb i j = false) as E by (apply str_eqb_neq; congruence).
        rewrite E in Hpj. rewrite Hf in * by exact Hj. unfold st1. rewrite (bs_write b st s i e' _ Hob HW).
        apply HC; [exact Hpj | tauto | exact Hn].
      + intros Hn. unfold st1. rewrite (bs_write b st s i e' _ Hob HW).
        apply HC; [apply fb_nonempty_pres; exact Hn | tauto | exact Hn].
    - split.
      + intros j Hj Hpj Hn. rewrite Hp in Hpj. assert (str_eqb i j = false) as E by (apply str_eqb_neq; congruence).
        rewrite E in Hpj. rewrite Hf in * by exact Hj. apply Hpt. apply HI; [exact Hpj | tauto | exact Hn].
      + intros Hn. apply Hpt. apply HI; [apply fb_nonempty_pres; exact Hn | tauto | exact Hn].
  Qed.

  Lemma fb_absent st i : pres_s st i = false -> fb st i = [].
  Proof. unfold fb. rewrite pres_s_get, fld_get. destruct (get_ent st s i); [discriminate | reflexivity]. Qed.

  (* ---- create ---- *)
  Lemma op_create_inv oc st evs s0 i sys fv sv st' evs' :
    FInv st -> op_create sch oc (st, evs) s0 i sys fv sv = Ok (st', evs') -> FInv st'.
  Proof.
    intros HU H. unfold op_create in H.
    destruct (find_store sch s0) as [d0|]; [|discriminate].
    destruct (negb (nonempty i)); [discriminate|].
    destruct (present sch st s0 i) eqn:Ep0; [discriminate|].
    destruct (present sch st (root_of sch s0) i) eqn:Epr; [discriminate|].
    destruct (negb (key_ok i)); [discriminate|].
    destruct (fire_cu sch oc evs s0 Created i) as [evs1|e]; cbn [bind] in H; [|discriminate].
    destruct (after_chain sch _ true (oc_sys oc) i (chain sch s0) []) as [st2|e] eqn:Eac; cbn [bind] in H; [|discriminate].
    inversion H; subst st' evs'. clear H.
    set (e1 := persist sch s0 true sys fv sv None ent_empty) in *.
    assert (get_ent st (root_of sch s0) i = None) as Hnone.
    { rewrite (present_root _ _ _ _ (Hrc s0)) in Epr. destruct (get_ent st (root_of sch s0) i); [discriminate | reflexivity]. }
    assert (WriteOk st (root_of sch s0) i e1) as HW.
    { split.
      - intros _. apply persist_field_not_bool; [exact Hfsys | intros b0; discriminate].
      - intros b Hob Hr. unfold e1. rewrite (persist_keeps_bs b _ _ _ _ _ _ _ Hob Hr). rewrite bs_get, <- Hr, Hnone. reflexivity. }
    destruct (str_eq_dec (root_of sch s0) s) as [Hr|Hr].
    - rewrite Hr in *.
      assert (pres_s st i = false) as Hpi by (rewrite pres_s_get, Hnone; reflexivity).
      pose proof (write_mid st i e1 HW HU) as HM. rewrite (fb_absent _ _ Hpi) in HM.
      unfold chain in Eac. destruct (is_child sch s0) eqn:Ec.
      + rewrite Hr in Eac. cbn [after_chain] in Eac.
        destruct (after_update_all sch _ _ (cons_of sch s) _) as [stA|e] eqn:EA; cbn [bind] in Eac; [|discriminate].
        assert (FInv stA) as HA.
        { eapply (after_all_restores (mkIctx true (oc_sys oc) s i) [] i []); try reflexivity; [exact HM | | exact EA].
          intros. rewrite skipn_nil_any. reflexivity. }
        destruct (after_update_all sch stA _ (cons_of sch s0) _) as [stB|e] eqn:EB; cbn [bind] in Eac; [|discriminate].
        inversion Eac; subst st2. eapply FDInv_sview; [|exact HA].
        eapply (after_all_sview (mkIctx true (oc_sys oc) s0 i)); [apply incl_refl | | exact EB]. cbn.
        apply Forall_forall. intros k _ [Heq _]. exact (child_ne_s _ Ec Heq).
      + assert (s0 = s) as -> by (apply not_child_root_eq; assumption).
        cbn [after_chain] in Eac.
        destruct (after_update_all sch _ _ (cons_of sch s) _) as [stA|e] eqn:EA; cbn [bind] in Eac; [|discriminate].
        inversion Eac; subst st2.
        eapply (after_all_restores (mkIctx true (oc_sys oc) s i) [] i []); try reflexivity; [exact HM | | exact EA].
        intros. rewrite skipn_nil_any. reflexivity.
    - eapply FDInv_sview; [|apply (write_other_root st _ i e1 Hr HW HU)].
      eapply after_chain_sview; [|exact Eac]. intros s' ks Hin.
      apply (chain_in sch Hroots) in Hin as [-> Hrs]. split; [reflexivity|]. intros ->. apply Hr. rewrite <- Hrs. apply froot_s.
  Qed.

  (* ---- update ---- *)
  Lemma saved_at_hook st i sys svs :
    before_update_all sch st (mkIctx false sys s i) (cons_of sch s) = Ok svs ->
    forall pre k post, cons_of sch s = pre ++ k :: post -> is_maint k ->
      sv_atom (hd SvNone (skipn (length pre) svs)) = fb st i.
  Proof.
    intros Hb pre k post Hc Hk. rewrite Hc in Hb.
    destruct (before_all_at _ _ _ _ _ _ _ Hb) as [sv [rest [H1 H2]]]. rewrite H2. cbn [hd].
    unfold is_maint in Hk. destruct ob_cases as [[b Hob]|Hob]; rewrite Hob in Hk; destruct Hk as [nl ->];
      cbn in H1; inversion H1; subst; reflexivity.
  Qed.

  Lemma present_root_ent st s0 i : present sch st s0 i = true -> exists e, get_ent st (root_of sch s0) i = Some e.
  Proof. unfold present. destruct (get_ent st (root_of sch s0) i) as [e|]; [eexists; reflexivity | discriminate]. Qed.

  Lemma update_in_inv oc st evs s0 i fv sv ch st' evs' :
    FInv st -> update_in sch oc (st, evs) s0 i fv sv ch = Ok (st', evs') -> FInv st'.
  Proof.
    intros HU H. unfold update_in in H.
    destruct (negb (nonempty i)); [discriminate|].
    destruct (negb (loadable sch st s0 i)); [discriminate|].
    destruct (present sch st s0 i) eqn:Ep0; cbn [negb] in H; [|discriminate].
    destruct (fire_cu sch oc evs s0 Updated i) as [evs1|e]; cbn [bind] in H; [|discriminate].
    destruct (before_chain sch st false (oc_sys oc) i (chain sch s0)) as [svs|e] eqn:Ebc; cbn [bind] in H; [|discriminate].
    destruct (after_chain sch _ false (oc_sys oc) i (chain sch s0) svs) as [st2|e] eqn:Eac; cbn [bind] in H; [|discriminate].
    inversion H; subst st' evs'. clear H.
    destruct (present_root_ent _ _ _ Ep0) as [e0 He0]. rewrite He0 in Eac.
    set (e1 := persist sch s0 false false fv sv ch e0) in *.
    assert (WriteOk st (root_of sch s0) i e1) as HW.
    { split.
      - intros Hr. apply persist_field_not_bool; [exact Hfsys|]. destruct HU as [HN _]. specialize (HN i).
        rewrite fld_get, <- Hr, He0 in HN. exact HN.
      - intros b Hob Hr. unfold e1. rewrite (persist_keeps_bs b _ _ _ _ _ _ _ Hob Hr). rewrite bs_get, <- Hr, He0. reflexivity. }
    destruct (str_eq_dec (root_of sch s0) s) as [Hr|Hr].
    - rewrite Hr in *.
      pose proof (write_mid st i e1 HW HU) as HM.
      unfold chain in Eac, Ebc. destruct (is_child sch s0) eqn:Ec.
      + rewrite Hr in Eac, Ebc. cbn [before_chain] in Ebc.
        destruct (before_update_all sch st _ (cons_of sch s)) as [svsA|e] eqn:EbA; cbn [bind] in Ebc; [|discriminate].
        destruct (before_update_all sch st _ (cons_of sch s0)) as [svsB|e] eqn:EbB; cbn [bind] in Ebc; [|discriminate].
        inversion Ebc; subst svs. cbn [after_chain] in Eac.
        destruct (after_update_all sch _ _ (cons_of sch s) _) as [stA|e] eqn:EA; cbn [bind] in Eac; [|discriminate].
        assert (FInv stA) as HA.
        { eapply (after_all_restores (mkIctx false (oc_sys oc) s i) (fb st i) i svsA); try reflexivity; [exact HM | | exact EA].
          eapply saved_at_hook. exact EbA. }
        destruct (after_update_all sch stA _ (cons_of sch s0) _) as [stB|e] eqn:EB; cbn [bind] in Eac; [|discriminate].
        inversion Eac; subst st2. eapply FDInv_sview; [|exact HA].
        eapply (after_all_sview (mkIctx false (oc_sys oc) s0 i)); [apply incl_refl | | exact EB]. cbn.
        apply Forall_forall. intros k _ [Heq _]. exact (child_ne_s _ Ec Heq).
      + assert (s0 = s) as -> by (apply not_child_root_eq; assumption).
        cbn [before_chain] in Ebc.
        destruct (before_update_all sch st _ (cons_of sch s)) as [svsA|e] eqn:EbA; cbn [bind] in Ebc; [|discriminate].
        inversion Ebc; subst svs. cbn [after_chain] in Eac.
        destruct (after_update_all sch _ _ (cons_of sch s) _) as [stA|e] eqn:EA; cbn [bind] in Eac; [|discriminate].
        inversion Eac; subst st2.
        eapply (after_all_restores (mkIctx false (oc_sys oc) s i) (fb st i) i svsA); try reflexivity; [exact HM | | exact EA].
        eapply saved_at_hook. exact EbA.
    - eapply FDInv_sview; [|apply (write_other_root st _ i e1 Hr HW HU)].
      eapply after_chain_sview; [|exact Eac]. intros s' ks Hin.
      apply (chain_in sch Hroots) in Hin as [-> Hrs]. split; [reflexivity|]. intros ->. apply Hr. rewrite <- Hrs. apply froot_s.
  Qed.

  Lemma op_update_inv oc st evs s0 i fv sv ch st' evs' :
    FInv st -> op_update sch oc (st, evs) s0 i fv sv ch = Ok (st', evs') -> FInv st'.
  Proof.
    intros HU H. unfold op_update in H. destruct (find_store sch s0); [|discriminate].
    destruct (is_child sch s0); [eapply update_in_inv; eauto|].
    destruct (find _ (children_of sch s0)); eapply update_in_inv; eauto.
  Qed.

  (* ---- link operations write link sets only ---- *)
  Hypothesis Hlinks : forall s0 d lf os of_, find_store sch s0 = Some d -> In (lf, os, of_) (sd_links d) ->
    (root_of sch s0 <> t \/ Some lf <> ob) /\ (root_of sch os <> t \/ Some of_ <> ob).

  Lemma find_link_in s0 lf os of_ : find_link sch s0 lf = Some (os, of_) ->
    exists d, find_store sch s0 = Some d /\ In (lf, os, of_) (sd_links d).
  Proof.
    unfold find_link. destruct (find_store sch s0) as [d|]; [|discriminate].
    destruct (find _ (sd_links d)) as [[[lf' os'] of']|] eqn:Ef; [|discriminate].
    intros H. inversion H; subst. apply find_some in Ef as [Hin Heq]. apply str_eqb_eq in Heq. subst lf'.
    exists d. split; [reflexivity | exact Hin].
  Qed.

  Lemma op_add_links_sview s0 i lf : forall ts st st',
    op_add_links sch st s0 i lf ts = Ok st' -> sview st st'.
  Proof.
    intros ts st st' H. unfold op_add_links in H. destruct (find_link sch s0 lf) as [[os of_]|] eqn:Efl; [|discriminate].
    destruct (find_link_in _ _ _ _ Efl) as [d [Hd Hin]]. destruct (Hlinks _ _ _ _ _ Hd Hin) as [L1 L2].
    destruct (negb (present sch st s0 i)); [discriminate|].
    assert (forall ts acc st', fold_left (fun acc t0 => do cur <- acc;
               if present sch cur os t0 then Ok (backref_add sch (backref_add sch cur s0 i lf t0) os t0 of_ i) else Err ENotFound) ts acc = Ok st' ->
             exists st0, acc = Ok st0 /\ sview st0 st') as Hfold.
    { clear H. induction ts0 as [|t0 ts0 IH]; intros acc st0' H; cbn [fold_left] in H.
      - exists st0'. split; [exact H | apply sview_refl].
      - destruct (IH _ _ H) as [st1 [H1 Hv]]. destruct acc as [st0|e]; cbn [bind] in H1; [|discriminate].
        exists st0. split; [reflexivity|]. destruct (present sch st0 os t0); [|discriminate]. inversion H1; subst st1.
        eapply sview_trans; [|exact Hv]. eapply sview_trans; apply backref_add_other_sview; assumption. }
    destruct (Hfold _ _ _ H) as [st0 [E Hv]]. inversion E; subst. exact Hv.
  Qed.

  Lemma op_remove_links_sview s0 i lf ts st st' :
    op_remove_links sch st s0 i lf ts = Ok st' -> sview st st'.
  Proof.
    intros H. unfold op_remove_links in H. destruct (find_link sch s0 lf) as [[os of_]|] eqn:Efl; [|discriminate].
    destruct (find_link_in _ _ _ _ Efl) as [d [Hd Hin]]. destruct (Hlinks _ _ _ _ _ Hd Hin) as [L1 L2].
    destruct (negb (present sch st s0 i)); [discriminate|]. inversion H; subst st'. clear H.
    revert st. induction ts as [|t0 ts IH]; intros st; cbn [fold_left]; [apply sview_refl|].
    eapply sview_trans; [|apply IH]. eapply sview_trans; apply backref_del_other_sview; assumption.
  Qed.

  Lemma cleanup_links_sview st s0 x : sview st (cleanup_links sch st s0 x).
  Proof.
    unfold cleanup_links. destruct (find_store sch s0) as [d|] eqn:Hd; [|apply sview_refl].
    assert (forall ls, incl ls (sd_links d) -> forall st, sview st (fold_left (fun acc (l : name * name * name) =>
        match l with (lf, os, of_) => fold_left (fun acc2 oi => backref_del sch acc2 os oi of_ x) (get_set sch acc s0 x lf) acc end) ls st)) as Hls.
    { induction ls as [|[[lf os] of_] ls IH]; intros Hincl st0; cbn [fold_left]; [apply sview_refl|].
      eapply sview_trans; [|apply IH; intros y Hy; apply Hincl; right; exact Hy].
      destruct (Hlinks _ _ _ _ _ Hd (Hincl _ (or_introl eq_refl))) as [_ L2].
      generalize (get_set sch st0 s0 x lf). intros ms. revert st0. induction ms as [|m ms IHm]; intros st0; cbn [fold_left].
      - apply sview_refl.
      - eapply sview_trans; [|apply IHm]. apply backref_del_other_sview. exact L2. }
    apply Hls. apply incl_refl.
  Qed.

  (* ================================================================ delete *)
  (* x is in no back-reference set *)
  Definition NoEntryP (x : id) (st : state) : Prop := forall b ti, ob = Some b -> ~ In x (bs b st ti).
  (* no referrer outside G names x *)
  Definition NoRef (G : id -> Prop) (x : id) (st : state) : Prop :=
    forall j, pres_s st j = true -> ~ G j -> fb st j = x -> nonempty x = true -> False.
  (* the cascade filter  f = x  matches no entity of s *)
  Definition NoMatch (x : id) (st : state) : Prop := forall j, casc_matches sch s f x st j = false.

  Lemma NoEntryP_fmono x st st' : fmono st st' -> NoEntryP x st -> NoEntryP x st'.
  Proof. intros [_ [_ H3]] Hn b ti Hb Hin. apply (Hn b ti Hb). eapply H3; eauto. Qed.

  Lemma NoRef_fmono G x st st' : fmono st st' -> NoRef G x st -> NoRef G x st'.
  Proof.
    intros [H1 _] Hn j Hp HG Hf Hne. destruct (H1 j Hp) as [Hp0 Hf0]. apply (Hn j Hp0 HG); [|exact Hne].
    rewrite <- Hf. symmetry. apply fb_fld. exact Hf0.
  Qed.

  Lemma casc_false_fmono st st' x j : fmono st st' ->
    casc_matches sch s f x st j = false -> casc_matches sch s f x st' j = false.
  Proof.
    intros [H1 _] H. unfold casc_matches in *. fold (pres_s st' j). fold (pres_s st j) in H. fold (fld st' j). fold (fld st j) in H.
    destruct (pres_s st' j) eqn:Ep; [|reflexivity]. destruct (H1 j Ep) as [Hp0 Hf0]. rewrite Hp0 in H. rewrite Hf0. exact H.
  Qed.

  Lemma NoMatch_NoRef G x st : NoBool st -> NoMatch x st -> NoRef G x st.
  Proof.
    intros HN Hm j Hp _ Hf Hne. specialize (Hm j). unfold casc_matches in Hm. fold (pres_s st j) in Hm. fold (fld st j) in Hm.
    rewrite Hp in Hm. cbn [andb] in Hm. unfold fb in Hf. specialize (HN j). destruct (fld st j) as [| |v|b0]; cbn in Hf.
    - subst x. discriminate.
    - subst x. discriminate.
    - subst v. rewrite str_eqb_refl in Hm. discriminate.
    - exact (HN b0 eq_refl).
  Qed.

  Lemma pres_s_ids st j : pres_s st j = true -> In j (ids_of st (root_of sch s)).
  Proof.
    rewrite pres_s_get, froot_s. unfold ids_of, get_ent. intros H. apply al_get_keys.
    destruct (al_get j (ents st s)); [discriminate | discriminate].
  Qed.

  Lemma NoMatch_of_cands x st cands :
    (forall j, pres_s st j = true -> In j cands) ->
    (forall z, In z cands -> casc_matches sch s f x st z = false) -> NoMatch x st.
  Proof.
    intros Hc Hz j. destruct (pres_s st j) eqn:Ep; [apply Hz, Hc, Ep|].
    unfold casc_matches. fold (pres_s st j). rewrite Ep. reflexivity.
  Qed.

  (* the delete guard of the edge on the target store: restrict on the back-reference set, or the
     cascade constraint (restrict or cascade-delete) looking up s.f *)
  Definition is_guard (k : cons) : Prop :=
    (exists b, ob = Some b /\ k = CFkRestrict b) \/ (exists c, k = CFkCascade s f c).
  Hypothesis Hguard : Exists is_guard (cons_of sch t).

  Variable oc : octx.

  (* specification of the recursive DeleteById used by cascade constraints *)
  Definition FDelSpec (del : st_ev -> name -> id -> res st_ev) : Prop :=
    forall G stev s0 x stev', FDInv G (fst stev) -> del stev s0 x = Ok stev' ->
      FDInv G (fst stev') /\ fmono (fst stev) (fst stev') /\ present sch (fst stev') (root_of sch s0) x = false.

  Lemma cascade_loop_spec G del rs f0 i0 : FDelSpec del -> forall cands cur cur',
    FDInv G (fst cur) -> cascade_loop sch del rs f0 i0 cands cur = Ok cur' ->
    FDInv G (fst cur') /\ fmono (fst cur) (fst cur') /\
    (rs = s -> f0 = f -> forall z, In z cands -> casc_matches sch s f i0 (fst cur') z = false).
  Proof.
    intros Hdel. induction cands as [|c0 cands IH]; intros cur cur' HD H; cbn [cascade_loop] in H.
    - inversion H; subst. split; [exact HD|]. split; [apply fmono_refl | intros _ _ z []].
    - destruct (casc_matches sch rs f0 i0 (fst cur) c0) eqn:Em.
      + destruct (del cur rs c0) as [cur1|e] eqn:Ed; cbn [bind] in H; [|discriminate].
        destruct (Hdel G cur rs c0 cur1 HD Ed) as [HD1 [Hm1 Hgone]].
        destruct (IH cur1 cur' HD1 H) as [HD2 [Hm2 Hpost]]. split; [exact HD2|]. split; [eapply fmono_trans; eauto|].
        intros -> -> z [<-|Hz]; [|apply Hpost; auto].
        eapply casc_false_fmono; [exact Hm2|]. unfold casc_matches. rewrite froot_s in Hgone. rewrite Hgone. reflexivity.
      + destruct (IH cur cur' HD H) as [HD2 [Hm2 Hpost]]. split; [exact HD2|]. split; [exact Hm2|].
        intros -> -> z [<-|Hz]; [|apply Hpost; auto]. eapply casc_false_fmono; [exact Hm2 | exact Em].
  Qed.

  Lemma maint_not_guard k : is_maint k -> is_guard k -> False.
  Proof.
    unfold is_maint, is_guard. intros Hm [[b [_ ->]]|[c ->]]; destruct ob; destruct Hm as [nl Hm]; discriminate.
  Qed.

  Lemma sview_all G st st' : sview st st' -> FDInv G st -> FDInv G st' /\ fmono st st'.
  Proof. intros Hv HD. split; [eapply FDInv_sview; eauto | apply sview_fmono; exact Hv]. Qed.

  (* before-delete hook of the maintaining fk index on entity x of store s *)
  Lemma index_delete_hook G b st x : ob = Some b -> FDInv G st -> G x ->
    let v := fb st x in
    let st' := if nonempty v then backref_del sch st t v b x else st in
    FDInv G st' /\ fmono st st' /\ NoEntryP x st'.
  Proof.
    intros Hob [HN HI] HG v st'. rewrite Hob in HI. destruct HI as [HS HC]. subst st'. destruct (nonempty v) eqn:En.
    - destruct (ours_del st b v x) as [D1 [D2 [D3 D4]]]. split; [|split].
      + split; [intros j; rewrite D2; apply HN|]. rewrite Hob. split.
        * intros ti j Hin. apply D4 in Hin as [Hin _]. rewrite D1, (fb_fld _ _ _ (D2 j)). apply HS. exact Hin.
        * intros j Hp Hg Hne. rewrite D1 in Hp. rewrite (fb_fld _ _ _ (D2 j)) in *. apply D4.
          split; [apply HC; assumption | intros [_ ->]; exact (Hg HG)].
      + split; [|split].
        * intros j Hp. rewrite D1 in Hp. split; [exact Hp | apply D2].
        * intros y Hp. rewrite D3 in Hp. exact Hp.
        * intros b' ti j Hb' Hin. assert (b' = b) as -> by congruence. apply D4 in Hin as [Hin _]. exact Hin.
      + intros b' ti Hb' Hin. assert (b' = b) as -> by congruence. apply D4 in Hin as [Hin Hn].
        destruct (HS ti x Hin) as [_ [Hf _]]. apply Hn. split; [exact Hf | reflexivity].
    - split; [split; [exact HN | rewrite Hob; split; assumption]|]. split; [apply fmono_refl|].
      intros b' ti Hb' Hin. assert (b' = b) as -> by congruence. destruct (HS ti x Hin) as [_ [Hf Hne]].
      fold v in Hf. rewrite Hf in En. congruence.
  Qed.

  Lemma maint_shape k : is_maint k ->
    (exists b nl, ob = Some b /\ k = CFkIndex f t b nl) \/ (exists nl, ob = None /\ k = CFkCons f t nl).
  Proof.
    unfold is_maint. intros H. destruct ob_cases as [[b Hob]|Hob]; rewrite Hob in H; destruct H as [nl ->].
    - left. exists b, nl. split; [exact Hob | reflexivity].
    - right. exists nl. split; [exact Hob | reflexivity].
  Qed.

  Lemma NoEntryP_None x st : ob = None -> NoEntryP x st.
  Proof. intros Hob b ti Hb. congruence. Qed.

  Lemma bd_one G del st evs c k st' evs' x :
    FDelSpec del -> FDInv G st -> (root_of sch (ic_store c) = s -> G x) -> ic_id c = x -> In k (cons_of sch (ic_store c)) ->
    before_delete_one sch oc del (st, evs) c k = Ok (st', evs') ->
    FDInv G st' /\ fmono st st' /\
    ((ic_store c = s /\ is_maint k) -> NoEntryP x st') /\
    ((root_of sch (ic_store c) = t /\ is_guard k) -> NoRef G x st').
  Proof.
    intros Hdel HD HG Hx Hin H.
    assert (Hview : sview st st' -> ~ is_maint k -> ~ is_guard k ->
              FDInv G st' /\ fmono st st' /\ ((ic_store c = s /\ is_maint k) -> NoEntryP x st') /\
              ((root_of sch (ic_store c) = t /\ is_guard k) -> NoRef G x st')).
    { intros Hv Hnm Hng. destruct (sview_all G st st' Hv HD) as [A B]. split; [exact A|]. split; [exact B|].
      split; [intros [_ Hm]; contradiction | intros [_ Hg]; contradiction]. }
    destruct k as [f0 nl|f0|f0 t0 b0 nl|b0|f0 t0 nl|rs f0 cs|]; cbn [before_delete_one] in H.
    - (* CUnique *)
      assert (sview st st') as Hv by (destruct (nonempty _); inversion H; subst; [apply ents_eq_sview; reflexivity | apply sview_refl]).
      apply Hview; [exact Hv | |].
      + intros Hm. destruct (maint_shape _ Hm) as [[? [? [_ E]]]|[? [_ E]]]; discriminate.
      + intros [[? [_ E]]|[? E]]; discriminate.
    - (* CSetIdx *)
      destruct (negb _); [discriminate|]. inversion H; subst st' evs'.
      apply Hview; [apply ents_eq_sview; apply fold_sidx_remove_ents | |].
      + intros Hm. destruct (maint_shape _ Hm) as [[? [? [_ E]]]|[? [_ E]]]; discriminate.
      + intros [[? [_ E]]|[? E]]; discriminate.
    - (* CFkIndex *)
      assert (Hng : ~ is_guard (CFkIndex f0 t0 b0 nl)) by (intros [[? [_ E]]|[? E]]; discriminate).
      assert (Hcase : (root_of sch t0 = t /\ ob = Some b0) \/ (root_of sch t0 <> t \/ Some b0 <> ob)).
      { destruct (str_eq_dec (root_of sch t0) t) as [Hr|Hr]; [|right; left; exact Hr].
        destruct ob_cases as [[b Hob]|Hob]; [|right; right; congruence].
        destruct (str_eq_dec b0 b) as [->|Hb]; [left; tauto | right; right; congruence]. }
      destruct Hcase as [[Hrt Hob]|Hne].
      + (* the maintaining index, on entity x of store s *)
        destruct (Hown _ _ _ _ _ Hob Hin Hrt) as [Hst [-> ->]].
        rewrite Hst, Hx in H. fold (fld st x) in H. fold (fb st x) in H.
        assert (G x) as HGx by (apply HG; rewrite Hst; apply froot_s).
        pose proof (index_delete_hook G b0 st x Hob HD HGx) as Hh. cbn zeta in Hh.
        destruct (nonempty (fb st x)).
        * destruct (present sch st t (fb st x)); [|discriminate]. inversion H; subst st' evs'.
          destruct Hh as [A [B C]]. split; [exact A|]. split; [exact B|]. split; [intros _; exact C | intros [_ Hg]; contradiction].
        * inversion H; subst st' evs'.
          destruct Hh as [A [B C]]. split; [exact A|]. split; [exact B|]. split; [intros _; exact C | intros [_ Hg]; contradiction].
      + assert (Hnm : ~ is_maint (CFkIndex f0 t0 b0 nl)).
        { intros Hm. destruct (maint_shape _ Hm) as [[b [nl' [Hob E]]]|[? [_ E]]]; [|discriminate].
          inversion E; subst. destruct Hne as [Hne|Hne]; [apply Hne; apply froot_t | congruence]. }
        destruct (nonempty _).
        * destruct (present sch st t0 _); [|discriminate]. inversion H; subst st' evs'.
          apply Hview; [apply backref_del_other_sview; exact Hne | exact Hnm | exact Hng].
        * inversion H; subst st' evs'. apply Hview; [apply sview_refl | exact Hnm | exact Hng].
    - (* CFkRestrict *)
      destruct (get_set sch st (ic_store c) (ic_id c) b0) eqn:Eset; [|discriminate]. inversion H; subst st' evs'.
      split; [exact HD|]. split; [apply fmono_refl|]. split.
      + intros [_ Hm]. destruct (maint_shape _ Hm) as [[? [? [_ E]]]|[? [_ E]]]; discriminate.
      + intros [Hr [[b [Hob E]]|[? E]]]; [|discriminate]. inversion E; subst b0.
        destruct HD as [_ HI]. rewrite Hob in HI. destruct HI as [_ HC].
        intros j Hp Hg Hf Hne. specialize (HC j Hp Hg). rewrite Hf in HC. specialize (HC Hne).
        unfold bs, get_set in HC. unfold get_set in Eset. rewrite Hr, Hx in Eset. rewrite froot_t, Eset in HC. exact HC.
    - (* CFkCons *)
      inversion H; subst st' evs'. split; [exact HD|]. split; [apply fmono_refl|]. split.
      + intros [_ Hm]. destruct (maint_shape _ Hm) as [[? [? [_ E]]]|[? [Hob _]]]; [discriminate|]. apply NoEntryP_None. exact Hob.
      + intros [_ [[? [_ E]]|[? E]]]; discriminate.
    - (* CFkCascade *)
      assert (Hnm : ~ is_maint (CFkCascade rs f0 cs)).
      { intros Hm. destruct (maint_shape _ Hm) as [[? [? [_ E]]]|[? [_ E]]]; discriminate. }
      destruct cs.
      + destruct (existsb _ _) eqn:Eex; [discriminate|]. inversion H; subst st' evs'.
        split; [exact HD|]. split; [apply fmono_refl|]. split; [intros [_ Hm]; contradiction|].
        intros [_ [[? [_ E]]|[c0 E]]]; [discriminate|]. inversion E; subst rs f0.
        apply NoMatch_NoRef; [apply HD|]. apply (NoMatch_of_cands x st (ids_of st (root_of sch s))); [apply pres_s_ids|].
        intros z Hz. rewrite Hx in Eex. destruct (casc_matches sch s f x st z) eqn:Ez; [|reflexivity].
        assert (existsb (casc_matches sch s f x st) (ids_of st (root_of sch s)) = true) as Ht2
          by (apply existsb_exists; exists z; split; assumption). congruence.
      + destruct (cascade_loop_spec G del rs f0 (ic_id c) Hdel _ (st, evs) (st', evs') HD H) as [A [B Hpost]].
        cbn [fst] in *. split; [exact A|]. split; [exact B|]. split; [intros [_ Hm]; contradiction|].
        intros [_ [[? [_ E]]|[c0 E]]]; [discriminate|]. inversion E; subst rs f0. rewrite Hx in Hpost.
        apply NoMatch_NoRef; [apply A|]. apply (NoMatch_of_cands x st' (ids_of st (root_of sch s))).
        * intros j Hp. apply pres_s_ids. destruct B as [B1 _]. apply B1. exact Hp.
        * apply Hpost; reflexivity.
    - (* CSystem *)
      assert (st' = st) as ->.
      { destruct (get_field sch st (ic_store c) (ic_id c) isSystemF) as [| |y|[|]]; try (inversion H; reflexivity).
        destruct (oc_sys oc); [inversion H; reflexivity | discriminate]. }
      apply Hview; [apply sview_refl | |].
      + intros Hm. destruct (maint_shape _ Hm) as [[? [? [_ E]]]|[? [_ E]]]; discriminate.
      + intros [[? [_ E]]|[? E]]; discriminate.
  Qed.

  Lemma bd_all (G : id -> Prop) del x c : FDelSpec del -> (root_of sch (ic_store c) = s -> G x) -> ic_id c = x ->
    forall ks st evs st' evs',
    incl ks (cons_of sch (ic_store c)) -> FDInv G st ->
    before_delete_all sch oc del (st, evs) c ks = Ok (st', evs') ->
    FDInv G st' /\ fmono st st' /\
    (((ic_store c = s /\ Exists is_maint ks) \/ NoEntryP x st) -> NoEntryP x st') /\
    (((root_of sch (ic_store c) = t /\ Exists is_guard ks) \/ NoRef G x st) -> NoRef G x st').
  Proof.
    intros Hdel HG Hx. induction ks as [|k ks IH]; intros st evs st' evs' Hincl HD H; cbn [before_delete_all] in H.
    - inversion H; subst. split; [exact HD|]. split; [apply fmono_refl|]. split.
      + intros [[_ He]|Hn]; [inversion He | exact Hn].
      + intros [[_ He]|Hn]; [inversion He | exact Hn].
    - destruct (before_delete_one sch oc del (st, evs) c k) as [[st1 evs1]|e] eqn:E1; cbn [bind] in H; [|discriminate].
      assert (In k (cons_of sch (ic_store c))) as Hin by (apply Hincl; left; reflexivity).
      destruct (bd_one G del st evs c k st1 evs1 x Hdel HD HG Hx Hin E1) as [HD1 [Hm1 [Hn1 Hr1]]].
      assert (incl ks (cons_of sch (ic_store c))) as Hincl' by (intros y Hy; apply Hincl; right; exact Hy).
      destruct (IH st1 evs1 st' evs' Hincl' HD1 H) as [HD2 [Hm2 [Hn2 Hr2]]].
      split; [exact HD2|]. split; [eapply fmono_trans; eauto|]. split.
      + intros [[Hr He]|Hn].
        * inversion He as [? ? Hk|? ? Hk]; subst.
          -- apply Hn2. right. apply Hn1. split; assumption.
          -- apply Hn2. left. split; assumption.
        * apply Hn2. right. eapply NoEntryP_fmono; eauto.
      + intros [[Hr He]|Hn].
        * inversion He as [? ? Hk|? ? Hk]; subst.
          -- apply Hr2. right. apply Hr1. split; assumption.
          -- apply Hr2. left. split; assumption.
        * apply Hr2. right. eapply NoRef_fmono; eauto.
  Qed.

  Lemma bd_chain (G : id -> Prop) del x : FDelSpec del -> forall ch st evs st' evs',
    (forall s' ks, In (s', ks) ch -> ks = cons_of sch s' /\ (root_of sch s' = s -> G x)) -> FDInv G st ->
    before_delete_chain sch oc del x ch (st, evs) = Ok (st', evs') ->
    FDInv G st' /\ fmono st st' /\
    (((In (s, cons_of sch s) ch) \/ NoEntryP x st) -> NoEntryP x st') /\
    (((In (t, cons_of sch t) ch) \/ NoRef G x st) -> NoRef G x st').
  Proof.
    intros Hdel. induction ch as [|[s' ks] ch IH]; intros st evs st' evs' Hch HD H; cbn [before_delete_chain] in H.
    - inversion H; subst. split; [exact HD|]. split; [apply fmono_refl|]. split; intros [[]|Hn]; exact Hn.
    - destruct (before_delete_all sch oc del (st, evs) _ ks) as [[st1 evs1]|e] eqn:E1; cbn [bind] in H; [|discriminate].
      destruct (Hch s' ks (or_introl eq_refl)) as [-> HGs].
      destruct (bd_all G del x (mkIctx false (oc_sys oc) s' x) Hdel HGs eq_refl _ st evs st1 evs1 (incl_refl _) HD E1) as [HD1 [Hm1 [Hn1 Hr1]]].
      assert (forall s2 ks2, In (s2, ks2) ch -> ks2 = cons_of sch s2 /\ (root_of sch s2 = s -> G x)) as Hch' by (intros; apply Hch; right; assumption).
      destruct (IH st1 evs1 st' evs' Hch' HD1 H) as [HD2 [Hm2 [Hn2 Hr2]]].
      split; [exact HD2|]. split; [eapply fmono_trans; eauto|]. cbn [ic_store] in *. split.
      + intros [[Hin|Hin]|Hn].
        * inversion Hin; subst s'. apply Hn2. right. apply Hn1. left. split; [reflexivity|].
          destruct Honce as [k [pre [post [Hc [Hk _]]]]]. rewrite Hc. apply Exists_exists. exists k.
          split; [apply in_or_app; right; left; reflexivity | exact Hk].
        * apply Hn2. left. exact Hin.
        * apply Hn2. right. apply Hn1. right. exact Hn.
      + intros [[Hin|Hin]|Hn].
        * inversion Hin; subst s'. apply Hr2. right. apply Hr1. left. split; [apply froot_t | exact Hguard].
        * apply Hr2. left. exact Hin.
        * apply Hr2. right. apply Hr1. right. exact Hn.
  Qed.

  Lemma chain_has_root s0 : In (root_of sch s0, cons_of sch (root_of sch s0)) (chain sch s0).
  Proof.
    unfold chain. destruct (is_child sch s0) eqn:Ec; [left; reflexivity|].
    rewrite (root_of_root _ _ Ec). left. reflexivity.
  Qed.

  Lemma process_delete_spec (G : id -> Prop) del x s0 st evs st' evs' :
    FDelSpec del -> (root_of sch s0 = s -> G x) -> FDInv G st ->
    process_delete sch oc del (st, evs) s0 x = Ok (st', evs') ->
    FDInv G st' /\ fmono st st' /\
    ((root_of sch s0 = s \/ NoEntryP x st) -> NoEntryP x st') /\
    ((root_of sch s0 = t \/ NoRef G x st) -> NoRef G x st').
  Proof.
    intros Hdel HG HD H. unfold process_delete in H.
    destruct (before_delete_chain sch oc del x (chain sch s0) (st, evs)) as [[st1 evs1]|e] eqn:E1; cbn [bind] in H; [|discriminate].
    inversion H; subst st' evs'. clear H.
    assert (forall s' ks, In (s', ks) (chain sch s0) -> ks = cons_of sch s' /\ (root_of sch s' = s -> G x)) as Hch
      by (intros s' ks Hin; apply (chain_in sch Hroots) in Hin as [A B]; split; [exact A | intros Hr; apply HG; congruence]).
    destruct (bd_chain G del x Hdel _ st evs st1 evs1 Hch HD E1) as [HD1 [Hm1 [Hn1 Hr1]]].
    pose proof (cleanup_links_sview st1 s0 x) as Hv.
    destruct (sview_all G _ _ Hv HD1) as [HD2 Hm2]. cbn [fst].
    split; [exact HD2|]. split; [eapply fmono_trans; eauto|]. pose proof (chain_has_root s0) as Hcr. split.
    - intros Hor. eapply NoEntryP_fmono; [exact Hm2|]. apply Hn1. destruct Hor as [Hr|Hn]; [|right; exact Hn].
      left. rewrite Hr in Hcr. exact Hcr.
    - intros Hor. eapply NoRef_fmono; [exact Hm2|]. apply Hr1. destruct Hor as [Hr|Hn]; [|right; exact Hn].
      left. rewrite Hr in Hcr. exact Hcr.
  Qed.

  Lemma children_delete_spec (G : id -> Prop) del x r0 : FDelSpec del -> (r0 = s -> G x) ->
    forall cs cur flows cur' flows',
    (forall d, In d cs -> root_of sch (sd_name d) = r0) -> FDInv G (fst cur) ->
    children_delete sch oc del x cs cur flows = Ok (cur', flows') ->
    FDInv G (fst cur') /\ fmono (fst cur) (fst cur').
  Proof.
    intros Hdel HG. induction cs as [|d cs IH]; intros cur flows cur' flows' Hcs HD H; cbn [children_delete] in H.
    - inversion H; subst. split; [exact HD | apply fmono_refl].
    - assert (forall d0, In d0 cs -> root_of sch (sd_name d0) = r0) as Hcs' by (intros; apply Hcs; right; assumption).
      destruct (loadable sch (fst cur) (sd_name d) x); [|eapply IH; eauto].
      destruct cur as [st evs].
      destruct (process_delete sch oc del (st, evs) (sd_name d) x) as [[st1 evs1]|e] eqn:E1; cbn [bind] in H; [|discriminate].
      assert (root_of sch (sd_name d) = s -> G x) as HG1 by (intros Hr; apply HG; rewrite <- Hr; symmetry; apply Hcs; left; reflexivity).
      destruct (process_delete_spec G del x _ st evs st1 evs1 Hdel HG1 HD E1) as [HD1 [Hm1 _]].
      destruct (IH (st1, evs1) _ cur' flows' Hcs' HD1 H) as [HD2 Hm2].
      split; [exact HD2 | eapply fmono_trans; eauto].
  Qed.

  Hypothesis Hchildren : forall r0 d, In d (children_of sch r0) -> root_of sch (sd_name d) = r0.

  (* removing entity x of root r0 once nothing points to it any more *)
  Lemma del_ent_spec (G G' : id -> Prop) st r0 x :
    (forall i, G' i -> G i \/ (r0 = s /\ i = x)) -> (forall i, G i -> G' i) -> FDInv G' st ->
    (r0 = s -> NoEntryP x st) -> (r0 = t -> NoRef G' x st) ->
    FDInv G (del_ent st r0 x) /\ fmono st (del_ent st r0 x).
  Proof.
    intros Hsub Hsup [HN HI] Hne Hnr. set (st1 := del_ent st r0 x).
    assert (Hp : forall j, pres_s st1 j = true -> pres_s st j = true /\ fld st1 j = fld st j /\ ~ (r0 = s /\ j = x)).
    { intros j H. unfold st1 in *. rewrite pres_s_del_ent in H. rewrite fld_del_ent.
      destruct (str_eqb r0 s && str_eqb x j) eqn:E; [discriminate|]. split; [exact H|]. split; [reflexivity|].
      intros [-> ->]. rewrite !str_eqb_refl in E. discriminate. }
    assert (Hb : forall b ti j, In j (bs b st1 ti) -> In j (bs b st ti) /\ ~ (r0 = t /\ ti = x)).
    { intros b ti j H. unfold st1 in H. rewrite bs_del_ent in H. destruct (str_eqb r0 t && str_eqb x ti) eqn:E; [contradiction|].
      split; [exact H|]. intros [-> ->]. rewrite !str_eqb_refl in E. discriminate. }
    assert (Hb' : forall b ti j, ~ (r0 = t /\ ti = x) -> In j (bs b st ti) -> In j (bs b st1 ti)).
    { intros b ti j Hn H. unfold st1. rewrite bs_del_ent. destruct (str_eqb r0 t && str_eqb x ti) eqn:E; [|exact H].
      apply andb_prop in E as [E1 E2]. apply str_eqb_eq in E1, E2. exfalso. apply Hn. split; congruence. }
    assert (Hpt : forall y, ~ (r0 = t /\ y = x) -> pres_t st y = true -> pres_t st1 y = true).
    { intros y Hn H. unfold st1. rewrite pres_t_del_ent. destruct (str_eqb r0 t && str_eqb x y) eqn:E; [|exact H].
      apply andb_prop in E as [E1 E2]. apply str_eqb_eq in E1, E2. exfalso. apply Hn. split; congruence. }
    split.
    - split.
      + intros j. unfold st1. rewrite fld_del_ent. destruct (_ && _); [intros b0; discriminate | apply HN].
      + destruct ob_cases as [[b Hob]|Hob]; rewrite Hob in *.
        * destruct HI as [HS HC]. split.
          -- intros ti j Hin. destruct (Hb b ti j Hin) as [Hin0 Hnt]. destruct (HS ti j Hin0) as [A [B C]].
             assert (pres_s st1 j = true /\ fld st1 j = fld st j) as [P1 P2].
             { unfold st1. rewrite pres_s_del_ent, fld_del_ent. destruct (str_eqb r0 s && str_eqb x j) eqn:E; [|split; [exact A | reflexivity]].
               apply andb_prop in E as [E1 E2]. apply str_eqb_eq in E1, E2. subst r0. subst j. exfalso. exact (Hne eq_refl b ti Hob Hin0). }
             split; [exact P1|]. split; [rewrite (fb_fld _ _ _ P2); exact B | exact C].
          -- intros j Hpj Hg Hn. destruct (Hp j Hpj) as [P1 [P2 P3]]. rewrite (fb_fld _ _ _ P2) in *.
             assert (~ G' j) as Hg' by (intros Hgj; destruct (Hsub j Hgj) as [Hgj'|Hgj']; [exact (Hg Hgj') | exact (P3 Hgj')]).
             apply Hb'; [|apply HC; assumption]. intros [Hr Hf]. exact (Hnr Hr j P1 Hg' Hf (eq_ind_r (fun v => nonempty v = true) Hn (eq_sym Hf))).
        * intros j Hpj Hg Hn. destruct (Hp j Hpj) as [P1 [P2 P3]]. rewrite (fb_fld _ _ _ P2) in *.
          assert (~ G' j) as Hg' by (intros Hgj; destruct (Hsub j Hgj) as [Hgj'|Hgj']; [exact (Hg Hgj') | exact (P3 Hgj')]).
          apply Hpt; [|apply HI; assumption]. intros [Hr Hf]. exact (Hnr Hr j P1 Hg' Hf (eq_ind_r (fun v => nonempty v = true) Hn (eq_sym Hf))).
    - split; [|split].
      + intros j H. destruct (Hp j H) as [A [B _]]. split; assumption.
      + intros y H. unfold st1 in H. rewrite pres_t_del_ent in H. destruct (_ && _); [discriminate | exact H].
      + intros b ti j _ H. apply (Hb b ti j H).
  Qed.

  Lemma FDInv_drop (G G' : id -> Prop) st : (forall i, G' i -> G i \/ pres_s st i = false) -> FDInv G' st -> FDInv G st.
  Proof.
    intros Hsub [HN HI]. split; [exact HN|]. destruct ob_cases as [[b Hob]|Hob]; rewrite Hob in *.
    - destruct HI as [HS HC]. split; [exact HS|]. intros i Hp Hn. apply HC; [exact Hp|].
      intros Hg. destruct (Hsub i Hg) as [H|H]; [exact (Hn H) | congruence].
    - intros i Hp Hn. apply HI; [exact Hp|]. intros Hg. destruct (Hsub i Hg) as [H|H]; [exact (Hn H) | congruence].
  Qed.

  (* DeleteById, for every amount of fuel *)
  Lemma delete_spec : forall n, FDelSpec (delete_by_id sch oc n).
  Proof.
    induction n as [|n IH]; intros G stev s0 x stev' HD H; cbn [delete_by_id] in H; [discriminate|].
    destruct stev as [st evs]. cbn [fst] in *.
    set (r0 := root_of sch s0) in *.
    assert (root_of sch r0 = r0) as Hrr by (apply Hroots).
    destruct (present sch st r0 x) eqn:Epx; cbn [negb] in H; [|discriminate].
    destruct (children_delete sch oc (delete_by_id sch oc n) x (children_of sch r0) (st, evs) []) as [[[st1 evs1] flows]|e] eqn:Ech;
      cbn [bind] in H; [|discriminate].
    set (G' := fun i => G i \/ (r0 = s /\ i = x)).
    assert (FDInv G' st) as HD' by (eapply FDInv_weaken; [|exact HD]; intros i Hg; left; exact Hg).
    assert (r0 = s -> G' x) as HG' by (intros Hr; right; split; [exact Hr | reflexivity]).
    destruct (children_delete_spec G' _ x r0 IH HG' _ (st, evs) [] (st1, evs1) flows (Hchildren r0) HD' Ech) as [HD1 Hm1].
    cbn [fst] in *.
    destruct (present sch st1 r0 x) eqn:Epx1; cbn [negb] in H.
    - (* the normal path *)
      destruct (process_delete sch oc (delete_by_id sch oc n) (st1, evs1) r0 x) as [[st2 evs2]|e] eqn:Epd; cbn [bind] in H; [|discriminate].
      assert (root_of sch r0 = s -> G' x) as HG'' by (intros Hr; apply HG'; congruence).
      destruct (process_delete_spec G' _ x r0 st1 evs1 st2 evs2 IH HG'' HD1 Epd) as [HD2 [Hm2 [Hn2 Hr2]]].
      cbn [fst snd] in H.
      destruct (fire (oc_vetoes oc) evs2 r0 Deleted x _) as [evs3|e]; cbn [bind] in H; [|discriminate].
      destruct (fire_flows oc x flows evs3) as [evs4|e]; cbn [bind] in H; [|discriminate].
      inversion H; subst stev'. clear H. cbn [fst].
      destruct (del_ent_spec G G' st2 r0 x) as [A B].
      + intros i Hg. exact Hg.
      + intros i Hg. left. exact Hg.
      + exact HD2.
      + intros Hr. apply Hn2. left. congruence.
      + intros Hr. apply Hr2. left. congruence.
      + split; [exact A|]. split; [eapply fmono_trans; [exact Hm1 | eapply fmono_trans; [exact Hm2 | exact B]]|].
        rewrite (present_root _ _ _ _ (Hrc s0)). fold r0. rewrite get_ent_del_ent, !str_eqb_refl. reflexivity.
    - (* the entity vanished while its child stores were processed *)
      inversion H; subst stev'. clear H. cbn [fst]. split; [|split; [exact Hm1 | exact Epx1]].
      eapply FDInv_drop; [|exact HD1]. intros i [Hg|[Hr ->]]; [left; exact Hg|]. right.
      unfold pres_s. rewrite <- Hr. exact Epx1.
  Qed.

  (* ---- every operation ---- *)
  Lemma FDInv_FInv st : FDInv (fun _ => False) st -> FInv st.
  Proof. exact (fun H => H). Qed.

  Lemma run_op_inv fuel st evs o st' evs' :
    FInv st -> run_op sch fuel oc (st, evs) o = Ok (st', evs') -> FInv st'.
  Proof.
    intros HU H. destruct o as [s0 i sys fv sv|s0 i fv sv ch|s0 i|s0 i lf ts|s0 i lf ts|]; cbn [run_op] in H.
    - eapply op_create_inv; eauto.
    - eapply op_update_inv; eauto.
    - destruct (delete_spec fuel (fun _ => False) (st, evs) s0 i (st', evs') HU H) as [A _]. exact A.
    - cbn [fst snd] in H. destruct (op_add_links sch st s0 i lf ts) as [st1|e] eqn:E; cbn [bind] in H; [|discriminate].
      inversion H; subst. eapply FDInv_sview; [eapply op_add_links_sview; eauto | exact HU].
    - cbn [fst snd] in H. destruct (op_remove_links sch st s0 i lf ts) as [st1|e] eqn:E; cbn [bind] in H; [|discriminate].
      inversion H; subst. eapply FDInv_sview; [eapply op_remove_links_sview; eauto | exact HU].
    - discriminate.
  Qed.
End Fk.

(* ================================================================ histories *)
(* everything the proofs assume about the schema around the edge; implied by the boolean check
   [wf_fk_b] of Store/FkWf.v *)
Definition FkWf (sch : schema) (s f t : name) (ob : option name) : Prop :=
  is_child sch s = false /\
  is_child sch t = false /\
  (forall x, root_of sch (root_of sch x) = root_of sch x) /\
  (forall x, is_child sch (root_of sch x) = false) /\
  (forall s' f' t' b nl, ob = Some b -> In (CFkIndex f' t' b nl) (cons_of sch s') -> root_of sch t' = t ->
      s' = s /\ f' = f /\ t' = t) /\
  (exists k pre post, cons_of sch s = pre ++ k :: post /\ is_maint f t ob k /\
      Forall (fun k => ~ is_maint f t ob k) pre /\ Forall (fun k => ~ is_maint f t ob k) post) /\
  f <> isSystemF /\
  (forall b d, ob = Some b -> find_store sch t = Some d -> ~ In b (sd_sets d)) /\
  (forall s0 d lf os of_, find_store sch s0 = Some d -> In (lf, os, of_) (sd_links d) ->
      (root_of sch s0 <> t \/ Some lf <> ob) /\ (root_of sch os <> t \/ Some of_ <> ob)) /\
  Exists (is_guard s f ob) (cons_of sch t) /\
  (forall r0 d, In d (children_of sch r0) -> root_of sch (sd_name d) = r0).

Section FkHistories.
  Variable sch : schema.
  Variable s f t : name.
  Variable ob : option name.
  Hypothesis Hwf : FkWf sch s f t ob.

  Lemma fk_run_op_inv fuel oc st evs o st' evs' :
    FInv sch s f t ob st -> run_op sch fuel oc (st, evs) o = Ok (st', evs') -> FInv sch s f t ob st'.
  Proof.
    destruct Hwf as [H1 [H2 [H3 [H4 [H5 [H6 [H7 [H8 [H9 [H10 H11]]]]]]]]]].
    exact (run_op_inv sch s f t ob H1 H2 H3 H4 H5 H6 H7 H8 H9 H10 oc H11 fuel st evs o st' evs').
  Qed.

  Lemma fk_run_ops_inv fuel oc : forall ops st evs rs st' evs',
    FInv sch s f t ob st -> run_ops sch fuel oc (st, evs) ops = (rs, Ok (st', evs')) -> FInv sch s f t ob st'.
  Proof.
    induction ops as [|o ops IH]; intros st evs rs st' evs' HU H; cbn [run_ops] in H.
    - inversion H; subst. exact HU.
    - destruct (run_op sch fuel oc (st, evs) o) as [[st1 evs1]|e] eqn:E1; [|inversion H].
      destruct (run_ops sch fuel oc (st1, evs1) ops) as [rs1 fin] eqn:E2. inversion H; subst.
      eapply IH; [|exact E2]. eapply fk_run_op_inv; eauto.
  Qed.

  Lemma fk_run_tx_inv fuel st tr : FInv sch s f t ob st ->
    FInv sch s f t ob (match run_tx sch fuel st tr with (_, _, st', _) => st' end).
  Proof.
    intros HU. unfold run_tx.
    destruct (run_ops sch fuel _ (st, []) (tx_ops tr)) as [rs fin] eqn:E. destruct fin as [[st1 evs1]|e]; [|exact HU].
    destruct (tx_precommit_fails tr); [exact HU|]. eapply fk_run_ops_inv; eauto.
  Qed.

  Lemma fk_run_txs_inv fuel : forall ts st, FInv sch s f t ob st -> FInv sch s f t ob (run_txs sch fuel st ts).
  Proof.
    unfold run_txs. induction ts as [|tr ts IH]; intros st HU; cbn [fold_left]; [exact HU|].
    apply IH. apply fk_run_tx_inv. exact HU.
  Qed.

  Lemma FInv_empty : FInv sch s f t ob st_empty.
  Proof.
    split.
    - intros i b0. unfold fld, get_field, get_ent. cbn. discriminate.
    - destruct ob as [b|].
      + split.
        * intros ti i H. unfold bs, get_set, get_ent in H. cbn in H. contradiction.
        * intros i H. unfold pres_s, present, get_ent in H. cbn in H. discriminate.
      + intros i H. unfold pres_s, present, get_ent in H. cbn in H. discriminate.
  Qed.

  (* every present referrer's non-empty fk names a present target *)
  Lemma fk_target_exists_lemma fuel ts :
    let st := run_txs sch fuel st_empty ts in
    forall i, present sch st s i = true -> nonempty (fv_bytes (get_field sch st s i f)) = true ->
              present sch st t (fv_bytes (get_field sch st s i f)) = true.
  Proof.
    intros st i Hp Hn. pose proof (fk_run_txs_inv fuel ts st_empty FInv_empty) as HI. fold st in HI.
    destruct Hwf as [_ [H2 _]]. apply (FDInv_TE sch s f t ob H2 _ st HI i Hp (fun x => x) Hn).
  Qed.
End FkHistories.

(* back-references are exact *)
Lemma backrefs_sound_lemma sch s f t b fuel ts : FkWf sch s f t (Some b) ->
  let st := run_txs sch fuel st_empty ts in
  forall ti i, In i (get_set sch st t ti b) ->
    present sch st s i = true /\ fv_bytes (get_field sch st s i f) = ti /\ present sch st t ti = true /\ nonempty ti = true.
Proof.
  intros Hwf st ti i Hin. destruct (fk_run_txs_inv sch s f t (Some b) Hwf fuel ts st_empty (FInv_empty sch s f t (Some b) Hwf)) as [_ [HS _]].
  fold st in HS. destruct (HS ti i Hin) as [A [B C]]. destruct Hwf as [_ [H2 _]].
  split; [exact A|]. split; [exact B|]. split; [|exact C]. eapply bs_in_pres; eauto.
Qed.

Lemma backrefs_exact_lemma sch s f t b fuel ts : FkWf sch s f t (Some b) ->
  let st := run_txs sch fuel st_empty ts in
  forall ti i, nonempty ti = true ->
    (In i (get_set sch st t ti b) <-> present sch st s i = true /\ fv_bytes (get_field sch st s i f) = ti).
Proof.
  intros Hwf st ti i Hne. split.
  - intros Hin. destruct (backrefs_sound_lemma sch s f t b fuel ts Hwf ti i Hin) as [A [B _]]. split; assumption.
  - intros [Hp Hf]. destruct (fk_run_txs_inv sch s f t (Some b) Hwf fuel ts st_empty (FInv_empty sch s f t (Some b) Hwf)) as [_ [_ HC]].
    fold st in HC. specialize (HC i Hp (fun x => x)). unfold fb, fld in HC. rewrite Hf in HC. apply HC. exact Hne.
Qed.
