(* C06 - PersistEntity, then Create / Update as whole operations: the invariant is preserved. *)
From Coq Require Import List NArith Bool Lia.
From Storage Require Import Base.Bytes Base.BytesFacts Store.Model Store.AListFacts Store.FrameProofs
     Store.NoTrace Store.NoTraceFacts Store.NoTraceInv Store.NoTraceWrite Store.NoTraceDelete.
Import ListNotations.

Section Ops.
  Variable sch : schema.
  Hypothesis W : wfprops sch.

  Notation fbytes := (NoTraceInv.fbytes sch).
  Notation Inv := (NoTraceWrite.Inv sch).
  Notation Mid := (NoTraceWrite.Mid sch).
  Notation FieldsStr := (NoTraceWrite.FieldsStr).

  (* ---- PersistEntity ---- *)
  Lemma persist_fields_nobool decl fv ch : forall cur, nobool cur -> nobool (persist_fields decl fv ch cur).
  Proof.
    unfold persist_fields. induction decl as [|[f0 ptr] decl IH]; intros cur H; cbn [fold_left]; [exact H|].
    apply IH. destruct (checked ch f0); [|exact H].
    assert (Hput : forall x, (forall b, x <> FBool b) -> nobool (al_put f0 x cur)).
    { intros x Hx f b Hf. rewrite al_get_put. destruct (str_eqb f0 f); [intros E; inversion E; eapply Hx; eauto | apply H; exact Hf]. }
    destruct (lookup_fv fv f0) as [[v|]|]; try destruct ptr; apply Hput; intros b; discriminate.
  Qed.

  Lemma persist_sets_other decl sv ch : forall cur f, ~ In f decl ->
    al_get f (persist_sets decl sv ch cur) = al_get f cur.
  Proof.
    unfold persist_sets. induction decl as [|f0 decl IH]; intros cur f Hn; cbn [fold_left]; [reflexivity|].
    rewrite IH by (intros Hin; apply Hn; right; exact Hin).
    destruct (checked ch f0); [|reflexivity]. rewrite al_get_put.
    destruct (str_eqb f0 f) eqn:E; [|reflexivity]. apply str_eqb_eq in E. exfalso. apply Hn. left. exact E.
  Qed.

  Lemma nobool_put_sys l : nobool l -> nobool (al_put isSystemF (FBool true) l).
  Proof.
    intros H f b Hf. rewrite al_get_put. destruct (str_eqb isSystemF f) eqn:E; [|apply H; exact Hf].
    apply str_eqb_eq in E. congruence.
  Qed.

  Lemma persist_spec s create sys fv sv ch e0 :
    let e1 := persist sch s create sys fv sv ch e0 in
    (ent_nobool e0 -> (is_child sch s = true -> al_get s (e_c e0) <> None \/ e_c e0 = []) -> ent_nobool e1) /\
    (forall f, (forall dR, find_store sch (root_of sch s) = Some dR -> ~ In f (sd_sets dR)) -> ent_set e1 f = ent_set e0 f) /\
    (forall s1, s1 <> s -> al_get s1 (e_c e1) = al_get s1 (e_c e0)) /\
    (is_child sch s = true -> al_get s (e_c e1) <> None) /\
    (is_child sch s = false -> e_c e1 = e_c e0).
  Proof.
    intros e1. unfold persist in e1. unfold is_child, root_of.
    destruct (find_store sch s) as [d|] eqn:Ef.
    2:{ subst e1. refine (conj (fun h _ => h) (conj (fun _ _ => eq_refl) (conj (fun _ _ => eq_refl) (conj _ (fun _ => eq_refl))))). discriminate. }
    destruct (sd_parent d) as [p|] eqn:Ep.
    - destruct (find_store sch p) as [pd|] eqn:Efp.
      2:{ exfalso. exact (wp_child_parent sch W s d p Ef Ep Efp). }
      subst e1. cbn [e_f e_c e_s]. refine (conj _ (conj _ (conj _ (conj _ _)))).
      + intros [[A B] C] Hk. split; [split|]; cbn [e_f e_c].
        * destruct (create && sys); [apply nobool_put_sys|]; apply persist_fields_nobool; exact A.
        * intros s1 cd Hg. rewrite al_get_put in Hg. destruct (str_eqb s s1) eqn:E; [|eapply B; exact Hg].
          inversion Hg; subst cd. apply persist_fields_nobool. destruct (al_get s (e_c e0)) as [x|] eqn:Ex; [eapply B; exact Ex|].
          intros f b _. cbn. discriminate.
        * intros c1 c2 H1 H2. cbn [e_c] in H1, H2. rewrite al_get_put in H1, H2.
          destruct (str_eqb s c1) eqn:E1; destruct (str_eqb s c2) eqn:E2.
          -- apply str_eqb_eq in E1, E2. congruence.
          -- apply str_eqb_eq in E1. subst c1. destruct (Hk eq_refl) as [K|K]; [exact (C s c2 K H2) | rewrite K in H2; cbn in H2; congruence].
          -- apply str_eqb_eq in E2. subst c2. destruct (Hk eq_refl) as [K|K]; [exact (C c1 s H1 K) | rewrite K in H1; cbn in H1; congruence].
          -- exact (C c1 c2 H1 H2).
      + intros f Hn. unfold ent_set. cbn [e_s]. rewrite persist_sets_other; [reflexivity|]. apply Hn. reflexivity.
      + intros s1 Hne. rewrite al_get_put. rewrite (str_eqb_false_ne s s1) by congruence. reflexivity.
      + intros _. rewrite al_get_put, str_eqb_refl. discriminate.
      + discriminate.
    - subst e1. cbn [e_f e_c e_s]. refine (conj _ (conj _ (conj _ (conj _ _)))).
      + intros [[A B] C] _. split; [split|]; cbn [e_f e_c]; [|exact B|exact C].
        destruct (create && sys); [apply nobool_put_sys|]; apply persist_fields_nobool; exact A.
      + intros f Hn. unfold ent_set. cbn [e_s]. rewrite persist_sets_other; [reflexivity|]. apply Hn. exact Ef.
      + reflexivity.
      + discriminate.
      + reflexivity.
  Qed.

  Lemma ent_nobool_empty : ent_nobool ent_empty.
  Proof. split; [split; [intros f b _; cbn; discriminate | intros s1 cd H; cbn in H; discriminate] | intros c1 c2 H; cbn in H; congruence]. Qed.

  (* ---- the state right after PersistEntity satisfies Mid ---- *)
  Section AfterPersist.
    Variable st0 : state.
    Variable R : name.
    Variable i : id.
    Variable e1 : entity.
    Hypothesis HR : isroot sch R.
    Hypothesis HInv0 : Inv st0.
    Let e0 := match get_ent st0 R i with Some e => e | None => ent_empty end.
    Hypothesis HEb : forall s f0 t b nl, In (CFkIndex f0 t b nl) (cons_of sch s) -> root_of sch t = R -> ent_set e1 b = ent_set e0 b.
    Hypothesis HEl : forall s lf os of_, In (lf, os, of_) (links_of sch s) -> root_of sch s = R -> ent_set e1 lf = ent_set e0 lf.
    Let st1 := set_ent st0 R i e1.
    (* PersistEntity keeps the entity in every store of the family it lives in *)
    Hypothesis HPk : forall s, root_of sch s = R -> present sch st0 s i = true -> present sch st1 s i = true.

    Lemma eset0 f : eset st0 R i f = ent_set e0 f.
    Proof. unfold eset, e0. destruct (get_ent st0 R i); reflexivity. Qed.

    Lemma eset1_other r j f : ~ (r = R /\ j = i) -> eset st1 r j f = eset st0 r j f.
    Proof.
      intros Hn. unfold eset, st1. rewrite get_ent_set_ent. destruct (str_eqb R r && str_eqb i j) eqn:Eb; [|reflexivity].
      apply andb_prop in Eb as [E1 E2]. apply str_eqb_eq in E1, E2. exfalso. apply Hn. split; congruence.
    Qed.

    Lemma eset1_self f : eset st1 R i f = ent_set e1 f.
    Proof. unfold eset, st1. rewrite get_ent_set_ent, !str_eqb_refl. reflexivity. Qed.

    Lemma eset1_backref s f0 t b nl ti : In (CFkIndex f0 t b nl) (cons_of sch s) ->
      eset st1 (root_of sch t) ti b = eset st0 (root_of sch t) ti b.
    Proof.
      intros Hin. destruct (str_eq_dec (root_of sch t) R) as [E|Hne]; [destruct (str_eq_dec ti i) as [->|Hne]|].
      - rewrite E, eset1_self, eset0. eapply HEb; eauto.
      - apply eset1_other. intros [_ A]. congruence.
      - apply eset1_other. intros [A _]. congruence.
    Qed.

    Lemma eset1_link s lf os of_ x : In (lf, os, of_) (links_of sch s) ->
      eset st1 (root_of sch s) x lf = eset st0 (root_of sch s) x lf.
    Proof.
      intros Hin. destruct (str_eq_dec (root_of sch s) R) as [E|Hne]; [destruct (str_eq_dec x i) as [->|Hne]|].
      - rewrite E, eset1_self, eset0. eapply HEl; eauto.
      - apply eset1_other. intros [_ A]. congruence.
      - apply eset1_other. intros [A _]. congruence.
    Qed.

    Lemma present1_other s j : ~ (root_of sch s = R /\ j = i) ->
      present sch st1 s j = present sch st0 s j /\ (forall f, get_field sch st1 s j f = get_field sch st0 s j f).
    Proof.
      intros Hn. unfold present, get_field, st1. rewrite get_ent_set_ent.
      destruct (str_eqb R (root_of sch s) && str_eqb i j) eqn:Eb; [|split; reflexivity].
      apply andb_prop in Eb as [E1 E2]. apply str_eqb_eq in E1, E2. exfalso. apply Hn. split; congruence.
    Qed.

    Lemma present1_keep s j : present sch st0 s j = true -> present sch st1 s j = true.
    Proof.
      intros Hp. destruct (str_eq_dec (root_of sch s) R) as [E|Hne]; [destruct (str_eq_dec j i) as [->|Hne]|].
      - apply HPk; assumption.
      - destruct (present1_other s j) as [P _]; [intros [_ A]; congruence|]. rewrite P. exact Hp.
      - destruct (present1_other s j) as [P _]; [intros [A _]; congruence|]. rewrite P. exact Hp.
    Qed.

    Lemma Mid_after_persist : Mid st0 R i st1.
    Proof.
      destruct HInv0 as [[HU [HS [HB [HF [HC HL]]]]] _]. destruct HR as [HRc HRr].
      refine (conj _ (conj _ (conj _ (conj _ (conj _ (conj _ (conj _ _))))))).
      - intros r f v x Hx. change (uidx st1 r f) with (uidx st0 r f) in Hx.
        destruct (HU r f v x Hx) as [s [nl [A [B [C [D E]]]]]]. exists s, nl. repeat split; try assumption.
        destruct (str_eq_dec r R) as [->|Hne]; [destruct (str_eq_dec x i) as [->|Hne]|].
        + right. repeat split; assumption.
        + left. destruct (present1_other s x) as [P1 P2]; [intros [_ Q]; congruence|]. unfold NoTraceInv.fbytes in *. rewrite P1, P2. split; assumption.
        + left. destruct (present1_other s x) as [P1 P2]; [intros [Q _]; congruence|]. unfold NoTraceInv.fbytes in *. rewrite P1, P2. split; assumption.
      - intros r f v x Hx. change (sbucket st1 r f v) with (sbucket st0 r f v) in Hx.
        destruct (HS r f v x Hx) as [s0 [A0 [A [P B]]]]. exists s0. split; [exact A0|]. split; [exact A|].
        destruct (str_eq_dec r R) as [->|Hne]; [destruct (str_eq_dec x i) as [->|Hne]|].
        + right. repeat split; assumption.
        + left. destruct (present1_other s0 x) as [P1 _]; [intros [_ Q]; congruence|]. rewrite P1. split; [exact P|].
          rewrite eset1_other; [exact B | intros [_ Q]; congruence].
        + left. destruct (present1_other s0 x) as [P1 _]; [intros [Q _]; congruence|]. rewrite P1. split; [exact P|].
          rewrite eset1_other; [exact B | intros [Q _]; congruence].
      - intros t b s f nl ti x Hin Hx. rewrite (eset1_backref s f t b nl ti Hin) in Hx.
        destruct (HB s f t b nl ti x Hin Hx) as [A [B C]]. split; [exact A|].
        destruct (str_eq_dec (root_of sch s) R) as [E|Hne]; [destruct (str_eq_dec x i) as [->|Hne]|].
        + right. repeat split; assumption.
        + left. destruct (present1_other s x) as [P1 P2]; [intros [_ Q]; congruence|]. unfold NoTraceInv.fbytes in *. rewrite P1, P2. split; assumption.
        + left. destruct (present1_other s x) as [P1 P2]; [intros [Q _]; congruence|]. unfold NoTraceInv.fbytes in *. rewrite P1, P2. split; assumption.
      - intros s f t b nl y v Hin Hg Hp Hf Hn.
        destruct (present1_other s y) as [P1 P2]; [intros [Q1 Q2]; apply Hg; right; split; assumption|].
        rewrite P1 in Hp. rewrite P2 in Hf. rewrite (eset1_backref s f t b nl v Hin).
        destruct (HF s f t b nl y v Hin (fun q => q) Hp Hf Hn) as [A B]. split; [exact A | apply present1_keep; exact B].
      - intros s f t nl y v Hin Hg Hp Hf Hn.
        destruct (present1_other s y) as [P1 P2]; [intros [Q1 Q2]; apply Hg; right; split; assumption|].
        rewrite P1 in Hp. rewrite P2 in Hf. apply present1_keep. apply (HC s f t nl y v Hin (fun q => q) Hp Hf Hn).
      - intros s lf os of_ x t Hin _ Ht. rewrite (eset1_link s lf os of_ x Hin) in Ht.
        destruct (HL s lf os of_ x t Hin (fun q => q) Ht) as [Hx [Hpx Hpt]].
        rewrite (eset1_link os of_ s lf t (wp_link_sym sch W _ _ _ _ Hin)). split; [exact Hx|].
        split; apply present1_keep; assumption.
      - intros s f t b nl Hin Hrs. right. intros v Hv. rewrite (eset1_backref s f t b nl v Hin). exact Hv.
      - intros s j Hj. apply present1_keep. exact Hj.
    Qed.
  End AfterPersist.

  (* ---- from Mid back to the invariant once every hook of the chain has run ---- *)
  Definition cons_field (k : cons) : option name :=
    match k with CUnique f _ => Some f | CFkIndex f _ _ _ => Some f | CFkCons f _ _ => Some f | _ => None end.

  Lemma Mid_to_Inv st0 R i st2 (chs : list name) :
    Inv st0 -> Mid st0 R i st2 -> FieldsStr st2 -> In R chs -> isroot sch R ->
    (forall s', In s' chs -> forall k, In k (cons_of sch s') -> DoneK sch i st2 s' k) ->
    (* the stores of the family the operation did not go through: their data of entity i is untouched *)
    (forall s1 k f, root_of sch s1 = R -> In k (cons_of sch s1) -> cons_field k = Some f -> ~ In s1 chs ->
        present sch st2 s1 i = present sch st0 s1 i /\ get_field sch st2 s1 i f = get_field sch st0 s1 i f) ->
    (* every store of the family the entity lived in before the write is one the operation goes through *)
    (forall s1, root_of sch s1 = R -> present sch st0 s1 i = true -> In s1 chs) ->
    Inv st2.
  Proof.
    intros HInv0 [MU [MS [MB [HF [HC [HL [MP MPres]]]]]]] HFS HRin [HRc HRr] HD Hother Hown. split; [|exact HFS].
    pose proof HInv0 as [[_ [_ [_ [HF0 [HC0 _]]]]] HFS0].
    refine (conj _ (conj _ (conj _ (conj _ (conj _ _))))).
    - intros r f v x Hx. destruct (MU r f v x Hx) as [s [nl [A [B [C [[D E]|[-> [-> [D E]]]]]]]]].
      + exists s, nl. repeat split; assumption.
      + destruct (in_dec str_eq_dec s chs) as [Hin|Hnin].
        * pose proof (HD s Hin _ B) as Hd. cbn [DoneK] in Hd. rewrite A in Hd. exact (Hd v i Hx).
        * destruct (Hother s _ f A B eq_refl Hnin) as [P1 P2]. exists s, nl. unfold NoTraceInv.fbytes in *.
          rewrite P1, P2. repeat split; assumption.
    - intros r f v x Hx. destruct (MS r f v x Hx) as [s1 [A1 [B1 [[P C]|[-> [-> [P C]]]]]]].
      + exists s1. repeat split; assumption.
      + pose proof (HD s1 (Hown s1 A1 P) _ B1) as Hd. cbn [DoneK] in Hd. rewrite A1 in Hd. exact (Hd v i Hx).
    - intros s f t b nl ti x Hin Hx. destruct (MB t b s f nl ti x Hin Hx) as [A [[B C]|[E [-> [B C]]]]]; [repeat split; assumption|].
      destruct (in_dec str_eq_dec s chs) as [Hin'|Hnin].
      + pose proof (HD s Hin' _ Hin) as [Hd _]. exact (Hd s f nl ti i Hin Hx).
      + destruct (Hother s _ f E Hin eq_refl Hnin) as [P1 P2]. unfold NoTraceInv.fbytes in *. rewrite P1, P2. repeat split; assumption.
    - intros s f t b nl y v Hin _ Hp Hf Hn.
      destruct (str_eq_dec (root_of sch s) R) as [E|Hne]; [destruct (str_eq_dec y i) as [->|Hne]|].
      + destruct (in_dec str_eq_dec s chs) as [Hin'|Hnin].
        * pose proof (HD s Hin' _ Hin) as [_ Hd]. exact (Hd v Hf Hn).
        * destruct (MP s f t b nl Hin E) as [P|P]; [exact (P v Hf Hn)|].
          destruct (Hother s _ f E Hin eq_refl Hnin) as [P1 P2]. rewrite P1 in Hp. rewrite P2 in Hf.
          destruct (HF0 s f t b nl i v Hin (fun q => q) Hp Hf Hn) as [Q1 Q2]. split; [apply P; exact Q1 | apply MPres; exact Q2].
      + apply (HF s f t b nl y v Hin); try assumption. intros [[]|[_ Q]]. congruence.
      + apply (HF s f t b nl y v Hin); try assumption. intros [[]|[Q _]]. congruence.
    - intros s f t nl y v Hin _ Hp Hf Hn.
      destruct (str_eq_dec (root_of sch s) R) as [E|Hne]; [destruct (str_eq_dec y i) as [->|Hne]|].
      + destruct (in_dec str_eq_dec s chs) as [Hin'|Hnin].
        * pose proof (HD s Hin' _ Hin) as Hd. cbn [DoneK] in Hd. exact (Hd v Hf Hn).
        * destruct (Hother s _ f E Hin eq_refl Hnin) as [P1 P2]. rewrite P1 in Hp. rewrite P2 in Hf.
          apply MPres. apply (HC0 s f t nl i v Hin (fun q => q) Hp Hf Hn).
      + apply (HC s f t nl y v Hin); try assumption. intros [[]|[_ Q]]. congruence.
      + apply (HC s f t nl y v Hin); try assumption. intros [[]|[Q _]]. congruence.
    - exact HL.
  Qed.

  Lemma FieldsStr_fc st st' : ents_fc_eq st st' -> FieldsStr st -> FieldsStr st'.
  Proof.
    intros Hfc H r j e' He'. specialize (Hfc r j). rewrite He' in Hfc. unfold ent_fc_eq in Hfc.
    destruct (get_ent st r j) as [e|] eqn:E; [|contradiction]. destruct Hfc as [A B].
    destruct (H r j e E) as [[C D] E1]. split; [split; [rewrite A; exact C | rewrite B; exact D] | unfold ec_one; rewrite B; exact E1].
  Qed.

  Lemma FieldsStr_set_ent st r i e : FieldsStr st -> ent_nobool e -> FieldsStr (set_ent st r i e).
  Proof.
    intros H He r0 j e0 Hg. rewrite get_ent_set_ent in Hg. destruct (str_eqb r r0 && str_eqb i j).
    - inversion Hg; subst. exact He.
    - eapply H; eauto.
  Qed.

  Lemma root_neq_child s1 : root_of sch s1 <> s1 -> is_child sch s1 = true.
  Proof.
    unfold root_of, is_child. destruct (find_store sch s1) as [d|]; [|congruence]. destruct (sd_parent d); congruence.
  Qed.

  Lemma chain_stores s : forall s' ks, In (s', ks) (chain sch s) -> s' = root_of sch s \/ s' = s.
  Proof.
    unfold chain. destruct (is_child sch s); cbn; intros s' ks H.
    - destruct H as [H|[H|[]]]; inversion H; auto.
    - destruct H as [H|[]]. inversion H; auto.
  Qed.

  Lemma chain_has_root s : In (root_of sch s) (map fst (chain sch s)).
  Proof.
    unfold chain. destruct (is_child sch s) eqn:E; cbn; [left; reflexivity|]. left.
    unfold root_of, is_child in *. destruct (find_store sch s) as [d|]; [|reflexivity]. destruct (sd_parent d); [discriminate | reflexivity].
  Qed.

  Lemma before_chain_ok st0 i create sys : forall ch svss,
    before_chain sch st0 create sys i ch = Ok svss -> chain_svs_ok sch st0 i create sys ch svss.
  Proof.
    induction ch as [|[s' ks] ch IH]; intros svss H; cbn [before_chain chain_svs_ok] in *; [exact I|].
    destruct (before_update_all sch st0 _ ks) as [svs|e] eqn:E1; cbn [bind] in H; [|discriminate].
    destruct (before_chain sch st0 create sys i ch) as [rest|e] eqn:E2; cbn [bind] in H; [|discriminate].
    inversion H; subst svss. split; [apply before_all_ok; exact E1 | apply IH; reflexivity].
  Qed.

  Lemma create_chain_ok st0 i sys R : get_ent st0 R i = None -> forall ch,
    (forall s' ks, In (s', ks) ch -> root_of sch s' = R) -> chain_svs_ok sch st0 i true sys ch [].
  Proof.
    intros Habs. induction ch as [|[s' ks] ch IH]; intros Hch; cbn [chain_svs_ok]; [exact I|]. split.
    - apply create_svs_ok. cbn. rewrite (Hch s' ks (or_introl eq_refl)). exact Habs.
    - apply IH. intros s2 ks2 Hin. eapply Hch. right. exact Hin.
  Qed.

  (* the part shared by Create and Update: persist entity i of store s, then run the chain *)
  Lemma write_inv st0 s i create sys csys fv sv ch svss st2 :
    let R := root_of sch s in
    let e0 := match get_ent st0 R i with Some e => e | None => ent_empty end in
    Inv st0 ->
    (create = false -> present sch st0 s i = true) ->
    (create = true -> get_ent st0 R i = None) ->
    (* the entity lives in no child store other than the one the operation goes through *)
    (forall s1, root_of sch s1 = R -> is_child sch s1 = true -> present sch st0 s1 i = true -> s1 = s) ->
    chain_svs_ok sch st0 i create csys (chain sch s) svss ->
    after_chain sch (set_ent st0 R i (persist sch s create sys fv sv ch e0)) create csys i (chain sch s) svss = Ok st2 ->
    Inv st2.
  Proof.
    intros R e0 HInv0 Hupd Hcre Hexcl Hsv H.
    assert (HR : isroot sch R) by (split; [apply (wp_root_nochild sch W) | apply (wp_roots sch W)]).
    destruct (persist_spec s create sys fv sv ch e0) as [Pa [Pb [Pc [Pd Pe]]]].
    set (e1 := persist sch s create sys fv sv ch e0) in *. set (st1 := set_ent st0 R i e1) in *.
    assert (HM1 : Mid st0 R i st1).
    { apply (Mid_after_persist st0 R i e1 HR HInv0).
      - intros s1 f0 t b nl Hin Hrt. apply Pb. intros dR HdR. fold R in HdR. eapply (wp_sets_b sch W); [|exact Hin]. rewrite Hrt. exact HdR.
      - intros s1 lf os of_ Hin Hr1. apply Pb. intros dR HdR. fold R in HdR. eapply (wp_sets_l sch W); [|exact Hin]. rewrite Hr1. exact HdR.
      - intros s1 Hr1 Hp. unfold present in Hp |- *. rewrite Hr1 in Hp |- *. unfold st1. rewrite get_ent_set_ent, !str_eqb_refl. cbn [andb].
        destruct (is_child sch s1) eqn:Ec1; [|reflexivity].
        assert (Hc0 : al_get s1 (e_c e0) <> None).
        { unfold e0. destruct (get_ent st0 R i) as [ex|]; [|discriminate]. destruct (al_get s1 (e_c ex)); [discriminate | discriminate]. }
        destruct (str_eq_dec s1 s) as [->|Hne].
        + destruct (al_get s (e_c e1)) eqn:Eg; [reflexivity | exfalso; exact (Pd Ec1 eq_refl)].
        + rewrite (Pc s1 Hne). destruct (al_get s1 (e_c e0)); [reflexivity | congruence]. }
    assert (Hg1 : get_ent st1 R i = Some e1) by (unfold st1; rewrite get_ent_set_ent, !str_eqb_refl; reflexivity).
    assert (Hp1 : forall s', s' = R \/ s' = s -> present sch st1 s' i = true).
    { intros s' [-> | ->].
      - rewrite (present_root sch st1 R i (proj1 HR) (proj2 HR)), Hg1. reflexivity.
      - unfold present. fold R. rewrite Hg1. destruct (is_child sch s) eqn:Ec; [|reflexivity].
        destruct (al_get s (e_c e1)) eqn:Eg; [reflexivity | exfalso; exact (Pd eq_refl eq_refl)]. }
    assert (Hp0 : create = false -> forall s', s' = R \/ s' = s -> present sch st0 s' i = true).
    { intros Hc s' [-> | ->]; [|apply Hupd; exact Hc].
      rewrite (present_root sch st0 R i (proj1 HR) (proj2 HR)).
      pose proof (present_get_ent sch st0 s i (Hupd Hc)) as Hne. fold R in Hne. destruct (get_ent st0 R i); congruence. }
    destruct (au_chain sch W st0 R i HInv0 create csys (chain sch s) svss st1 st2) as [Hfc [HM2 HD2]]; [| exact Hsv | exact HM1 | exact H |].
    { intros s' ks Hin. destruct (chain_in sch W s s' ks Hin) as [A B]. pose proof (chain_stores s s' ks Hin) as C. fold R in C.
      repeat split; [exact A | exact B | apply Hp1; exact C | intros Hc; apply Hp0; assumption]. }
    assert (He0 : ent_nobool e0).
    { unfold e0. destruct (get_ent st0 R i) as [e|] eqn:E; [|apply ent_nobool_empty]. destruct HInv0 as [_ HFS]. eapply HFS; eauto. }
    assert (HFS2 : FieldsStr st2).
    { eapply FieldsStr_fc; [exact Hfc|]. apply FieldsStr_set_ent; [apply HInv0 | apply Pa; [exact He0|]].
      intros Hcs. destruct create eqn:Ecr.
      - right. unfold e0. rewrite (Hcre eq_refl). reflexivity.
      - left. pose proof (Hupd eq_refl) as Hp. unfold present in Hp. fold R in Hp. unfold e0.
        destruct (get_ent st0 R i) as [ex|]; [|discriminate]. rewrite Hcs in Hp. destruct (al_get s (e_c ex)); [discriminate | discriminate]. }
    apply (Mid_to_Inv st0 R i st2 (map fst (chain sch s)) HInv0 HM2 HFS2 (chain_has_root s) HR).
    - intros s' Hin k Hk. apply in_map_iff in Hin as [[s2 ks2] [<- Hin]]. cbn. eapply HD2; eauto.
    - intros s1 k f Hr1 Hin1 Hkf Hnin.
      assert (s1 <> R) as HneR by (intros ->; apply Hnin; apply chain_has_root).
      assert (s1 <> s) as Hnes.
      { intros ->. apply Hnin. apply in_map_iff. exists (s, cons_of sch s). split; [reflexivity | apply chain_self]. }
      assert (is_child sch s1 = true) as Hc1 by (apply root_neq_child; congruence).
      destruct (find_store sch s1) as [d1|] eqn:Ef1; [|unfold is_child in Hc1; rewrite Ef1 in Hc1; discriminate].
      assert (declares_field d1 f = true) as Hdecl.
      { destruct k; cbn in Hkf; inversion Hkf; subst.
        - eapply (wp_uchild sch W); eauto.
        - eapply (wp_fchild sch W s1 d1 _ f Hc1 Ef1 Hin1). reflexivity.
        - eapply (wp_fchild sch W s1 d1 _ f Hc1 Ef1 Hin1). reflexivity. }
      (* in st0 the entity (if any) is e0; the child data of s1 is the same in e1 *)
      assert (Hst0 : present sch st0 s1 i = match al_get s1 (e_c e0) with Some _ => true | None => false end /\
                     get_field sch st0 s1 i f = match al_get s1 (e_c e0) with
                                                | Some cd => match al_get f cd with Some v => v | None => FAbsent end
                                                | None => FAbsent end).
      { unfold present, get_field. rewrite Hr1, Hc1, Ef1, Hdecl. cbn [andb]. unfold e0.
        destruct (get_ent st0 R i); split; reflexivity. }
      assert (Hst1 : present sch st1 s1 i = match al_get s1 (e_c e0) with Some _ => true | None => false end /\
                     get_field sch st1 s1 i f = match al_get s1 (e_c e0) with
                                                | Some cd => match al_get f cd with Some v => v | None => FAbsent end
                                                | None => FAbsent end).
      { unfold present, get_field. rewrite Hr1, Hg1, Hc1, Ef1, Hdecl. cbn [andb]. rewrite (Pc s1 Hnes). split; reflexivity. }
      destruct Hst0 as [A0 B0]. destruct Hst1 as [A1 B1].
      rewrite (present_fc sch st1 st2 s1 i (Hfc _ _)), (get_field_fc sch st1 st2 s1 i f (Hfc _ _)), A0, A1, B0, B1. split; reflexivity.
    - intros s1 Hr1 Hp1s. destruct (str_eq_dec s1 R) as [->|Hne]; [apply chain_has_root|].
      assert (is_child sch s1 = true) as Hc1 by (apply root_neq_child; congruence).
      rewrite (Hexcl s1 Hr1 Hc1 Hp1s). apply in_map_iff. exists (s, cons_of sch s). split; [reflexivity | apply chain_self].
  Qed.

  Variable oc : octx.

  Lemma op_create_inv st evs s0 i sys fv sv st' evs' :
    Inv st -> op_create sch oc (st, evs) s0 i sys fv sv = Ok (st', evs') -> Inv st'.
  Proof.
    intros HI H. unfold op_create in H.
    destruct (find_store sch s0) as [d0|]; [|discriminate].
    destruct (negb (nonempty i)); [discriminate|].
    destruct (present sch st s0 i) eqn:Ep0; [discriminate|].
    destruct (present sch st (root_of sch s0) i) eqn:Epr; [discriminate|].
    destruct (negb (key_ok i)); [discriminate|].
    destruct (fire_cu sch oc evs s0 Created i) as [evs1|e]; cbn [bind] in H; [|discriminate].
    destruct (after_chain sch _ true (oc_sys oc) i (chain sch s0) []) as [st2|e] eqn:Eac; cbn [bind] in H; [|discriminate].
    inversion H; subst st' evs'. clear H.
    assert (Habs : get_ent st (root_of sch s0) i = None).
    { rewrite (present_root sch st _ i (wp_root_nochild sch W s0) (wp_roots sch W s0)) in Epr.
      destruct (get_ent st (root_of sch s0) i); [discriminate | reflexivity]. }
    eapply (write_inv st s0 i true sys (oc_sys oc) fv sv None [] st2 HI); [discriminate | intros _; exact Habs | | |].
    - intros s1 Hr1 _ Hp1. exfalso. apply present_get_ent in Hp1. rewrite Hr1 in Hp1. exact (Hp1 Habs).
    - apply (create_chain_ok st i (oc_sys oc) (root_of sch s0) Habs). intros s' ks Hin. apply (chain_in sch W s0 s' ks Hin).
    - rewrite Habs. exact Eac.
  Qed.

  Lemma update_in_inv st evs s0 i fv sv ch st' evs' :
    Inv st ->
    (is_child sch s0 = false -> forall d, In d (children_of sch s0) -> present sch st (sd_name d) i = false) ->
    update_in sch oc (st, evs) s0 i fv sv ch = Ok (st', evs') -> Inv st'.
  Proof.
    intros HI Hnoc H. unfold update_in in H.
    destruct (negb (nonempty i)); [discriminate|].
    destruct (negb (loadable sch st s0 i)); [discriminate|].
    destruct (present sch st s0 i) eqn:Ep0; cbn [negb] in H; [|discriminate].
    destruct (fire_cu sch oc evs s0 Updated i) as [evs1|e]; cbn [bind] in H; [|discriminate].
    destruct (before_chain sch st false (oc_sys oc) i (chain sch s0)) as [svs|e] eqn:Ebc; cbn [bind] in H; [|discriminate].
    destruct (after_chain sch _ false (oc_sys oc) i (chain sch s0) svs) as [st2|e] eqn:Eac; cbn [bind] in H; [|discriminate].
    inversion H; subst st' evs'. clear H.
    eapply (write_inv st s0 i false false (oc_sys oc) fv sv ch svs st2 HI); [intros _; exact Ep0 | discriminate | | |].
    - intros s1 Hr1 Hc1 Hp1. destruct (is_child sch s0) eqn:Ec0.
      + (* both are child stores the entity lives in *)
        destruct HI as [_ HFS]. unfold present in Ep0, Hp1. rewrite Hr1 in Hp1. rewrite Ec0 in Ep0. rewrite Hc1 in Hp1.
        destruct (get_ent st (root_of sch s0) i) as [e|] eqn:Ee; [|discriminate].
        destruct (HFS _ _ _ Ee) as [_ Hone]. apply Hone.
        * destruct (al_get s1 (e_c e)); [discriminate | discriminate].
        * destruct (al_get s0 (e_c e)); [discriminate | discriminate].
      + exfalso. assert (root_of sch s0 = s0) as Hr0.
        { unfold is_child in Ec0. unfold root_of. destruct (find_store sch s0) as [d0|]; [|reflexivity]. destruct (sd_parent d0); [discriminate | reflexivity]. }
        rewrite Hr0 in Hr1.
        assert (s1 <> s0) as Hne by (intros ->; congruence).
        destruct (child_decl sch s1 s0 Hr1 Hne) as [d [Hd Hdn]]. subst s1.
        rewrite (Hnoc eq_refl d Hd) in Hp1. discriminate.
    - apply before_chain_ok. exact Ebc.
    - exact Eac.
  Qed.

  Lemma op_update_inv st evs s0 i fv sv ch st' evs' :
    Inv st -> op_update sch oc (st, evs) s0 i fv sv ch = Ok (st', evs') -> Inv st'.
  Proof.
    intros HI H. unfold op_update in H. destruct (find_store sch s0); [|discriminate].
    destruct (is_child sch s0) eqn:Ec0; [eapply update_in_inv; [exact HI | | exact H]; intros Hc; congruence|].
    destruct (find _ (children_of sch s0)) as [d|] eqn:Efind.
    - apply find_some in Efind as [Hd _]. eapply update_in_inv; [exact HI | | exact H].
      intros Hc. rewrite (wp_children_child sch W s0 d Hd) in Hc. discriminate.
    - eapply update_in_inv; [exact HI | | exact H]. intros _ d Hd.
      pose proof (find_none _ _ Efind d Hd) as Hn. cbn [fst] in Hn. exact Hn.
  Qed.
End Ops.
