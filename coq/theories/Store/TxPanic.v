(* C07, sixth strengthening - failures that surface as a PANIC.  Model only, no proofs (Store/TxPanicProofs.v).

   C07: "If anything fails inside a Db.Update or Db.Batch transaction ... the database is left exactly as it was before
   the transaction, and no commit action or listener runs".  Until now every failure of the C07 machines was a
   RETURNED error (an operation returns [Err k], a pre-commit action returns an error).  Go code also fails by
   panicking - a nil dereference in the caller's function, in a constraint's ProcessBeforeUpdate / ProcessAfterUpdate /
   ProcessBeforeDelete / ProcessPreCommit, in the entity strategy's PersistEntity, in a pre-commit action, inside a
   nested joined db.Update / db.Batch - and then no statement after the panicking one runs: the stack unwinds, only
   deferred functions run.  db.go / bbolt, transcribed for this control flow:

       DbImpl.Update:  defer reloadLock.RUnlock(); defer ctx.setTx(nil)
                       return self.db.Update(func(tx) error {
                           ctx.setTx(tx)                                          // tx.OnCommit(handleCommit)
                           if err := fn(ctx); err != nil { return err }           // (1) error return  |  (P1) fn panics
                           if err := ctx.runPreCommitActions(); err != nil { return err }   // (2)   |  (P2) an action panics
                           tx.OnCommit(tx-complete closure); return nil           // (3)
                       })
       bbolt DB.Update: t := Begin(true); defer func() { if t.db != nil { t.rollback() } }()
                        err = fn(t); if err != nil { t.Rollback(); return err }; return t.Commit()
           (1) (2): Rollback, the error is returned, the OnCommit handlers are dropped;
           (3): Commit, then the handlers;
           (P1) (P2): nothing after the panicking call runs - in particular not t.Commit() and no handler; the deferred
                t.rollback() discards the writes; the panic goes on to the caller of DbImpl.Update.
       DbImpl.Batch -> bbolt DB.Batch: the function runs inside the batch's db.Update under safelyCall, which turns a
           panic into an error value: that Update rolls back and the submitter is told to re-run the function solo,
           [db.Update(fn)] - the cases above (an error return fails the batch the same way and is re-run solo too).

   So a panicking step ends the transaction like a failing step; what differs is what the CALLER observes (the panic
   instead of a returned error).  The machine below keeps the two apart ([pfin]: PFErr / PFPanic, [csees]) precisely to
   be able to state - Store/TxPanicProofs.v, Properties/C07Panic.v - that the difference is irrelevant for everything
   C07 talks about.  Store/Model.v, XOps.v, TxCtx.v, TxQuiet.v are untouched. *)
From Coq Require Import List NArith Bool Arith.
From Storage Require Import Base.Bytes Store.Model Store.XOps Store.Events Store.TxCtx Store.TxQuiet.
Import ListNotations.

(* how the failure of a store operation reaches the function: as the operation's error result, or as a panic raised by
   a callback the operation runs (constraint, entity strategy) *)
Inductive surface := SReturn | SPanic.

(* instructions of the function handed to Db.Update / Db.Batch *)
Inductive pitem :=
| PI (it : citem)                  (* an instruction of Store/TxCtx.v: store operation / registration through a derived context *)
| PPanicHere (joins : list bool)   (* the function itself panics here (nil dereference in the caller's code), inside
                                      [length joins] nested db.Update (false) / db.Batch (true) calls that joined the
                                      running transaction ([return fn(ctx)]: nothing between the panic and DbImpl.Update) *)
| PPanicIn (x : xop).              (* x is called and the entity strategy's PersistEntity panics in it: when x does not
                                      fail on its own the panic is what ends it *)

(* result of one instruction that is an operation, as the function observes it *)
Inductive presult := PROk | PRErr (k : ekind) | PRPanic.
Definition pr_failed (r : presult) : bool := match r with PROk => false | _ => true end.

(* how the function ended *)
Inductive pfin := PFOk (stev : st_ev) | PFErr (k : ekind) | PFPanic.

(* what the caller of Db.Update / Db.Batch observes *)
Inductive csees := CNil | CErr | CPanic.

Section RunP.
  Variable sch : schema.
  Variable fuel : nat.
  Variable oc : octx.
  Variable c0 : cref.
  (* external: whether the failure (kind k) of the operation at position n of the function surfaces as an error result
     or as a panic of the callback that rejected the change.  The theorems quantify over it. *)
  Variable surf : nat -> ekind -> surface.

  Fixpoint run_pitems (n : nat) (l : list pitem) (h : heap) (stev : st_ev) : list presult * pfin * heap :=
    match l with
    | [] => ([], PFOk stev, h)
    | PI (IOp x) :: r =>
        match run_xop sch fuel oc stev x with
        | Ok stev1 => let '(rs, fin, h1) := run_pitems (S n) r h stev1 in (PROk :: rs, fin, h1)
        | Err k => match surf n k with
                   | SReturn => ([PRErr k], PFErr k, h)         (* if err != nil { return err } *)
                   | SPanic => ([PRPanic], PFPanic, h)          (* unwinding: no further statement of the function runs *)
                   end
        end
    | PI (IReg p a) :: r => let ch := derive p c0 h in run_pitems (S n) r (register a (fst ch) (snd ch)) stev
    | PPanicHere _ :: _ => ([PRPanic], PFPanic, h)
    | PPanicIn x :: _ =>
        match run_xop sch fuel oc stev x with
        | Ok _ => ([PRPanic], PFPanic, h)                        (* PersistEntity reached: panic *)
        | Err k => match surf n k with
                   | SReturn => ([PRErr k], PFErr k, h)         (* x failed before / in spite of it *)
                   | SPanic => ([PRPanic], PFPanic, h)
                   end
        end
    end.
End RunP.

(* ctx.runPreCommitActions(): for _, a := range actions { if err := a(self); err != nil { return err } }; an action
   that fails either returns an error or panics ([panics label]) *)
Inductive pre_end := PreOk | PreErr | PrePanic.
Fixpoint run_pre_p (panics : nat -> bool) (l : list (nat * bool)) : pre_end :=
  match l with
  | [] => PreOk
  | (k, true) :: _ => if panics k then PrePanic else PreErr
  | (_, false) :: r => run_pre_p panics r
  end.

Record pprog := mkPprog {
  pp_nil : bool;                               (* as Store/TxCtx.v cprog *)
  pp_open : list wstep;
  pp_before : list (list wstep * act);
  pp_body : list pitem;
  pp_pre_panics : nat -> bool                  (* labels of the failing pre-commit actions that panic instead of returning an error *)
}.

(* the same program with every panicking step replaced by a step that returns an error *)
Definition erase_item (it : pitem) : citem :=
  match it with PI i => i | PPanicHere _ => IOp (XBase OFail) | PPanicIn _ => IOp (XBase OFail) end.
Definition erase (pp : pprog) : cprog :=
  mkCprog (pp_nil pp) (pp_open pp) (pp_before pp) (map erase_item (pp_body pp)).

Record pobs := mkPobs {
  p_results : list presult;
  p_caller : csees;
  p_state : state;
  p_heap : heap;
  p_fired : list bhandler            (* the tx.OnCommit handlers bbolt ran *)
}.

(* DbImpl.Update / DbImpl.Batch (solo run) with a context that has no transaction yet *)
Definition ptx_update (sch : schema) (fuel : nat) (st : state) (sys : bool) (vetoes : list veto)
    (surf : nat -> ekind -> surface) (pp : pprog) : pobs :=
  let c0 := opened_ctx (erase pp) in
  let '(rs, fin, h1) := run_pitems sch fuel (mkOctx sys vetoes) c0 surf 0 (pp_body pp) (heap_before (erase pp)) (st, []) in
  match fin with
  | PFOk (st', evs) =>
      match run_pre_p (pp_pre_panics pp) (pre_actions_of c0 h1) with
      | PreOk => mkPobs rs CNil st' h1 (registered_handlers h1 evs ++ [BTxComplete])   (* (3) commit, then the handlers *)
      | PreErr => mkPobs rs CErr st h1 []                                              (* (2) *)
      | PrePanic => mkPobs rs CPanic st h1 []                                          (* (P2) deferred rollback *)
      end
  | PFErr _ => mkPobs rs CErr st h1 []                                                 (* (1) *)
  | PFPanic => mkPobs rs CPanic st h1 []                                               (* (P1) deferred rollback *)
  end.

(* the hook-level observation of Store/TxQuiet.v *)
Definition p_qobs (o : pobs) : qobs :=
  mkQobs (map (fun r => match r with PROk => None | PRErr k => Some k | PRPanic => Some EOther end) (p_results o))
         (match p_caller o with CNil => true | _ => false end) (p_state o) (p_heap o) (p_fired o).
Definition p_events (o : pobs) : list event := q_events (p_qobs o).
Definition p_committed (o : pobs) : bool := q_committed (p_qobs o).

(* a program without any panic: no panicking instruction, no panicking action, every rejection is an error result *)
Definition item_panic_free (it : pitem) : bool := match it with PI _ => true | _ => false end.
Definition surf_return : nat -> ekind -> surface := fun _ _ => SReturn.

(* ---------------------------------------------------------------- the seeded shape, for the refuted example *)
(* DbImpl.Update whose bolt closure recovers a panic into a LOCAL error variable while its result is unnamed: after a
   recovered panic the closure returns nil, bbolt commits what the function wrote up to the panic and runs the handlers
   registered so far.  [ptx_update_recover_local] needs the partial state, hence its own interpreter.  Not the code. *)
Section RunRecover.
  Variable sch : schema.
  Variable fuel : nat.
  Variable oc : octx.
  Variable c0 : cref.
  Fixpoint run_pitems_partial (l : list pitem) (h : heap) (stev : st_ev) : list presult * pfin * heap * st_ev :=
    match l with
    | [] => ([], PFOk stev, h, stev)
    | PI (IOp x) :: r =>
        match run_xop sch fuel oc stev x with
        | Ok stev1 => let '(rs, fin, h1, part) := run_pitems_partial r h stev1 in (PROk :: rs, fin, h1, part)
        | Err k => ([PRErr k], PFErr k, h, stev)
        end
    | PI (IReg p a) :: r => let ch := derive p c0 h in run_pitems_partial r (register a (fst ch) (snd ch)) stev
    | PPanicHere _ :: _ => ([PRPanic], PFPanic, h, stev)
    | PPanicIn x :: _ => ([PRPanic], PFPanic, h, stev)
    end.
End RunRecover.

Definition ptx_update_recover_local (sch : schema) (fuel : nat) (st : state) (sys : bool) (vetoes : list veto) (pp : pprog) : pobs :=
  let c0 := opened_ctx (erase pp) in
  let '(rs, fin, h1, part) := run_pitems_partial sch fuel (mkOctx sys vetoes) c0 (pp_body pp) (heap_before (erase pp)) (st, []) in
  match fin with
  | PFOk (st', evs) =>
      match run_pre_p (pp_pre_panics pp) (pre_actions_of c0 h1) with
      | PreOk => mkPobs rs CNil st' h1 (registered_handlers h1 evs ++ [BTxComplete])
      | PreErr => mkPobs rs CErr st h1 []
      | PrePanic => mkPobs rs CNil st' h1 (registered_handlers h1 evs)      (* recovered: return nil - commit *)
      end
  | PFErr _ => mkPobs rs CErr st h1 []
  | PFPanic => mkPobs rs CNil (fst part) h1 (registered_handlers h1 (snd part))   (* recovered: return nil - commit of the partial writes *)
  end.
