(* C09 proofs, part 1: the loop combinators of Store/Integrity.v, the map view of a bucket, which ids a
   scan visits, and the frame relation [same_except W] (two states agree on every cell not in W). *)
From Coq Require Import List NArith Bool Lia.
From Storage Require Import Base.Bytes Base.BytesFacts Store.Model Store.AListFacts Store.FrameProofs Store.Integrity.
Import ListNotations.

Lemma app_nil_iff {A} (l l' : list A) : l ++ l' = [] <-> l = [] /\ l' = [].
Proof. split; [apply app_eq_nil | intros [-> ->]; reflexivity]. Qed.

(* ---------------------------------------------------------------- run_list / seq2 *)
Section Loops.
  Context {A : Type}.
  Variable body : A -> state -> outcome.

  Lemma run_list_cons x l st :
    run_list body (x :: l) st =
    (fst (body x st) ++ fst (run_list body l (snd (body x st))), snd (run_list body l (snd (body x st)))).
  Proof. cbn. destruct (body x st) as [r1 st1]. cbn. destruct (run_list body l st1). reflexivity. Qed.

  Lemma run_list_app l1 l2 st :
    run_list body (l1 ++ l2) st =
    (fst (run_list body l1 st) ++ fst (run_list body l2 (snd (run_list body l1 st))),
     snd (run_list body l2 (snd (run_list body l1 st)))).
  Proof.
    revert st. induction l1 as [|x l1 IH]; intros st.
    - cbn. destruct (run_list body l2 st). reflexivity.
    - cbn [app]. rewrite !run_list_cons. cbn [fst snd]. rewrite IH. cbn [fst snd]. rewrite app_assoc. reflexivity.
  Qed.

  (* a body that never writes *)
  Definition ro_body : Prop := forall x st, snd (body x st) = st.

  Lemma run_list_ro : ro_body -> forall l st, snd (run_list body l st) = st.
  Proof.
    intros H l. induction l as [|x l IH]; intros st; [reflexivity|].
    rewrite run_list_cons. cbn [snd]. rewrite H. apply IH.
  Qed.

  Lemma run_list_ro_reports : ro_body -> forall l st,
    fst (run_list body l st) = flat_map (fun x => fst (body x st)) l.
  Proof.
    intros H l. induction l as [|x l IH]; intros st; [reflexivity|].
    rewrite run_list_cons. cbn [fst flat_map]. rewrite H, IH. reflexivity.
  Qed.

  Lemma run_list_ro_nil : ro_body -> forall l st,
    fst (run_list body l st) = [] <-> (forall x, In x l -> fst (body x st) = []).
  Proof.
    intros H l st. rewrite (run_list_ro_reports H). induction l as [|x l IH]; cbn.
    - split; [intros _ x [] | reflexivity].
    - split.
      + intros E. apply app_eq_nil in E as [E1 E2]. intros y [->|Hy]; [exact E1 | apply IH; assumption].
      + intros E. rewrite (E x (or_introl eq_refl)). cbn. apply IH. intros y Hy. apply E. right. exact Hy.
  Qed.

  Lemma run_list_ro_forall (P : report -> Prop) : ro_body -> forall l st,
    (forall x, In x l -> forall r, In r (fst (body x st)) -> P r) ->
    forall r, In r (fst (run_list body l st)) -> P r.
  Proof.
    intros H l st Hall r Hr. rewrite (run_list_ro_reports H) in Hr. apply in_flat_map in Hr as [x [Hx Hr]].
    eapply Hall; eassumption.
  Qed.

  (* invariants of a writing loop *)
  Lemma run_list_inv (I : state -> Prop) :
    (forall x st, I st -> I (snd (body x st))) -> forall l st, I st -> I (snd (run_list body l st)).
  Proof.
    intros H l. induction l as [|x l IH]; intros st Hi; [exact Hi|].
    rewrite run_list_cons. cbn [snd]. apply IH, H, Hi.
  Qed.

  Lemma run_list_inv_in (I : state -> Prop) l :
    (forall x st, In x l -> I st -> I (snd (body x st))) -> forall st, I st -> I (snd (run_list body l st)).
  Proof.
    induction l as [|x l IH]; intros H st Hi; [exact Hi|].
    rewrite run_list_cons. cbn [snd]. apply IH.
    - intros y st' Hy. apply H. right. exact Hy.
    - apply H; [left; reflexivity | exact Hi].
  Qed.

  (* every visited element ends up satisfying Q, provided later steps keep it *)
  Lemma run_list_post (I : state -> Prop) (Q : A -> state -> Prop) l :
    (forall x st, In x l -> I st -> I (snd (body x st))) ->
    (forall x st, In x l -> I st -> Q x (snd (body x st))) ->
    (forall x y st, In x l -> In y l -> I st -> Q x st -> Q x (snd (body y st))) ->
    forall st, I st ->
      I (snd (run_list body l st)) /\ forall x, In x l -> Q x (snd (run_list body l st)).
  Proof.
    induction l as [|a l IH]; intros HI HQ HK st Hi.
    - split; [exact Hi | intros x []].
    - rewrite run_list_cons. cbn [snd].
      assert (Hi1 : I (snd (body a st))) by (apply HI; [left; reflexivity | exact Hi]).
      destruct (IH (fun x st' Hx => HI x st' (or_intror Hx)) (fun x st' Hx => HQ x st' (or_intror Hx))
                   (fun x y st' Hx Hy => HK x y st' (or_intror Hx) (or_intror Hy)) _ Hi1) as [H1 H2].
      split; [exact H1|]. intros x [->|Hx]; [|apply H2; exact Hx].
      (* Q x holds right after the first step and is kept by the rest *)
      assert (Hq : Q x (snd (body x st))) by (apply HQ; [left; reflexivity | exact Hi]).
      clear H1 H2 IH. revert Hq Hi1. generalize (snd (body x st)) as st1. clear Hi.
      assert (Hsub : forall y, In y l -> In y (x :: l)) by (intros y Hy; right; exact Hy).
      revert Hsub. generalize l at 1 3 as l'. induction l' as [|b l' IHl]; intros Hsub st1 Hq Hi1; [exact Hq|].
      rewrite run_list_cons. cbn [snd]. apply IHl.
      + intros y Hy. apply Hsub. right. exact Hy.
      + apply HK; [left; reflexivity | apply Hsub; left; reflexivity | exact Hi1 | exact Hq].
      + apply HI; [apply Hsub; left; reflexivity | exact Hi1].
  Qed.
End Loops.

Lemma seq2_fst a b st : fst (seq2 a b st) = fst (a st) ++ fst (b (snd (a st))).
Proof. unfold seq2. destruct (a st) as [r1 st1]. cbn. destruct (b st1). reflexivity. Qed.
Lemma seq2_snd a b st : snd (seq2 a b st) = snd (b (snd (a st))).
Proof. unfold seq2. destruct (a st) as [r1 st1]. cbn. destruct (b st1). reflexivity. Qed.

Lemma run_list_ext {A} (f g : A -> state -> outcome) l :
  (forall x st, In x l -> f x st = g x st) -> forall st, run_list f l st = run_list g l st.
Proof.
  induction l as [|x l IH]; intros H st; [reflexivity|].
  rewrite !run_list_cons. rewrite (H x st (or_introl eq_refl)). rewrite IH; [reflexivity|].
  intros y st' Hy. apply H. right. exact Hy.
Qed.

Lemma run_list_flat_map {A B} (f : B -> list A) (body : A -> state -> outcome) (l : list B) st :
  run_list body (flat_map f l) st = run_list (fun b => run_list body (f b)) l st.
Proof.
  revert st. induction l as [|b l IH]; intros st; [reflexivity|].
  cbn [flat_map]. rewrite run_list_app, run_list_cons. rewrite IH. reflexivity.
Qed.

Lemma run_list_map {A B} (f : B -> A) (body : A -> state -> outcome) (l : list B) st :
  run_list body (map f l) st = run_list (fun b => body (f b)) l st.
Proof.
  revert st. induction l as [|b l IH]; intros st; [reflexivity|].
  cbn [map]. rewrite !run_list_cons. rewrite IH. reflexivity.
Qed.

(* ---------------------------------------------------------------- the map view of a bucket *)
Lemma al_first_in {V} (l : alist V) : forall seen k v,
  In (k, v) (al_first seen l) <-> ss_mem k seen = false /\ al_get k l = Some v.
Proof.
  induction l as [|[k' v'] l IH]; intros seen k v; cbn [al_first al_get].
  - cbn. split; [intros [] | intros [_ H]; discriminate].
  - destruct (ss_mem k' seen) eqn:Es.
    + rewrite IH. destruct (str_eqb k k') eqn:E; [|reflexivity].
      apply str_eqb_eq in E. subst k'. split; intros [H _]; congruence.
    + cbn [In]. rewrite IH. cbn [ss_mem]. destruct (str_eqb k k') eqn:E.
      * apply str_eqb_eq in E. subst k'. cbn [orb]. split.
        -- intros [H|[H _]]; [inversion H; subst; auto | discriminate].
        -- intros [_ H]. inversion H; subst. left. reflexivity.
      * cbn [orb]. split.
        -- intros [H|[H1 H2]]; [inversion H; subst; rewrite str_eqb_refl in E; discriminate | auto].
        -- intros [H1 H2]. right. auto.
Qed.

Lemma al_view_in {V} (l : alist V) k v : In (k, v) (al_view l) <-> al_get k l = Some v.
Proof. unfold al_view. rewrite al_first_in. cbn. tauto. Qed.

Lemma islnil_true {A} (l : list A) : islnil l = true <-> l = [].
Proof. destruct l; cbn; split; intros H; congruence. Qed.

Lemma nonempty_false v : nonempty v = false <-> v = [].
Proof. destruct v; cbn; split; intros H; congruence. Qed.

(* ---------------------------------------------------------------- which ids a scan visits *)
Lemma valid_ids_present sch st s i : In i (valid_ids sch st s) <-> present sch st s i = true.
Proof.
  unfold valid_ids, ids_of. rewrite filter_In. rewrite <- al_get_keys.
  unfold present, get_ent.
  destruct (al_get i (ents st (root_of sch s))) as [e|] eqn:E.
  - destruct (is_child sch s).
    + split; [intros [_ H]; exact H | intros H; split; [congruence | exact H]].
    + split; [reflexivity | intros _; split; [congruence | reflexivity]].
  - split; [intros [H _]; congruence | intros H; discriminate].
Qed.

(* ---------------------------------------------------------------- states that differ only in the indexes *)
Lemma present_ents_eq sch st st' s i : ents st' = ents st -> present sch st' s i = present sch st s i.
Proof. intros H. unfold present, get_ent. rewrite H. reflexivity. Qed.
Lemma get_field_ents_eq sch st st' s i f : ents st' = ents st -> get_field sch st' s i f = get_field sch st s i f.
Proof. intros H. unfold get_field, get_ent. rewrite H. reflexivity. Qed.
Lemma get_set_ents_eq sch st st' s i f : ents st' = ents st -> get_set sch st' s i f = get_set sch st s i f.
Proof. intros H. unfold get_set, get_ent. rewrite H. reflexivity. Qed.
Lemma valid_ids_ents_eq sch st st' s : ents st' = ents st -> valid_ids sch st' s = valid_ids sch st s.
Proof.
  intros H. unfold valid_ids, ids_of. rewrite H. apply filter_ext. intros i.
  rewrite (present_ents_eq sch st st' s i H). reflexivity.
Qed.

Lemma sidx_set_sidx st r f m : sidx (set_sidx st r f m) r f = m.
Proof. cbn. apply upd2_same. Qed.

(* ---------------------------------------------------------------- cells and frames *)
(* the parts of a state a fix run may write *)
Inductive cell :=
| CU (r f : name)      (* the unique-index bucket of root store r, symbol f *)
| CS (r f : name)      (* the set-index bucket *)
| CSet (r b : name)    (* the string set b inside the entities of root store r *)
| CFld (r f : name).   (* the root-level field f of the entities of root store r *)

Definition cell_eqb (a b : cell) : bool :=
  match a, b with
  | CU r f, CU r' f' | CS r f, CS r' f' | CSet r f, CSet r' f' | CFld r f, CFld r' f' => str_eqb r r' && str_eqb f f'
  | _, _ => false
  end.

Lemma cell_eqb_eq a b : cell_eqb a b = true <-> a = b.
Proof.
  destruct a, b; cbn; split; intros H; try discriminate; try congruence;
    try (apply andb_prop in H as [H1 H2]; apply str_eqb_eq in H1, H2; subst; reflexivity);
    try (inversion H; subst; rewrite !str_eqb_refl; reflexivity).
Qed.

Definition cmem (c : cell) (W : list cell) : bool := existsb (cell_eqb c) W.

Lemma cmem_in c W : cmem c W = true <-> In c W.
Proof.
  unfold cmem. rewrite existsb_exists. split.
  - intros [x [Hx He]]. apply cell_eqb_eq in He. subst. exact Hx.
  - intros H. exists c. split; [exact H | apply cell_eqb_eq; reflexivity].
Qed.

Lemma cmem_false c W : cmem c W = false <-> ~ In c W.
Proof. rewrite <- cmem_in. destruct (cmem c W); split; intros H; congruence. Qed.

Definition ent_same (W : list cell) (r : name) (a b : option entity) : Prop :=
  match a, b with
  | None, None => True
  | Some e, Some e' =>
      e_c e' = e_c e /\
      (forall f, cmem (CFld r f) W = false -> ent_field e' f = ent_field e f) /\
      (forall b, cmem (CSet r b) W = false -> ent_set e' b = ent_set e b)
  | _, _ => False
  end.

Lemma ent_same_refl W r a : ent_same W r a a.
Proof. unfold ent_same. destruct a; auto. Qed.

(* st' agrees with st on every cell outside W; no entity appears or disappears; child data is untouched *)
Definition same_except (W : list cell) (st st' : state) : Prop :=
  (forall r i, ent_same W r (get_ent st r i) (get_ent st' r i)) /\
  (forall r f, cmem (CU r f) W = false -> uidx st' r f = uidx st r f) /\
  (forall r f, cmem (CS r f) W = false -> sidx st' r f = sidx st r f).

Lemma same_except_refl W st : same_except W st st.
Proof.
  split; [|split]; auto. intros r i. apply ent_same_refl.
Qed.

Lemma same_except_trans W a b c : same_except W a b -> same_except W b c -> same_except W a c.
Proof.
  intros [A1 [A2 A3]] [B1 [B2 B3]]. split; [|split].
  - intros r i. specialize (A1 r i). specialize (B1 r i). unfold ent_same in *.
    destruct (get_ent a r i) as [ea|], (get_ent b r i) as [eb|], (get_ent c r i) as [ec|]; try contradiction; auto.
    destruct A1 as [A11 [A12 A13]], B1 as [B11 [B12 B13]]. split; [congruence|]. split.
    + intros f Hf. rewrite B12, A12; auto.
    + intros s Hs. rewrite B13, A13; auto.
  - intros r f H. rewrite B2, A2; auto.
  - intros r f H. rewrite B3, A3; auto.
Qed.

Lemma same_except_mono W W' st st' : (forall c, In c W -> In c W') -> same_except W st st' -> same_except W' st st'.
Proof.
  intros Hsub [A1 [A2 A3]].
  assert (Hm : forall c, cmem c W' = false -> cmem c W = false).
  { intros c Hc. apply cmem_false. apply cmem_false in Hc. intros Hin. apply Hc, Hsub, Hin. }
  split; [|split].
  - intros r i. specialize (A1 r i). unfold ent_same in *.
    destruct (get_ent st r i), (get_ent st' r i); auto. destruct A1 as [B1 [B2 B3]]. split; [exact B1|]. split; auto.
  - intros r f H. apply A2, Hm, H.
  - intros r f H. apply A3, Hm, H.
Qed.

(* what the readers of the checker see *)
Lemma same_except_present sch W st st' s i : same_except W st st' -> present sch st' s i = present sch st s i.
Proof.
  intros [A _]. specialize (A (root_of sch s) i). unfold present, ent_same in *.
  destruct (get_ent st (root_of sch s) i) as [e|], (get_ent st' (root_of sch s) i) as [e'|]; try contradiction; [|reflexivity].
  destruct A as [A _]. rewrite A. reflexivity.
Qed.

Lemma same_except_valid sch W st st' s i : same_except W st st' -> In i (valid_ids sch st' s) <-> In i (valid_ids sch st s).
Proof. intros H. rewrite !valid_ids_present, (same_except_present sch W st st' s i H). tauto. Qed.

(* the cell a field symbol of store s reads (none: a field declared by a child store lives in the child data) *)
Definition fld_cells (sch : schema) (s f : name) : list cell :=
  match find_store sch s with
  | Some d => if is_child sch s && declares_field d f then [] else [CFld (root_of sch s) f]
  | None => [CFld (root_of sch s) f]
  end.

Lemma same_except_get_field sch W st st' s i f :
  same_except W st st' -> (forall c, In c (fld_cells sch s f) -> cmem c W = false) ->
  get_field sch st' s i f = get_field sch st s i f.
Proof.
  intros [A _] Hc. specialize (A (root_of sch s) i). unfold get_field, fld_cells, ent_same in *.
  destruct (get_ent st (root_of sch s) i) as [e|], (get_ent st' (root_of sch s) i) as [e'|]; try contradiction; [|reflexivity].
  destruct A as [A1 [A2 _]].
  destruct (find_store sch s) as [d|].
  - destruct (is_child sch s && declares_field d f).
    + rewrite A1. reflexivity.
    + apply A2, Hc. left. reflexivity.
  - apply A2, Hc. left. reflexivity.
Qed.

Lemma same_except_get_set sch W st st' s i b :
  same_except W st st' -> cmem (CSet (root_of sch s) b) W = false ->
  get_set sch st' s i b = get_set sch st s i b.
Proof.
  intros [A _] Hc. specialize (A (root_of sch s) i). unfold get_set, ent_same in *.
  destruct (get_ent st (root_of sch s) i) as [e|], (get_ent st' (root_of sch s) i) as [e'|]; try contradiction; [|reflexivity].
  destruct A as [_ [_ A3]]. apply A3, Hc.
Qed.

(* the primitive writes *)
Lemma get_ent_set_uidx st r f m r0 i : get_ent (set_uidx st r f m) r0 i = get_ent st r0 i.
Proof. reflexivity. Qed.
Lemma get_ent_set_sidx st r f m r0 i : get_ent (set_sidx st r f m) r0 i = get_ent st r0 i.
Proof. reflexivity. Qed.

Lemma set_uidx_same_except st r f m : same_except [CU r f] st (set_uidx st r f m).
Proof.
  split; [|split].
  - intros r0 i. rewrite get_ent_set_uidx. apply ent_same_refl.
  - intros r0 f0 H. cbn. apply upd2_other. cbn in H. rewrite orb_false_r in H.
    apply andb_false_iff in H as [H|H]; apply str_eqb_neq in H; [left | right]; congruence.
  - intros; reflexivity.
Qed.

Lemma set_sidx_same_except st r f m : same_except [CS r f] st (set_sidx st r f m).
Proof.
  split; [|split].
  - intros r0 i. rewrite get_ent_set_sidx. apply ent_same_refl.
  - intros; reflexivity.
  - intros r0 f0 H. cbn. apply upd2_other. cbn in H. rewrite orb_false_r in H.
    apply andb_false_iff in H as [H|H]; apply str_eqb_neq in H; [left | right]; congruence.
Qed.

Lemma ent_set_with_set e b l b0 : ent_set (ent_with_set e b l) b0 = if str_eqb b b0 then l else ent_set e b0.
Proof. unfold ent_set, ent_with_set. cbn. rewrite al_get_put. destruct (str_eqb b b0); reflexivity. Qed.

Lemma ent_field_with_field e f v f0 : ent_field (ent_with_field e f v) f0 = if str_eqb f f0 then v else ent_field e f0.
Proof. unfold ent_field, ent_with_field. cbn. rewrite al_get_put. destruct (str_eqb f f0); reflexivity. Qed.

Lemma set_ent_set_same_except st r i e b l :
  get_ent st r i = Some e -> same_except [CSet r b] st (set_ent st r i (ent_with_set e b l)).
Proof.
  intros He. split; [|split]; try (intros; reflexivity).
  intros r0 i0. rewrite get_ent_set_ent. destruct (str_eqb r r0 && str_eqb i i0) eqn:E.
  - apply andb_prop in E as [E1 E2]. apply str_eqb_eq in E1, E2. subst r0 i0. rewrite He. cbn.
    split; [reflexivity|]. split; [intros; reflexivity|].
    intros b0 Hb. rewrite ent_set_with_set. cbn in Hb. rewrite str_eqb_refl, orb_false_r in Hb. cbn in Hb.
    rewrite str_eqb_sym, Hb. reflexivity.
  - apply ent_same_refl.
Qed.

Lemma set_ent_field_same_except st r i e f v :
  get_ent st r i = Some e -> same_except [CFld r f] st (set_ent st r i (ent_with_field e f v)).
Proof.
  intros He. split; [|split]; try (intros; reflexivity).
  intros r0 i0. rewrite get_ent_set_ent. destruct (str_eqb r r0 && str_eqb i i0) eqn:E.
  - apply andb_prop in E as [E1 E2]. apply str_eqb_eq in E1, E2. subst r0 i0. rewrite He. cbn.
    split; [reflexivity|]. split; [|intros; reflexivity].
    intros f0 Hf. rewrite ent_field_with_field. cbn in Hf. rewrite str_eqb_refl, orb_false_r in Hf. cbn in Hf.
    rewrite str_eqb_sym, Hf. reflexivity.
  - apply ent_same_refl.
Qed.

Lemma backref_add_same_except sch st t ti b x : same_except [CSet (root_of sch t) b] st (backref_add sch st t ti b x).
Proof.
  unfold backref_add. destruct (get_ent st (root_of sch t) ti) as [e|] eqn:E; [|apply same_except_refl].
  apply set_ent_set_same_except. exact E.
Qed.

Lemma backref_del_same_except sch st t ti b x : same_except [CSet (root_of sch t) b] st (backref_del sch st t ti b x).
Proof.
  unfold backref_del. destruct (get_ent st (root_of sch t) ti) as [e|] eqn:E; [|apply same_except_refl].
  apply set_ent_set_same_except. exact E.
Qed.

(* a loop of frame-respecting bodies respects the frame *)
Lemma run_list_same_except {A} (body : A -> state -> outcome) W l :
  (forall x st, In x l -> same_except W st (snd (body x st))) ->
  forall st, same_except W st (snd (run_list body l st)).
Proof.
  intros H st. apply (run_list_inv_in body (fun st' => same_except W st st')).
  - intros x st' Hx Hs. eapply same_except_trans; [exact Hs | apply H; exact Hx].
  - apply same_except_refl.
Qed.

Lemma seq2_same_except W a b :
  (forall st, same_except W st (snd (a st))) -> (forall st, same_except W st (snd (b st))) ->
  forall st, same_except W st (snd (seq2 a b st)).
Proof. intros Ha Hb st. rewrite seq2_snd. eapply same_except_trans; [apply Ha | apply Hb]. Qed.

(* ---------------------------------------------------------------- string sets inside entities *)
(* membership after backref_add / backref_del (also used for link sets), for any reader store t' *)
Lemma get_set_backref_add sch st t ti b x t' ti' b' y :
  In y (get_set sch (backref_add sch st t ti b x) t' ti' b') <->
  In y (get_set sch st t' ti' b') \/
  (root_of sch t = root_of sch t' /\ ti = ti' /\ b = b' /\ y = x /\ get_ent st (root_of sch t) ti <> None).
Proof.
  unfold backref_add. destruct (get_ent st (root_of sch t) ti) as [e|] eqn:E.
  - unfold get_set. rewrite get_ent_set_ent.
    destruct (str_eqb (root_of sch t) (root_of sch t') && str_eqb ti ti') eqn:E1.
    + apply andb_prop in E1 as [E1 E2]. apply str_eqb_eq in E1, E2. subst ti'. rewrite <- E1, E.
      rewrite ent_set_with_set. destruct (str_eqb b b') eqn:E3.
      * apply str_eqb_eq in E3. subst b'. rewrite ss_add_in. split.
        -- intros [->|H]; [right; repeat split; auto; congruence | left; exact H].
        -- intros [H|[_ [_ [_ [-> _]]]]]; [right; exact H | left; reflexivity].
      * apply str_eqb_neq in E3. split; [auto | intros [H|[_ [_ [H _]]]]; [exact H | contradiction]].
    + split; [auto|]. intros [H|[H1 [H2 _]]]; [exact H|]. subst ti'. rewrite H1, !str_eqb_refl in E1. discriminate.
  - split; [auto|]. intros [H|[_ [_ [_ [_ H]]]]]; [exact H | congruence].
Qed.

Lemma get_set_backref_del sch st t ti b x t' ti' b' y :
  In y (get_set sch (backref_del sch st t ti b x) t' ti' b') <->
  In y (get_set sch st t' ti' b') /\ ~ (root_of sch t = root_of sch t' /\ ti = ti' /\ b = b' /\ y = x).
Proof.
  unfold backref_del. destruct (get_ent st (root_of sch t) ti) as [e|] eqn:E.
  - unfold get_set. rewrite get_ent_set_ent.
    destruct (str_eqb (root_of sch t) (root_of sch t') && str_eqb ti ti') eqn:E1.
    + apply andb_prop in E1 as [E1 E2]. apply str_eqb_eq in E1, E2. subst ti'. rewrite <- E1, E.
      rewrite ent_set_with_set. destruct (str_eqb b b') eqn:E3.
      * apply str_eqb_eq in E3. subst b'. rewrite ss_del_in. split.
        -- intros [H1 H2]. split; [exact H2|]. intros [_ [_ [_ H]]]. contradiction.
        -- intros [H1 H2]. split; [|exact H1]. intros ->. apply H2. auto.
      * apply str_eqb_neq in E3. split; [intros H; split; [exact H|]; intros [_ [_ [H1 _]]]; contradiction | tauto].
    + split; [|tauto]. intros H. split; [exact H|]. intros [H1 [H2 _]]. subst ti'. rewrite H1, !str_eqb_refl in E1. discriminate.
  - unfold get_set. split; [|tauto]. intros H. split; [exact H|]. intros [H1 [H2 [H3 H4]]]. subst.
    rewrite <- H1, E in H. destruct H.
Qed.

(* backref_add / backref_del touch string sets only *)
Lemma backref_add_present sch st t ti b x s i : present sch (backref_add sch st t ti b x) s i = present sch st s i.
Proof. apply (same_except_present sch _ _ _ s i (backref_add_same_except sch st t ti b x)). Qed.
Lemma backref_del_present sch st t ti b x s i : present sch (backref_del sch st t ti b x) s i = present sch st s i.
Proof. apply (same_except_present sch _ _ _ s i (backref_del_same_except sch st t ti b x)). Qed.

Lemma backref_add_get_field sch st t ti b x s i f : get_field sch (backref_add sch st t ti b x) s i f = get_field sch st s i f.
Proof.
  apply (same_except_get_field sch _ _ _ s i f (backref_add_same_except sch st t ti b x)).
  intros c Hc. unfold fld_cells in Hc. destruct (find_store sch s) as [d|]; [destruct (_ && _)|]; cbn in Hc;
    try contradiction; destruct Hc as [<-|[]]; reflexivity.
Qed.
Lemma backref_del_get_field sch st t ti b x s i f : get_field sch (backref_del sch st t ti b x) s i f = get_field sch st s i f.
Proof.
  apply (same_except_get_field sch _ _ _ s i f (backref_del_same_except sch st t ti b x)).
  intros c Hc. unfold fld_cells in Hc. destruct (find_store sch s) as [d|]; [destruct (_ && _)|]; cbn in Hc;
    try contradiction; destruct Hc as [<-|[]]; reflexivity.
Qed.

(* clearing a root-level field *)
Lemma clear_field_root sch st s i f : is_child sch s = false ->
  clear_field sch st s i f =
  match get_ent st (root_of sch s) i with Some e => set_ent st (root_of sch s) i (ent_with_field e f FAbsent) | None => st end.
Proof.
  intros H. unfold clear_field. destruct (get_ent st (root_of sch s) i); [|reflexivity].
  destruct (find_store sch s); [rewrite H|]; reflexivity.
Qed.

Lemma clear_field_same_except sch st s i f : is_child sch s = false ->
  same_except [CFld (root_of sch s) f] st (clear_field sch st s i f).
Proof.
  intros H. rewrite (clear_field_root sch st s i f H). destruct (get_ent st (root_of sch s) i) eqn:E; [|apply same_except_refl].
  apply set_ent_field_same_except. exact E.
Qed.

Lemma get_field_root sch st s i f : is_child sch s = false ->
  get_field sch st s i f = match get_ent st (root_of sch s) i with Some e => ent_field e f | None => FAbsent end.
Proof.
  intros H. unfold get_field. destruct (get_ent st (root_of sch s) i); [|reflexivity].
  destruct (find_store sch s); [rewrite H|]; reflexivity.
Qed.

Lemma clear_field_get_field sch st s i f i' : is_child sch s = false ->
  fv_bytes (get_field sch (clear_field sch st s i f) s i' f) =
  if str_eqb i i' then [] else fv_bytes (get_field sch st s i' f).
Proof.
  intros H. rewrite (clear_field_root sch st s i f H), !(get_field_root sch _ s i' f H).
  destruct (get_ent st (root_of sch s) i) as [e|] eqn:E.
  - rewrite get_ent_set_ent, str_eqb_refl. cbn [andb]. destruct (str_eqb i i') eqn:E2.
    + rewrite ent_field_with_field, str_eqb_refl. reflexivity.
    + reflexivity.
  - destruct (str_eqb i i') eqn:E2; [|reflexivity]. apply str_eqb_eq in E2. subst i'. rewrite E. reflexivity.
Qed.

Lemma clear_field_present sch st s i f s' i' : is_child sch s = false ->
  present sch (clear_field sch st s i f) s' i' = present sch st s' i'.
Proof. intros H. apply (same_except_present sch _ _ _ s' i' (clear_field_same_except sch st s i f H)). Qed.

Lemma clear_field_get_set sch st s i f s' i' b : is_child sch s = false ->
  get_set sch (clear_field sch st s i f) s' i' b = get_set sch st s' i' b.
Proof. intros H. apply (same_except_get_set sch _ _ _ s' i' b (clear_field_same_except sch st s i f H)). reflexivity. Qed.
